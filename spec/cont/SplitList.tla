------------------------------ MODULE SplitList ------------------------------
(***************************************************************************)
(* Protocol specification of the insert-only split-ordered list underneath  *)
(* concurrent_unordered_{set,map} (include/oneapi/tbb/detail/               *)
(* _concurrent_unordered_base.h: internal_insert / search_after /            *)
(* try_insert): nodes sorted by order key, an insert searches from its       *)
(* bucket's dummy node for the position (prev, curr), returns "exists" when  *)
(* an equal key is found in a unique container, otherwise links the new      *)
(* node with one CAS on prev->next and re-searches from prev on failure.     *)
(* Bucket initialisation (dummy node insertion by the same CAS protocol) is  *)
(* modelled by dummy keys that threads insert before they use a bucket.      *)
(* nxt is the successor function over node ids; node id = order key.         *)
(***************************************************************************)
EXTENDS Naturals, Sequences, FiniteSets, TLC
CONSTANTS Threads, Prog, MaxKey, Multi
Nil == MaxKey + 1
(* --algorithm splitlist {
  variables nxt = [k \in 0..MaxKey |-> IF k = 0 THEN Nil ELSE 0 - 0 + Nil + 1],   \* Nil+1 = not linked; node 0 is the head dummy
            copies = [k \in 0..MaxKey |-> 0],        \* how many nodes with this key were linked (multi containers chain equal keys)
            ok = [t \in Threads |-> <<>>];
  process (thr \in Threads)
    variables i = 1, key = 0, prev = 0, cur = 0;
  {
  Loop: while (i <= Len(Prog[self])) {
      key := Prog[self][i]; prev := 0;
    s1: cur := nxt[prev];                                              \* prev->next().load(acquire)
        if (cur # Nil /\ cur < key) { prev := cur; goto s1 }           \* keep walking
        else if (cur = key /\ ~Multi) { ok[self] := Append(ok[self], 0); goto Fin };   \* equal key present: unique insert fails
    s2: if (nxt[prev] = cur) {                                         \* CAS(prev->next, curr -> new node)
          if (cur = key) { copies[key] := copies[key] + 1 }            \* multi: another node with the same key
          else { nxt[key] := cur || nxt[prev] := key; copies[key] := 1 };
          ok[self] := Append(ok[self], 1);
        } else { goto s1 };                                            \* somebody linked a node after prev: search again from prev
  Fin: i := i + 1;
    }
  }
} *)
\* BEGIN TRANSLATION
VARIABLES pc, nxt, copies, ok, i, key, prev, cur

vars == << pc, nxt, copies, ok, i, key, prev, cur >>

ProcSet == (Threads)

Init == (* Global variables *)
        /\ nxt = [k \in 0..MaxKey |-> IF k = 0 THEN Nil ELSE 0 - 0 + Nil + 1]
        /\ copies = [k \in 0..MaxKey |-> 0]
        /\ ok = [t \in Threads |-> <<>>]
        (* Process thr *)
        /\ i = [self \in Threads |-> 1]
        /\ key = [self \in Threads |-> 0]
        /\ prev = [self \in Threads |-> 0]
        /\ cur = [self \in Threads |-> 0]
        /\ pc = [self \in ProcSet |-> "Loop"]

Loop(self) == /\ pc[self] = "Loop"
              /\ IF i[self] <= Len(Prog[self])
                    THEN /\ key' = [key EXCEPT ![self] = Prog[self][i[self]]]
                         /\ prev' = [prev EXCEPT ![self] = 0]
                         /\ pc' = [pc EXCEPT ![self] = "s1"]
                    ELSE /\ pc' = [pc EXCEPT ![self] = "Done"]
                         /\ UNCHANGED << key, prev >>
              /\ UNCHANGED << nxt, copies, ok, i, cur >>

s1(self) == /\ pc[self] = "s1"
            /\ cur' = [cur EXCEPT ![self] = nxt[prev[self]]]
            /\ IF cur'[self] # Nil /\ cur'[self] < key[self]
                  THEN /\ prev' = [prev EXCEPT ![self] = cur'[self]]
                       /\ pc' = [pc EXCEPT ![self] = "s1"]
                       /\ ok' = ok
                  ELSE /\ IF cur'[self] = key[self] /\ ~Multi
                             THEN /\ ok' = [ok EXCEPT ![self] = Append(ok[self], 0)]
                                  /\ pc' = [pc EXCEPT ![self] = "Fin"]
                             ELSE /\ pc' = [pc EXCEPT ![self] = "s2"]
                                  /\ ok' = ok
                       /\ prev' = prev
            /\ UNCHANGED << nxt, copies, i, key >>

s2(self) == /\ pc[self] = "s2"
            /\ IF nxt[prev[self]] = cur[self]
                  THEN /\ IF cur[self] = key[self]
                             THEN /\ copies' = [copies EXCEPT ![key[self]] = copies[key[self]] + 1]
                                  /\ nxt' = nxt
                             ELSE /\ nxt' = [nxt EXCEPT ![key[self]] = cur[self],
                                                        ![prev[self]] = key[self]]
                                  /\ copies' = [copies EXCEPT ![key[self]] = 1]
                       /\ ok' = [ok EXCEPT ![self] = Append(ok[self], 1)]
                       /\ pc' = [pc EXCEPT ![self] = "Fin"]
                  ELSE /\ pc' = [pc EXCEPT ![self] = "s1"]
                       /\ UNCHANGED << nxt, copies, ok >>
            /\ UNCHANGED << i, key, prev, cur >>

Fin(self) == /\ pc[self] = "Fin"
             /\ i' = [i EXCEPT ![self] = i[self] + 1]
             /\ pc' = [pc EXCEPT ![self] = "Loop"]
             /\ UNCHANGED << nxt, copies, ok, key, prev, cur >>

thr(self) == Loop(self) \/ s1(self) \/ s2(self) \/ Fin(self)

(* Allow infinite stuttering to prevent deadlock on termination. *)
Terminating == /\ \A self \in ProcSet: pc[self] = "Done"
               /\ UNCHANGED vars

Next == (\E self \in Threads: thr(self))
           \/ Terminating

Spec == Init /\ [][Next]_vars

Termination == <>(\A self \in ProcSet: pc[self] = "Done")

\* END TRANSLATION
Linked == {k \in 0..MaxKey : nxt[k] <= Nil}
RECURSIVE Walk(_)
Walk(k) == IF k = Nil THEN <<>> ELSE <<k>> \o Walk(nxt[k])
Sorted == LET w == Walk(0) IN \A a, b \in 1..Len(w) : a < b => w[a] < w[b]
Reachable == \A k \in Linked : \E a \in 1..Len(Walk(0)) : Walk(0)[a] = k
AllDone == \A t \in Threads : pc[t] = "Done"
Succ(k) == Cardinality({<<t, j>> \in Threads \X (1..4) : j <= Len(Prog[t]) /\ Prog[t][j] = k /\ j <= Len(ok[t]) /\ ok[t][j] = 1})
Tries(k) == Cardinality({<<t, j>> \in Threads \X (1..4) : j <= Len(Prog[t]) /\ Prog[t][j] = k})
\* exactly one of several concurrent inserts of the same absent key succeeds (unique); every insert succeeds (multi); nothing lost
OneWinner == AllDone => \A k \in 1..MaxKey : IF Multi THEN Succ(k) = Tries(k) /\ copies[k] = Tries(k)
                                               ELSE (Tries(k) > 0 => Succ(k) = 1) /\ (Succ(k) = 1 <=> k \in Linked) /\ copies[k] <= 1
=============================================================================
