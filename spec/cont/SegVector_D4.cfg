SPECIFICATION Spec
CONSTANT Threads = {1,2,3,4}
CONSTANT Delta <- D4
CONSTANT MaxIdx = 15
INVARIANT OnceEach
INVARIANT ByClaimant
INVARIANT NoTouchUnallocated
INVARIANT Tiles
INVARIANT Complete
