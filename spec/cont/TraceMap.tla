------------------------------- MODULE TraceMap -------------------------------
(* Events: Prefill keys | Inv t op k | Res t r m g | Rel t g | Destroy g k | Final keys | Stuck | Crash | Reset ; Lin internal *)
EXTENDS Integers, Sequences, FiniteSets, TLC, Json, IOUtils
TraceLog == ndJsonDeserialize(IOEnv.TRACE)
Threads == 1..4
Keys == 0..40
VARIABLES present, pend, holders, l
A == INSTANCE MapAbs
vars == <<present, pend, holders, l>>
Ev == TraceLog[l]
Is(e) == l <= Len(TraceLog) /\ TraceLog[l].e = e /\ l' = l + 1
TInit == A!MInit /\ l = 1
ToSet(s) == {s[i] : i \in DOMAIN s}
TNext == \/ Is("Inv") /\ A!Invoke(Ev.t, Ev.op, Ev.k)
         \/ Is("Res") /\ A!Respond(Ev.t, Ev.r, Ev.m, Ev.g)
         \/ Is("Rel") /\ A!Release(Ev.t, Ev.g)
         \/ Is("Destroy") /\ A!Destroy(Ev.g)
         \/ Is("Prefill") /\ present' = present \cup ToSet(Ev.keys) /\ UNCHANGED <<pend, holders>>        \* sequential prefix logged as one event
         \/ Is("Final") /\ A!FinalOK(ToSet(Ev.keys)) /\ UNCHANGED <<present, pend, holders>>
         \/ l <= Len(TraceLog) /\ UNCHANGED l /\ \E t \in Threads : A!Lin(t)
         \/ Is("Reset") /\ present' = {} /\ pend' = [t \in Threads |-> A!None] /\ holders' = {}
TraceSpec == TInit /\ [][TNext]_vars
NotAccepted == l <= Len(TraceLog)
=============================================================================
