SPECIFICATION Spec
CONSTANT Threads = {1,2,3}
CONSTANT Delta <- D3b
CONSTANT MaxIdx = 8
INVARIANT OnceEach
INVARIANT ByClaimant
INVARIANT NoTouchUnallocated
INVARIANT Tiles
INVARIANT Complete
