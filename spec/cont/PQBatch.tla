---- MODULE PQBatch ----
\* Function transcription of concurrent_priority_queue::handle_operations / heapify / reheap (include/oneapi/tbb/concurrent_priority_queue.h:253-389):
\* what ONE batch of aggregated operations does to the array `data` (binary heap in [0, mark), unheapified pushes behind it).
\*   first pass  : pushes are appended; a pop is served at once only if there are unheapified elements and the last one beats the heap top, otherwise deferred
\*                 (the deferred pops are chained in reverse);
\*   second pass : a deferred pop fails on an empty queue, takes the last element if it beats the top, otherwise takes the top and calls reheap;
\*   finally     : heapify merges the unheapified tail into the heap.
\* Indices are 0-based as in the code: At(d, i) is data[i].
\* Properties (C13, sequential core): after every batch data is a heap and mark = size; nothing is lost or invented; the results of the batch are those of SOME
\* sequential order of its operations on a priority queue (all operations of a batch are concurrent with each other, so any order is a legal linearization).
EXTENDS Integers, Sequences, FiniteSets, TLC
CONSTANTS Values, MaxLen, MaxBatch
At(d, i) == d[i + 1]
Put(d, i, v) == [d EXCEPT ![i + 1] = v]
Back(d) == d[Len(d)]
PopBack(d) == SubSeq(d, 1, Len(d) - 1)
Less(a, b) == a < b                                   \* my_compare (std::less)

\* ---- reheap(): the root was taken; push the last element down from the root within [0, mark)
RECURSIVE ReheapLoop(_, _, _, _)
ReheapLoop(d, mark, cur, child) ==
    IF child < mark
    THEN LET target == IF child + 1 < mark /\ Less(At(d, child), At(d, child + 1)) THEN child + 1 ELSE child IN
         IF Less(At(d, target), Back(d)) THEN <<d, cur>>
         ELSE ReheapLoop(Put(d, cur, At(d, target)), mark, target, 2 * target + 1)
    ELSE <<d, cur>>
Reheap(d, mark) ==
    LET r == ReheapLoop(d, mark, 0, 1)
        d1 == IF r[2] # Len(r[1]) - 1 THEN Put(r[1], r[2], Back(r[1])) ELSE r[1]
        d2 == PopBack(d1)
    IN <<d2, IF mark > Len(d2) THEN Len(d2) ELSE mark>>

\* ---- heapify(): sift every unheapified element up
RECURSIVE SiftUp(_, _, _)
SiftUp(d, cur, v) ==                                  \* do { parent = (cur-1)>>1; if !(data[parent] < v) break; data[cur] = data[parent]; cur = parent } while (cur); data[cur] = v
    LET parent == (cur - 1) \div 2 IN
    IF ~Less(At(d, parent), v) THEN Put(d, cur, v)
    ELSE LET d1 == Put(d, cur, At(d, parent)) IN IF parent = 0 THEN Put(d1, 0, v) ELSE SiftUp(d1, parent, v)
RECURSIVE HeapifyFrom(_, _)
HeapifyFrom(d, m) == IF m < Len(d) THEN HeapifyFrom(SiftUp(d, m, At(d, m)), m + 1) ELSE d
Heapify(d, mark) == HeapifyFrom(d, IF mark = 0 /\ Len(d) > 0 THEN 1 ELSE mark)

\* ---- the two passes.  st = [d, mark, res (per operation index: 0 = not yet, -1 = FAILED, v = value / 100 = push done), defer (list of op indices, head = last deferred)]
BeatsTop(d, mark) == mark < Len(d) /\ Less(At(d, 0), Back(d))
RECURSIVE Pass1(_, _, _)
Pass1(st, batch, i) ==
    IF i > Len(batch) THEN st
    ELSE IF batch[i][1] = "pop"
         THEN IF BeatsTop(st.d, st.mark) THEN Pass1([st EXCEPT !.res[i] = Back(st.d), !.d = PopBack(st.d)], batch, i + 1)
              ELSE Pass1([st EXCEPT !.defer = <<i>> \o st.defer], batch, i + 1)
         ELSE Pass1([st EXCEPT !.d = Append(st.d, batch[i][2]), !.res[i] = 100], batch, i + 1)
RECURSIVE Pass2(_)
Pass2(st) ==
    IF st.defer = <<>> THEN st
    ELSE LET i == Head(st.defer) rest == Tail(st.defer) IN
         IF st.d = <<>> THEN Pass2([st EXCEPT !.res[i] = -1, !.defer = rest])
         ELSE IF BeatsTop(st.d, st.mark) THEN Pass2([st EXCEPT !.res[i] = Back(st.d), !.d = PopBack(st.d), !.defer = rest])
         ELSE LET r == Reheap(st.d, st.mark) IN Pass2([st EXCEPT !.res[i] = At(st.d, 0), !.d = r[1], !.mark = r[2], !.defer = rest])
Handle(d, mark, batch) ==
    LET s0 == [d |-> d, mark |-> mark, res |-> [i \in 1..Len(batch) |-> 0], defer |-> <<>>]
        s2 == Pass2(Pass1(s0, batch, 1))
        d3 == IF s2.mark < Len(s2.d) THEN Heapify(s2.d, s2.mark) ELSE s2.d
    IN [d |-> d3, mark |-> Len(d3), res |-> s2.res]

\* ---- state machine: any batch on any reachable array
Ops == {<<"pop">>} \cup {<<"push", v>> : v \in Values}
Batches == UNION {[1..n -> Ops] : n \in 1..MaxBatch}
Pushes(b) == Cardinality({i \in DOMAIN b : b[i][1] = "push"})
VARIABLES data, mark, lastBatch, lastRes
vars == <<data, mark, lastBatch, lastRes>>
Init == data = <<>> /\ mark = 0 /\ lastBatch = <<>> /\ lastRes = <<>>
Next == \E b \in Batches : /\ Len(data) + Pushes(b) <= MaxLen
                           /\ LET h == Handle(data, mark, b) IN data' = h.d /\ mark' = h.mark /\ lastBatch' = b /\ lastRes' = h.res
Spec == Init /\ [][Next]_vars

\* ---- properties
IsHeap(d) == \A i \in 1..(Len(d) - 1) : ~Less(At(d, (i - 1) \div 2), At(d, i))
HeapOK == IsHeap(data) /\ mark = Len(data)
\* (conservation and batch-linearizability relate two consecutive states: they are checked on the recorded transitions by TracePQBatch; here as an action property)
Count(s, v) == Cardinality({i \in DOMAIN s : s[i] = v})
Conserved(d0, b, res, d1) == \A v \in Values : Count(d1, v) = Count(d0, v) + Cardinality({i \in DOMAIN b : b[i] = <<"push", v>>}) - Cardinality({i \in DOMAIN b : b[i][1] = "pop" /\ res[i] = v})
MaxOf(S) == CHOOSE x \in S : \A y \in S : y <= x
\* is there an order of the batch in which a sequential priority queue gives these results?  bag = function Values -> count
RECURSIVE Explains(_, _, _, _)
Explains(bag, b, res, todo) ==
    \/ todo = {}
    \/ \E i \in todo :
         IF b[i][1] = "push" THEN Explains([bag EXCEPT ![b[i][2]] = @ + 1], b, res, todo \ {i})
         ELSE LET present == {v \in Values : bag[v] > 0} IN
              IF present = {} THEN res[i] = -1 /\ Explains(bag, b, res, todo \ {i})
              ELSE res[i] = MaxOf(present) /\ Explains([bag EXCEPT ![res[i]] = @ - 1], b, res, todo \ {i})
BatchLinearizable(d0, b, res) == Explains([v \in Values |-> Count(d0, v)], b, res, DOMAIN b)
StepOK == [][Conserved(data, lastBatch', lastRes', data') /\ BatchLinearizable(data, lastBatch', lastRes')]_vars
====
