------------------------------- MODULE TracePQ -------------------------------
(* Linearizability validation of recorded concurrent_priority_queue histories against PQAbs.                 *)
(* Events: Cfg faults | Inv t op v | Res t r | Final rest | Stuck | Crash | Terminate | Reset ; Lin internal. *)
EXTENDS Integers, Sequences, FiniteSets, TLC, Json, IOUtils
TraceLog == ndJsonDeserialize(IOEnv.TRACE)
Threads == 1..4
Vals == 1..20
VARIABLES bag, faults, pend, l
A == INSTANCE PQAbs
vars == <<bag, faults, pend, l>>
Ev == TraceLog[l]
Is(e) == l <= Len(TraceLog) /\ TraceLog[l].e = e /\ l' = l + 1
TInit == A!PInit /\ l = 1
TNext == \/ Is("Cfg") /\ A!Configure(Ev.faults = 1)
         \/ Is("Inv") /\ A!Invoke(Ev.t, Ev.op, Ev.v)
         \/ Is("Res") /\ A!Respond(Ev.t, Ev.r)
         \/ Is("Final") /\ A!FinalOK(Ev.rest) /\ UNCHANGED <<bag, faults, pend>>
         \/ l <= Len(TraceLog) /\ UNCHANGED l /\ \E t \in Threads : A!Lin(t)
         \/ Is("Reset") /\ bag' = [v \in Vals |-> 0] /\ faults' = FALSE /\ pend' = [t \in Threads |-> A!None]
TraceSpec == TInit /\ [][TNext]_vars
NotAccepted == l <= Len(TraceLog)
=============================================================================
