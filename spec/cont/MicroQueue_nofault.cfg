SPECIFICATION Spec
CONSTANT Producers = {1,2}
CONSTANT Consumers = {7}
CONSTANT NPush = 2
CONSTANT NPop = 4
CONSTANT FailAlloc = {}
CONSTANT FIXED = FALSE
INVARIANT NoCrash
INVARIANT NoDupPop
INVARIANT OnlyPushed
INVARIANT PerProducerFifo
CHECK_DEADLOCK FALSE
