---- MODULE MCsk ----
EXTENDS SkipList
\* nodes 1..4; keys: 1 -> 10, 2 -> 20, 3 -> 20 (same key as node 2, inserted by another thread), 4 -> 15
KeyA == (1 :> 10) @@ (2 :> 20) @@ (3 :> 20) @@ (4 :> 15)
HeightA == (1 :> 2) @@ (2 :> 3) @@ (3 :> 1) @@ (4 :> 2)
ProgA == (1 :> <<2, 1>>) @@ (2 :> <<3, 4>>)
ProgB == (1 :> <<2>>) @@ (2 :> <<4>>) @@ (3 :> <<1, 3>>)
ProgC == (1 :> <<4, 2>>) @@ (2 :> <<1>>)
FKeysN == <<>>
FKeysC == (3 :> <<20, 15>>)
ProgD == (1 :> <<4>>) @@ (2 :> <<2>>)
FKeysD == (3 :> <<20>>)
====
