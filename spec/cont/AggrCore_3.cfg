SPECIFICATION Spec
CONSTANT Threads = {1, 2, 3}
CONSTANT NOps = 1
INVARIANT OneHandler
INVARIANT ExactlyOnce
INVARIANT ReturnAfterHandled
INVARIANT Quiescent
CHECK_DEADLOCK FALSE
