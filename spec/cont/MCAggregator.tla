---- MODULE MCAggregator ----
EXTENDS Aggregator
P3 == (1 :> <<<<"push", 5>>, <<"pop">>>>) @@ (2 :> <<<<"push", 7>>, <<"push", 3>>>>) @@ (3 :> <<<<"pop">>, <<"pop">>>>)
P3b == (1 :> <<<<"push", 5>>, <<"push", 5>>, <<"pop">>>>) @@ (2 :> <<<<"pop">>, <<"push", 9>>>>) @@ (3 :> <<<<"push", 1>>, <<"pop">>>>)
====
