SPECIFICATION Spec
CONSTANT Values = {1, 2, 3, 4}
CONSTANT MaxLen = 7
CONSTANT MaxBatch = 3
INVARIANT HeapOK
PROPERTY StepOK
CHECK_DEADLOCK FALSE
