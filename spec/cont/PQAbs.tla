-------------------------------- MODULE PQAbs --------------------------------
(* Abstract specification of property C13: concurrent_priority_queue as a linearizable priority queue.          *)
(*   bag    multiset of elements (value -> multiplicity)                                                        *)
(*   pend   per thread, the call in progress; it takes effect at one internal step Lin(t)                       *)
(* push: 1 = stored, -2 = the element copy threw (only with injected faults; not stored, other operations of the *)
(* batch unaffected).  try_pop: a maximum element of the contents at its linearization point, 0 = empty.        *)
EXTENDS Integers, FiniteSets
CONSTANTS Threads, Vals
VARIABLES bag, faults, pend
pvars == <<bag, faults, pend>>
None == [op |-> "none", v |-> 0, lin |-> FALSE, out |-> 0]
PInit == bag = [v \in Vals |-> 0] /\ faults = FALSE /\ pend = [t \in Threads |-> None]
Present == {v \in Vals : bag[v] > 0}
Configure(f) == faults' = f /\ UNCHANGED <<bag, pend>>
Invoke(t, op, v) == /\ pend[t].op = "none" /\ pend' = [pend EXCEPT ![t] = [op |-> op, v |-> v, lin |-> FALSE, out |-> 0]]
                    /\ UNCHANGED <<bag, faults>>
Lin(t) == /\ pend[t].op # "none" /\ ~pend[t].lin
          /\ \/ /\ pend[t].op = "push" /\ bag' = [bag EXCEPT ![pend[t].v] = @ + 1] /\ pend' = [pend EXCEPT ![t].lin = TRUE, ![t].out = 1]
             \/ /\ pend[t].op = "push" /\ faults /\ bag' = bag /\ pend' = [pend EXCEPT ![t].lin = TRUE, ![t].out = -2]
             \/ /\ pend[t].op = "pop" /\ Present # {}
                /\ \E m \in Present : (\A x \in Present : x <= m) /\ bag' = [bag EXCEPT ![m] = @ - 1] /\ pend' = [pend EXCEPT ![t].lin = TRUE, ![t].out = m]
             \/ /\ pend[t].op = "pop" /\ Present = {} /\ bag' = bag /\ pend' = [pend EXCEPT ![t].lin = TRUE, ![t].out = 0]
          /\ UNCHANGED faults
Respond(t, r) == /\ pend[t].op # "none" /\ pend[t].lin /\ pend[t].out = r /\ pend' = [pend EXCEPT ![t] = None] /\ UNCHANGED <<bag, faults>>
\* at quiescence the drained contents must be exactly the bag
FinalOK(rest) == \A v \in Vals : bag[v] = Cardinality({i \in DOMAIN rest : rest[i] = v})
=============================================================================
