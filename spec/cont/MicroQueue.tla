---- MODULE MicroQueue ----
\* concurrent_queue: global head/tail tickets, per-lane (micro_queue) head_counter/tail_counter turnstiles,
\* page list with one item per page (sizeof(T) > 128), mask bit, invalid entries, page-allocation failure.
\* include/oneapi/tbb/detail/_concurrent_queue_base.h, concurrent_queue.h (internal_try_pop_impl).
EXTENDS Integers, Sequences, FiniteSets, TLC
CONSTANTS Producers, Consumers, NPush, NPop, FailAlloc, FIXED   \* FailAlloc: set of global allocation indices that throw
NQ == 8
Lane(k) == (k * 3) % NQ
INV == [val |-> -1, mask |-> -1]
(* --algorithm mq {
  variables head = 0, tail = 0, ninvalid = 0, allocs = 0,
            lhead = [l \in 0..NQ-1 |-> 0], ltail = [l \in 0..NQ-1 |-> 0],        \* lane head_counter / tail_counter
            pages = [l \in 0..NQ-1 |-> <<>>],      \* lane page list: sequence of records [val, mask] or INV
            pushed = <<>>, popped = <<>>, crashed = FALSE, pushfail = {};
  process (p \in Producers)
    variables n = 0, k = 0, lane = 0, base = 0, ok = TRUE, v = 0;
  {
  P0: while (n < NPush) {
        v := self * 10 + n;
    P1: k := tail; tail := tail + 1; lane := Lane(k); base := k - (k % NQ);            \* tail_counter++ (ticket)
    \* prepare_page: items_per_page = 1 => every push allocates a page
    P2: allocs := allocs + 1; ok := (allocs \notin FailAlloc);
        if (~ok) { goto PF } else { goto P3 };
    PF: ninvalid := ninvalid + 1;                                                       \* ++n_invalid_entries; invalidate_page(k)
    PF2: ltail[lane] := base + NQ + 1; pages[lane] := Append(pages[lane], INV);       \* under page_mutex: odd tail counter, invalid page appended
         pushfail := pushfail \cup {v}; goto PEnd;                                      \* bad_alloc propagates to the caller
    P3: if (ltail[lane] = base) { goto P4 }                                             \* spin_wait_until_my_turn
        else if (ltail[lane] % 2 = 1) { ninvalid := ninvalid + 1; pushfail := pushfail \cup {v}; goto PEnd }   \* bad_last_alloc
        else { goto P3 };
    P4: pages[lane] := Append(pages[lane], [val |-> v, mask |-> 0]);                    \* link page under page_mutex
    P5: pages[lane] := [pages[lane] EXCEPT ![Len(pages[lane])].mask = 1];               \* construct item, set mask bit
    P6: ltail[lane] := ltail[lane] + NQ; pushed := Append(pushed, v);                   \* tail_counter.fetch_add(n_queue)
    PEnd: n := n + 1;
      }
  }
  process (c \in Consumers)
    variables m = 0, tk = 0, lane = 0, base = 0, pg = INV, got = FALSE;
  {
  C0: while (m < NPop) {
    C1: tk := head;                                                                     \* head_counter.load(acquire)
    C2: if (tail - tk <= 0) { goto CEnd } else { goto C3 };                             \* queue empty
    C3: if (head = tk) { head := tk + 1; lane := Lane(tk); base := tk - (tk % NQ); goto C4 } else { goto C1 };   \* CAS
    C4: if (lhead[lane] = base) { goto C5 } else { goto C4 };                           \* spin_wait_until_eq(head_counter,k)
    C5: if (ltail[lane] # base) { goto C6 } else { goto C5 };                           \* spin_wait_while_eq(tail_counter,k)
    C6: pg := Head(pages[lane]);                                                        \* p = head_page
        if (pg = INV) {
           if (FIXED) { ninvalid := ninvalid - 1; got := FALSE; goto C7 }               \* candidate fix: treat as invalid entry
           else { crashed := TRUE; goto Crash }                                         \* p->mask on address 1
        } else if (pg.mask = 1) { popped := Append(popped, pg.val); got := TRUE; goto C7 }
        else { ninvalid := ninvalid - 1; got := FALSE; goto C7 };
    C7: pages[lane] := IF pg = INV THEN pages[lane] ELSE Tail(pages[lane]);           \* finalizer: unlink page (valid pages only)
        lhead[lane] := base + NQ;
        if (got) { goto CEnd } else { goto C1 };                                        \* pop() returned false: retry with a new ticket
    CEnd: m := m + 1;
      };
    Fin: skip;
    Crash: skip;
  }
} *)
\* BEGIN TRANSLATION
\* Process variable lane of process p at line 16 col 29 changed to lane_
\* Process variable base of process p at line 16 col 39 changed to base_
VARIABLES pc, head, tail, ninvalid, allocs, lhead, ltail, pages, pushed, 
          popped, crashed, pushfail, n, k, lane_, base_, ok, v, m, tk, lane, 
          base, pg, got

vars == << pc, head, tail, ninvalid, allocs, lhead, ltail, pages, pushed, 
           popped, crashed, pushfail, n, k, lane_, base_, ok, v, m, tk, lane, 
           base, pg, got >>

ProcSet == (Producers) \cup (Consumers)

Init == (* Global variables *)
        /\ head = 0
        /\ tail = 0
        /\ ninvalid = 0
        /\ allocs = 0
        /\ lhead = [l \in 0..NQ-1 |-> 0]
        /\ ltail = [l \in 0..NQ-1 |-> 0]
        /\ pages = [l \in 0..NQ-1 |-> <<>>]
        /\ pushed = <<>>
        /\ popped = <<>>
        /\ crashed = FALSE
        /\ pushfail = {}
        (* Process p *)
        /\ n = [self \in Producers |-> 0]
        /\ k = [self \in Producers |-> 0]
        /\ lane_ = [self \in Producers |-> 0]
        /\ base_ = [self \in Producers |-> 0]
        /\ ok = [self \in Producers |-> TRUE]
        /\ v = [self \in Producers |-> 0]
        (* Process c *)
        /\ m = [self \in Consumers |-> 0]
        /\ tk = [self \in Consumers |-> 0]
        /\ lane = [self \in Consumers |-> 0]
        /\ base = [self \in Consumers |-> 0]
        /\ pg = [self \in Consumers |-> INV]
        /\ got = [self \in Consumers |-> FALSE]
        /\ pc = [self \in ProcSet |-> CASE self \in Producers -> "P0"
                                        [] self \in Consumers -> "C0"]

P0(self) == /\ pc[self] = "P0"
            /\ IF n[self] < NPush
                  THEN /\ v' = [v EXCEPT ![self] = self * 10 + n[self]]
                       /\ pc' = [pc EXCEPT ![self] = "P1"]
                  ELSE /\ pc' = [pc EXCEPT ![self] = "Done"]
                       /\ v' = v
            /\ UNCHANGED << head, tail, ninvalid, allocs, lhead, ltail, pages, 
                            pushed, popped, crashed, pushfail, n, k, lane_, 
                            base_, ok, m, tk, lane, base, pg, got >>

P1(self) == /\ pc[self] = "P1"
            /\ k' = [k EXCEPT ![self] = tail]
            /\ tail' = tail + 1
            /\ lane_' = [lane_ EXCEPT ![self] = Lane(k'[self])]
            /\ base_' = [base_ EXCEPT ![self] = k'[self] - (k'[self] % NQ)]
            /\ pc' = [pc EXCEPT ![self] = "P2"]
            /\ UNCHANGED << head, ninvalid, allocs, lhead, ltail, pages, 
                            pushed, popped, crashed, pushfail, n, ok, v, m, tk, 
                            lane, base, pg, got >>

P2(self) == /\ pc[self] = "P2"
            /\ allocs' = allocs + 1
            /\ ok' = [ok EXCEPT ![self] = (allocs' \notin FailAlloc)]
            /\ IF ~ok'[self]
                  THEN /\ pc' = [pc EXCEPT ![self] = "PF"]
                  ELSE /\ pc' = [pc EXCEPT ![self] = "P3"]
            /\ UNCHANGED << head, tail, ninvalid, lhead, ltail, pages, pushed, 
                            popped, crashed, pushfail, n, k, lane_, base_, v, 
                            m, tk, lane, base, pg, got >>

PF(self) == /\ pc[self] = "PF"
            /\ ninvalid' = ninvalid + 1
            /\ pc' = [pc EXCEPT ![self] = "PF2"]
            /\ UNCHANGED << head, tail, allocs, lhead, ltail, pages, pushed, 
                            popped, crashed, pushfail, n, k, lane_, base_, ok, 
                            v, m, tk, lane, base, pg, got >>

PF2(self) == /\ pc[self] = "PF2"
             /\ ltail' = [ltail EXCEPT ![lane_[self]] = base_[self] + NQ + 1]
             /\ pages' = [pages EXCEPT ![lane_[self]] = Append(pages[lane_[self]], INV)]
             /\ pushfail' = (pushfail \cup {v[self]})
             /\ pc' = [pc EXCEPT ![self] = "PEnd"]
             /\ UNCHANGED << head, tail, ninvalid, allocs, lhead, pushed, 
                             popped, crashed, n, k, lane_, base_, ok, v, m, tk, 
                             lane, base, pg, got >>

P3(self) == /\ pc[self] = "P3"
            /\ IF ltail[lane_[self]] = base_[self]
                  THEN /\ pc' = [pc EXCEPT ![self] = "P4"]
                       /\ UNCHANGED << ninvalid, pushfail >>
                  ELSE /\ IF ltail[lane_[self]] % 2 = 1
                             THEN /\ ninvalid' = ninvalid + 1
                                  /\ pushfail' = (pushfail \cup {v[self]})
                                  /\ pc' = [pc EXCEPT ![self] = "PEnd"]
                             ELSE /\ pc' = [pc EXCEPT ![self] = "P3"]
                                  /\ UNCHANGED << ninvalid, pushfail >>
            /\ UNCHANGED << head, tail, allocs, lhead, ltail, pages, pushed, 
                            popped, crashed, n, k, lane_, base_, ok, v, m, tk, 
                            lane, base, pg, got >>

P4(self) == /\ pc[self] = "P4"
            /\ pages' = [pages EXCEPT ![lane_[self]] = Append(pages[lane_[self]], [val |-> v[self], mask |-> 0])]
            /\ pc' = [pc EXCEPT ![self] = "P5"]
            /\ UNCHANGED << head, tail, ninvalid, allocs, lhead, ltail, pushed, 
                            popped, crashed, pushfail, n, k, lane_, base_, ok, 
                            v, m, tk, lane, base, pg, got >>

P5(self) == /\ pc[self] = "P5"
            /\ pages' = [pages EXCEPT ![lane_[self]] = [pages[lane_[self]] EXCEPT ![Len(pages[lane_[self]])].mask = 1]]
            /\ pc' = [pc EXCEPT ![self] = "P6"]
            /\ UNCHANGED << head, tail, ninvalid, allocs, lhead, ltail, pushed, 
                            popped, crashed, pushfail, n, k, lane_, base_, ok, 
                            v, m, tk, lane, base, pg, got >>

P6(self) == /\ pc[self] = "P6"
            /\ ltail' = [ltail EXCEPT ![lane_[self]] = ltail[lane_[self]] + NQ]
            /\ pushed' = Append(pushed, v[self])
            /\ pc' = [pc EXCEPT ![self] = "PEnd"]
            /\ UNCHANGED << head, tail, ninvalid, allocs, lhead, pages, popped, 
                            crashed, pushfail, n, k, lane_, base_, ok, v, m, 
                            tk, lane, base, pg, got >>

PEnd(self) == /\ pc[self] = "PEnd"
              /\ n' = [n EXCEPT ![self] = n[self] + 1]
              /\ pc' = [pc EXCEPT ![self] = "P0"]
              /\ UNCHANGED << head, tail, ninvalid, allocs, lhead, ltail, 
                              pages, pushed, popped, crashed, pushfail, k, 
                              lane_, base_, ok, v, m, tk, lane, base, pg, got >>

p(self) == P0(self) \/ P1(self) \/ P2(self) \/ PF(self) \/ PF2(self)
              \/ P3(self) \/ P4(self) \/ P5(self) \/ P6(self) \/ PEnd(self)

C0(self) == /\ pc[self] = "C0"
            /\ IF m[self] < NPop
                  THEN /\ pc' = [pc EXCEPT ![self] = "C1"]
                  ELSE /\ pc' = [pc EXCEPT ![self] = "Fin"]
            /\ UNCHANGED << head, tail, ninvalid, allocs, lhead, ltail, pages, 
                            pushed, popped, crashed, pushfail, n, k, lane_, 
                            base_, ok, v, m, tk, lane, base, pg, got >>

C1(self) == /\ pc[self] = "C1"
            /\ tk' = [tk EXCEPT ![self] = head]
            /\ pc' = [pc EXCEPT ![self] = "C2"]
            /\ UNCHANGED << head, tail, ninvalid, allocs, lhead, ltail, pages, 
                            pushed, popped, crashed, pushfail, n, k, lane_, 
                            base_, ok, v, m, lane, base, pg, got >>

C2(self) == /\ pc[self] = "C2"
            /\ IF tail - tk[self] <= 0
                  THEN /\ pc' = [pc EXCEPT ![self] = "CEnd"]
                  ELSE /\ pc' = [pc EXCEPT ![self] = "C3"]
            /\ UNCHANGED << head, tail, ninvalid, allocs, lhead, ltail, pages, 
                            pushed, popped, crashed, pushfail, n, k, lane_, 
                            base_, ok, v, m, tk, lane, base, pg, got >>

C3(self) == /\ pc[self] = "C3"
            /\ IF head = tk[self]
                  THEN /\ head' = tk[self] + 1
                       /\ lane' = [lane EXCEPT ![self] = Lane(tk[self])]
                       /\ base' = [base EXCEPT ![self] = tk[self] - (tk[self] % NQ)]
                       /\ pc' = [pc EXCEPT ![self] = "C4"]
                  ELSE /\ pc' = [pc EXCEPT ![self] = "C1"]
                       /\ UNCHANGED << head, lane, base >>
            /\ UNCHANGED << tail, ninvalid, allocs, lhead, ltail, pages, 
                            pushed, popped, crashed, pushfail, n, k, lane_, 
                            base_, ok, v, m, tk, pg, got >>

C4(self) == /\ pc[self] = "C4"
            /\ IF lhead[lane[self]] = base[self]
                  THEN /\ pc' = [pc EXCEPT ![self] = "C5"]
                  ELSE /\ pc' = [pc EXCEPT ![self] = "C4"]
            /\ UNCHANGED << head, tail, ninvalid, allocs, lhead, ltail, pages, 
                            pushed, popped, crashed, pushfail, n, k, lane_, 
                            base_, ok, v, m, tk, lane, base, pg, got >>

C5(self) == /\ pc[self] = "C5"
            /\ IF ltail[lane[self]] # base[self]
                  THEN /\ pc' = [pc EXCEPT ![self] = "C6"]
                  ELSE /\ pc' = [pc EXCEPT ![self] = "C5"]
            /\ UNCHANGED << head, tail, ninvalid, allocs, lhead, ltail, pages, 
                            pushed, popped, crashed, pushfail, n, k, lane_, 
                            base_, ok, v, m, tk, lane, base, pg, got >>

C6(self) == /\ pc[self] = "C6"
            /\ pg' = [pg EXCEPT ![self] = Head(pages[lane[self]])]
            /\ IF pg'[self] = INV
                  THEN /\ IF FIXED
                             THEN /\ ninvalid' = ninvalid - 1
                                  /\ got' = [got EXCEPT ![self] = FALSE]
                                  /\ pc' = [pc EXCEPT ![self] = "C7"]
                                  /\ UNCHANGED crashed
                             ELSE /\ crashed' = TRUE
                                  /\ pc' = [pc EXCEPT ![self] = "Crash"]
                                  /\ UNCHANGED << ninvalid, got >>
                       /\ UNCHANGED popped
                  ELSE /\ IF pg'[self].mask = 1
                             THEN /\ popped' = Append(popped, pg'[self].val)
                                  /\ got' = [got EXCEPT ![self] = TRUE]
                                  /\ pc' = [pc EXCEPT ![self] = "C7"]
                                  /\ UNCHANGED ninvalid
                             ELSE /\ ninvalid' = ninvalid - 1
                                  /\ got' = [got EXCEPT ![self] = FALSE]
                                  /\ pc' = [pc EXCEPT ![self] = "C7"]
                                  /\ UNCHANGED popped
                       /\ UNCHANGED crashed
            /\ UNCHANGED << head, tail, allocs, lhead, ltail, pages, pushed, 
                            pushfail, n, k, lane_, base_, ok, v, m, tk, lane, 
                            base >>

C7(self) == /\ pc[self] = "C7"
            /\ pages' = [pages EXCEPT ![lane[self]] = IF pg[self] = INV THEN pages[lane[self]] ELSE Tail(pages[lane[self]])]
            /\ lhead' = [lhead EXCEPT ![lane[self]] = base[self] + NQ]
            /\ IF got[self]
                  THEN /\ pc' = [pc EXCEPT ![self] = "CEnd"]
                  ELSE /\ pc' = [pc EXCEPT ![self] = "C1"]
            /\ UNCHANGED << head, tail, ninvalid, allocs, ltail, pushed, 
                            popped, crashed, pushfail, n, k, lane_, base_, ok, 
                            v, m, tk, lane, base, pg, got >>

CEnd(self) == /\ pc[self] = "CEnd"
              /\ m' = [m EXCEPT ![self] = m[self] + 1]
              /\ pc' = [pc EXCEPT ![self] = "C0"]
              /\ UNCHANGED << head, tail, ninvalid, allocs, lhead, ltail, 
                              pages, pushed, popped, crashed, pushfail, n, k, 
                              lane_, base_, ok, v, tk, lane, base, pg, got >>

Fin(self) == /\ pc[self] = "Fin"
             /\ TRUE
             /\ pc' = [pc EXCEPT ![self] = "Crash"]
             /\ UNCHANGED << head, tail, ninvalid, allocs, lhead, ltail, pages, 
                             pushed, popped, crashed, pushfail, n, k, lane_, 
                             base_, ok, v, m, tk, lane, base, pg, got >>

Crash(self) == /\ pc[self] = "Crash"
               /\ TRUE
               /\ pc' = [pc EXCEPT ![self] = "Done"]
               /\ UNCHANGED << head, tail, ninvalid, allocs, lhead, ltail, 
                               pages, pushed, popped, crashed, pushfail, n, k, 
                               lane_, base_, ok, v, m, tk, lane, base, pg, got >>

c(self) == C0(self) \/ C1(self) \/ C2(self) \/ C3(self) \/ C4(self)
              \/ C5(self) \/ C6(self) \/ C7(self) \/ CEnd(self)
              \/ Fin(self) \/ Crash(self)

(* Allow infinite stuttering to prevent deadlock on termination. *)
Terminating == /\ \A self \in ProcSet: pc[self] = "Done"
               /\ UNCHANGED vars

Next == (\E self \in Producers: p(self))
           \/ (\E self \in Consumers: c(self))
           \/ Terminating

Spec == Init /\ [][Next]_vars

Termination == <>(\A self \in ProcSet: pc[self] = "Done")

\* END TRANSLATION
NoCrash == ~crashed
RECURSIVE Sub(_,_)
Sub(a, b) == IF a = <<>> THEN TRUE ELSE IF b = <<>> THEN FALSE ELSE IF Head(a) = Head(b) THEN Sub(Tail(a), Tail(b)) ELSE Sub(a, Tail(b))
NoDupPop == \A x, y \in 1..Len(popped) : x # y => popped[x] # popped[y]
OnlyPushed == \A x \in 1..Len(popped) : \E y \in 1..Len(pushed) : pushed[y] = popped[x]
PerProducerFifo == \A pr \in Producers : Sub(SelectSeq(popped, LAMBDA z : z \div 10 = pr), SelectSeq(pushed, LAMBDA z : z \div 10 = pr))
====
