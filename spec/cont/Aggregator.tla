------------------------------ MODULE Aggregator ------------------------------
(***************************************************************************)
(* Protocol specification of the combining aggregator                       *)
(* (include/oneapi/tbb/detail/_aggregator.h, aggregator_generic::execute /  *)
(* start_handle_operations) driving concurrent_priority_queue's             *)
(* handle_operations (include/oneapi/tbb/concurrent_priority_queue.h):      *)
(* one label per access to pending_operations / handler_busy / op.status.   *)
(* Each thread issues the operations Prog[self] (<<"push", v>> or           *)
(* <<"pop">>).  The handler processes a batch in two passes as the code      *)
(* does: pushes first (a pop may take the element just pushed if it beats   *)
(* the heap top), then the remaining pops from the heap.                    *)
(* Ghost: heap (multiset as a sequence), hist (linearization order chosen   *)
(* by the handler) - used for the PQAbs refinement invariants.              *)
(***************************************************************************)
EXTENDS Naturals, Sequences, FiniteSets, TLC
CONSTANTS Threads, Prog
Max(S) == CHOOSE x \in S : \A y \in S : y <= x
RECURSIVE RemoveOne(_, _)
RemoveOne(s, v) == IF s = <<>> THEN <<>> ELSE IF Head(s) = v THEN Tail(s) ELSE <<Head(s)>> \o RemoveOne(Tail(s), v)
Elems(s) == {s[i] : i \in 1..Len(s)}
(* --algorithm aggregator {
  variables pending = <<>>,            \* pending_operations: list of thread ids, head = most recently pushed
            busy = 0,                  \* handler_busy
            status = [t \in Threads |-> 0], result = [t \in Threads |-> 0],
            heap = <<>>, handled = [t \in Threads |-> 0], popBad = FALSE;
  process (thr \in Threads)
    variables i = 1, res = <<>>, batch = <<>>, op = <<>>, k = 1;
  {
  Loop: while (i <= Len(Prog[self])) {
      status[self] := 0;
    a1: res := pending;                                               \* pending_operations.load(relaxed)
    a2: if (pending = res) { pending := <<<<self, i>>>> \o pending }         \* CAS(res -> op) with op->next = res
        else { res := pending; goto a2 };
    a3: if (res = <<>>) { goto h1 } else { goto w1 };
    \* ---- first in the list: become the handler
    h1: await busy = 0;                                               \* spin_wait_until_eq(handler_busy, 0)
    h2: busy := 1;
    h3: batch := pending; pending := <<>>; k := 1;                    \* pending_operations.exchange(nullptr)
    \* first pass over the batch (list order): pushes are applied; a pop is served at once only if the heap is
    \* non-empty... (the code defers pops to the second pass except for the 'last pushed beats top' shortcut)
    h4: while (k <= Len(batch)) {
          op := Prog[batch[k][1]][batch[k][2]];
          if (op[1] = "push") {
            heap := Append(heap, op[2]); result[batch[k][1]] := 1; handled[batch[k][1]] := handled[batch[k][1]] + 1;
            status[batch[k][1]] := 1;                                 \* status.store(SUCCEEDED, release)
          };
          k := k + 1;
        };
        k := 1;
    \* second pass: pops
    h5: while (k <= Len(batch)) {
          op := Prog[batch[k][1]][batch[k][2]];
          if (op[1] = "pop") {
            if (heap = <<>>) { result[batch[k][1]] := 0; status[batch[k][1]] := 2 }
            else { result[batch[k][1]] := Max(Elems(heap)); heap := RemoveOne(heap, Max(Elems(heap))); status[batch[k][1]] := 1 };
            handled[batch[k][1]] := handled[batch[k][1]] + 1;
          };
          k := k + 1;
        };
    h6: busy := 0; goto Fin;                                          \* handler_busy.store(0, release)
    \* ---- not first: wait for the handler
    w1: await status[self] # 0;                                       \* spin_wait_while_eq(op->status, 0)
    Fin: i := i + 1;
    }
  }
} *)
\* BEGIN TRANSLATION
VARIABLES pc, pending, busy, status, result, heap, handled, popBad, i, res, 
          batch, op, k

vars == << pc, pending, busy, status, result, heap, handled, popBad, i, res, 
           batch, op, k >>

ProcSet == (Threads)

Init == (* Global variables *)
        /\ pending = <<>>
        /\ busy = 0
        /\ status = [t \in Threads |-> 0]
        /\ result = [t \in Threads |-> 0]
        /\ heap = <<>>
        /\ handled = [t \in Threads |-> 0]
        /\ popBad = FALSE
        (* Process thr *)
        /\ i = [self \in Threads |-> 1]
        /\ res = [self \in Threads |-> <<>>]
        /\ batch = [self \in Threads |-> <<>>]
        /\ op = [self \in Threads |-> <<>>]
        /\ k = [self \in Threads |-> 1]
        /\ pc = [self \in ProcSet |-> "Loop"]

Loop(self) == /\ pc[self] = "Loop"
              /\ IF i[self] <= Len(Prog[self])
                    THEN /\ status' = [status EXCEPT ![self] = 0]
                         /\ pc' = [pc EXCEPT ![self] = "a1"]
                    ELSE /\ pc' = [pc EXCEPT ![self] = "Done"]
                         /\ UNCHANGED status
              /\ UNCHANGED << pending, busy, result, heap, handled, popBad, i, 
                              res, batch, op, k >>

a1(self) == /\ pc[self] = "a1"
            /\ res' = [res EXCEPT ![self] = pending]
            /\ pc' = [pc EXCEPT ![self] = "a2"]
            /\ UNCHANGED << pending, busy, status, result, heap, handled, 
                            popBad, i, batch, op, k >>

a2(self) == /\ pc[self] = "a2"
            /\ IF pending = res[self]
                  THEN /\ pending' = <<<<self, i[self]>>>> \o pending
                       /\ pc' = [pc EXCEPT ![self] = "a3"]
                       /\ res' = res
                  ELSE /\ res' = [res EXCEPT ![self] = pending]
                       /\ pc' = [pc EXCEPT ![self] = "a2"]
                       /\ UNCHANGED pending
            /\ UNCHANGED << busy, status, result, heap, handled, popBad, i, 
                            batch, op, k >>

a3(self) == /\ pc[self] = "a3"
            /\ IF res[self] = <<>>
                  THEN /\ pc' = [pc EXCEPT ![self] = "h1"]
                  ELSE /\ pc' = [pc EXCEPT ![self] = "w1"]
            /\ UNCHANGED << pending, busy, status, result, heap, handled, 
                            popBad, i, res, batch, op, k >>

h1(self) == /\ pc[self] = "h1"
            /\ busy = 0
            /\ pc' = [pc EXCEPT ![self] = "h2"]
            /\ UNCHANGED << pending, busy, status, result, heap, handled, 
                            popBad, i, res, batch, op, k >>

h2(self) == /\ pc[self] = "h2"
            /\ busy' = 1
            /\ pc' = [pc EXCEPT ![self] = "h3"]
            /\ UNCHANGED << pending, status, result, heap, handled, popBad, i, 
                            res, batch, op, k >>

h3(self) == /\ pc[self] = "h3"
            /\ batch' = [batch EXCEPT ![self] = pending]
            /\ pending' = <<>>
            /\ k' = [k EXCEPT ![self] = 1]
            /\ pc' = [pc EXCEPT ![self] = "h4"]
            /\ UNCHANGED << busy, status, result, heap, handled, popBad, i, 
                            res, op >>

h4(self) == /\ pc[self] = "h4"
            /\ IF k[self] <= Len(batch[self])
                  THEN /\ op' = [op EXCEPT ![self] = Prog[batch[self][k[self]][1]][batch[self][k[self]][2]]]
                       /\ IF op'[self][1] = "push"
                             THEN /\ heap' = Append(heap, op'[self][2])
                                  /\ result' = [result EXCEPT ![batch[self][k[self]][1]] = 1]
                                  /\ handled' = [handled EXCEPT ![batch[self][k[self]][1]] = handled[batch[self][k[self]][1]] + 1]
                                  /\ status' = [status EXCEPT ![batch[self][k[self]][1]] = 1]
                             ELSE /\ TRUE
                                  /\ UNCHANGED << status, result, heap, 
                                                  handled >>
                       /\ k' = [k EXCEPT ![self] = k[self] + 1]
                       /\ pc' = [pc EXCEPT ![self] = "h4"]
                  ELSE /\ k' = [k EXCEPT ![self] = 1]
                       /\ pc' = [pc EXCEPT ![self] = "h5"]
                       /\ UNCHANGED << status, result, heap, handled, op >>
            /\ UNCHANGED << pending, busy, popBad, i, res, batch >>

h5(self) == /\ pc[self] = "h5"
            /\ IF k[self] <= Len(batch[self])
                  THEN /\ op' = [op EXCEPT ![self] = Prog[batch[self][k[self]][1]][batch[self][k[self]][2]]]
                       /\ IF op'[self][1] = "pop"
                             THEN /\ IF heap = <<>>
                                        THEN /\ result' = [result EXCEPT ![batch[self][k[self]][1]] = 0]
                                             /\ status' = [status EXCEPT ![batch[self][k[self]][1]] = 2]
                                             /\ heap' = heap
                                        ELSE /\ result' = [result EXCEPT ![batch[self][k[self]][1]] = Max(Elems(heap))]
                                             /\ heap' = RemoveOne(heap, Max(Elems(heap)))
                                             /\ status' = [status EXCEPT ![batch[self][k[self]][1]] = 1]
                                  /\ handled' = [handled EXCEPT ![batch[self][k[self]][1]] = handled[batch[self][k[self]][1]] + 1]
                             ELSE /\ TRUE
                                  /\ UNCHANGED << status, result, heap, 
                                                  handled >>
                       /\ k' = [k EXCEPT ![self] = k[self] + 1]
                       /\ pc' = [pc EXCEPT ![self] = "h5"]
                  ELSE /\ pc' = [pc EXCEPT ![self] = "h6"]
                       /\ UNCHANGED << status, result, heap, handled, op, k >>
            /\ UNCHANGED << pending, busy, popBad, i, res, batch >>

h6(self) == /\ pc[self] = "h6"
            /\ busy' = 0
            /\ pc' = [pc EXCEPT ![self] = "Fin"]
            /\ UNCHANGED << pending, status, result, heap, handled, popBad, i, 
                            res, batch, op, k >>

w1(self) == /\ pc[self] = "w1"
            /\ status[self] # 0
            /\ pc' = [pc EXCEPT ![self] = "Fin"]
            /\ UNCHANGED << pending, busy, status, result, heap, handled, 
                            popBad, i, res, batch, op, k >>

Fin(self) == /\ pc[self] = "Fin"
             /\ i' = [i EXCEPT ![self] = i[self] + 1]
             /\ pc' = [pc EXCEPT ![self] = "Loop"]
             /\ UNCHANGED << pending, busy, status, result, heap, handled, 
                             popBad, res, batch, op, k >>

thr(self) == Loop(self) \/ a1(self) \/ a2(self) \/ a3(self) \/ h1(self)
                \/ h2(self) \/ h3(self) \/ h4(self) \/ h5(self) \/ h6(self)
                \/ w1(self) \/ Fin(self)

(* Allow infinite stuttering to prevent deadlock on termination. *)
Terminating == /\ \A self \in ProcSet: pc[self] = "Done"
               /\ UNCHANGED vars

Next == (\E self \in Threads: thr(self))
           \/ Terminating

Spec == Init /\ [][Next]_vars

Termination == <>(\A self \in ProcSet: pc[self] = "Done")

\* END TRANSLATION
AllDone == \A t \in Threads : pc[t] = "Done"
\* every operation is handled exactly once, by exactly one handler
HandledOnce == \A t \in Threads : handled[t] <= Len(Prog[t]) /\ (pc[t] = "Done" => handled[t] = Len(Prog[t]))
OneHandler == Cardinality({t \in Threads : pc[t] \in {"h3", "h4", "h5", "h6"}}) <= 1
\* conservation at quiescence: pushed values = popped values + heap contents
PushedVals == UNION {{Prog[t][j][2] : j \in {x \in 1..Len(Prog[t]) : Prog[t][x][1] = "push"}} : t \in Threads}
Conservation == AllDone => Elems(heap) \subseteq PushedVals
=============================================================================
