---- MODULE SkipList ----
\* concurrent_skip_list::internal_insert_node (detail/_concurrent_skip_list.h:951-1010), the ordered containers concurrent_set / concurrent_map (unique keys):
\* lock-free insertion - the search fills prev / curr arrays level by level from the top (one load of a `next` pointer per step), the node is linked at level 0
\* by a CAS on prev->next(0) (retry of the whole search on failure), my_max_height is raised by a CAS loop, the upper levels are linked by CAS with a re-search
\* of the position on failure.  Nodes: 0 = head, 1..N = value nodes (node i carries key Key[i], height Height[i]); NIL = 99.
\* Properties (C12): level 0 is always sorted without duplicates and contains exactly the keys whose insertion succeeded; exactly one of several concurrent
\* inserts of the same absent key succeeds; every upper level is a sorted sublist of level 0; a search (contains) for a key whose insert has returned finds it.
EXTENDS Integers, Sequences, FiniteSets, TLC
CONSTANTS Threads, Prog, Key, Height, MaxH, MaxN, Readers, FKeys  \* Prog[t]: sequence of node ids thread t inserts; FKeys[r]: keys reader r looks up (lower_bound / contains)
NIL == 99
Levels == 0..MaxH-1
(* --algorithm skiplist {
  variables nxt = [l \in Levels |-> [n \in 0..MaxN |-> NIL]],  \* next pointers per level (head = node 0)
            maxh = 0,                                          \* my_max_height
            result = [n \in 1..MaxN |-> "none"],               \* "ok" inserted, "dup" refused (an equal key was found)
            fres = [r \in Readers |-> <<>>];                   \* per reader: <<key, keys whose insert had returned when the search began, answer>>
  process (t \in Threads)
    variables pi = 1, nd = 0, prev = [l \in Levels |-> 0], curr = [l \in Levels |-> NIL], lev = 0, p = 0, c = NIL, mh = 0, lv2 = 0;
  {
  I0: while (pi <= Len(Prog[self])) {
        nd := Prog[self][pi];
    \* fill_prev_curr_arrays: levels at and above the loaded max height get (head, null), the others are searched from the top
    F0: lev := maxh;                                            \* my_max_height.load(acquire)
        prev := [l \in Levels |-> 0]; curr := [l \in Levels |-> NIL]; p := 0;
    F1: if (lev = 0) { goto L0 } else { goto F2 };
    F2: c := nxt[lev - 1][p];                                   \* internal_find_position: curr = prev->next(level)
    F3: if (c # NIL /\ Key[c] < Key[nd]) { p := c; goto F2 }
        else { prev[lev - 1] := p; curr[lev - 1] := c; lev := lev - 1; goto F1 };
    \* level 0
    L0: if (curr[0] # NIL /\ Key[curr[0]] = Key[nd]) { result[nd] := "dup"; goto IEnd } else { goto L0s };   \* found(next, key)
    L0s: nxt[0][nd] := curr[0];                                 \* new_node->set_next(0, next) (the node is still private)
    L1: if (nxt[0][prev[0]] = curr[0]) { nxt[0][prev[0]] := nd; goto M0 } else { goto F0 };        \* CAS on prev->next(0); on failure search again
    \* raise my_max_height
    M0: mh := maxh;
    M1: if (Height[nd] <= mh) { goto U0 } else { goto M2 };
    M2: if (maxh = mh) { maxh := Height[nd]; goto U0 } else { mh := maxh; goto M1 };             \* CAS(max_height, new_height): on failure the expected value is refreshed
    \* upper levels
    U0: lev := 1;
    U1: if (lev >= Height[nd]) { result[nd] := "ok"; goto IEnd } else { goto U1s };
    U1s: nxt[lev][nd] := curr[lev];                             \* set_next(level, next)
    U2: if (nxt[lev][prev[lev]] = curr[lev]) { nxt[lev][prev[lev]] := nd; lev := lev + 1; goto U1 }   \* CAS on prev->next(level)
        else { lv2 := lev; goto R0 };
    \* re-search the positions on levels lev .. height-1 starting from the remembered predecessors
    R0: if (lv2 >= Height[nd]) { goto U1s } else { p := prev[lv2]; goto R1 };
    R1: c := nxt[lv2][p];
    R2: if (c # NIL /\ Key[c] < Key[nd]) { p := c; goto R1 }
        else { prev[lv2] := p; curr[lv2] := c; lv2 := lv2 + 1; goto R0 };
    IEnd: pi := pi + 1;
      }
  }
  \* internal_get_bound (lower_bound / find / contains): one descent from the loaded max height
  process (r \in Readers)
    variables fi = 1, fk = 0, fl = 0, fp = 0, fc = NIL;
  {
  G0: while (fi <= Len(FKeys[self])) {
        fk := FKeys[self][fi];
    G1: fl := maxh; fp := 0; fc := NIL;                         \* my_max_height.load(acquire)
        fres[self] := <<fk, {Key[n] : n \in {m \in 1..MaxN : result[m] = "ok"}}, "?">>;
    G2: if (fl = 0) { fres[self][3] := IF fc # NIL /\ Key[fc] = fk THEN "found" ELSE "absent"; goto GEnd } else { goto G3 };
    G3: fc := nxt[fl - 1][fp];
    G4: if (fc # NIL /\ Key[fc] < fk) { fp := fc; goto G3 } else { fl := fl - 1; goto G2 };
    GEnd: fi := fi + 1;
      }
  }
} *)
\* BEGIN TRANSLATION
VARIABLES pc, nxt, maxh, result, fres, pi, nd, prev, curr, lev, p, c, mh, lv2, 
          fi, fk, fl, fp, fc

vars == << pc, nxt, maxh, result, fres, pi, nd, prev, curr, lev, p, c, mh, 
           lv2, fi, fk, fl, fp, fc >>

ProcSet == (Threads) \cup (Readers)

Init == (* Global variables *)
        /\ nxt = [l \in Levels |-> [n \in 0..MaxN |-> NIL]]
        /\ maxh = 0
        /\ result = [n \in 1..MaxN |-> "none"]
        /\ fres = [r \in Readers |-> <<>>]
        (* Process t *)
        /\ pi = [self \in Threads |-> 1]
        /\ nd = [self \in Threads |-> 0]
        /\ prev = [self \in Threads |-> [l \in Levels |-> 0]]
        /\ curr = [self \in Threads |-> [l \in Levels |-> NIL]]
        /\ lev = [self \in Threads |-> 0]
        /\ p = [self \in Threads |-> 0]
        /\ c = [self \in Threads |-> NIL]
        /\ mh = [self \in Threads |-> 0]
        /\ lv2 = [self \in Threads |-> 0]
        (* Process r *)
        /\ fi = [self \in Readers |-> 1]
        /\ fk = [self \in Readers |-> 0]
        /\ fl = [self \in Readers |-> 0]
        /\ fp = [self \in Readers |-> 0]
        /\ fc = [self \in Readers |-> NIL]
        /\ pc = [self \in ProcSet |-> CASE self \in Threads -> "I0"
                                        [] self \in Readers -> "G0"]

I0(self) == /\ pc[self] = "I0"
            /\ IF pi[self] <= Len(Prog[self])
                  THEN /\ nd' = [nd EXCEPT ![self] = Prog[self][pi[self]]]
                       /\ pc' = [pc EXCEPT ![self] = "F0"]
                  ELSE /\ pc' = [pc EXCEPT ![self] = "Done"]
                       /\ nd' = nd
            /\ UNCHANGED << nxt, maxh, result, fres, pi, prev, curr, lev, p, c, 
                            mh, lv2, fi, fk, fl, fp, fc >>

F0(self) == /\ pc[self] = "F0"
            /\ lev' = [lev EXCEPT ![self] = maxh]
            /\ prev' = [prev EXCEPT ![self] = [l \in Levels |-> 0]]
            /\ curr' = [curr EXCEPT ![self] = [l \in Levels |-> NIL]]
            /\ p' = [p EXCEPT ![self] = 0]
            /\ pc' = [pc EXCEPT ![self] = "F1"]
            /\ UNCHANGED << nxt, maxh, result, fres, pi, nd, c, mh, lv2, fi, 
                            fk, fl, fp, fc >>

F1(self) == /\ pc[self] = "F1"
            /\ IF lev[self] = 0
                  THEN /\ pc' = [pc EXCEPT ![self] = "L0"]
                  ELSE /\ pc' = [pc EXCEPT ![self] = "F2"]
            /\ UNCHANGED << nxt, maxh, result, fres, pi, nd, prev, curr, lev, 
                            p, c, mh, lv2, fi, fk, fl, fp, fc >>

F2(self) == /\ pc[self] = "F2"
            /\ c' = [c EXCEPT ![self] = nxt[lev[self] - 1][p[self]]]
            /\ pc' = [pc EXCEPT ![self] = "F3"]
            /\ UNCHANGED << nxt, maxh, result, fres, pi, nd, prev, curr, lev, 
                            p, mh, lv2, fi, fk, fl, fp, fc >>

F3(self) == /\ pc[self] = "F3"
            /\ IF c[self] # NIL /\ Key[c[self]] < Key[nd[self]]
                  THEN /\ p' = [p EXCEPT ![self] = c[self]]
                       /\ pc' = [pc EXCEPT ![self] = "F2"]
                       /\ UNCHANGED << prev, curr, lev >>
                  ELSE /\ prev' = [prev EXCEPT ![self][lev[self] - 1] = p[self]]
                       /\ curr' = [curr EXCEPT ![self][lev[self] - 1] = c[self]]
                       /\ lev' = [lev EXCEPT ![self] = lev[self] - 1]
                       /\ pc' = [pc EXCEPT ![self] = "F1"]
                       /\ p' = p
            /\ UNCHANGED << nxt, maxh, result, fres, pi, nd, c, mh, lv2, fi, 
                            fk, fl, fp, fc >>

L0(self) == /\ pc[self] = "L0"
            /\ IF curr[self][0] # NIL /\ Key[curr[self][0]] = Key[nd[self]]
                  THEN /\ result' = [result EXCEPT ![nd[self]] = "dup"]
                       /\ pc' = [pc EXCEPT ![self] = "IEnd"]
                  ELSE /\ pc' = [pc EXCEPT ![self] = "L0s"]
                       /\ UNCHANGED result
            /\ UNCHANGED << nxt, maxh, fres, pi, nd, prev, curr, lev, p, c, mh, 
                            lv2, fi, fk, fl, fp, fc >>

L0s(self) == /\ pc[self] = "L0s"
             /\ nxt' = [nxt EXCEPT ![0][nd[self]] = curr[self][0]]
             /\ pc' = [pc EXCEPT ![self] = "L1"]
             /\ UNCHANGED << maxh, result, fres, pi, nd, prev, curr, lev, p, c, 
                             mh, lv2, fi, fk, fl, fp, fc >>

L1(self) == /\ pc[self] = "L1"
            /\ IF nxt[0][prev[self][0]] = curr[self][0]
                  THEN /\ nxt' = [nxt EXCEPT ![0][prev[self][0]] = nd[self]]
                       /\ pc' = [pc EXCEPT ![self] = "M0"]
                  ELSE /\ pc' = [pc EXCEPT ![self] = "F0"]
                       /\ nxt' = nxt
            /\ UNCHANGED << maxh, result, fres, pi, nd, prev, curr, lev, p, c, 
                            mh, lv2, fi, fk, fl, fp, fc >>

M0(self) == /\ pc[self] = "M0"
            /\ mh' = [mh EXCEPT ![self] = maxh]
            /\ pc' = [pc EXCEPT ![self] = "M1"]
            /\ UNCHANGED << nxt, maxh, result, fres, pi, nd, prev, curr, lev, 
                            p, c, lv2, fi, fk, fl, fp, fc >>

M1(self) == /\ pc[self] = "M1"
            /\ IF Height[nd[self]] <= mh[self]
                  THEN /\ pc' = [pc EXCEPT ![self] = "U0"]
                  ELSE /\ pc' = [pc EXCEPT ![self] = "M2"]
            /\ UNCHANGED << nxt, maxh, result, fres, pi, nd, prev, curr, lev, 
                            p, c, mh, lv2, fi, fk, fl, fp, fc >>

M2(self) == /\ pc[self] = "M2"
            /\ IF maxh = mh[self]
                  THEN /\ maxh' = Height[nd[self]]
                       /\ pc' = [pc EXCEPT ![self] = "U0"]
                       /\ mh' = mh
                  ELSE /\ mh' = [mh EXCEPT ![self] = maxh]
                       /\ pc' = [pc EXCEPT ![self] = "M1"]
                       /\ maxh' = maxh
            /\ UNCHANGED << nxt, result, fres, pi, nd, prev, curr, lev, p, c, 
                            lv2, fi, fk, fl, fp, fc >>

U0(self) == /\ pc[self] = "U0"
            /\ lev' = [lev EXCEPT ![self] = 1]
            /\ pc' = [pc EXCEPT ![self] = "U1"]
            /\ UNCHANGED << nxt, maxh, result, fres, pi, nd, prev, curr, p, c, 
                            mh, lv2, fi, fk, fl, fp, fc >>

U1(self) == /\ pc[self] = "U1"
            /\ IF lev[self] >= Height[nd[self]]
                  THEN /\ result' = [result EXCEPT ![nd[self]] = "ok"]
                       /\ pc' = [pc EXCEPT ![self] = "IEnd"]
                  ELSE /\ pc' = [pc EXCEPT ![self] = "U1s"]
                       /\ UNCHANGED result
            /\ UNCHANGED << nxt, maxh, fres, pi, nd, prev, curr, lev, p, c, mh, 
                            lv2, fi, fk, fl, fp, fc >>

U1s(self) == /\ pc[self] = "U1s"
             /\ nxt' = [nxt EXCEPT ![lev[self]][nd[self]] = curr[self][lev[self]]]
             /\ pc' = [pc EXCEPT ![self] = "U2"]
             /\ UNCHANGED << maxh, result, fres, pi, nd, prev, curr, lev, p, c, 
                             mh, lv2, fi, fk, fl, fp, fc >>

U2(self) == /\ pc[self] = "U2"
            /\ IF nxt[lev[self]][prev[self][lev[self]]] = curr[self][lev[self]]
                  THEN /\ nxt' = [nxt EXCEPT ![lev[self]][prev[self][lev[self]]] = nd[self]]
                       /\ lev' = [lev EXCEPT ![self] = lev[self] + 1]
                       /\ pc' = [pc EXCEPT ![self] = "U1"]
                       /\ lv2' = lv2
                  ELSE /\ lv2' = [lv2 EXCEPT ![self] = lev[self]]
                       /\ pc' = [pc EXCEPT ![self] = "R0"]
                       /\ UNCHANGED << nxt, lev >>
            /\ UNCHANGED << maxh, result, fres, pi, nd, prev, curr, p, c, mh, 
                            fi, fk, fl, fp, fc >>

R0(self) == /\ pc[self] = "R0"
            /\ IF lv2[self] >= Height[nd[self]]
                  THEN /\ pc' = [pc EXCEPT ![self] = "U1s"]
                       /\ p' = p
                  ELSE /\ p' = [p EXCEPT ![self] = prev[self][lv2[self]]]
                       /\ pc' = [pc EXCEPT ![self] = "R1"]
            /\ UNCHANGED << nxt, maxh, result, fres, pi, nd, prev, curr, lev, 
                            c, mh, lv2, fi, fk, fl, fp, fc >>

R1(self) == /\ pc[self] = "R1"
            /\ c' = [c EXCEPT ![self] = nxt[lv2[self]][p[self]]]
            /\ pc' = [pc EXCEPT ![self] = "R2"]
            /\ UNCHANGED << nxt, maxh, result, fres, pi, nd, prev, curr, lev, 
                            p, mh, lv2, fi, fk, fl, fp, fc >>

R2(self) == /\ pc[self] = "R2"
            /\ IF c[self] # NIL /\ Key[c[self]] < Key[nd[self]]
                  THEN /\ p' = [p EXCEPT ![self] = c[self]]
                       /\ pc' = [pc EXCEPT ![self] = "R1"]
                       /\ UNCHANGED << prev, curr, lv2 >>
                  ELSE /\ prev' = [prev EXCEPT ![self][lv2[self]] = p[self]]
                       /\ curr' = [curr EXCEPT ![self][lv2[self]] = c[self]]
                       /\ lv2' = [lv2 EXCEPT ![self] = lv2[self] + 1]
                       /\ pc' = [pc EXCEPT ![self] = "R0"]
                       /\ p' = p
            /\ UNCHANGED << nxt, maxh, result, fres, pi, nd, lev, c, mh, fi, 
                            fk, fl, fp, fc >>

IEnd(self) == /\ pc[self] = "IEnd"
              /\ pi' = [pi EXCEPT ![self] = pi[self] + 1]
              /\ pc' = [pc EXCEPT ![self] = "I0"]
              /\ UNCHANGED << nxt, maxh, result, fres, nd, prev, curr, lev, p, 
                              c, mh, lv2, fi, fk, fl, fp, fc >>

t(self) == I0(self) \/ F0(self) \/ F1(self) \/ F2(self) \/ F3(self)
              \/ L0(self) \/ L0s(self) \/ L1(self) \/ M0(self) \/ M1(self)
              \/ M2(self) \/ U0(self) \/ U1(self) \/ U1s(self) \/ U2(self)
              \/ R0(self) \/ R1(self) \/ R2(self) \/ IEnd(self)

G0(self) == /\ pc[self] = "G0"
            /\ IF fi[self] <= Len(FKeys[self])
                  THEN /\ fk' = [fk EXCEPT ![self] = FKeys[self][fi[self]]]
                       /\ pc' = [pc EXCEPT ![self] = "G1"]
                  ELSE /\ pc' = [pc EXCEPT ![self] = "Done"]
                       /\ fk' = fk
            /\ UNCHANGED << nxt, maxh, result, fres, pi, nd, prev, curr, lev, 
                            p, c, mh, lv2, fi, fl, fp, fc >>

G1(self) == /\ pc[self] = "G1"
            /\ fl' = [fl EXCEPT ![self] = maxh]
            /\ fp' = [fp EXCEPT ![self] = 0]
            /\ fc' = [fc EXCEPT ![self] = NIL]
            /\ fres' = [fres EXCEPT ![self] = <<fk[self], {Key[n] : n \in {m \in 1..MaxN : result[m] = "ok"}}, "?">>]
            /\ pc' = [pc EXCEPT ![self] = "G2"]
            /\ UNCHANGED << nxt, maxh, result, pi, nd, prev, curr, lev, p, c, 
                            mh, lv2, fi, fk >>

G2(self) == /\ pc[self] = "G2"
            /\ IF fl[self] = 0
                  THEN /\ fres' = [fres EXCEPT ![self][3] = IF fc[self] # NIL /\ Key[fc[self]] = fk[self] THEN "found" ELSE "absent"]
                       /\ pc' = [pc EXCEPT ![self] = "GEnd"]
                  ELSE /\ pc' = [pc EXCEPT ![self] = "G3"]
                       /\ fres' = fres
            /\ UNCHANGED << nxt, maxh, result, pi, nd, prev, curr, lev, p, c, 
                            mh, lv2, fi, fk, fl, fp, fc >>

G3(self) == /\ pc[self] = "G3"
            /\ fc' = [fc EXCEPT ![self] = nxt[fl[self] - 1][fp[self]]]
            /\ pc' = [pc EXCEPT ![self] = "G4"]
            /\ UNCHANGED << nxt, maxh, result, fres, pi, nd, prev, curr, lev, 
                            p, c, mh, lv2, fi, fk, fl, fp >>

G4(self) == /\ pc[self] = "G4"
            /\ IF fc[self] # NIL /\ Key[fc[self]] < fk[self]
                  THEN /\ fp' = [fp EXCEPT ![self] = fc[self]]
                       /\ pc' = [pc EXCEPT ![self] = "G3"]
                       /\ fl' = fl
                  ELSE /\ fl' = [fl EXCEPT ![self] = fl[self] - 1]
                       /\ pc' = [pc EXCEPT ![self] = "G2"]
                       /\ fp' = fp
            /\ UNCHANGED << nxt, maxh, result, fres, pi, nd, prev, curr, lev, 
                            p, c, mh, lv2, fi, fk, fc >>

GEnd(self) == /\ pc[self] = "GEnd"
              /\ fi' = [fi EXCEPT ![self] = fi[self] + 1]
              /\ pc' = [pc EXCEPT ![self] = "G0"]
              /\ UNCHANGED << nxt, maxh, result, fres, pi, nd, prev, curr, lev, 
                              p, c, mh, lv2, fk, fl, fp, fc >>

r(self) == G0(self) \/ G1(self) \/ G2(self) \/ G3(self) \/ G4(self)
              \/ GEnd(self)

(* Allow infinite stuttering to prevent deadlock on termination. *)
Terminating == /\ \A self \in ProcSet: pc[self] = "Done"
               /\ UNCHANGED vars

Next == (\E self \in Threads: t(self))
           \/ (\E self \in Readers: r(self))
           \/ Terminating

Spec == Init /\ [][Next]_vars

Termination == <>(\A self \in ProcSet: pc[self] = "Done")

\* END TRANSLATION
RECURSIVE Chain(_, _, _)
Chain(l, n, fuel) == IF n = NIL \/ fuel = 0 THEN <<>> ELSE <<n>> \o Chain(l, nxt[l][n], fuel - 1)
List(l) == Tail(Chain(l, 0, MaxN + 2))                                   \* the nodes of level l after the head
SortedNoDup(l) == \A i, j \in DOMAIN List(l) : i < j => Key[List(l)[i]] < Key[List(l)[j]]
Acyclic(l) == Len(Chain(l, 0, MaxN + 2)) < MaxN + 2
Nodes0 == {List(0)[i] : i \in DOMAIN List(0)}
Sublist(l) == {List(l)[i] : i \in DOMAIN List(l)} \subseteq Nodes0
AllNodes == UNION {{Prog[th][i] : i \in DOMAIN Prog[th]} : th \in Threads}
\* an inserted node is in level 0 from the moment its insert reported success (and already from its level-0 CAS on); a refused one never is
Inserted == \A n \in AllNodes : (result[n] = "ok" => n \in Nodes0) /\ (result[n] = "dup" => n \notin Nodes0)
\* at most one node per key is ever linked
OnePerKey == \A a, b \in Nodes0 : a # b => Key[a] # Key[b]
AllDone == \A th \in Threads : pc[th] = "Done"
\* a search that began after an insert of its key returned finds the key; a search that finds a key finds a linked node
FindOK == \A rd \in Readers : fres[rd] # <<>> => /\ (fres[rd][3] = "absent" => fres[rd][1] \notin fres[rd][2])
                                                  /\ (fres[rd][3] = "found" => fres[rd][1] \in {Key[n] : n \in Nodes0})
\* at quiescence: every key that was offered is present exactly once, every node is linked on all its levels
Final == AllDone => /\ {Key[n] : n \in Nodes0} = {Key[n] : n \in AllNodes}
                    /\ \A n \in Nodes0 : \A l \in 0..Height[n]-1 : n \in {List(l)[i] : i \in DOMAIN List(l)}
Structure == \A l \in Levels : Acyclic(l) /\ SortedNoDup(l) /\ Sublist(l)
====
