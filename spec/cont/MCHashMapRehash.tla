---- MODULE MCHashMapRehash ----
EXTENDS HashMapRehash
PA == (1 :> <<<<"insert", 1>>, <<"insert", 2>>, <<"find", 3>>>>) @@ (2 :> <<<<"insert", 3>>, <<"erase", 1>>, <<"find", 2>>>>) @@ (3 :> <<<<"find", 1>>, <<"insert", 1>>, <<"erase", 3>>>>)
PB == (1 :> <<<<"insert", 1>>, <<"insert", 3>>>>) @@ (2 :> <<<<"insert", 1>>, <<"find", 3>>, <<"erase", 3>>>>) @@ (3 :> <<<<"erase", 1>>, <<"insert", 3>>, <<"find", 1>>>>)
====
