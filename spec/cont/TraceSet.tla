------------------------------- MODULE TraceSet -------------------------------
(* Events: Cfg multi ordered | Inv t op k | Res t r | TravB t | TravE t seen | Final seen | Stuck | Crash | Reset ; Lin internal *)
EXTENDS Integers, Sequences, FiniteSets, TLC, Json, IOUtils
TraceLog == ndJsonDeserialize(IOEnv.TRACE)
Threads == 1..4
Keys == 0..40
VARIABLES multi, ordered, cnt, doneCnt, invCnt, pend, trav, l
A == INSTANCE SetAbs
vars == <<multi, ordered, cnt, doneCnt, invCnt, pend, trav, l>>
Ev == TraceLog[l]
Is(e) == l <= Len(TraceLog) /\ TraceLog[l].e = e /\ l' = l + 1
TInit == A!SInit /\ l = 1
TNext == \/ Is("Cfg") /\ A!Configure(Ev.multi = 1, Ev.ordered = 1)
         \/ Is("Inv") /\ A!Invoke(Ev.t, Ev.op, Ev.k)
         \/ Is("Res") /\ A!Respond(Ev.t, Ev.r)
         \/ Is("TravB") /\ A!TravBegin(Ev.t)
         \/ Is("TravE") /\ A!TravEnd(Ev.t, Ev.seen)
         \/ Is("Final") /\ A!FinalOK(Ev.seen) /\ UNCHANGED <<multi, ordered, cnt, doneCnt, invCnt, pend, trav>>
         \/ l <= Len(TraceLog) /\ UNCHANGED l /\ \E t \in Threads : A!Lin(t)
         \/ /\ Is("Reset") /\ multi' = FALSE /\ ordered' = FALSE /\ cnt' = [k \in Keys |-> 0] /\ doneCnt' = [k \in Keys |-> 0]
            /\ invCnt' = [k \in Keys |-> 0] /\ pend' = [t \in Threads |-> A!None] /\ trav' = [t \in Threads |-> A!NoTrav]
TraceSpec == TInit /\ [][TNext]_vars
NotAccepted == l <= Len(TraceLog)
=============================================================================
