---- MODULE TraceAggr ----
\* Verdict for executions of the real aggregator: Inv o (execute called with operation o) | HB t / HE t (thread t's handler invocation begins / ends) |
\* Handled o (the handler published o's status) | Ret o (execute returned) | End | Reset.
\* An operation is handled exactly once, between its Inv and its Ret, inside a handler invocation; handler invocations never overlap; nothing is pending at End.
EXTENDS Integers, Sequences, FiniteSets, TLC, Json, IOUtils
TraceLog == ndJsonDeserialize(IOEnv.TRACE)
VARIABLES inv, done, ret, inH, l
vars == <<inv, done, ret, inH, l>>
Ev == TraceLog[l]
Is(e) == l <= Len(TraceLog) /\ TraceLog[l].e = e /\ l' = l + 1
TInit == inv = {} /\ done = {} /\ ret = {} /\ inH = 0 /\ l = 1
TNext == \/ Is("Inv") /\ Ev.o \notin inv /\ inv' = inv \cup {Ev.o} /\ UNCHANGED <<done, ret, inH>>
         \/ Is("HB") /\ inH = 0 /\ inH' = Ev.t /\ UNCHANGED <<inv, done, ret>>
         \/ Is("HE") /\ inH = Ev.t /\ inH' = 0 /\ UNCHANGED <<inv, done, ret>>
         \/ Is("Handled") /\ inH # 0 /\ Ev.o \in inv /\ Ev.o \notin done /\ Ev.o \notin ret /\ done' = done \cup {Ev.o} /\ UNCHANGED <<inv, ret, inH>>
         \/ Is("Ret") /\ Ev.o \in done /\ Ev.o \notin ret /\ ret' = ret \cup {Ev.o} /\ UNCHANGED <<inv, done, inH>>
         \/ Is("End") /\ inH = 0 /\ done = inv /\ ret = inv /\ UNCHANGED <<inv, done, ret, inH>>
         \/ Is("Reset") /\ inv' = {} /\ done' = {} /\ ret' = {} /\ inH' = 0
TraceSpec == TInit /\ [][TNext]_vars
NotAccepted == l <= Len(TraceLog)
====
