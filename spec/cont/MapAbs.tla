-------------------------------- MODULE MapAbs --------------------------------
(* Abstract specification of property C10: concurrent_hash_map as a linearizable map with per-element reader/writer locks.  *)
(*   present  set of keys in the map                                                                                         *)
(*   pend     per thread, the call in progress (insert / find / erase / count), effective at one internal step Lin(t)         *)
(*   holders  the accessors currently held: set of <<thread, mode, element instance>> ("W" accessor, "R" const_accessor);     *)
(*            element instances are numbered at insertion (a key erased and re-inserted is a new element)                        *)
(* insert -> 1 iff the key was absent (it is then added); find / count -> 1 iff present; erase -> 1 iff present (then removed) *)
(* A call that returns holding an accessor (insert / find with accessor) conflicts with no other holder; the element is not    *)
(* destroyed while any accessor points to it.                                                                                *)
EXTENDS Integers, FiniteSets
CONSTANTS Threads, Keys
VARIABLES present, pend, holders
mvars == <<present, pend, holders>>
None == [op |-> "none", k |-> 0, lin |-> FALSE, out |-> 0]
MInit == present = {} /\ pend = [t \in Threads |-> None] /\ holders = {}
Invoke(t, op, k) == /\ pend[t].op = "none" /\ pend' = [pend EXCEPT ![t] = [op |-> op, k |-> k, lin |-> FALSE, out |-> 0]]
                    /\ UNCHANGED <<present, holders>>
Lin(t) == /\ pend[t].op # "none" /\ ~pend[t].lin
          /\ LET k == pend[t].k IN
             \/ /\ pend[t].op = "insert" /\ k \notin present /\ present' = present \cup {k} /\ pend' = [pend EXCEPT ![t].lin = TRUE, ![t].out = 1]
             \/ /\ pend[t].op = "insert" /\ k \in present /\ present' = present /\ pend' = [pend EXCEPT ![t].lin = TRUE, ![t].out = 0]
             \/ /\ pend[t].op \in {"find", "count"} /\ present' = present
                /\ pend' = [pend EXCEPT ![t].lin = TRUE, ![t].out = IF k \in present THEN 1 ELSE 0]
             \/ /\ pend[t].op = "erase" /\ k \in present /\ present' = present \ {k} /\ pend' = [pend EXCEPT ![t].lin = TRUE, ![t].out = 1]
             \/ /\ pend[t].op = "erase" /\ k \notin present /\ present' = present /\ pend' = [pend EXCEPT ![t].lin = TRUE, ![t].out = 0]
          /\ UNCHANGED holders
\* mode: "N" the call holds no accessor on return, "W" accessor, "R" const_accessor; g = the element instance it points to
Respond(t, r, mode, g) ==
    /\ pend[t].op # "none" /\ pend[t].lin /\ pend[t].out = r
    /\ IF mode = "N" THEN holders' = holders
       ELSE /\ \A h \in holders : h[3] = g => (mode = "R" /\ h[2] = "R")       \* no conflicting accessor on this element is held by anybody
            /\ holders' = holders \cup {<<t, mode, g>>}
    /\ pend' = [pend EXCEPT ![t] = None] /\ UNCHANGED present
Release(t, g) == /\ \E h \in holders : h[1] = t /\ h[3] = g
                 /\ holders' = {h \in holders : ~(h[1] = t /\ h[3] = g)} /\ UNCHANGED <<present, pend>>
\* element instance g is destroyed: nobody may hold an accessor to it
Destroy(g) == (\A h \in holders : h[3] # g) /\ UNCHANGED mvars
FinalOK(keys) == keys = present
=============================================================================
