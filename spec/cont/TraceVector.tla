----------------------------- MODULE TraceVector -----------------------------
(* Trace validation of recorded concurrent_vector executions against VectorAbs.                                      *)
(* Events: Grow t start n v | Gtal t n v size alloc | GtalBig k r ok | Final size vals moved | Seg k r seg off pow |   *)
(*         Fault kind k | Throw t | Access i r | Destroyed | Stuck | Crash | Reset                                     *)
EXTENDS Integers, Sequences, FiniteSets, TLC, Json, IOUtils
TraceLog == ndJsonDeserialize(IOEnv.TRACE)
VARIABLES grows, gtals, l
A == INSTANCE VectorAbs
vars == <<grows, gtals, l>>
Ev == TraceLog[l]
Is(e) == l <= Len(TraceLog) /\ TraceLog[l].e = e /\ l' = l + 1
TInit == A!VInit /\ l = 1
TGrow == Is("Grow") /\ A!Grow(Ev.t, Ev.start, Ev.n, Ev.v)
TGtal == Is("Gtal") /\ A!Gtal(Ev.t, Ev.n, Ev.v, Ev.size, Ev.alloc)
TFinal == Is("Final") /\ A!FinalOK(Ev.size, Ev.vals, Ev.moved) /\ UNCHANGED <<grows, gtals>>
TSeg == Is("Seg") /\ A!SegOK(Ev.k, Ev.r, Ev.seg, Ev.off, Ev.pow) /\ UNCHANGED <<grows, gtals>>
TBig == Is("GtalBig") /\ Ev.ok = 1 /\ UNCHANGED <<grows, gtals>>
\* events of fault-injection executions that carry no obligation beyond "no Crash / no Stuck"
\* after a failed growth every slot below size() is either a constructed element or was zero-filled by the vector (c = 1 / 2; 0 = the access threw), and
\* the destructor of the vector never runs on a slot that is neither (garbage = 0): "the vector remains destructible, later accesses succeed or throw"
TFree == (Is("Fault") \/ Is("Throw") \/ (Is("Access") /\ Ev.c # 3) \/ (Is("Destroyed") /\ Ev.garbage = 0)) /\ UNCHANGED <<grows, gtals>>
TReset == Is("Reset") /\ grows' = {} /\ gtals' = {}
TNext == TGrow \/ TGtal \/ TFinal \/ TSeg \/ TBig \/ TFree \/ TReset
TraceSpec == TInit /\ [][TNext]_vars
NotAccepted == l <= Len(TraceLog)
=============================================================================
