SPECIFICATION Spec
CONSTANT Threads = {1, 2}
CONSTANT NOps = 2
INVARIANT OneHandler
INVARIANT ExactlyOnce
INVARIANT ReturnAfterHandled
INVARIANT Quiescent
CHECK_DEADLOCK FALSE
