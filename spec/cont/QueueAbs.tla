------------------------------ MODULE QueueAbs ------------------------------
(***************************************************************************)
(* Abstract specification of property C09: concurrent_queue /               *)
(* concurrent_bounded_queue as a linearizable FIFO queue, over call         *)
(* invocations and responses.  Each pending call takes effect at one        *)
(* internal step Lin(t) between its invocation and its response.            *)
(*   q      abstract queue contents                                         *)
(*   cap    capacity (0 = unbounded)                                        *)
(*   pend   per thread: the call in progress                                *)
(*            op  \in {"none","push","try_push","pop","try_pop","abort"}    *)
(*            lin   has taken effect; out = result fixed at Lin             *)
(*            ab    an abort() took effect while the call was pending and   *)
(*                  not yet linearized (it may answer user_abort)           *)
(* Results: push/try_push 1 = stored, 0 = full (try only), -1 = user_abort, *)
(* -2 = exception (only in executions with injected faults: the element     *)
(* copy or the page allocation threw; the value is then NOT stored);        *)
(* pop/try_pop: the value (>0), 0 = empty (try only), -1 = user_abort,      *)
(* -2 = the assignment of the popped item threw (faults only; the item is   *)
(* consumed).                                                               *)
(***************************************************************************)
EXTENDS Integers, Sequences, FiniteSets
CONSTANT Threads
VARIABLES q, cap, faults, pend
qvars == <<q, cap, faults, pend>>
None == [op |-> "none", v |-> 0, lin |-> FALSE, out |-> 0, ab |-> FALSE]
QInit == q = <<>> /\ cap = 0 /\ faults = FALSE /\ pend = [t \in Threads |-> None]

Configure(c, f) == cap' = c /\ faults' = f /\ UNCHANGED <<q, pend>>
Invoke(t, op, v) == /\ pend[t].op = "none"
                    /\ pend' = [pend EXCEPT ![t] = [op |-> op, v |-> v, lin |-> FALSE, out |-> 0, ab |-> FALSE]]
                    /\ UNCHANGED <<q, cap, faults>>
Full == cap > 0 /\ Len(q) >= cap
Lin(t) ==
    /\ pend[t].op # "none" /\ ~pend[t].lin
    /\ \/ /\ pend[t].op \in {"push", "try_push"} /\ ~Full
          /\ q' = Append(q, pend[t].v) /\ pend' = [pend EXCEPT ![t].lin = TRUE, ![t].out = 1]
       \/ /\ pend[t].op = "try_push" /\ Full                      \* try_push fails only when it was full
          /\ q' = q /\ pend' = [pend EXCEPT ![t].lin = TRUE, ![t].out = 0]
       \/ /\ pend[t].op \in {"push", "try_push"} /\ faults         \* injected exception: the value is not stored
          /\ q' = q /\ pend' = [pend EXCEPT ![t].lin = TRUE, ![t].out = -2]
       \/ /\ pend[t].op \in {"pop", "try_pop"} /\ q # <<>>
          /\ q' = Tail(q) /\ pend' = [pend EXCEPT ![t].lin = TRUE, ![t].out = Head(q)]
       \/ /\ pend[t].op \in {"pop", "try_pop"} /\ q # <<>> /\ faults    \* injected exception in the assignment of the popped item: the item is consumed
          /\ q' = Tail(q) /\ pend' = [pend EXCEPT ![t].lin = TRUE, ![t].out = -2]
       \/ /\ pend[t].op = "try_pop" /\ q = <<>>                    \* reports empty only if it was empty at some instant of the call
          /\ q' = q /\ pend' = [pend EXCEPT ![t].lin = TRUE, ![t].out = 0]
       \/ /\ pend[t].op = "abort"                                  \* abort(): every blocked (pending, not yet effective) push/pop may answer user_abort
          /\ q' = q
          /\ pend' = [u \in Threads |-> IF u = t THEN [pend[u] EXCEPT !.lin = TRUE, !.out = 1]
                                        ELSE IF pend[u].op \in {"push", "pop"} /\ ~pend[u].lin THEN [pend[u] EXCEPT !.ab = TRUE] ELSE pend[u]]
    /\ UNCHANGED <<cap, faults>>
Respond(t, r) ==
    /\ pend[t].op # "none"
    /\ \/ pend[t].lin /\ pend[t].out = r
       \/ r = -1 /\ ~pend[t].lin /\ pend[t].ab                     \* user_abort: woken by an abort, took no effect
    /\ pend' = [pend EXCEPT ![t] = None]
    /\ UNCHANGED <<q, cap, faults>>
SizeOK == cap > 0 => Len(q) <= cap
=============================================================================
