---- MODULE AggrCore ----
\* aggregator_generic::execute / start_handle_operations (include/oneapi/tbb/detail/_aggregator.h:66-132) at shared-access granularity, with a handler that
\* walks the batch in list order (read next, then publish the status - after the status store the operation object may be gone).  This is the mechanism under
\* concurrent_priority_queue, the flow-graph node bodies (function_input, buffers, joins) and the concurrent LRU cache; the model is replayed edge-complete on
\* the real template (h_aggr).  Operation k of thread t has id t*10+k; 0 = null.
\*   execute:  status.load; res = pending.load; do { op.next = res } while (!pending.CAS(res, op));  first in the list -> start_handle_operations, else spin on status
\*   start_handle_operations:  spin until handler_busy = 0; handler_busy = 1; list = pending.exchange(null); handle(list); handler_busy.store(0, release)
\* Properties: one handler at a time; every operation is handled exactly once; an operation's caller returns only after it was handled; nothing is left
\* pending at quiescence.
EXTENDS Integers, Sequences, FiniteSets, TLC
CONSTANTS Threads, NOps
Ids == {t * 10 + k : t \in Threads, k \in 1..NOps}
(* --algorithm aggr {
  variables pending = 0, busy = 0, nxt = [o \in Ids |-> 0], status = [o \in Ids |-> 0],
            handled = [o \in Ids |-> 0], inHandler = {}, returned = {};
  process (t \in Threads)
    variables k = 1, op = 0, res = 0, b = 0, cur = 0, n = 0, st = 0, first = FALSE;
  {
  L0: while (k <= NOps) {
        op := self * 10 + k;
    a0: st := status[op];                                    \* const uintptr_t status = op->status.load(relaxed)
    a1: res := pending;                                      \* pending_operations.load(relaxed)
    a2: nxt[op] := res;                                      \* op->next.store(res, relaxed)
    a3: if (pending = res) { pending := op; first := (res = 0) } else { res := pending; goto a2 };     \* compare_exchange_strong(res, op)
    a4: if (first) { goto h1 } else { goto w1 };
    \* ---- first in the list: handle the batch
    h1: b := busy;                                           \* spin_wait_until_eq(handler_busy, 0)
        if (b # 0) { goto h1 };
    h2: busy := 1; inHandler := inHandler \cup {self};       \* handler_busy.store(1, relaxed)
    h3: cur := pending; pending := 0;                        \* op_list = pending_operations.exchange(nullptr)
    h4: if (cur = 0) { goto h7 } else { goto h5 };
    h5: n := nxt[cur];                                       \* tmp = op_list; op_list = op_list->next.load(relaxed)
    h6: status[cur] := 1; handled[cur] := handled[cur] + 1; cur := n; goto h4;      \* tmp->status.store(SUCCEEDED, release)
    h7: inHandler := inHandler \ {self}; busy := 0; goto Fin;                       \* handler_busy.store(0, release)
    \* ---- not first: wait for the handler to publish the status
    w1: st := status[op];                                    \* spin_wait_while_eq(op->status, 0)
        if (st = 0) { goto w1 };
    Fin: returned := returned \cup {op}; k := k + 1;
    }
  }
} *)
\* BEGIN TRANSLATION
VARIABLES pc, pending, busy, nxt, status, handled, inHandler, returned, k, op, 
          res, b, cur, n, st, first

vars == << pc, pending, busy, nxt, status, handled, inHandler, returned, k, 
           op, res, b, cur, n, st, first >>

ProcSet == (Threads)

Init == (* Global variables *)
        /\ pending = 0
        /\ busy = 0
        /\ nxt = [o \in Ids |-> 0]
        /\ status = [o \in Ids |-> 0]
        /\ handled = [o \in Ids |-> 0]
        /\ inHandler = {}
        /\ returned = {}
        (* Process t *)
        /\ k = [self \in Threads |-> 1]
        /\ op = [self \in Threads |-> 0]
        /\ res = [self \in Threads |-> 0]
        /\ b = [self \in Threads |-> 0]
        /\ cur = [self \in Threads |-> 0]
        /\ n = [self \in Threads |-> 0]
        /\ st = [self \in Threads |-> 0]
        /\ first = [self \in Threads |-> FALSE]
        /\ pc = [self \in ProcSet |-> "L0"]

L0(self) == /\ pc[self] = "L0"
            /\ IF k[self] <= NOps
                  THEN /\ op' = [op EXCEPT ![self] = self * 10 + k[self]]
                       /\ pc' = [pc EXCEPT ![self] = "a0"]
                  ELSE /\ pc' = [pc EXCEPT ![self] = "Done"]
                       /\ op' = op
            /\ UNCHANGED << pending, busy, nxt, status, handled, inHandler, 
                            returned, k, res, b, cur, n, st, first >>

a0(self) == /\ pc[self] = "a0"
            /\ st' = [st EXCEPT ![self] = status[op[self]]]
            /\ pc' = [pc EXCEPT ![self] = "a1"]
            /\ UNCHANGED << pending, busy, nxt, status, handled, inHandler, 
                            returned, k, op, res, b, cur, n, first >>

a1(self) == /\ pc[self] = "a1"
            /\ res' = [res EXCEPT ![self] = pending]
            /\ pc' = [pc EXCEPT ![self] = "a2"]
            /\ UNCHANGED << pending, busy, nxt, status, handled, inHandler, 
                            returned, k, op, b, cur, n, st, first >>

a2(self) == /\ pc[self] = "a2"
            /\ nxt' = [nxt EXCEPT ![op[self]] = res[self]]
            /\ pc' = [pc EXCEPT ![self] = "a3"]
            /\ UNCHANGED << pending, busy, status, handled, inHandler, 
                            returned, k, op, res, b, cur, n, st, first >>

a3(self) == /\ pc[self] = "a3"
            /\ IF pending = res[self]
                  THEN /\ pending' = op[self]
                       /\ first' = [first EXCEPT ![self] = (res[self] = 0)]
                       /\ pc' = [pc EXCEPT ![self] = "a4"]
                       /\ res' = res
                  ELSE /\ res' = [res EXCEPT ![self] = pending]
                       /\ pc' = [pc EXCEPT ![self] = "a2"]
                       /\ UNCHANGED << pending, first >>
            /\ UNCHANGED << busy, nxt, status, handled, inHandler, returned, k, 
                            op, b, cur, n, st >>

a4(self) == /\ pc[self] = "a4"
            /\ IF first[self]
                  THEN /\ pc' = [pc EXCEPT ![self] = "h1"]
                  ELSE /\ pc' = [pc EXCEPT ![self] = "w1"]
            /\ UNCHANGED << pending, busy, nxt, status, handled, inHandler, 
                            returned, k, op, res, b, cur, n, st, first >>

h1(self) == /\ pc[self] = "h1"
            /\ b' = [b EXCEPT ![self] = busy]
            /\ IF b'[self] # 0
                  THEN /\ pc' = [pc EXCEPT ![self] = "h1"]
                  ELSE /\ pc' = [pc EXCEPT ![self] = "h2"]
            /\ UNCHANGED << pending, busy, nxt, status, handled, inHandler, 
                            returned, k, op, res, cur, n, st, first >>

h2(self) == /\ pc[self] = "h2"
            /\ busy' = 1
            /\ inHandler' = (inHandler \cup {self})
            /\ pc' = [pc EXCEPT ![self] = "h3"]
            /\ UNCHANGED << pending, nxt, status, handled, returned, k, op, 
                            res, b, cur, n, st, first >>

h3(self) == /\ pc[self] = "h3"
            /\ cur' = [cur EXCEPT ![self] = pending]
            /\ pending' = 0
            /\ pc' = [pc EXCEPT ![self] = "h4"]
            /\ UNCHANGED << busy, nxt, status, handled, inHandler, returned, k, 
                            op, res, b, n, st, first >>

h4(self) == /\ pc[self] = "h4"
            /\ IF cur[self] = 0
                  THEN /\ pc' = [pc EXCEPT ![self] = "h7"]
                  ELSE /\ pc' = [pc EXCEPT ![self] = "h5"]
            /\ UNCHANGED << pending, busy, nxt, status, handled, inHandler, 
                            returned, k, op, res, b, cur, n, st, first >>

h5(self) == /\ pc[self] = "h5"
            /\ n' = [n EXCEPT ![self] = nxt[cur[self]]]
            /\ pc' = [pc EXCEPT ![self] = "h6"]
            /\ UNCHANGED << pending, busy, nxt, status, handled, inHandler, 
                            returned, k, op, res, b, cur, st, first >>

h6(self) == /\ pc[self] = "h6"
            /\ status' = [status EXCEPT ![cur[self]] = 1]
            /\ handled' = [handled EXCEPT ![cur[self]] = handled[cur[self]] + 1]
            /\ cur' = [cur EXCEPT ![self] = n[self]]
            /\ pc' = [pc EXCEPT ![self] = "h4"]
            /\ UNCHANGED << pending, busy, nxt, inHandler, returned, k, op, 
                            res, b, n, st, first >>

h7(self) == /\ pc[self] = "h7"
            /\ inHandler' = inHandler \ {self}
            /\ busy' = 0
            /\ pc' = [pc EXCEPT ![self] = "Fin"]
            /\ UNCHANGED << pending, nxt, status, handled, returned, k, op, 
                            res, b, cur, n, st, first >>

w1(self) == /\ pc[self] = "w1"
            /\ st' = [st EXCEPT ![self] = status[op[self]]]
            /\ IF st'[self] = 0
                  THEN /\ pc' = [pc EXCEPT ![self] = "w1"]
                  ELSE /\ pc' = [pc EXCEPT ![self] = "Fin"]
            /\ UNCHANGED << pending, busy, nxt, status, handled, inHandler, 
                            returned, k, op, res, b, cur, n, first >>

Fin(self) == /\ pc[self] = "Fin"
             /\ returned' = (returned \cup {op[self]})
             /\ k' = [k EXCEPT ![self] = k[self] + 1]
             /\ pc' = [pc EXCEPT ![self] = "L0"]
             /\ UNCHANGED << pending, busy, nxt, status, handled, inHandler, 
                             op, res, b, cur, n, st, first >>

t(self) == L0(self) \/ a0(self) \/ a1(self) \/ a2(self) \/ a3(self)
              \/ a4(self) \/ h1(self) \/ h2(self) \/ h3(self) \/ h4(self)
              \/ h5(self) \/ h6(self) \/ h7(self) \/ w1(self) \/ Fin(self)

(* Allow infinite stuttering to prevent deadlock on termination. *)
Terminating == /\ \A self \in ProcSet: pc[self] = "Done"
               /\ UNCHANGED vars

Next == (\E self \in Threads: t(self))
           \/ Terminating

Spec == Init /\ [][Next]_vars

Termination == <>(\A self \in ProcSet: pc[self] = "Done")

\* END TRANSLATION
OneHandler == Cardinality(inHandler) <= 1
ExactlyOnce == \A o \in Ids : handled[o] <= 1
ReturnAfterHandled == \A o \in returned : handled[o] = 1
AllDone == \A th \in Threads : pc[th] = "Done"
Quiescent == AllDone => pending = 0 /\ busy = 0 /\ \A o \in Ids : handled[o] = 1
====
