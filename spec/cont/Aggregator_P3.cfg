SPECIFICATION Spec
CONSTANT Threads = {1,2,3}
CONSTANT Prog <- P3
INVARIANT HandledOnce
INVARIANT OneHandler
INVARIANT Conservation
