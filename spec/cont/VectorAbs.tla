------------------------------ MODULE VectorAbs ------------------------------
(***************************************************************************)
(* Abstract specification of property C11 over observable events.           *)
(*   grows   completed push_back / emplace_back / grow_by calls: the index  *)
(*           range each received and the value it constructed there         *)
(*   gtals   completed grow_to_at_least(n, v) calls                         *)
(* At quiescence the ranges handed out are pairwise disjoint, together with *)
(* the elements appended by grow_to_at_least calls they tile [0,size()),    *)
(* every element carries the value of the call that owns its index, and no  *)
(* element has moved (moved = 0: every address sampled when a call returned *)
(* is still the address of that element).  grow_to_at_least(n) returns only *)
(* when size() >= n and every element below n is allocated (elements under  *)
(* construction by other threads are documented not to be awaited).         *)
(* Index arithmetic: index 2^k + r lies in segment k at offset r.           *)
(* After an injected failure only crash-freedom of accesses/destruction is  *)
(* demanded: Crash and Stuck events are consumed by no action.              *)
(***************************************************************************)
EXTENDS Integers, Sequences, FiniteSets
VARIABLES grows, gtals
vvars == <<grows, gtals>>
VInit == grows = {} /\ gtals = {}
Grow(t, s, n, v) == /\ n > 0 /\ s >= 0
                    /\ \A g \in grows : g.start + g.n <= s \/ s + n <= g.start        \* disjoint from every earlier range
                    /\ grows' = grows \cup {[t |-> t, start |-> s, n |-> n, v |-> v]} /\ UNCHANGED gtals
Gtal(t, n, v, sizeAfter, allocated) ==
                    /\ sizeAfter >= n /\ allocated = 1
                    /\ gtals' = gtals \cup {[t |-> t, n |-> n, v |-> v]} /\ UNCHANGED grows
Cover(i) == {g \in grows : g.start <= i /\ i < g.start + g.n}
FinalOK(size, vals, moved) ==
    /\ moved = 0 /\ Len(vals) = size
    /\ \A g \in grows : g.start + g.n <= size
    /\ \A h \in gtals : h.n <= size
    /\ \A i \in 0..(size - 1) :
          \/ Cardinality(Cover(i)) = 1 /\ \A g \in Cover(i) : vals[i + 1] = g.v
          \/ Cover(i) = {} /\ \E h \in gtals : i < h.n /\ vals[i + 1] = h.v
\* segment arithmetic: index 2^k + r (k >= 1; r given by code: 0, 1, 2 = 2^k - 1) is in segment k at offset r; indices 0,1 in segment 0
SegOK(k, rcode, seg, offcode, size_is_pow) == seg = k /\ offcode = rcode /\ size_is_pow = 1
=============================================================================
