---------------------------- MODULE HashMapRehash ----------------------------
(***************************************************************************)
(* Protocol specification (critical-section granularity) of                  *)
(* concurrent_hash_map growth and lazy rehashing                             *)
(* (include/oneapi/tbb/concurrent_hash_map.h: lookup / internal_insert /     *)
(* erase, bucket_accessor::acquire, rehash_bucket, check_mask_race /         *)
(* check_rehashing_collision, segment enabling in insert_new_node).          *)
(* The table has mask 0 (one bucket) and may grow once to mask 1; bucket 1   *)
(* is created with the rehash_req marker and is split from its parent        *)
(* (bucket 0) lazily by the first thread that acquires it.  An operation      *)
(* reads the mask, locks the bucket for h & mask, rehashes it if required,    *)
(* and after searching re-reads the mask: if the mask moved and the key now   *)
(* belongs to a bucket that is already rehashed, it restarts.                 *)
(* Hash(k) = k % 2.  Ghost: present (the linearized abstract map) and the     *)
(* result each call must return - refinement of MapAbs at the instant the     *)
(* operation acts on its bucket under the bucket lock.                        *)
(***************************************************************************)
EXTENDS Naturals, Sequences, FiniteSets, TLC
CONSTANTS Threads, Prog, GrowAt
H(k) == k % 2
(* --algorithm hmrehash {
  variables mask = 0, bkt = [bb \in 0..1 |-> IF bb = 0 THEN {} ELSE {99}],     \* {99} stands for the rehash_req marker
            lock = [bb \in 0..1 |-> 0], size = 0, growing = FALSE,
            present = {}, bad = FALSE;
  define { RehashReq(bb) == bkt[bb] = {99} }
  process (thr \in Threads)
    variables i = 1, op = <<>>, k = 0, m = 0, b = 0, r = 0, exp = 0;
  {
  Loop: while (i <= Len(Prog[self])) {
      op := Prog[self][i]; k := op[2];
    o1: m := mask;                                                      \* my_mask.load(acquire)
    o2: b := IF m = 0 THEN 0 ELSE H(k);
        await lock[b] = 0; lock[b] := self;                             \* bucket_accessor: acquire the bucket lock
    o3: if (RehashReq(b)) {                                             \* rehash_bucket under the parent's lock
          await lock[0] = 0 \/ lock[0] = self;
          bkt := [x \in 0..1 |-> IF x = 1 THEN {y \in bkt[0] : H(y) = 1} ELSE {y \in bkt[0] : H(y) = 0}];
        };
    o4: \* search / modify the bucket: this is the linearization point unless the mask race forces a restart
        if (k \in bkt[b]) { r := 1 } else { r := 0 };
        if (r = 0 /\ mask # m /\ (IF mask = 0 THEN 0 ELSE H(k)) # b /\ ~RehashReq(IF mask = 0 THEN 0 ELSE H(k))) {
          lock[b] := 0; goto o1;                                        \* check_mask_race: the key may live in the new bucket
        };
    o5: exp := IF k \in present THEN 1 ELSE 0;
        if (op[1] = "insert") {
          bad := bad \/ (r = 1) # (exp = 1);
          if (r = 0) { bkt[b] := bkt[b] \cup {k}; present := present \cup {k}; size := size + 1; r := 1 } else { r := 0 };
        } else if (op[1] = "find") { bad := bad \/ r # exp }
        else { bad := bad \/ r # exp; if (r = 1) { bkt[b] := bkt[b] \ {k}; present := present \ {k}; size := size - 1 } };
        lock[b] := 0;
    o6: if (op[1] = "insert" /\ r = 1 /\ size >= GrowAt /\ mask = 0 /\ ~growing) { growing := TRUE; goto o7 } else { goto Fin };
    o7: mask := 1;                                                      \* enable the new segment (its buckets carry rehash_req), then publish the mask
  Fin: i := i + 1;
    }
  }
} *)
\* BEGIN TRANSLATION
VARIABLES pc, mask, bkt, lock, size, growing, present, bad

(* define statement *)
RehashReq(bb) == bkt[bb] = {99}

VARIABLES i, op, k, m, b, r, exp

vars == << pc, mask, bkt, lock, size, growing, present, bad, i, op, k, m, b, 
           r, exp >>

ProcSet == (Threads)

Init == (* Global variables *)
        /\ mask = 0
        /\ bkt = [bb \in 0..1 |-> IF bb = 0 THEN {} ELSE {99}]
        /\ lock = [bb \in 0..1 |-> 0]
        /\ size = 0
        /\ growing = FALSE
        /\ present = {}
        /\ bad = FALSE
        (* Process thr *)
        /\ i = [self \in Threads |-> 1]
        /\ op = [self \in Threads |-> <<>>]
        /\ k = [self \in Threads |-> 0]
        /\ m = [self \in Threads |-> 0]
        /\ b = [self \in Threads |-> 0]
        /\ r = [self \in Threads |-> 0]
        /\ exp = [self \in Threads |-> 0]
        /\ pc = [self \in ProcSet |-> "Loop"]

Loop(self) == /\ pc[self] = "Loop"
              /\ IF i[self] <= Len(Prog[self])
                    THEN /\ op' = [op EXCEPT ![self] = Prog[self][i[self]]]
                         /\ k' = [k EXCEPT ![self] = op'[self][2]]
                         /\ pc' = [pc EXCEPT ![self] = "o1"]
                    ELSE /\ pc' = [pc EXCEPT ![self] = "Done"]
                         /\ UNCHANGED << op, k >>
              /\ UNCHANGED << mask, bkt, lock, size, growing, present, bad, i, 
                              m, b, r, exp >>

o1(self) == /\ pc[self] = "o1"
            /\ m' = [m EXCEPT ![self] = mask]
            /\ pc' = [pc EXCEPT ![self] = "o2"]
            /\ UNCHANGED << mask, bkt, lock, size, growing, present, bad, i, 
                            op, k, b, r, exp >>

o2(self) == /\ pc[self] = "o2"
            /\ b' = [b EXCEPT ![self] = IF m[self] = 0 THEN 0 ELSE H(k[self])]
            /\ lock[b'[self]] = 0
            /\ lock' = [lock EXCEPT ![b'[self]] = self]
            /\ pc' = [pc EXCEPT ![self] = "o3"]
            /\ UNCHANGED << mask, bkt, size, growing, present, bad, i, op, k, 
                            m, r, exp >>

o3(self) == /\ pc[self] = "o3"
            /\ IF RehashReq(b[self])
                  THEN /\ lock[0] = 0 \/ lock[0] = self
                       /\ bkt' = [x \in 0..1 |-> IF x = 1 THEN {y \in bkt[0] : H(y) = 1} ELSE {y \in bkt[0] : H(y) = 0}]
                  ELSE /\ TRUE
                       /\ bkt' = bkt
            /\ pc' = [pc EXCEPT ![self] = "o4"]
            /\ UNCHANGED << mask, lock, size, growing, present, bad, i, op, k, 
                            m, b, r, exp >>

o4(self) == /\ pc[self] = "o4"
            /\ IF k[self] \in bkt[b[self]]
                  THEN /\ r' = [r EXCEPT ![self] = 1]
                  ELSE /\ r' = [r EXCEPT ![self] = 0]
            /\ IF r'[self] = 0 /\ mask # m[self] /\ (IF mask = 0 THEN 0 ELSE H(k[self])) # b[self] /\ ~RehashReq(IF mask = 0 THEN 0 ELSE H(k[self]))
                  THEN /\ lock' = [lock EXCEPT ![b[self]] = 0]
                       /\ pc' = [pc EXCEPT ![self] = "o1"]
                  ELSE /\ pc' = [pc EXCEPT ![self] = "o5"]
                       /\ lock' = lock
            /\ UNCHANGED << mask, bkt, size, growing, present, bad, i, op, k, 
                            m, b, exp >>

o5(self) == /\ pc[self] = "o5"
            /\ exp' = [exp EXCEPT ![self] = IF k[self] \in present THEN 1 ELSE 0]
            /\ IF op[self][1] = "insert"
                  THEN /\ bad' = (bad \/ (r[self] = 1) # (exp'[self] = 1))
                       /\ IF r[self] = 0
                             THEN /\ bkt' = [bkt EXCEPT ![b[self]] = bkt[b[self]] \cup {k[self]}]
                                  /\ present' = (present \cup {k[self]})
                                  /\ size' = size + 1
                                  /\ r' = [r EXCEPT ![self] = 1]
                             ELSE /\ r' = [r EXCEPT ![self] = 0]
                                  /\ UNCHANGED << bkt, size, present >>
                  ELSE /\ IF op[self][1] = "find"
                             THEN /\ bad' = (bad \/ r[self] # exp'[self])
                                  /\ UNCHANGED << bkt, size, present >>
                             ELSE /\ bad' = (bad \/ r[self] # exp'[self])
                                  /\ IF r[self] = 1
                                        THEN /\ bkt' = [bkt EXCEPT ![b[self]] = bkt[b[self]] \ {k[self]}]
                                             /\ present' = present \ {k[self]}
                                             /\ size' = size - 1
                                        ELSE /\ TRUE
                                             /\ UNCHANGED << bkt, size, 
                                                             present >>
                       /\ r' = r
            /\ lock' = [lock EXCEPT ![b[self]] = 0]
            /\ pc' = [pc EXCEPT ![self] = "o6"]
            /\ UNCHANGED << mask, growing, i, op, k, m, b >>

o6(self) == /\ pc[self] = "o6"
            /\ IF op[self][1] = "insert" /\ r[self] = 1 /\ size >= GrowAt /\ mask = 0 /\ ~growing
                  THEN /\ growing' = TRUE
                       /\ pc' = [pc EXCEPT ![self] = "o7"]
                  ELSE /\ pc' = [pc EXCEPT ![self] = "Fin"]
                       /\ UNCHANGED growing
            /\ UNCHANGED << mask, bkt, lock, size, present, bad, i, op, k, m, 
                            b, r, exp >>

o7(self) == /\ pc[self] = "o7"
            /\ mask' = 1
            /\ pc' = [pc EXCEPT ![self] = "Fin"]
            /\ UNCHANGED << bkt, lock, size, growing, present, bad, i, op, k, 
                            m, b, r, exp >>

Fin(self) == /\ pc[self] = "Fin"
             /\ i' = [i EXCEPT ![self] = i[self] + 1]
             /\ pc' = [pc EXCEPT ![self] = "Loop"]
             /\ UNCHANGED << mask, bkt, lock, size, growing, present, bad, op, 
                             k, m, b, r, exp >>

thr(self) == Loop(self) \/ o1(self) \/ o2(self) \/ o3(self) \/ o4(self)
                \/ o5(self) \/ o6(self) \/ o7(self) \/ Fin(self)

(* Allow infinite stuttering to prevent deadlock on termination. *)
Terminating == /\ \A self \in ProcSet: pc[self] = "Done"
               /\ UNCHANGED vars

Next == (\E self \in Threads: thr(self))
           \/ Terminating

Spec == Init /\ [][Next]_vars

Termination == <>(\A self \in ProcSet: pc[self] = "Done")

\* END TRANSLATION
\* every call returned what the abstract map says at its linearization point
Linearizable == ~bad
\* no key is lost, duplicated or resurrected by the lazy rehash
Stored == UNION {IF RehashReq(x) THEN {} ELSE bkt[x] : x \in 0..1}
NoLossNoDup == /\ (\A t \in Threads : pc[t] \notin {"o5"}) => TRUE
               /\ (\A x \in 0..1 : lock[x] = 0) => Stored = present
               /\ (~RehashReq(0) /\ ~RehashReq(1)) => bkt[0] \cap bkt[1] = {}
=============================================================================
