SPECIFICATION Spec
CONSTANT Threads = {1,2,3}
CONSTANT Prog <- PA
CONSTANT GrowAt = 2
INVARIANT Linearizable
INVARIANT NoLossNoDup
