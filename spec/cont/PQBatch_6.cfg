SPECIFICATION Spec
CONSTANT Values = {1, 2, 3}
CONSTANT MaxLen = 6
CONSTANT MaxBatch = 3
INVARIANT HeapOK
PROPERTY StepOK
CHECK_DEADLOCK FALSE
