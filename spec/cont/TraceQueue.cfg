SPECIFICATION TraceSpec
INVARIANT NotAccepted
INVARIANT SizeOK
CHECK_DEADLOCK FALSE
