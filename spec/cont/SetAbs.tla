-------------------------------- MODULE SetAbs --------------------------------
(* Abstract specification of property C12: insert-only concurrent associative containers (unordered / ordered, unique / multi). *)
(*   cnt      per key, the number of successful inserts linearized so far                                                       *)
(*   doneCnt  per key, the number of successful inserts whose call has RETURNED                                                  *)
(*   pend     per thread, the call in progress (insert / find / count), effective at one internal step Lin(t)                    *)
(*   trav     per thread, a traversal in progress: the snapshot of doneCnt taken when it began and the keys visited so far       *)
(* unique containers: insert -> 1 iff absent; multi containers: insert -> 1 always.  find -> 1 iff present.                      *)
(* A traversal visits every element that was present before it began at least... exactly once (a unique key at most once, a      *)
(* multi key at most as often as it was ever inserted), nothing that was never inserted, ordered containers in comparator order. *)
EXTENDS Integers, Sequences, FiniteSets
CONSTANTS Threads, Keys
VARIABLES multi, ordered, cnt, doneCnt, invCnt, pend, trav
svars == <<multi, ordered, cnt, doneCnt, invCnt, pend, trav>>
None == [op |-> "none", k |-> 0, lin |-> FALSE, out |-> 0]
NoTrav == [on |-> FALSE, snap |-> [k \in Keys |-> 0], seen |-> <<>>]
SInit == /\ multi = FALSE /\ ordered = FALSE /\ cnt = [k \in Keys |-> 0] /\ doneCnt = [k \in Keys |-> 0] /\ invCnt = [k \in Keys |-> 0]
         /\ pend = [t \in Threads |-> None] /\ trav = [t \in Threads |-> NoTrav]
Configure(m, o) == multi' = m /\ ordered' = o /\ UNCHANGED <<cnt, doneCnt, invCnt, pend, trav>>
Invoke(t, op, k) == /\ pend[t].op = "none" /\ pend' = [pend EXCEPT ![t] = [op |-> op, k |-> k, lin |-> FALSE, out |-> 0]]
                    /\ invCnt' = IF op = "insert" THEN [invCnt EXCEPT ![k] = @ + 1] ELSE invCnt
                    /\ UNCHANGED <<multi, ordered, cnt, doneCnt, trav>>
Lin(t) == /\ pend[t].op # "none" /\ ~pend[t].lin
          /\ LET k == pend[t].k IN
             \/ /\ pend[t].op = "insert" /\ (multi \/ cnt[k] = 0) /\ cnt' = [cnt EXCEPT ![k] = @ + 1] /\ pend' = [pend EXCEPT ![t].lin = TRUE, ![t].out = 1]
             \/ /\ pend[t].op = "insert" /\ ~multi /\ cnt[k] > 0 /\ cnt' = cnt /\ pend' = [pend EXCEPT ![t].lin = TRUE, ![t].out = 0]
             \/ /\ pend[t].op = "find" /\ cnt' = cnt /\ pend' = [pend EXCEPT ![t].lin = TRUE, ![t].out = IF cnt[k] > 0 THEN 1 ELSE 0]
             \/ /\ pend[t].op = "count" /\ cnt' = cnt                      \* presence is linearizable; the multiplicity reported for a multi container
                /\ \E c \in 0..8 : /\ (c > 0) = (cnt[k] > 0)               \* concurrently with inserts is not constrained by the property (DESIGN 4.x)
                                   /\ (~multi => c <= 1)
                                   /\ pend' = [pend EXCEPT ![t].lin = TRUE, ![t].out = c]
          /\ UNCHANGED <<multi, ordered, doneCnt, invCnt, trav>>
Respond(t, r) == /\ pend[t].op # "none" /\ pend[t].lin /\ pend[t].out = r
                 /\ doneCnt' = IF pend[t].op = "insert" /\ r = 1 THEN [doneCnt EXCEPT ![pend[t].k] = @ + 1] ELSE doneCnt
                 /\ pend' = [pend EXCEPT ![t] = None] /\ UNCHANGED <<multi, ordered, cnt, invCnt, trav>>
TravBegin(t) == ~trav[t].on /\ trav' = [trav EXCEPT ![t] = [on |-> TRUE, snap |-> doneCnt, seen |-> <<>>]] /\ UNCHANGED <<multi, ordered, cnt, doneCnt, invCnt, pend>>
Occ(s, k) == Cardinality({i \in DOMAIN s : s[i] = k})
TravEnd(t, seen) ==
    /\ trav[t].on
    /\ \A k \in Keys : /\ Occ(seen, k) >= trav[t].snap[k]                       \* every element present before the traversal began is seen
                       /\ Occ(seen, k) <= (IF multi THEN invCnt[k] ELSE 1)      \* never an element twice
                       /\ (Occ(seen, k) > 0 => invCnt[k] > 0)                   \* nothing that was never inserted
    /\ (ordered => \A i \in 1..(Len(seen) - 1) : seen[i] <= seen[i + 1])
    /\ trav' = [trav EXCEPT ![t] = NoTrav] /\ UNCHANGED <<multi, ordered, cnt, doneCnt, invCnt, pend>>
\* at quiescence the contents are exactly the successful inserts
FinalOK(seen) == \A k \in Keys : Occ(seen, k) = cnt[k]
=============================================================================
