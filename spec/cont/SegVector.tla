------------------------------ MODULE SegVector ------------------------------
(***************************************************************************)
(* Protocol specification of concurrent_vector growth (property C11):       *)
(* include/oneapi/tbb/concurrent_vector.h  internal_grow_by_delta /          *)
(*   internal_grow / internal_loop_construct / create_segment               *)
(* include/oneapi/tbb/detail/_segment_table.h  internal_subscript /          *)
(*   enable_segment / assign_first_block_if_necessary                       *)
(* Granularity: one action per shared access that matters for the protocol  *)
(* (my_size fetch_add, my_first_block CAS, table[0] CAS of the first-block  *)
(* election, per-segment pointer publication, spin on a null segment).      *)
(* Segment k holds indices [2^k, 2^(k+1)) (segment 0: indices 0 and 1).     *)
(* A segment below the first-block boundary is allocated by whoever wins    *)
(* the CAS on table[0]; a segment above it is allocated by the thread whose *)
(* claimed range contains the segment's first index; everybody else spins.  *)
(***************************************************************************)
EXTENDS Naturals, Sequences, FiniteSets, TLC
CONSTANTS Threads, Delta, MaxIdx
SegOf(i) == IF i < 2 THEN 0 ELSE IF i < 4 THEN 1 ELSE IF i < 8 THEN 2 ELSE IF i < 16 THEN 3 ELSE 4
Base(s) == IF s = 0 THEN 0 ELSE 2^s
Segs == 0..4
(* --algorithm segvector {
  variables size = 0, firstblock = 0, seg = [sg \in Segs |-> "null"],
            cons = [i \in 0..MaxIdx |-> 0], who = [i \in 0..MaxIdx |-> 0], touchBad = FALSE,
            range = [t \in Threads |-> <<0, 0>>];
  process (thr \in Threads)
    variables start = 0, stop = 0, idx = 0, s = 0, last = 0;
  {
    g1: start := size; size := size + Delta[self]; stop := start + Delta[self];           \* my_size.fetch_add(delta)
        range[self] := <<start, stop>>; last := SegOf(stop - 1);
    g2: if (firstblock = 0) { firstblock := last + 1 };                                    \* assign_first_block_if_necessary: CAS 0 -> seg_index+1
    g3: if (last > firstblock /\ seg[last] = "null" /\ Base(last) >= start /\ Base(last) < stop) {
          seg[last] := "ok";                                                               \* the last segment of the range is allocated eagerly by its owner
        };
        idx := start;
    g4: while (idx < stop) {
          s := SegOf(idx);
          if (seg[s] # "null") { goto g8 }                                                 \* table[seg].load: already there
          else if (s < firstblock) { goto g5 }
          else if (idx = Base(s)) { seg[s] := "ok"; goto g8 }                              \* owner of the first index allocates and publishes
          else { goto g7 };
      g5: if (seg[0] # "null") { goto g7 };                                                \* first block: table[0].load(acquire)
      g6: if (seg[0] = "null") {                                                           \* CAS(table[0], nullptr -> new first block)
            seg := [x \in Segs |-> IF x < firstblock THEN "ok" ELSE seg[x]];              \* winner fills table[1..first_block)
            goto g8;
          };
      g7: await seg[s] # "null";                                                           \* spin_wait_while_eq(table[seg], nullptr)
      g8: touchBad := touchBad \/ seg[s] # "ok";                                           \* construct element idx in place
          cons[idx] := cons[idx] + 1; who[idx] := self;
          idx := idx + 1;
        };
  }
} *)
\* BEGIN TRANSLATION
VARIABLES pc, size, firstblock, seg, cons, who, touchBad, range, start, stop, 
          idx, s, last

vars == << pc, size, firstblock, seg, cons, who, touchBad, range, start, stop, 
           idx, s, last >>

ProcSet == (Threads)

Init == (* Global variables *)
        /\ size = 0
        /\ firstblock = 0
        /\ seg = [sg \in Segs |-> "null"]
        /\ cons = [i \in 0..MaxIdx |-> 0]
        /\ who = [i \in 0..MaxIdx |-> 0]
        /\ touchBad = FALSE
        /\ range = [t \in Threads |-> <<0, 0>>]
        (* Process thr *)
        /\ start = [self \in Threads |-> 0]
        /\ stop = [self \in Threads |-> 0]
        /\ idx = [self \in Threads |-> 0]
        /\ s = [self \in Threads |-> 0]
        /\ last = [self \in Threads |-> 0]
        /\ pc = [self \in ProcSet |-> "g1"]

g1(self) == /\ pc[self] = "g1"
            /\ start' = [start EXCEPT ![self] = size]
            /\ size' = size + Delta[self]
            /\ stop' = [stop EXCEPT ![self] = start'[self] + Delta[self]]
            /\ range' = [range EXCEPT ![self] = <<start'[self], stop'[self]>>]
            /\ last' = [last EXCEPT ![self] = SegOf(stop'[self] - 1)]
            /\ pc' = [pc EXCEPT ![self] = "g2"]
            /\ UNCHANGED << firstblock, seg, cons, who, touchBad, idx, s >>

g2(self) == /\ pc[self] = "g2"
            /\ IF firstblock = 0
                  THEN /\ firstblock' = last[self] + 1
                  ELSE /\ TRUE
                       /\ UNCHANGED firstblock
            /\ pc' = [pc EXCEPT ![self] = "g3"]
            /\ UNCHANGED << size, seg, cons, who, touchBad, range, start, stop, 
                            idx, s, last >>

g3(self) == /\ pc[self] = "g3"
            /\ IF last[self] > firstblock /\ seg[last[self]] = "null" /\ Base(last[self]) >= start[self] /\ Base(last[self]) < stop[self]
                  THEN /\ seg' = [seg EXCEPT ![last[self]] = "ok"]
                  ELSE /\ TRUE
                       /\ seg' = seg
            /\ idx' = [idx EXCEPT ![self] = start[self]]
            /\ pc' = [pc EXCEPT ![self] = "g4"]
            /\ UNCHANGED << size, firstblock, cons, who, touchBad, range, 
                            start, stop, s, last >>

g4(self) == /\ pc[self] = "g4"
            /\ IF idx[self] < stop[self]
                  THEN /\ s' = [s EXCEPT ![self] = SegOf(idx[self])]
                       /\ IF seg[s'[self]] # "null"
                             THEN /\ pc' = [pc EXCEPT ![self] = "g8"]
                                  /\ seg' = seg
                             ELSE /\ IF s'[self] < firstblock
                                        THEN /\ pc' = [pc EXCEPT ![self] = "g5"]
                                             /\ seg' = seg
                                        ELSE /\ IF idx[self] = Base(s'[self])
                                                   THEN /\ seg' = [seg EXCEPT ![s'[self]] = "ok"]
                                                        /\ pc' = [pc EXCEPT ![self] = "g8"]
                                                   ELSE /\ pc' = [pc EXCEPT ![self] = "g7"]
                                                        /\ seg' = seg
                  ELSE /\ pc' = [pc EXCEPT ![self] = "Done"]
                       /\ UNCHANGED << seg, s >>
            /\ UNCHANGED << size, firstblock, cons, who, touchBad, range, 
                            start, stop, idx, last >>

g5(self) == /\ pc[self] = "g5"
            /\ IF seg[0] # "null"
                  THEN /\ pc' = [pc EXCEPT ![self] = "g7"]
                  ELSE /\ pc' = [pc EXCEPT ![self] = "g6"]
            /\ UNCHANGED << size, firstblock, seg, cons, who, touchBad, range, 
                            start, stop, idx, s, last >>

g6(self) == /\ pc[self] = "g6"
            /\ IF seg[0] = "null"
                  THEN /\ seg' = [x \in Segs |-> IF x < firstblock THEN "ok" ELSE seg[x]]
                       /\ pc' = [pc EXCEPT ![self] = "g8"]
                  ELSE /\ pc' = [pc EXCEPT ![self] = "g7"]
                       /\ seg' = seg
            /\ UNCHANGED << size, firstblock, cons, who, touchBad, range, 
                            start, stop, idx, s, last >>

g7(self) == /\ pc[self] = "g7"
            /\ seg[s[self]] # "null"
            /\ pc' = [pc EXCEPT ![self] = "g8"]
            /\ UNCHANGED << size, firstblock, seg, cons, who, touchBad, range, 
                            start, stop, idx, s, last >>

g8(self) == /\ pc[self] = "g8"
            /\ touchBad' = (touchBad \/ seg[s[self]] # "ok")
            /\ cons' = [cons EXCEPT ![idx[self]] = cons[idx[self]] + 1]
            /\ who' = [who EXCEPT ![idx[self]] = self]
            /\ idx' = [idx EXCEPT ![self] = idx[self] + 1]
            /\ pc' = [pc EXCEPT ![self] = "g4"]
            /\ UNCHANGED << size, firstblock, seg, range, start, stop, s, last >>

thr(self) == g1(self) \/ g2(self) \/ g3(self) \/ g4(self) \/ g5(self)
                \/ g6(self) \/ g7(self) \/ g8(self)

(* Allow infinite stuttering to prevent deadlock on termination. *)
Terminating == /\ \A self \in ProcSet: pc[self] = "Done"
               /\ UNCHANGED vars

Next == (\E self \in Threads: thr(self))
           \/ Terminating

Spec == Init /\ [][Next]_vars

Termination == <>(\A self \in ProcSet: pc[self] = "Done")

\* END TRANSLATION
AllDone == \A t \in Threads : pc[t] = "Done"
\* each index constructed at most once, by the thread that claimed it, never in an unallocated segment
OnceEach == \A i \in 0..MaxIdx : cons[i] <= 1
ByClaimant == \A i \in 0..MaxIdx : cons[i] = 1 => (range[who[i]][1] <= i /\ i < range[who[i]][2])
NoTouchUnallocated == ~touchBad
\* claimed ranges are pairwise disjoint and tile [0,size)
Tiles == \A a, b \in Threads : a # b /\ pc[a] # "g1" /\ pc[b] # "g1" => (range[a][2] <= range[b][1] \/ range[b][2] <= range[a][1])
Complete == AllDone => \A i \in 0..MaxIdx : (i < size) <=> (cons[i] = 1)
=============================================================================
