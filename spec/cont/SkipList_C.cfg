SPECIFICATION Spec
CONSTANT Threads = {1, 2}
CONSTANT Readers = {3}
CONSTANT Prog <- ProgC
CONSTANT FKeys <- FKeysC
CONSTANT Key <- KeyA
CONSTANT Height <- HeightA
CONSTANT MaxH = 3
CONSTANT MaxN = 4
INVARIANT Structure
INVARIANT Inserted
INVARIANT OnePerKey
INVARIANT Final
INVARIANT FindOK
CHECK_DEADLOCK FALSE
