---- MODULE TracePQBatch ----
\* Verdict for the batch handler of the real concurrent_priority_queue: every recorded application of handle_operations (array before, batch, the status / value
\* each operation got, array and mark after) must satisfy the properties of PQBatch - independently of the transcription (whose prediction is only compared as drift).
\* Event: Batch d0 ops res d1 mark1   (ops: 0 = pop, v > 0 = push v;  res: pop -> value or -1 (failed), push -> 100 (done) or -1 (failed))
EXTENDS Integers, Sequences, FiniteSets, TLC, Json, IOUtils
TraceLog == ndJsonDeserialize(IOEnv.TRACE)
Values == 1..9
MaxLen == 99
MaxBatch == 9
VARIABLES l
P == INSTANCE PQBatch WITH data <- <<>>, mark <- 0, lastBatch <- <<>>, lastRes <- <<>>
Ev == TraceLog[l]
OpOf(c) == IF c = 0 THEN <<"pop">> ELSE <<"push", c>>
BatchOf(e) == [i \in 1..Len(e.ops) |-> OpOf(e.ops[i])]
Good(e) == /\ P!IsHeap(e.d1) /\ e.mark1 = Len(e.d1)
           /\ P!Conserved(e.d0, BatchOf(e), e.res, e.d1)
           /\ P!BatchLinearizable(e.d0, BatchOf(e), e.res)
           /\ \A i \in 1..Len(e.ops) : e.ops[i] > 0 => e.res[i] = 100
TInit == l = 1
TNext == l <= Len(TraceLog) /\ ((Ev.e = "Batch" /\ Good(Ev)) \/ Ev.e = "Reset") /\ l' = l + 1
TraceSpec == TInit /\ [][TNext]_l
NotAccepted == l <= Len(TraceLog)
====
