---- MODULE TracePQBatch ----
\* Verdict for the batch handler of the real concurrent_priority_queue: every recorded application of handle_operations (array before, batch, the status / value
\* each operation got, array and mark after) must satisfy the properties of PQBatch - independently of the transcription (whose prediction is only compared as drift).
\* Event: Batch d0 ops res d1 mark1   (ops: 0 = pop, v > 0 = push v;  res: pop -> value or -1 (failed), push -> 100 (done) or -1 (failed))
EXTENDS Integers, Sequences, FiniteSets, TLC, Json, IOUtils
TraceLog == ndJsonDeserialize(IOEnv.TRACE)
Values == 1..9
MaxLen == 99
MaxBatch == 9
VARIABLES l
P == INSTANCE PQBatch WITH data <- <<>>, mark <- 0, lastBatch <- <<>>, lastRes <- <<>>
Ev == TraceLog[l]
OpOf(c) == IF c = 0 THEN <<"pop">> ELSE <<"push", c>>
BatchOf(e) == [i \in 1..Len(e.ops) |-> OpOf(e.ops[i])]
\* the state a batch leaves behind is judged by what it does next, not by its shape: popping one by one afterwards (drain) must deliver exactly the contents, largest
\* first (whether the array is a heap with mark = size at that moment is the implementation's business - the transcription compares that, as drift)
Descending(s) == \A i \in 1..(Len(s) - 1) : s[i] >= s[i + 1]
SameBag(s, t) == Len(s) = Len(t) /\ \A v \in Values : P!Count(s, v) = P!Count(t, v)
MaxS(S) == CHOOSE x \in S : \A y \in S : y <= x
Elems(s) == {s[i] : i \in DOMAIN s}
\* a following batch <push v, pop>: the pop answers the maximum of the contents with or without v (either order of the two is a legal linearization)
ProbeOK(e) == \A i \in DOMAIN e.probe : LET v == e.probe[i][1]  r == e.probe[i][2] IN
                 \/ r = MaxS(Elems(e.d1) \cup {v})
                 \/ (e.d1 # <<>> /\ r = MaxS(Elems(e.d1)))
                 \/ (e.d1 = <<>> /\ r = -1)
Good(e) == /\ Descending(e.drain) /\ SameBag(e.drain, e.d1) /\ ProbeOK(e)
           /\ P!Conserved(e.d0, BatchOf(e), e.res, e.d1)
           /\ P!BatchLinearizable(e.d0, BatchOf(e), e.res)
           /\ \A i \in 1..Len(e.ops) : e.ops[i] > 0 => e.res[i] = 100
TInit == l = 1
TNext == l <= Len(TraceLog) /\ ((Ev.e = "Batch" /\ Good(Ev)) \/ Ev.e = "Reset") /\ l' = l + 1
TraceSpec == TInit /\ [][TNext]_l
NotAccepted == l <= Len(TraceLog)
====
