SPECIFICATION Spec
CONSTANT Threads = {1,2,3}
CONSTANT Delta <- D3
CONSTANT MaxIdx = 9
INVARIANT OnceEach
INVARIANT ByClaimant
INVARIANT NoTouchUnallocated
INVARIANT Tiles
INVARIANT Complete
