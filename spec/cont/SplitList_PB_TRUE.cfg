SPECIFICATION Spec
CONSTANT Threads = {1,2,3}
CONSTANT Prog <- PB
CONSTANT MaxKey = 5
CONSTANT Multi = TRUE
INVARIANT Sorted
INVARIANT Reachable
INVARIANT OneWinner
