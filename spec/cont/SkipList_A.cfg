SPECIFICATION Spec
CONSTANT Threads = {1, 2}
CONSTANT Readers = {}
CONSTANT Prog <- ProgA
CONSTANT FKeys <- FKeysN
CONSTANT Key <- KeyA
CONSTANT Height <- HeightA
CONSTANT MaxH = 3
CONSTANT MaxN = 4
INVARIANT Structure
INVARIANT Inserted
INVARIANT OnePerKey
INVARIANT Final
INVARIANT FindOK
CHECK_DEADLOCK FALSE
