SPECIFICATION Spec
CONSTANT Threads = {1,2,3}
CONSTANT Prog <- PB
CONSTANT GrowAt = 2
INVARIANT Linearizable
INVARIANT NoLossNoDup
