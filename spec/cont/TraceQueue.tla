----------------------------- MODULE TraceQueue -----------------------------
(* Linearizability validation of recorded concurrent_queue / concurrent_bounded_queue histories against QueueAbs. *)
(* Events: Cfg cap faults | Inv t op v | Res t r | Stuck | Crash | Reset ; Lin(t) is an unlogged internal step.     *)
EXTENDS Integers, Sequences, FiniteSets, TLC, Json, IOUtils
TraceLog == ndJsonDeserialize(IOEnv.TRACE)
Threads == 1..4
VARIABLES q, cap, faults, pend, l
A == INSTANCE QueueAbs
vars == <<q, cap, faults, pend, l>>
Ev == TraceLog[l]
Is(e) == l <= Len(TraceLog) /\ TraceLog[l].e = e /\ l' = l + 1
TInit == A!QInit /\ l = 1
TCfg == Is("Cfg") /\ A!Configure(Ev.cap, Ev.faults = 1)
TInv == Is("Inv") /\ A!Invoke(Ev.t, Ev.op, Ev.v)
TRes == Is("Res") /\ A!Respond(Ev.t, Ev.r)
TLin == l <= Len(TraceLog) /\ UNCHANGED l /\ \E t \in Threads : A!Lin(t)
TReset == /\ Is("Reset") /\ q' = <<>> /\ cap' = 0 /\ faults' = FALSE /\ pend' = [t \in Threads |-> A!None]
TNext == TCfg \/ TInv \/ TRes \/ TLin \/ TReset
TraceSpec == TInit /\ [][TNext]_vars
NotAccepted == l <= Len(TraceLog)
SizeOK == A!SizeOK
=============================================================================
