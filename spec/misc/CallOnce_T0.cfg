SPECIFICATION Spec
CONSTANT Callers = {1,2,3}
CONSTANT ThrowAttempts = {}
CONSTANT MaxRefs = 1
INVARIANT OnceOnly
INVARIANT NoUseAfterFree
INVARIANT ReturnAfterDone
INVARIANT Final
