---- MODULE CallOnce ----
\* collaborative_once_flag::do_collaborative_call_once (collaborative_call_once.h:165-217).
\* m_state: <<"U",0,0>> uninitialized, <<"D",0,0>> done, <<"R", runner, refs>> runner pointer | transient helper refs.
\* Runner r (one per caller, on its stack): refcnt[r] (lifetime_guard count), ready[r], alive[r].
EXTENDS Integers, Sequences, FiniteSets, TLC
CONSTANTS Callers, ThrowAttempts, MaxRefs     \* ThrowAttempts: set of attempt indices (1-based) at which f throws
(* --algorithm callonce {
  variables state = <<"U", 0, 0>>, attempts = 0, completed = 0,
            refcnt = [c \in Callers |-> 0], ready = [c \in Callers |-> FALSE], alive = [c \in Callers |-> FALSE],
            fdone = [c \in Callers |-> FALSE],          \* the winner's wait context released (f finished or cancelled)
            ret = [c \in Callers |-> "na"], uaf = FALSE, myatt = [c \in Callers |-> 0];
  process (c \in Callers)
    variables exp = <<"U",0,0>>, sr = 0, throwing = FALSE;
  {
    c0: exp := state;                                        \* fast path check + load(acquire)
        if (exp[1] = "D") { ret[self] := "ok"; goto cEnd };
    c1: alive[self] := TRUE; refcnt[self] := 0; ready[self] := FALSE; fdone[self] := FALSE;   \* collaborative_once_runner runner; (on stack)
    loop:
      if (exp[1] = "U") { goto w0 } else { goto h0 };
    \* ---------------- winner
    w0: if (state = <<"U",0,0>>) { state := <<"R", self, 0>>; goto w1 } else { exp := state; goto loop2 };
    w1: ready[self] := TRUE;                                 \* run_once: storage init, arena.execute, m_is_ready.store(true)
    w2: attempts := attempts + 1; myatt[self] := attempts;   \* f() runs
        throwing := (attempts \in ThrowAttempts);
    w3: if (state = <<"R", self, 0>>) { goto w4 } else { goto w3 };         \* set_completion_state: spin until no transient refs
    w4: if (state = <<"R", self, 0>>) { state := IF throwing THEN <<"U",0,0>> ELSE <<"D",0,0>>; goto w5 } else { goto w3 };
    w5: if (~throwing) { completed := completed + 1 }; fdone[self] := TRUE;  \* task finalize / cancel releases the wait context
    w6: if (refcnt[self] = 0) { alive[self] := FALSE; goto w7 } else { goto w6 };   \* ~runner: spin_wait_until_eq(m_ref_count,0)
    w7: ret[self] := IF throwing THEN "threw" ELSE "ok"; goto cEnd;
    \* ---------------- moonlighting helper
    h0: exp := state;                                        \* spin_wait_while_eq(m_state, expected|mask)
        if (exp[1] = "R" /\ exp[3] = MaxRefs) { goto h0 };
    h1: if (exp[1] = "R") {
          if (state = exp) { state := <<"R", exp[2], exp[3] + 1>>; sr := exp[2]; goto h2 } else { goto h0 }
        } else { sr := 0; goto loop2 };
    h2: if (~alive[sr]) { uaf := TRUE }; refcnt[sr] := refcnt[sr] + 1;     \* lifetime_guard: ++m_ref_count
    h3: state := <<state[1], state[2], state[3] - 1>>;       \* m_state.fetch_sub(1)
    h4: if (ready[sr]) { goto h5 } else { goto h4 };         \* assist(): spin_wait_while_eq(m_is_ready,false)
    h5: if (fdone[sr]) { goto h6 } else { goto h5 };         \* wait(m_wait_context) inside the runner's arena
    h6: refcnt[sr] := refcnt[sr] - 1; exp := <<"R", sr, 0>>; \* ~lifetime_guard; expected keeps the stale runner bits
    loop2:
      if (exp[1] = "D") { goto hEnd } else { goto loopback };
    loopback: if (exp[1] = "U") { goto w0 } else { goto h0 };
    hEnd: if (refcnt[self] = 0) { alive[self] := FALSE; ret[self] := "ok"; goto cEnd } else { goto hEnd };   \* own (unused) runner destructed
    cEnd: skip;
  }
} *)
\* BEGIN TRANSLATION
VARIABLES pc, state, attempts, completed, refcnt, ready, alive, fdone, ret, 
          uaf, myatt, exp, sr, throwing

vars == << pc, state, attempts, completed, refcnt, ready, alive, fdone, ret, 
           uaf, myatt, exp, sr, throwing >>

ProcSet == (Callers)

Init == (* Global variables *)
        /\ state = <<"U", 0, 0>>
        /\ attempts = 0
        /\ completed = 0
        /\ refcnt = [c \in Callers |-> 0]
        /\ ready = [c \in Callers |-> FALSE]
        /\ alive = [c \in Callers |-> FALSE]
        /\ fdone = [c \in Callers |-> FALSE]
        /\ ret = [c \in Callers |-> "na"]
        /\ uaf = FALSE
        /\ myatt = [c \in Callers |-> 0]
        (* Process c *)
        /\ exp = [self \in Callers |-> <<"U",0,0>>]
        /\ sr = [self \in Callers |-> 0]
        /\ throwing = [self \in Callers |-> FALSE]
        /\ pc = [self \in ProcSet |-> "c0"]

c0(self) == /\ pc[self] = "c0"
            /\ exp' = [exp EXCEPT ![self] = state]
            /\ IF exp'[self][1] = "D"
                  THEN /\ ret' = [ret EXCEPT ![self] = "ok"]
                       /\ pc' = [pc EXCEPT ![self] = "cEnd"]
                  ELSE /\ pc' = [pc EXCEPT ![self] = "c1"]
                       /\ ret' = ret
            /\ UNCHANGED << state, attempts, completed, refcnt, ready, alive, 
                            fdone, uaf, myatt, sr, throwing >>

c1(self) == /\ pc[self] = "c1"
            /\ alive' = [alive EXCEPT ![self] = TRUE]
            /\ refcnt' = [refcnt EXCEPT ![self] = 0]
            /\ ready' = [ready EXCEPT ![self] = FALSE]
            /\ fdone' = [fdone EXCEPT ![self] = FALSE]
            /\ pc' = [pc EXCEPT ![self] = "loop"]
            /\ UNCHANGED << state, attempts, completed, ret, uaf, myatt, exp, 
                            sr, throwing >>

loop(self) == /\ pc[self] = "loop"
              /\ IF exp[self][1] = "U"
                    THEN /\ pc' = [pc EXCEPT ![self] = "w0"]
                    ELSE /\ pc' = [pc EXCEPT ![self] = "h0"]
              /\ UNCHANGED << state, attempts, completed, refcnt, ready, alive, 
                              fdone, ret, uaf, myatt, exp, sr, throwing >>

w0(self) == /\ pc[self] = "w0"
            /\ IF state = <<"U",0,0>>
                  THEN /\ state' = <<"R", self, 0>>
                       /\ pc' = [pc EXCEPT ![self] = "w1"]
                       /\ exp' = exp
                  ELSE /\ exp' = [exp EXCEPT ![self] = state]
                       /\ pc' = [pc EXCEPT ![self] = "loop2"]
                       /\ state' = state
            /\ UNCHANGED << attempts, completed, refcnt, ready, alive, fdone, 
                            ret, uaf, myatt, sr, throwing >>

w1(self) == /\ pc[self] = "w1"
            /\ ready' = [ready EXCEPT ![self] = TRUE]
            /\ pc' = [pc EXCEPT ![self] = "w2"]
            /\ UNCHANGED << state, attempts, completed, refcnt, alive, fdone, 
                            ret, uaf, myatt, exp, sr, throwing >>

w2(self) == /\ pc[self] = "w2"
            /\ attempts' = attempts + 1
            /\ myatt' = [myatt EXCEPT ![self] = attempts']
            /\ throwing' = [throwing EXCEPT ![self] = (attempts' \in ThrowAttempts)]
            /\ pc' = [pc EXCEPT ![self] = "w3"]
            /\ UNCHANGED << state, completed, refcnt, ready, alive, fdone, ret, 
                            uaf, exp, sr >>

w3(self) == /\ pc[self] = "w3"
            /\ IF state = <<"R", self, 0>>
                  THEN /\ pc' = [pc EXCEPT ![self] = "w4"]
                  ELSE /\ pc' = [pc EXCEPT ![self] = "w3"]
            /\ UNCHANGED << state, attempts, completed, refcnt, ready, alive, 
                            fdone, ret, uaf, myatt, exp, sr, throwing >>

w4(self) == /\ pc[self] = "w4"
            /\ IF state = <<"R", self, 0>>
                  THEN /\ state' = IF throwing[self] THEN <<"U",0,0>> ELSE <<"D",0,0>>
                       /\ pc' = [pc EXCEPT ![self] = "w5"]
                  ELSE /\ pc' = [pc EXCEPT ![self] = "w3"]
                       /\ state' = state
            /\ UNCHANGED << attempts, completed, refcnt, ready, alive, fdone, 
                            ret, uaf, myatt, exp, sr, throwing >>

w5(self) == /\ pc[self] = "w5"
            /\ IF ~throwing[self]
                  THEN /\ completed' = completed + 1
                  ELSE /\ TRUE
                       /\ UNCHANGED completed
            /\ fdone' = [fdone EXCEPT ![self] = TRUE]
            /\ pc' = [pc EXCEPT ![self] = "w6"]
            /\ UNCHANGED << state, attempts, refcnt, ready, alive, ret, uaf, 
                            myatt, exp, sr, throwing >>

w6(self) == /\ pc[self] = "w6"
            /\ IF refcnt[self] = 0
                  THEN /\ alive' = [alive EXCEPT ![self] = FALSE]
                       /\ pc' = [pc EXCEPT ![self] = "w7"]
                  ELSE /\ pc' = [pc EXCEPT ![self] = "w6"]
                       /\ alive' = alive
            /\ UNCHANGED << state, attempts, completed, refcnt, ready, fdone, 
                            ret, uaf, myatt, exp, sr, throwing >>

w7(self) == /\ pc[self] = "w7"
            /\ ret' = [ret EXCEPT ![self] = IF throwing[self] THEN "threw" ELSE "ok"]
            /\ pc' = [pc EXCEPT ![self] = "cEnd"]
            /\ UNCHANGED << state, attempts, completed, refcnt, ready, alive, 
                            fdone, uaf, myatt, exp, sr, throwing >>

h0(self) == /\ pc[self] = "h0"
            /\ exp' = [exp EXCEPT ![self] = state]
            /\ IF exp'[self][1] = "R" /\ exp'[self][3] = MaxRefs
                  THEN /\ pc' = [pc EXCEPT ![self] = "h0"]
                  ELSE /\ pc' = [pc EXCEPT ![self] = "h1"]
            /\ UNCHANGED << state, attempts, completed, refcnt, ready, alive, 
                            fdone, ret, uaf, myatt, sr, throwing >>

h1(self) == /\ pc[self] = "h1"
            /\ IF exp[self][1] = "R"
                  THEN /\ IF state = exp[self]
                             THEN /\ state' = <<"R", exp[self][2], exp[self][3] + 1>>
                                  /\ sr' = [sr EXCEPT ![self] = exp[self][2]]
                                  /\ pc' = [pc EXCEPT ![self] = "h2"]
                             ELSE /\ pc' = [pc EXCEPT ![self] = "h0"]
                                  /\ UNCHANGED << state, sr >>
                  ELSE /\ sr' = [sr EXCEPT ![self] = 0]
                       /\ pc' = [pc EXCEPT ![self] = "loop2"]
                       /\ state' = state
            /\ UNCHANGED << attempts, completed, refcnt, ready, alive, fdone, 
                            ret, uaf, myatt, exp, throwing >>

h2(self) == /\ pc[self] = "h2"
            /\ IF ~alive[sr[self]]
                  THEN /\ uaf' = TRUE
                  ELSE /\ TRUE
                       /\ uaf' = uaf
            /\ refcnt' = [refcnt EXCEPT ![sr[self]] = refcnt[sr[self]] + 1]
            /\ pc' = [pc EXCEPT ![self] = "h3"]
            /\ UNCHANGED << state, attempts, completed, ready, alive, fdone, 
                            ret, myatt, exp, sr, throwing >>

h3(self) == /\ pc[self] = "h3"
            /\ state' = <<state[1], state[2], state[3] - 1>>
            /\ pc' = [pc EXCEPT ![self] = "h4"]
            /\ UNCHANGED << attempts, completed, refcnt, ready, alive, fdone, 
                            ret, uaf, myatt, exp, sr, throwing >>

h4(self) == /\ pc[self] = "h4"
            /\ IF ready[sr[self]]
                  THEN /\ pc' = [pc EXCEPT ![self] = "h5"]
                  ELSE /\ pc' = [pc EXCEPT ![self] = "h4"]
            /\ UNCHANGED << state, attempts, completed, refcnt, ready, alive, 
                            fdone, ret, uaf, myatt, exp, sr, throwing >>

h5(self) == /\ pc[self] = "h5"
            /\ IF fdone[sr[self]]
                  THEN /\ pc' = [pc EXCEPT ![self] = "h6"]
                  ELSE /\ pc' = [pc EXCEPT ![self] = "h5"]
            /\ UNCHANGED << state, attempts, completed, refcnt, ready, alive, 
                            fdone, ret, uaf, myatt, exp, sr, throwing >>

h6(self) == /\ pc[self] = "h6"
            /\ refcnt' = [refcnt EXCEPT ![sr[self]] = refcnt[sr[self]] - 1]
            /\ exp' = [exp EXCEPT ![self] = <<"R", sr[self], 0>>]
            /\ pc' = [pc EXCEPT ![self] = "loop2"]
            /\ UNCHANGED << state, attempts, completed, ready, alive, fdone, 
                            ret, uaf, myatt, sr, throwing >>

loop2(self) == /\ pc[self] = "loop2"
               /\ IF exp[self][1] = "D"
                     THEN /\ pc' = [pc EXCEPT ![self] = "hEnd"]
                     ELSE /\ pc' = [pc EXCEPT ![self] = "loopback"]
               /\ UNCHANGED << state, attempts, completed, refcnt, ready, 
                               alive, fdone, ret, uaf, myatt, exp, sr, 
                               throwing >>

loopback(self) == /\ pc[self] = "loopback"
                  /\ IF exp[self][1] = "U"
                        THEN /\ pc' = [pc EXCEPT ![self] = "w0"]
                        ELSE /\ pc' = [pc EXCEPT ![self] = "h0"]
                  /\ UNCHANGED << state, attempts, completed, refcnt, ready, 
                                  alive, fdone, ret, uaf, myatt, exp, sr, 
                                  throwing >>

hEnd(self) == /\ pc[self] = "hEnd"
              /\ IF refcnt[self] = 0
                    THEN /\ alive' = [alive EXCEPT ![self] = FALSE]
                         /\ ret' = [ret EXCEPT ![self] = "ok"]
                         /\ pc' = [pc EXCEPT ![self] = "cEnd"]
                    ELSE /\ pc' = [pc EXCEPT ![self] = "hEnd"]
                         /\ UNCHANGED << alive, ret >>
              /\ UNCHANGED << state, attempts, completed, refcnt, ready, fdone, 
                              uaf, myatt, exp, sr, throwing >>

cEnd(self) == /\ pc[self] = "cEnd"
              /\ TRUE
              /\ pc' = [pc EXCEPT ![self] = "Done"]
              /\ UNCHANGED << state, attempts, completed, refcnt, ready, alive, 
                              fdone, ret, uaf, myatt, exp, sr, throwing >>

c(self) == c0(self) \/ c1(self) \/ loop(self) \/ w0(self) \/ w1(self)
              \/ w2(self) \/ w3(self) \/ w4(self) \/ w5(self) \/ w6(self)
              \/ w7(self) \/ h0(self) \/ h1(self) \/ h2(self) \/ h3(self)
              \/ h4(self) \/ h5(self) \/ h6(self) \/ loop2(self)
              \/ loopback(self) \/ hEnd(self) \/ cEnd(self)

(* Allow infinite stuttering to prevent deadlock on termination. *)
Terminating == /\ \A self \in ProcSet: pc[self] = "Done"
               /\ UNCHANGED vars

Next == (\E self \in Callers: c(self))
           \/ Terminating

Spec == Init /\ [][Next]_vars

Termination == <>(\A self \in ProcSet: pc[self] = "Done")

\* END TRANSLATION
AllDone == \A x \in Callers : pc[x] = "Done"
OnceOnly == completed <= 1
NoUseAfterFree == ~uaf
ReturnAfterDone == \A x \in Callers : ret[x] = "ok" => state[1] = "D"
FairSpec == Spec /\ \A x \in Callers : WF_vars(c(x))
Final == AllDone => /\ completed = 1
                    /\ Cardinality({x \in Callers : ret[x] = "threw"}) = Cardinality({a \in ThrowAttempts : a <= attempts})
====
