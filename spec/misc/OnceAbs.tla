-------------------------------- MODULE OnceAbs --------------------------------
(* Abstract specification of property C19, first half: collaborative_call_once.                                 *)
(*   completed  number of times the function ran to successful completion on this flag                          *)
(*   pendexc    exceptions thrown by the function and not yet delivered to a caller                             *)
(*   incall     callers currently inside collaborative_call_once                                                *)
(*   running    callers whose thread is currently executing the function                                        *)
(* The function completes successfully at most once (exactly once if any caller returned normally); a caller      *)
(* returns normally only after that completion and then sees its effects (seen = 1: the plain write made by the   *)
(* function just before it completed); every exception thrown by the function is delivered to exactly one caller  *)
(* and a call that got an exception may be retried; the function is never started after it has completed.        *)
EXTENDS Integers, FiniteSets
CONSTANTS Threads
VARIABLES completed, pendexc, incall, running
ovars == <<completed, pendexc, incall, running>>
OInit == completed = 0 /\ pendexc = 0 /\ incall = {} /\ running = {}
Call(t) == t \notin incall /\ incall' = incall \cup {t} /\ UNCHANGED <<completed, pendexc, running>>
\* the function body starts on thread t (t is the winner: only a thread that is inside the call runs it)
FnBegin(t) == /\ t \in incall /\ t \notin running /\ completed = 0
              /\ running' = running \cup {t} /\ UNCHANGED <<completed, pendexc, incall>>
FnEnd(t) == /\ t \in running /\ completed = 0
            /\ completed' = 1 /\ running' = running \ {t} /\ UNCHANGED <<pendexc, incall>>
FnThrow(t) == /\ t \in running /\ running' = running \ {t} /\ pendexc' = pendexc + 1 /\ UNCHANGED <<completed, incall>>
Ret(t, seen) == /\ t \in incall /\ t \notin running /\ completed = 1 /\ seen = 1
                /\ incall' = incall \ {t} /\ UNCHANGED <<completed, pendexc, running>>
Exc(t) == /\ t \in incall /\ t \notin running /\ pendexc > 0
          /\ pendexc' = pendexc - 1 /\ incall' = incall \ {t} /\ UNCHANGED <<completed, running>>
\* all callers are back: nothing undelivered, nobody running; ncalls = number of calls that returned normally
Quiesce(nret) == /\ incall = {} /\ running = {} /\ pendexc = 0 /\ (nret > 0 => completed = 1) /\ UNCHANGED ovars
=============================================================================
