SPECIFICATION Spec
CONSTANT Callers = {1,2,3,4}
CONSTANT ThrowAttempts = {1}
CONSTANT MaxRefs = 2
INVARIANT OnceOnly
INVARIANT NoUseAfterFree
INVARIANT ReturnAfterDone
INVARIANT Final
