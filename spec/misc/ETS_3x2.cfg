SPECIFICATION Spec
CONSTANT Threads = {1,2,3}
CONSTANT Hash <- H3
CONSTANT NLookups = 2
CONSTANT MaxArr = 4
CONSTANT LG0 = 1
INVARIANT OneElementPerThread
INVARIANT NoSharing
INVARIANT ProbeBounded
INVARIANT NoFreedInChain
