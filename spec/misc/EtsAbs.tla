-------------------------------- MODULE EtsAbs --------------------------------
(* Abstract specification of property C19, second half: enumerable_thread_specific / combinable.                *)
(*   elem   thread -> address (rank) of its element, 0 = none yet                                               *)
(*   inits  thread -> number of initialiser calls made on behalf of that thread                                 *)
(* Each thread gets exactly one element, created on first use by exactly one initialiser call (on that thread),   *)
(* at a stable address; two threads never share an element; combine / iteration visits every element once.       *)
EXTENDS Integers, FiniteSets, Sequences
CONSTANTS Threads
VARIABLES elem, inits
evars == <<elem, inits>>
EInit == elem = [t \in Threads |-> 0] /\ inits = [t \in Threads |-> 0]
\* the initialiser runs on thread t (inside t's first local())
Init(t) == elem[t] = 0 /\ inits[t] = 0 /\ inits' = [inits EXCEPT ![t] = 1] /\ UNCHANGED elem
\* local() returned address a on thread t; ex = the "exists" flag it reported
Local(t, a, ex) == /\ a # 0
                   /\ IF elem[t] = 0
                         THEN /\ ex = 0 /\ inits[t] = 1                         \* first use: created by exactly one initialiser call
                              /\ \A u \in Threads : elem[u] # a                 \* never an element another thread owns
                              /\ elem' = [elem EXCEPT ![t] = a]
                         ELSE /\ ex = 1 /\ a = elem[t] /\ elem' = elem          \* later uses: the same element, same address
                   /\ UNCHANGED inits
\* a traversal (combine_each / iteration / range) at quiescence visited the addresses in `seen` (a sequence)
Visit(seen) == /\ \A i, j \in DOMAIN seen : i # j => seen[i] # seen[j]
               /\ {seen[i] : i \in DOMAIN seen} = {elem[t] : t \in {u \in Threads : elem[u] # 0}}
               /\ UNCHANGED evars
=============================================================================
