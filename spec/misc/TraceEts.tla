------------------------------- MODULE TraceEts -------------------------------
(* Validation of recorded enumerable_thread_specific / combinable executions against EtsAbs.                    *)
(* Events: Init t | Local t a ex | Visit seen | Reset ; Stuck/Crash are unexplainable.                          *)
EXTENDS Integers, Sequences, FiniteSets, TLC, Json, IOUtils
TraceLog == ndJsonDeserialize(IOEnv.TRACE)
Threads == 0..12
VARIABLES elem, inits, l
A == INSTANCE EtsAbs
vars == <<elem, inits, l>>
Ev == TraceLog[l]
Is(e) == l <= Len(TraceLog) /\ TraceLog[l].e = e /\ l' = l + 1
TInit == A!EInit /\ l = 1
TNext == \/ Is("Init") /\ A!Init(Ev.t)
         \/ Is("Local") /\ A!Local(Ev.t, Ev.a, Ev.ex)
         \/ Is("Visit") /\ A!Visit(Ev.seen)
         \/ Is("Reset") /\ elem' = [t \in Threads |-> 0] /\ inits' = [t \in Threads |-> 0]
TraceSpec == TInit /\ [][TNext]_vars
NotAccepted == l <= Len(TraceLog)
=============================================================================
