SPECIFICATION FairSpec
CONSTANT Callers = {1,2,3}
CONSTANT ThrowAttempts = {1}
CONSTANT MaxRefs = 1
PROPERTY Termination
