---- MODULE ETS ----
\* ets_base::table_lookup (enumerable_thread_specific.h:214-285): chain of open-addressed arrays (newest first),
\* slot claim by CAS on the key, growth by CAS-push of a bigger array, re-insertion at the top level.
EXTENDS Integers, Sequences, FiniteSets, TLC
CONSTANTS Threads, Hash, NLookups, MaxArr, LG0     \* Hash[t] in Nat (start index taken modulo the array size)
Arr == 1..MaxArr
(* --algorithm ets {
  variables root = 0, count = 0, nalloc = 0,
            lg = [aa \in Arr |-> 0], nxt = [aa \in Arr |-> 0],
            key = [aa \in Arr |-> [ii \in 0..(2^(LG0+2))-1 |-> 0]],       \* slot keys (0 = empty); thread t uses key t
            ptr = [aa \in Arr |-> [ii \in 0..(2^(LG0+2))-1 |-> 0]],
            created = [tt \in Threads |-> 0], results = [tt \in Threads |-> <<>>], freed = {};
  define { Size(aa) == 2^lg[aa]  Start(aa, tt) == Hash[tt] % Size(aa) }
  process (t \in Threads)
    variables n = 0, r = 0, i = 0, found = 0, exists = FALSE, c = 0, s = 0, a = 0, newr = 0, ir = 0, probes = 0;
  {
  T0: while (n < NLookups) {
    L0: r := root; found := 0; exists := FALSE;
    LA: if (r = 0) { goto LC } else { i := Start(r, self); probes := 0; goto L1 };
    L1: if (key[r][i] = 0) { r := nxt[r]; goto LA }                       \* empty slot: not in this array
        else if (key[r][i] = self) { goto L1m }
        else { i := (i + 1) % Size(r); probes := probes + 1; goto L1 };
    L1m: if (r = root) { results[self] := Append(results[self], ptr[r][i]); goto TEnd }    \* success at top level
         else { exists := TRUE; found := ptr[r][i]; goto L5 };
    LC: created[self] := created[self] + 1; found := self * 100 + created[self];          \* create_local()
    L2: count := count + 1; c := count;
    L3: r := root;
        if (r = 0 \/ c > Size(r) \div 2) {
          s := IF r = 0 THEN LG0 ELSE lg[r];
          goto L3s } else { goto L5 };
    L3s: if (c > 2^(s-1)) { s := s + 1; goto L3s } else { nalloc := nalloc + 1; a := nalloc; lg[a] := s; goto L4 };
    L4: nxt[a] := r;
    L4c: if (root = r) { root := a; goto L5 }                              \* CAS(my_root, r -> a)
         else { newr := root;
                if (lg[newr] >= s) { freed := freed \cup {a}; goto L5 } else { r := newr; goto L4 } };
    L5: ir := root; i := Start(ir, self); probes := 0;
    L6: if (key[ir][i] = 0) { key[ir][i] := self; goto L7 }                \* s.claim(k): CAS on empty key
        else { i := (i + 1) % Size(ir); probes := probes + 1; goto L6 };
    L7: ptr[ir][i] := found; results[self] := Append(results[self], found);
    TEnd: n := n + 1;
      }
  }
} *)
\* BEGIN TRANSLATION
VARIABLES pc, root, count, nalloc, lg, nxt, key, ptr, created, results, freed

(* define statement *)
Size(aa) == 2^lg[aa]  Start(aa, tt) == Hash[tt] % Size(aa)

VARIABLES n, r, i, found, exists, c, s, a, newr, ir, probes

vars == << pc, root, count, nalloc, lg, nxt, key, ptr, created, results, 
           freed, n, r, i, found, exists, c, s, a, newr, ir, probes >>

ProcSet == (Threads)

Init == (* Global variables *)
        /\ root = 0
        /\ count = 0
        /\ nalloc = 0
        /\ lg = [aa \in Arr |-> 0]
        /\ nxt = [aa \in Arr |-> 0]
        /\ key = [aa \in Arr |-> [ii \in 0..(2^(LG0+2))-1 |-> 0]]
        /\ ptr = [aa \in Arr |-> [ii \in 0..(2^(LG0+2))-1 |-> 0]]
        /\ created = [tt \in Threads |-> 0]
        /\ results = [tt \in Threads |-> <<>>]
        /\ freed = {}
        (* Process t *)
        /\ n = [self \in Threads |-> 0]
        /\ r = [self \in Threads |-> 0]
        /\ i = [self \in Threads |-> 0]
        /\ found = [self \in Threads |-> 0]
        /\ exists = [self \in Threads |-> FALSE]
        /\ c = [self \in Threads |-> 0]
        /\ s = [self \in Threads |-> 0]
        /\ a = [self \in Threads |-> 0]
        /\ newr = [self \in Threads |-> 0]
        /\ ir = [self \in Threads |-> 0]
        /\ probes = [self \in Threads |-> 0]
        /\ pc = [self \in ProcSet |-> "T0"]

T0(self) == /\ pc[self] = "T0"
            /\ IF n[self] < NLookups
                  THEN /\ pc' = [pc EXCEPT ![self] = "L0"]
                  ELSE /\ pc' = [pc EXCEPT ![self] = "Done"]
            /\ UNCHANGED << root, count, nalloc, lg, nxt, key, ptr, created, 
                            results, freed, n, r, i, found, exists, c, s, a, 
                            newr, ir, probes >>

L0(self) == /\ pc[self] = "L0"
            /\ r' = [r EXCEPT ![self] = root]
            /\ found' = [found EXCEPT ![self] = 0]
            /\ exists' = [exists EXCEPT ![self] = FALSE]
            /\ pc' = [pc EXCEPT ![self] = "LA"]
            /\ UNCHANGED << root, count, nalloc, lg, nxt, key, ptr, created, 
                            results, freed, n, i, c, s, a, newr, ir, probes >>

LA(self) == /\ pc[self] = "LA"
            /\ IF r[self] = 0
                  THEN /\ pc' = [pc EXCEPT ![self] = "LC"]
                       /\ UNCHANGED << i, probes >>
                  ELSE /\ i' = [i EXCEPT ![self] = Start(r[self], self)]
                       /\ probes' = [probes EXCEPT ![self] = 0]
                       /\ pc' = [pc EXCEPT ![self] = "L1"]
            /\ UNCHANGED << root, count, nalloc, lg, nxt, key, ptr, created, 
                            results, freed, n, r, found, exists, c, s, a, newr, 
                            ir >>

L1(self) == /\ pc[self] = "L1"
            /\ IF key[r[self]][i[self]] = 0
                  THEN /\ r' = [r EXCEPT ![self] = nxt[r[self]]]
                       /\ pc' = [pc EXCEPT ![self] = "LA"]
                       /\ UNCHANGED << i, probes >>
                  ELSE /\ IF key[r[self]][i[self]] = self
                             THEN /\ pc' = [pc EXCEPT ![self] = "L1m"]
                                  /\ UNCHANGED << i, probes >>
                             ELSE /\ i' = [i EXCEPT ![self] = (i[self] + 1) % Size(r[self])]
                                  /\ probes' = [probes EXCEPT ![self] = probes[self] + 1]
                                  /\ pc' = [pc EXCEPT ![self] = "L1"]
                       /\ r' = r
            /\ UNCHANGED << root, count, nalloc, lg, nxt, key, ptr, created, 
                            results, freed, n, found, exists, c, s, a, newr, 
                            ir >>

L1m(self) == /\ pc[self] = "L1m"
             /\ IF r[self] = root
                   THEN /\ results' = [results EXCEPT ![self] = Append(results[self], ptr[r[self]][i[self]])]
                        /\ pc' = [pc EXCEPT ![self] = "TEnd"]
                        /\ UNCHANGED << found, exists >>
                   ELSE /\ exists' = [exists EXCEPT ![self] = TRUE]
                        /\ found' = [found EXCEPT ![self] = ptr[r[self]][i[self]]]
                        /\ pc' = [pc EXCEPT ![self] = "L5"]
                        /\ UNCHANGED results
             /\ UNCHANGED << root, count, nalloc, lg, nxt, key, ptr, created, 
                             freed, n, r, i, c, s, a, newr, ir, probes >>

LC(self) == /\ pc[self] = "LC"
            /\ created' = [created EXCEPT ![self] = created[self] + 1]
            /\ found' = [found EXCEPT ![self] = self * 100 + created'[self]]
            /\ pc' = [pc EXCEPT ![self] = "L2"]
            /\ UNCHANGED << root, count, nalloc, lg, nxt, key, ptr, results, 
                            freed, n, r, i, exists, c, s, a, newr, ir, probes >>

L2(self) == /\ pc[self] = "L2"
            /\ count' = count + 1
            /\ c' = [c EXCEPT ![self] = count']
            /\ pc' = [pc EXCEPT ![self] = "L3"]
            /\ UNCHANGED << root, nalloc, lg, nxt, key, ptr, created, results, 
                            freed, n, r, i, found, exists, s, a, newr, ir, 
                            probes >>

L3(self) == /\ pc[self] = "L3"
            /\ r' = [r EXCEPT ![self] = root]
            /\ IF r'[self] = 0 \/ c[self] > Size(r'[self]) \div 2
                  THEN /\ s' = [s EXCEPT ![self] = IF r'[self] = 0 THEN LG0 ELSE lg[r'[self]]]
                       /\ pc' = [pc EXCEPT ![self] = "L3s"]
                  ELSE /\ pc' = [pc EXCEPT ![self] = "L5"]
                       /\ s' = s
            /\ UNCHANGED << root, count, nalloc, lg, nxt, key, ptr, created, 
                            results, freed, n, i, found, exists, c, a, newr, 
                            ir, probes >>

L3s(self) == /\ pc[self] = "L3s"
             /\ IF c[self] > 2^(s[self]-1)
                   THEN /\ s' = [s EXCEPT ![self] = s[self] + 1]
                        /\ pc' = [pc EXCEPT ![self] = "L3s"]
                        /\ UNCHANGED << nalloc, lg, a >>
                   ELSE /\ nalloc' = nalloc + 1
                        /\ a' = [a EXCEPT ![self] = nalloc']
                        /\ lg' = [lg EXCEPT ![a'[self]] = s[self]]
                        /\ pc' = [pc EXCEPT ![self] = "L4"]
                        /\ s' = s
             /\ UNCHANGED << root, count, nxt, key, ptr, created, results, 
                             freed, n, r, i, found, exists, c, newr, ir, 
                             probes >>

L4(self) == /\ pc[self] = "L4"
            /\ nxt' = [nxt EXCEPT ![a[self]] = r[self]]
            /\ pc' = [pc EXCEPT ![self] = "L4c"]
            /\ UNCHANGED << root, count, nalloc, lg, key, ptr, created, 
                            results, freed, n, r, i, found, exists, c, s, a, 
                            newr, ir, probes >>

L4c(self) == /\ pc[self] = "L4c"
             /\ IF root = r[self]
                   THEN /\ root' = a[self]
                        /\ pc' = [pc EXCEPT ![self] = "L5"]
                        /\ UNCHANGED << freed, r, newr >>
                   ELSE /\ newr' = [newr EXCEPT ![self] = root]
                        /\ IF lg[newr'[self]] >= s[self]
                              THEN /\ freed' = (freed \cup {a[self]})
                                   /\ pc' = [pc EXCEPT ![self] = "L5"]
                                   /\ r' = r
                              ELSE /\ r' = [r EXCEPT ![self] = newr'[self]]
                                   /\ pc' = [pc EXCEPT ![self] = "L4"]
                                   /\ freed' = freed
                        /\ root' = root
             /\ UNCHANGED << count, nalloc, lg, nxt, key, ptr, created, 
                             results, n, i, found, exists, c, s, a, ir, probes >>

L5(self) == /\ pc[self] = "L5"
            /\ ir' = [ir EXCEPT ![self] = root]
            /\ i' = [i EXCEPT ![self] = Start(ir'[self], self)]
            /\ probes' = [probes EXCEPT ![self] = 0]
            /\ pc' = [pc EXCEPT ![self] = "L6"]
            /\ UNCHANGED << root, count, nalloc, lg, nxt, key, ptr, created, 
                            results, freed, n, r, found, exists, c, s, a, newr >>

L6(self) == /\ pc[self] = "L6"
            /\ IF key[ir[self]][i[self]] = 0
                  THEN /\ key' = [key EXCEPT ![ir[self]][i[self]] = self]
                       /\ pc' = [pc EXCEPT ![self] = "L7"]
                       /\ UNCHANGED << i, probes >>
                  ELSE /\ i' = [i EXCEPT ![self] = (i[self] + 1) % Size(ir[self])]
                       /\ probes' = [probes EXCEPT ![self] = probes[self] + 1]
                       /\ pc' = [pc EXCEPT ![self] = "L6"]
                       /\ key' = key
            /\ UNCHANGED << root, count, nalloc, lg, nxt, ptr, created, 
                            results, freed, n, r, found, exists, c, s, a, newr, 
                            ir >>

L7(self) == /\ pc[self] = "L7"
            /\ ptr' = [ptr EXCEPT ![ir[self]][i[self]] = found[self]]
            /\ results' = [results EXCEPT ![self] = Append(results[self], found[self])]
            /\ pc' = [pc EXCEPT ![self] = "TEnd"]
            /\ UNCHANGED << root, count, nalloc, lg, nxt, key, created, freed, 
                            n, r, i, found, exists, c, s, a, newr, ir, probes >>

TEnd(self) == /\ pc[self] = "TEnd"
              /\ n' = [n EXCEPT ![self] = n[self] + 1]
              /\ pc' = [pc EXCEPT ![self] = "T0"]
              /\ UNCHANGED << root, count, nalloc, lg, nxt, key, ptr, created, 
                              results, freed, r, i, found, exists, c, s, a, 
                              newr, ir, probes >>

t(self) == T0(self) \/ L0(self) \/ LA(self) \/ L1(self) \/ L1m(self)
              \/ LC(self) \/ L2(self) \/ L3(self) \/ L3s(self) \/ L4(self)
              \/ L4c(self) \/ L5(self) \/ L6(self) \/ L7(self)
              \/ TEnd(self)

(* Allow infinite stuttering to prevent deadlock on termination. *)
Terminating == /\ \A self \in ProcSet: pc[self] = "Done"
               /\ UNCHANGED vars

Next == (\E self \in Threads: t(self))
           \/ Terminating

Spec == Init /\ [][Next]_vars

Termination == <>(\A self \in ProcSet: pc[self] = "Done")

\* END TRANSLATION
OneElementPerThread == \A x \in Threads : created[x] <= 1 /\ \A j, k \in 1..Len(results[x]) : results[x][j] = results[x][k]
NoSharing == \A x, y \in Threads : x # y => \A j \in 1..Len(results[x]) : \A k \in 1..Len(results[y]) : results[x][j] # results[y][k]
ProbeBounded == \A x \in Threads : probes[x] <= 2^(LG0+2)
NoFreedInChain == root \notin freed /\ \A b \in Arr : (nxt[b] # 0) => nxt[b] \notin freed
====
