SPECIFICATION Spec
CONSTANT Callers = {1,2,3}
CONSTANT ThrowAttempts = {1,2}
CONSTANT MaxRefs = 1
INVARIANT OnceOnly
INVARIANT NoUseAfterFree
INVARIANT ReturnAfterDone
INVARIANT Final
