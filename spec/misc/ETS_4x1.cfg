SPECIFICATION Spec
CONSTANT Threads = {1,2,3,4}
CONSTANT Hash <- H4
CONSTANT NLookups = 1
CONSTANT MaxArr = 5
CONSTANT LG0 = 1
INVARIANT OneElementPerThread
INVARIANT NoSharing
INVARIANT ProbeBounded
INVARIANT NoFreedInChain
