------------------------------- MODULE TraceOnce -------------------------------
(* Validation of recorded collaborative_call_once executions against OnceAbs.                                   *)
(* Events: Call t | FnBegin t | FnEnd t | FnThrow t | Ret t seen | Exc t | Quiesce nret | Reset ; Stuck/Crash/Terminate are unexplainable. *)
EXTENDS Integers, Sequences, FiniteSets, TLC, Json, IOUtils
TraceLog == ndJsonDeserialize(IOEnv.TRACE)
Threads == 0..8
VARIABLES completed, pendexc, incall, running, l
A == INSTANCE OnceAbs
vars == <<completed, pendexc, incall, running, l>>
Ev == TraceLog[l]
Is(e) == l <= Len(TraceLog) /\ TraceLog[l].e = e /\ l' = l + 1
TInit == A!OInit /\ l = 1
TNext == \/ Is("Call") /\ A!Call(Ev.t)
         \/ Is("FnBegin") /\ A!FnBegin(Ev.t)
         \/ Is("FnEnd") /\ A!FnEnd(Ev.t)
         \/ Is("FnThrow") /\ A!FnThrow(Ev.t)
         \/ Is("Ret") /\ A!Ret(Ev.t, Ev.seen)
         \/ Is("Exc") /\ A!Exc(Ev.t)
         \/ Is("Quiesce") /\ A!Quiesce(Ev.nret)
         \/ Is("Reset") /\ completed' = 0 /\ pendexc' = 0 /\ incall' = {} /\ running' = {}
TraceSpec == TInit /\ [][TNext]_vars
NotAccepted == l <= Len(TraceLog)
=============================================================================
