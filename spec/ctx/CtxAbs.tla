------------------------------- MODULE CtxAbs -------------------------------
(* Abstract specification of property C04 over observable events.                                              *)
(*   par      bound-parent relation of the contexts seen so far ("none" for roots / isolated contexts)        *)
(*   calls    for each context, the results of the completed cancel_group_execution calls on it               *)
(* At quiescence (every cancel call and every binding returned) a context is cancelled iff it is a cancel      *)
(* target or bound, directly or transitively, beneath one; exactly one caller per not-yet-cancelled target     *)
(* got true.                                                                                                   *)
EXTENDS Naturals, Sequences, FiniteSets
CONSTANT CtxIds
VARIABLES par, calls
cvars == <<par, calls>>
CInit == par = [c \in CtxIds |-> "unknown"] /\ calls = [c \in CtxIds |-> <<>>]
Declare(c, p) == /\ par[c] = "unknown" /\ par' = [par EXCEPT ![c] = p] /\ UNCHANGED calls
CancelRet(c, r) == /\ calls' = [calls EXCEPT ![c] = Append(@, r)] /\ UNCHANGED par
Known == {c \in CtxIds : par[c] # "unknown"}
RECURSIVE AncOf(_)
AncOf(c) == IF par[c] \in {"none", "unknown"} THEN {} ELSE {par[c]} \cup AncOf(par[c])
Targets == {c \in Known : Len(calls[c]) > 0}
Closure == Targets \cup {c \in Known : AncOf(c) \cap Targets # {}}
Trues(c) == Cardinality({i \in 1..Len(calls[c]) : calls[c][i] = 1})
\* flags = observed is_group_execution_cancelled() of every known context at quiescence
FinalOK(flags) ==
    /\ \A c \in Known : (flags[c] = 1) <=> (c \in Closure)
    /\ \A c \in Targets : Trues(c) <= 1 /\ (AncOf(c) \cap Targets = {} => Trues(c) = 1)
=============================================================================
