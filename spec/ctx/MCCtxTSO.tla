---- MODULE MCCtxTSO ----
EXTENDS CtxTreeTSO
TgtG == [a \in {"A1"} |-> "G"]
TgtP == [a \in {"A1"} |-> "P"]
OABX == <<"A1", "B", "X">>
OXBA == <<"X", "B", "A1">>
OBXA == <<"B", "X", "A1">>
====
