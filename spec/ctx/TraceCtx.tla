------------------------------ MODULE TraceCtx ------------------------------
(* Trace validation of recorded executions of the real task_group_context code against CtxAbs.  *)
(* Events: Ctx c p | Bound c p | CancelRet t c r | Final G P S C | Stuck | Reset                 *)
EXTENDS Naturals, Sequences, FiniteSets, TLC, Json, IOUtils
TraceLog == ndJsonDeserialize(IOEnv.TRACE)
CtxIds == {"G", "P", "S", "C", "D", "U"}
VARIABLES par, calls, l
A == INSTANCE CtxAbs
vars == <<par, calls, l>>
Ev == TraceLog[l]
Is(e) == l <= Len(TraceLog) /\ TraceLog[l].e = e /\ l' = l + 1
TInit == A!CInit /\ l = 1
TCtx == (Is("Ctx") \/ Is("Bound")) /\ A!Declare(Ev.c, Ev.p)
TCancel == Is("CancelRet") /\ A!CancelRet(Ev.c, Ev.r)
TFinal == /\ Is("Final") /\ UNCHANGED <<par, calls>>
          /\ A!FinalOK([c \in A!Known |-> Ev[c]])
TReset == Is("Reset") /\ par' = [c \in CtxIds |-> "unknown"] /\ calls' = [c \in CtxIds |-> <<>>]
TNext == TCtx \/ TCancel \/ TFinal \/ TReset
TraceSpec == TInit /\ [][TNext]_vars
NotAccepted == l <= Len(TraceLog)
=============================================================================
