------------------------------- MODULE CtxTree -------------------------------
(***************************************************************************)
(* Protocol specification of task_group_context binding vs. cancellation    *)
(* propagation (property C04):                                              *)
(*   src/tbb/task_group_context.cpp  bind_to / bind_to_impl / register_with *)
(*                                   cancel_group_execution                 *)
(*                                   propagate_task_group_state             *)
(*   src/tbb/cancellation_disseminator.h  propagate_task_group_state        *)
(*   src/tbb/thread_data.h           thread_data::propagate_task_group_state*)
(* One label per access to the tracked fields (my_cancellation_requested,   *)
(* my_may_have_children, my_state, list epoch, global epoch); a mutex       *)
(* acquisition is one step (critical-section granularity - the mutexes      *)
(* themselves are C08's subject).  The TWO mutexes of the code are kept     *)
(* distinct: tlm = my_threads_list_mutex (held by the propagator),          *)
(* pm = the_context_state_propagation_mutex (taken by the binder's slow     *)
(* path).  FIXPM = TRUE models the repair "the propagator also holds pm".   *)
(* HINTSC (hint store seq_cst) only matters in the TSO variant CtxTreeTSO.   *)
(*                                                                          *)
(* Contexts: G (root, isolated) <- P, S (children of G, registered on X's   *)
(* list) ; C is being bound under P by thread B.  Cancellers cancel Tgt[a]. *)
(* Order = sequence of threads whose context lists the propagator walks.    *)
(***************************************************************************)
EXTENDS Naturals, Sequences, FiniteSets, TLC
CONSTANTS Cancellers, Tgt, Order, FIXPM, HINTSC,
          ROOTCOPY,      \* fact probed from the running code: "always" = the no-grand-ancestor branch stores the parent's state it loaded whatever it is,
                         \* "set-only" = it stores only a set state (finding 6.16)
          BindTo         \* the context C is bound under: "P" (which has the grand-ancestor G: epoch snapshot + re-check under pm) or "G" (a parentless context:
                         \* bind_to_impl registers the new context first and then copies the parent's state - no epoch check is needed in that order)
Ctxs == {"G", "P", "S", "C"}
Thr == {"X", "B", "A1", "A2"}
(* --algorithm ctx {
  variables cancel = [c \in Ctxs |-> 0],
            hint = [c \in Ctxs |-> IF c = "G" THEN 1 ELSE 0],        \* G already has children
            parent = [c \in Ctxs |-> IF c \in {"P", "S"} THEN "G" ELSE "none"],
            cstate = "created",                                       \* C.my_state
            list = [t \in Thr |-> IF t = "X" THEN <<"S", "P">> ELSE <<>>],
            lepoch = [t \in Thr |-> 0], gepoch = 0,
            tlm = "free", pm = "free", lm = [t \in Thr |-> "free"],
            ret = [a \in Cancellers |-> "na"];
  define {
    Anc1(c) == IF parent[c] = "none" THEN {} ELSE {parent[c]}
    Anc(c) == Anc1(c) \cup UNION {Anc1(p) : p \in Anc1(c)} \cup UNION {UNION {Anc1(q) : q \in Anc1(p)} : p \in Anc1(c)}
    \* contexts on the path from c (inclusive) up to, excluding, ancestor a
    Chain(c, a) == {c} \cup {x \in Anc(c) : a \in Anc(x)}
  }
  process (A \in Cancellers)
    variables old = 0, k = 1, j = 1, cx = "", todo = {};
  {
    c1: if (cancel[Tgt[self]] = 1) { ret[self] := "false"; goto cDone };            \* load (relaxed)
    c2: old := cancel[Tgt[self]]; cancel[Tgt[self]] := 1;                           \* exchange(1)
        if (old = 1) { ret[self] := "false"; goto cDone } else { ret[self] := "true" };
    c3: if (hint[Tgt[self]] # 1) { goto cDone };                                    \* my_may_have_children.load
    c4: await tlm = "free"; tlm := self;                                            \* my_threads_list_mutex
    c4p: if (FIXPM) { await pm = "free"; pm := self };                              \* (repair) the_context_state_propagation_mutex
    c5: if (cancel[Tgt[self]] # 1) { goto c11p };                                   \* re-check under the lock
    c6: gepoch := gepoch + 1;                                                       \* ++the_context_state_propagation_epoch
    c7: await lm[Order[k]] = "free"; lm[Order[k]] := self; j := 1;                  \* list mutex of thread Order[k]
        if (Len(list[Order[k]]) = 0) { goto c9a };
    c8: cx := list[Order[k]][j];
        if (cancel[cx] = 1) { goto c8d };                                           \* load ctx.state (already cancelled: skip)
    c8b: if (cancel[cx] # 1 /\ cx # Tgt[self] /\ Tgt[self] \in Anc(cx)) {           \* load again inside propagate_task_group_state
           todo := Chain(cx, Tgt[self]);
         } else { goto c8d };
    c8c: with (x \in {y \in todo : \A z \in todo : z = y \/ y \notin Anc(z)}) {     \* one relaxed store per chain element, bottom-up
           cancel[x] := 1; todo := todo \ {x};
         };
         if (todo # {}) { goto c8c };
    c8d: j := j + 1;
         if (j <= Len(list[Order[k]])) { goto c8 };
    c9a: old := gepoch;                                                             \* load global epoch
    c9b: lepoch[Order[k]] := old;                                                   \* store list epoch (release)
    c10: lm[Order[k]] := "free"; k := k + 1;
         if (k <= Len(Order)) { goto c7 };
    c11p: if (FIXPM) { pm := "free" };
    c11: tlm := "free";
    cDone: skip;
  }
  process (B = "B")
    variables snap = 0, v = 0, e = 0;
  {
    b0: assert cstate = "created";                                                  \* my_state.load(acquire)
    b1: cstate := "locked"; parent["C"] := BindTo;                                  \* CAS created -> locked ; my_parent = ...
    b2: if (hint[BindTo] = 1) { goto bx };                                          \* parent->my_may_have_children.load
    b3: hint[BindTo] := 1;                                                          \* .store(relaxed)  ("full fence is below")
    bx: if (parent[BindTo] = "none") { goto r7 } else { goto b4 };                  \* if (ctx.my_parent->my_parent) ... else ...
    b4: snap := lepoch["X"];                                                        \* parent's list epoch (acquire)
    b5: v := cancel[BindTo];                                                        \* speculative copy: load
    b6: cancel["C"] := v;                                                           \*                   store
    b7: await lm["B"] = "free"; lm["B"] := "B"; list["B"] := <<"C">> \o list["B"];  \* register_with: push_front under the list mutex
    b8: lm["B"] := "free";
    b9: e := gepoch;                                                                \* global epoch (relaxed)
        if (snap = e) { goto b14 };
    b10: await pm = "free"; pm := "B";                                              \* slow path under the_context_state_propagation_mutex
    b11: v := cancel[BindTo];
    b12: cancel["C"] := v;
    b13: pm := "free"; goto b14;
    \* no grand-ancestors: a concurrent propagation can only originate from the parent itself - register first, then copy its state
    r7: await lm["B"] = "free"; lm["B"] := "B"; list["B"] := <<"C">> \o list["B"];  \* register_with: push_front under the list mutex (issues a full fence)
    r8: lm["B"] := "free";
    r5: v := cancel[BindTo];                                                        \* parent's state: load
        if (ROOTCOPY = "set-only" /\ v = 0) { goto b14 };                           \* (repaired code: only a set state is copied)
    r6: cancel["C"] := v;                                                           \* store (pinned code: unconditionally - a stale 0 can overwrite a propagated 1)
    b14: cstate := "bound";                                                         \* my_state.store(bound, release)
    b15: assert cstate = "bound";                                                   \* spin_wait_while_eq(my_state, locked)
  }
} *)
\* BEGIN TRANSLATION
VARIABLES pc, cancel, hint, parent, cstate, list, lepoch, gepoch, tlm, pm, lm, 
          ret

(* define statement *)
Anc1(c) == IF parent[c] = "none" THEN {} ELSE {parent[c]}
Anc(c) == Anc1(c) \cup UNION {Anc1(p) : p \in Anc1(c)} \cup UNION {UNION {Anc1(q) : q \in Anc1(p)} : p \in Anc1(c)}

Chain(c, a) == {c} \cup {x \in Anc(c) : a \in Anc(x)}

VARIABLES old, k, j, cx, todo, snap, v, e

vars == << pc, cancel, hint, parent, cstate, list, lepoch, gepoch, tlm, pm, 
           lm, ret, old, k, j, cx, todo, snap, v, e >>

ProcSet == (Cancellers) \cup {"B"}

Init == (* Global variables *)
        /\ cancel = [c \in Ctxs |-> 0]
        /\ hint = [c \in Ctxs |-> IF c = "G" THEN 1 ELSE 0]
        /\ parent = [c \in Ctxs |-> IF c \in {"P", "S"} THEN "G" ELSE "none"]
        /\ cstate = "created"
        /\ list = [t \in Thr |-> IF t = "X" THEN <<"S", "P">> ELSE <<>>]
        /\ lepoch = [t \in Thr |-> 0]
        /\ gepoch = 0
        /\ tlm = "free"
        /\ pm = "free"
        /\ lm = [t \in Thr |-> "free"]
        /\ ret = [a \in Cancellers |-> "na"]
        (* Process A *)
        /\ old = [self \in Cancellers |-> 0]
        /\ k = [self \in Cancellers |-> 1]
        /\ j = [self \in Cancellers |-> 1]
        /\ cx = [self \in Cancellers |-> ""]
        /\ todo = [self \in Cancellers |-> {}]
        (* Process B *)
        /\ snap = 0
        /\ v = 0
        /\ e = 0
        /\ pc = [self \in ProcSet |-> CASE self \in Cancellers -> "c1"
                                        [] self = "B" -> "b0"]

c1(self) == /\ pc[self] = "c1"
            /\ IF cancel[Tgt[self]] = 1
                  THEN /\ ret' = [ret EXCEPT ![self] = "false"]
                       /\ pc' = [pc EXCEPT ![self] = "cDone"]
                  ELSE /\ pc' = [pc EXCEPT ![self] = "c2"]
                       /\ ret' = ret
            /\ UNCHANGED << cancel, hint, parent, cstate, list, lepoch, gepoch, 
                            tlm, pm, lm, old, k, j, cx, todo, snap, v, e >>

c2(self) == /\ pc[self] = "c2"
            /\ old' = [old EXCEPT ![self] = cancel[Tgt[self]]]
            /\ cancel' = [cancel EXCEPT ![Tgt[self]] = 1]
            /\ IF old'[self] = 1
                  THEN /\ ret' = [ret EXCEPT ![self] = "false"]
                       /\ pc' = [pc EXCEPT ![self] = "cDone"]
                  ELSE /\ ret' = [ret EXCEPT ![self] = "true"]
                       /\ pc' = [pc EXCEPT ![self] = "c3"]
            /\ UNCHANGED << hint, parent, cstate, list, lepoch, gepoch, tlm, 
                            pm, lm, k, j, cx, todo, snap, v, e >>

c3(self) == /\ pc[self] = "c3"
            /\ IF hint[Tgt[self]] # 1
                  THEN /\ pc' = [pc EXCEPT ![self] = "cDone"]
                  ELSE /\ pc' = [pc EXCEPT ![self] = "c4"]
            /\ UNCHANGED << cancel, hint, parent, cstate, list, lepoch, gepoch, 
                            tlm, pm, lm, ret, old, k, j, cx, todo, snap, v, e >>

c4(self) == /\ pc[self] = "c4"
            /\ tlm = "free"
            /\ tlm' = self
            /\ pc' = [pc EXCEPT ![self] = "c4p"]
            /\ UNCHANGED << cancel, hint, parent, cstate, list, lepoch, gepoch, 
                            pm, lm, ret, old, k, j, cx, todo, snap, v, e >>

c4p(self) == /\ pc[self] = "c4p"
             /\ IF FIXPM
                   THEN /\ pm = "free"
                        /\ pm' = self
                   ELSE /\ TRUE
                        /\ pm' = pm
             /\ pc' = [pc EXCEPT ![self] = "c5"]
             /\ UNCHANGED << cancel, hint, parent, cstate, list, lepoch, 
                             gepoch, tlm, lm, ret, old, k, j, cx, todo, snap, 
                             v, e >>

c5(self) == /\ pc[self] = "c5"
            /\ IF cancel[Tgt[self]] # 1
                  THEN /\ pc' = [pc EXCEPT ![self] = "c11p"]
                  ELSE /\ pc' = [pc EXCEPT ![self] = "c6"]
            /\ UNCHANGED << cancel, hint, parent, cstate, list, lepoch, gepoch, 
                            tlm, pm, lm, ret, old, k, j, cx, todo, snap, v, e >>

c6(self) == /\ pc[self] = "c6"
            /\ gepoch' = gepoch + 1
            /\ pc' = [pc EXCEPT ![self] = "c7"]
            /\ UNCHANGED << cancel, hint, parent, cstate, list, lepoch, tlm, 
                            pm, lm, ret, old, k, j, cx, todo, snap, v, e >>

c7(self) == /\ pc[self] = "c7"
            /\ lm[Order[k[self]]] = "free"
            /\ lm' = [lm EXCEPT ![Order[k[self]]] = self]
            /\ j' = [j EXCEPT ![self] = 1]
            /\ IF Len(list[Order[k[self]]]) = 0
                  THEN /\ pc' = [pc EXCEPT ![self] = "c9a"]
                  ELSE /\ pc' = [pc EXCEPT ![self] = "c8"]
            /\ UNCHANGED << cancel, hint, parent, cstate, list, lepoch, gepoch, 
                            tlm, pm, ret, old, k, cx, todo, snap, v, e >>

c8(self) == /\ pc[self] = "c8"
            /\ cx' = [cx EXCEPT ![self] = list[Order[k[self]]][j[self]]]
            /\ IF cancel[cx'[self]] = 1
                  THEN /\ pc' = [pc EXCEPT ![self] = "c8d"]
                  ELSE /\ pc' = [pc EXCEPT ![self] = "c8b"]
            /\ UNCHANGED << cancel, hint, parent, cstate, list, lepoch, gepoch, 
                            tlm, pm, lm, ret, old, k, j, todo, snap, v, e >>

c8b(self) == /\ pc[self] = "c8b"
             /\ IF cancel[cx[self]] # 1 /\ cx[self] # Tgt[self] /\ Tgt[self] \in Anc(cx[self])
                   THEN /\ todo' = [todo EXCEPT ![self] = Chain(cx[self], Tgt[self])]
                        /\ pc' = [pc EXCEPT ![self] = "c8c"]
                   ELSE /\ pc' = [pc EXCEPT ![self] = "c8d"]
                        /\ todo' = todo
             /\ UNCHANGED << cancel, hint, parent, cstate, list, lepoch, 
                             gepoch, tlm, pm, lm, ret, old, k, j, cx, snap, v, 
                             e >>

c8c(self) == /\ pc[self] = "c8c"
             /\ \E x \in {y \in todo[self] : \A z \in todo[self] : z = y \/ y \notin Anc(z)}:
                  /\ cancel' = [cancel EXCEPT ![x] = 1]
                  /\ todo' = [todo EXCEPT ![self] = todo[self] \ {x}]
             /\ IF todo'[self] # {}
                   THEN /\ pc' = [pc EXCEPT ![self] = "c8c"]
                   ELSE /\ pc' = [pc EXCEPT ![self] = "c8d"]
             /\ UNCHANGED << hint, parent, cstate, list, lepoch, gepoch, tlm, 
                             pm, lm, ret, old, k, j, cx, snap, v, e >>

c8d(self) == /\ pc[self] = "c8d"
             /\ j' = [j EXCEPT ![self] = j[self] + 1]
             /\ IF j'[self] <= Len(list[Order[k[self]]])
                   THEN /\ pc' = [pc EXCEPT ![self] = "c8"]
                   ELSE /\ pc' = [pc EXCEPT ![self] = "c9a"]
             /\ UNCHANGED << cancel, hint, parent, cstate, list, lepoch, 
                             gepoch, tlm, pm, lm, ret, old, k, cx, todo, snap, 
                             v, e >>

c9a(self) == /\ pc[self] = "c9a"
             /\ old' = [old EXCEPT ![self] = gepoch]
             /\ pc' = [pc EXCEPT ![self] = "c9b"]
             /\ UNCHANGED << cancel, hint, parent, cstate, list, lepoch, 
                             gepoch, tlm, pm, lm, ret, k, j, cx, todo, snap, v, 
                             e >>

c9b(self) == /\ pc[self] = "c9b"
             /\ lepoch' = [lepoch EXCEPT ![Order[k[self]]] = old[self]]
             /\ pc' = [pc EXCEPT ![self] = "c10"]
             /\ UNCHANGED << cancel, hint, parent, cstate, list, gepoch, tlm, 
                             pm, lm, ret, old, k, j, cx, todo, snap, v, e >>

c10(self) == /\ pc[self] = "c10"
             /\ lm' = [lm EXCEPT ![Order[k[self]]] = "free"]
             /\ k' = [k EXCEPT ![self] = k[self] + 1]
             /\ IF k'[self] <= Len(Order)
                   THEN /\ pc' = [pc EXCEPT ![self] = "c7"]
                   ELSE /\ pc' = [pc EXCEPT ![self] = "c11p"]
             /\ UNCHANGED << cancel, hint, parent, cstate, list, lepoch, 
                             gepoch, tlm, pm, ret, old, j, cx, todo, snap, v, 
                             e >>

c11p(self) == /\ pc[self] = "c11p"
              /\ IF FIXPM
                    THEN /\ pm' = "free"
                    ELSE /\ TRUE
                         /\ pm' = pm
              /\ pc' = [pc EXCEPT ![self] = "c11"]
              /\ UNCHANGED << cancel, hint, parent, cstate, list, lepoch, 
                              gepoch, tlm, lm, ret, old, k, j, cx, todo, snap, 
                              v, e >>

c11(self) == /\ pc[self] = "c11"
             /\ tlm' = "free"
             /\ pc' = [pc EXCEPT ![self] = "cDone"]
             /\ UNCHANGED << cancel, hint, parent, cstate, list, lepoch, 
                             gepoch, pm, lm, ret, old, k, j, cx, todo, snap, v, 
                             e >>

cDone(self) == /\ pc[self] = "cDone"
               /\ TRUE
               /\ pc' = [pc EXCEPT ![self] = "Done"]
               /\ UNCHANGED << cancel, hint, parent, cstate, list, lepoch, 
                               gepoch, tlm, pm, lm, ret, old, k, j, cx, todo, 
                               snap, v, e >>

A(self) == c1(self) \/ c2(self) \/ c3(self) \/ c4(self) \/ c4p(self)
              \/ c5(self) \/ c6(self) \/ c7(self) \/ c8(self) \/ c8b(self)
              \/ c8c(self) \/ c8d(self) \/ c9a(self) \/ c9b(self)
              \/ c10(self) \/ c11p(self) \/ c11(self) \/ cDone(self)

b0 == /\ pc["B"] = "b0"
      /\ Assert(cstate = "created", 
                "Failure of assertion at line 81, column 9.")
      /\ pc' = [pc EXCEPT !["B"] = "b1"]
      /\ UNCHANGED << cancel, hint, parent, cstate, list, lepoch, gepoch, tlm, 
                      pm, lm, ret, old, k, j, cx, todo, snap, v, e >>

b1 == /\ pc["B"] = "b1"
      /\ cstate' = "locked"
      /\ parent' = [parent EXCEPT !["C"] = BindTo]
      /\ pc' = [pc EXCEPT !["B"] = "b2"]
      /\ UNCHANGED << cancel, hint, list, lepoch, gepoch, tlm, pm, lm, ret, 
                      old, k, j, cx, todo, snap, v, e >>

b2 == /\ pc["B"] = "b2"
      /\ IF hint[BindTo] = 1
            THEN /\ pc' = [pc EXCEPT !["B"] = "bx"]
            ELSE /\ pc' = [pc EXCEPT !["B"] = "b3"]
      /\ UNCHANGED << cancel, hint, parent, cstate, list, lepoch, gepoch, tlm, 
                      pm, lm, ret, old, k, j, cx, todo, snap, v, e >>

b3 == /\ pc["B"] = "b3"
      /\ hint' = [hint EXCEPT ![BindTo] = 1]
      /\ pc' = [pc EXCEPT !["B"] = "bx"]
      /\ UNCHANGED << cancel, parent, cstate, list, lepoch, gepoch, tlm, pm, 
                      lm, ret, old, k, j, cx, todo, snap, v, e >>

bx == /\ pc["B"] = "bx"
      /\ IF parent[BindTo] = "none"
            THEN /\ pc' = [pc EXCEPT !["B"] = "r7"]
            ELSE /\ pc' = [pc EXCEPT !["B"] = "b4"]
      /\ UNCHANGED << cancel, hint, parent, cstate, list, lepoch, gepoch, tlm, 
                      pm, lm, ret, old, k, j, cx, todo, snap, v, e >>

b4 == /\ pc["B"] = "b4"
      /\ snap' = lepoch["X"]
      /\ pc' = [pc EXCEPT !["B"] = "b5"]
      /\ UNCHANGED << cancel, hint, parent, cstate, list, lepoch, gepoch, tlm, 
                      pm, lm, ret, old, k, j, cx, todo, v, e >>

b5 == /\ pc["B"] = "b5"
      /\ v' = cancel[BindTo]
      /\ pc' = [pc EXCEPT !["B"] = "b6"]
      /\ UNCHANGED << cancel, hint, parent, cstate, list, lepoch, gepoch, tlm, 
                      pm, lm, ret, old, k, j, cx, todo, snap, e >>

b6 == /\ pc["B"] = "b6"
      /\ cancel' = [cancel EXCEPT !["C"] = v]
      /\ pc' = [pc EXCEPT !["B"] = "b7"]
      /\ UNCHANGED << hint, parent, cstate, list, lepoch, gepoch, tlm, pm, lm, 
                      ret, old, k, j, cx, todo, snap, v, e >>

b7 == /\ pc["B"] = "b7"
      /\ lm["B"] = "free"
      /\ lm' = [lm EXCEPT !["B"] = "B"]
      /\ list' = [list EXCEPT !["B"] = <<"C">> \o list["B"]]
      /\ pc' = [pc EXCEPT !["B"] = "b8"]
      /\ UNCHANGED << cancel, hint, parent, cstate, lepoch, gepoch, tlm, pm, 
                      ret, old, k, j, cx, todo, snap, v, e >>

b8 == /\ pc["B"] = "b8"
      /\ lm' = [lm EXCEPT !["B"] = "free"]
      /\ pc' = [pc EXCEPT !["B"] = "b9"]
      /\ UNCHANGED << cancel, hint, parent, cstate, list, lepoch, gepoch, tlm, 
                      pm, ret, old, k, j, cx, todo, snap, v, e >>

b9 == /\ pc["B"] = "b9"
      /\ e' = gepoch
      /\ IF snap = e'
            THEN /\ pc' = [pc EXCEPT !["B"] = "b14"]
            ELSE /\ pc' = [pc EXCEPT !["B"] = "b10"]
      /\ UNCHANGED << cancel, hint, parent, cstate, list, lepoch, gepoch, tlm, 
                      pm, lm, ret, old, k, j, cx, todo, snap, v >>

b10 == /\ pc["B"] = "b10"
       /\ pm = "free"
       /\ pm' = "B"
       /\ pc' = [pc EXCEPT !["B"] = "b11"]
       /\ UNCHANGED << cancel, hint, parent, cstate, list, lepoch, gepoch, tlm, 
                       lm, ret, old, k, j, cx, todo, snap, v, e >>

b11 == /\ pc["B"] = "b11"
       /\ v' = cancel[BindTo]
       /\ pc' = [pc EXCEPT !["B"] = "b12"]
       /\ UNCHANGED << cancel, hint, parent, cstate, list, lepoch, gepoch, tlm, 
                       pm, lm, ret, old, k, j, cx, todo, snap, e >>

b12 == /\ pc["B"] = "b12"
       /\ cancel' = [cancel EXCEPT !["C"] = v]
       /\ pc' = [pc EXCEPT !["B"] = "b13"]
       /\ UNCHANGED << hint, parent, cstate, list, lepoch, gepoch, tlm, pm, lm, 
                       ret, old, k, j, cx, todo, snap, v, e >>

b13 == /\ pc["B"] = "b13"
       /\ pm' = "free"
       /\ pc' = [pc EXCEPT !["B"] = "b14"]
       /\ UNCHANGED << cancel, hint, parent, cstate, list, lepoch, gepoch, tlm, 
                       lm, ret, old, k, j, cx, todo, snap, v, e >>

r7 == /\ pc["B"] = "r7"
      /\ lm["B"] = "free"
      /\ lm' = [lm EXCEPT !["B"] = "B"]
      /\ list' = [list EXCEPT !["B"] = <<"C">> \o list["B"]]
      /\ pc' = [pc EXCEPT !["B"] = "r8"]
      /\ UNCHANGED << cancel, hint, parent, cstate, lepoch, gepoch, tlm, pm, 
                      ret, old, k, j, cx, todo, snap, v, e >>

r8 == /\ pc["B"] = "r8"
      /\ lm' = [lm EXCEPT !["B"] = "free"]
      /\ pc' = [pc EXCEPT !["B"] = "r5"]
      /\ UNCHANGED << cancel, hint, parent, cstate, list, lepoch, gepoch, tlm, 
                      pm, ret, old, k, j, cx, todo, snap, v, e >>

r5 == /\ pc["B"] = "r5"
      /\ v' = cancel[BindTo]
      /\ IF ROOTCOPY = "set-only" /\ v' = 0
            THEN /\ pc' = [pc EXCEPT !["B"] = "b14"]
            ELSE /\ pc' = [pc EXCEPT !["B"] = "r6"]
      /\ UNCHANGED << cancel, hint, parent, cstate, list, lepoch, gepoch, tlm, 
                      pm, lm, ret, old, k, j, cx, todo, snap, e >>

r6 == /\ pc["B"] = "r6"
      /\ cancel' = [cancel EXCEPT !["C"] = v]
      /\ pc' = [pc EXCEPT !["B"] = "b14"]
      /\ UNCHANGED << hint, parent, cstate, list, lepoch, gepoch, tlm, pm, lm, 
                      ret, old, k, j, cx, todo, snap, v, e >>

b14 == /\ pc["B"] = "b14"
       /\ cstate' = "bound"
       /\ pc' = [pc EXCEPT !["B"] = "b15"]
       /\ UNCHANGED << cancel, hint, parent, list, lepoch, gepoch, tlm, pm, lm, 
                       ret, old, k, j, cx, todo, snap, v, e >>

b15 == /\ pc["B"] = "b15"
       /\ Assert(cstate = "bound", 
                 "Failure of assertion at line 104, column 10.")
       /\ pc' = [pc EXCEPT !["B"] = "Done"]
       /\ UNCHANGED << cancel, hint, parent, cstate, list, lepoch, gepoch, tlm, 
                       pm, lm, ret, old, k, j, cx, todo, snap, v, e >>

B == b0 \/ b1 \/ b2 \/ b3 \/ bx \/ b4 \/ b5 \/ b6 \/ b7 \/ b8 \/ b9 \/ b10
        \/ b11 \/ b12 \/ b13 \/ r7 \/ r8 \/ r5 \/ r6 \/ b14 \/ b15

(* Allow infinite stuttering to prevent deadlock on termination. *)
Terminating == /\ \A self \in ProcSet: pc[self] = "Done"
               /\ UNCHANGED vars

Next == B
           \/ (\E self \in Cancellers: A(self))
           \/ Terminating

Spec == Init /\ [][Next]_vars

Termination == <>(\A self \in ProcSet: pc[self] = "Done")

\* END TRANSLATION

AllDone == (\A a \in Cancellers : pc[a] = "Done") /\ pc["B"] = "Done"
Targets == {Tgt[a] : a \in Cancellers}
\* C04: once every cancel call and every binding completed, a context is cancelled iff it is a target or bound beneath one
Closure == Targets \cup {c \in Ctxs : Anc(c) \cap Targets # {}}
Reaches == AllDone => \A c \in Closure : cancel[c] = 1
NothingElse == \A c \in Ctxs \ Closure : cancel[c] = 0
\* exactly one of the concurrent callers on a not-yet-cancelled context gets true
OneWinner == AllDone => \A t \in Targets :
                 LET callers == {a \in Cancellers : Tgt[a] = t} IN
                 /\ Cardinality({a \in callers : ret[a] = "true"}) <= 1
                 /\ (Anc(t) \cap Targets = {} => Cardinality({a \in callers : ret[a] = "true"}) = 1)
Sticky == [][\A c \in Ctxs : cancel[c] = 1 => cancel'[c] = 1 \/ c = "C"]_vars
=============================================================================
