SPECIFICATION Spec
CONSTANT Cancellers = {"A1"}
CONSTANT Tgt <- TgtG
CONSTANT Order <- OABX
CONSTANT FIXPM = FALSE
CONSTANT REFENCE = FALSE
INVARIANT Reaches
INVARIANT NothingElse
INVARIANT OneWinner
