------------------------------- MODULE CtxTreeTSO ------------------------------
(***************************************************************************)
(* Protocol specification of task_group_context binding vs. cancellation    *)
(* propagation (property C04):                                              *)
(*   src/tbb/task_group_context.cpp  bind_to / bind_to_impl / register_with *)
(*                                   cancel_group_execution                 *)
(*                                   propagate_task_group_state             *)
(*   src/tbb/cancellation_disseminator.h  propagate_task_group_state        *)
(*   src/tbb/thread_data.h           thread_data::propagate_task_group_state*)
(* One label per access to the tracked fields (my_cancellation_requested,   *)
(* my_may_have_children, my_state, list epoch, global epoch); a mutex       *)
(* acquisition is one step (critical-section granularity - the mutexes      *)
(* themselves are C08's subject).  The TWO mutexes of the code are kept     *)
(* distinct: tlm = my_threads_list_mutex (held by the propagator),          *)
(* pm = the_context_state_propagation_mutex (taken by the binder's slow     *)
(* path).  FIXPM = TRUE models the repair "the propagator also holds pm".   *)
(*                                                                          *)
(* Contexts: G (root, isolated) <- P, S (children of G, registered on X's   *)
(* list) ; C is being bound under P by thread B.  Cancellers cancel Tgt[a]. *)
(* Order = sequence of threads whose context lists the propagator walks.    *)
(*                                                                          *)
(* TSO variant: thread B (the binder) has a FIFO store buffer sb.  Its      *)
(* non-seq_cst stores (the hint, the speculative copy, my_state) are        *)
(* appended to sb; its loads are forwarded from sb; RMWs (mutex operations, *)
(* CAS) drain sb first; process "D" commits the oldest entry at any time.   *)
(* This is x86-TSO restricted to the thread whose relaxed accesses the      *)
(* property singles out ("store-buffer reordering of the relaxed accesses   *)
(* in the binding fast path").                                              *)
(***************************************************************************)
EXTENDS Naturals, Sequences, FiniteSets, TLC
CONSTANTS Cancellers, Tgt, Order, FIXPM, HINTSC, BindTo, ROOTCOPY
ASSUME BindTo = "P"          \* (the store-buffer variant covers the grand-ancestor branch only)
Ctxs == {"G", "P", "S", "C"}
Thr == {"X", "B", "A1", "A2"}
(* --algorithm ctxtso {
  variables cancel = [c \in Ctxs |-> 0],
            hint = [c \in Ctxs |-> IF c = "G" THEN 1 ELSE 0],        \* G already has children
            parent = [c \in Ctxs |-> IF c \in {"P", "S"} THEN "G" ELSE "none"],
            cstate = "created",                                       \* C.my_state
            list = [t \in Thr |-> IF t = "X" THEN <<"S", "P">> ELSE <<>>],
            lepoch = [t \in Thr |-> 0], gepoch = 0,
            tlm = "free", pm = "free", lm = [t \in Thr |-> "free"],
            ret = [a \in Cancellers |-> "na"],
            sb = <<>>;                                                 \* B's store buffer: <<field, ctx, value>>
  define {
    Anc1(c) == IF parent[c] = "none" THEN {} ELSE {parent[c]}
    Anc(c) == Anc1(c) \cup UNION {Anc1(p) : p \in Anc1(c)} \cup UNION {UNION {Anc1(q) : q \in Anc1(p)} : p \in Anc1(c)}
    \* contexts on the path from c (inclusive) up to, excluding, ancestor a
    Chain(c, a) == {c} \cup {x \in Anc(c) : a \in Anc(x)}
    \* B's view of a location: newest buffered value, else memory
    Hits(f, c) == {i \in 1..Len(sb) : sb[i][1] = f /\ sb[i][2] = c}
    BView(f, c, m) == IF Hits(f, c) = {} THEN m ELSE sb[CHOOSE i \in Hits(f, c) : \A kk \in Hits(f, c) : kk <= i][3]
  }
  macro Flush() {   \* drain the whole buffer (executed by RMWs)
    cancel := [c \in Ctxs |-> LET h == {i \in 1..Len(sb) : sb[i][1] = "cancel" /\ sb[i][2] = c} IN IF h = {} THEN cancel[c] ELSE sb[CHOOSE i \in h : \A kk \in h : kk <= i][3]];
    hint := [c \in Ctxs |-> LET h == {i \in 1..Len(sb) : sb[i][1] = "hint" /\ sb[i][2] = c} IN IF h = {} THEN hint[c] ELSE sb[CHOOSE i \in h : \A kk \in h : kk <= i][3]];
    cstate := LET h == {i \in 1..Len(sb) : sb[i][1] = "cstate"} IN IF h = {} THEN cstate ELSE sb[CHOOSE i \in h : \A kk \in h : kk <= i][3];
    sb := <<>>;
  }
  process (A \in Cancellers)
    variables old = 0, k = 1, j = 1, cx = "", todo = {};
  {
    c1: if (cancel[Tgt[self]] = 1) { ret[self] := "false"; goto cDone };            \* load (relaxed)
    c2: old := cancel[Tgt[self]]; cancel[Tgt[self]] := 1;                           \* exchange(1)
        if (old = 1) { ret[self] := "false"; goto cDone } else { ret[self] := "true" };
    c3: if (hint[Tgt[self]] # 1) { goto cDone };                                    \* my_may_have_children.load
    c4: await tlm = "free"; tlm := self;                                            \* my_threads_list_mutex
    c4p: if (FIXPM) { await pm = "free"; pm := self };                              \* (repair) the_context_state_propagation_mutex
    c5: if (cancel[Tgt[self]] # 1) { goto c11p };                                   \* re-check under the lock
    c6: gepoch := gepoch + 1;                                                       \* ++the_context_state_propagation_epoch
    c7: await lm[Order[k]] = "free"; lm[Order[k]] := self; j := 1;                  \* list mutex of thread Order[k]
        if (Len(list[Order[k]]) = 0) { goto c9a };
    c8: cx := list[Order[k]][j];
        if (cancel[cx] = 1) { goto c8d };                                           \* load ctx.state (already cancelled: skip)
    c8b: if (cancel[cx] # 1 /\ cx # Tgt[self] /\ Tgt[self] \in Anc(cx)) {           \* load again inside propagate_task_group_state
           todo := Chain(cx, Tgt[self]);
         } else { goto c8d };
    c8c: with (x \in {y \in todo : \A z \in todo : z = y \/ y \notin Anc(z)}) {     \* one relaxed store per chain element, bottom-up
           cancel[x] := 1; todo := todo \ {x};
         };
         if (todo # {}) { goto c8c };
    c8d: j := j + 1;
         if (j <= Len(list[Order[k]])) { goto c8 };
    c9a: old := gepoch;                                                             \* load global epoch
    c9b: lepoch[Order[k]] := old;                                                   \* store list epoch (release)
    c10: lm[Order[k]] := "free"; k := k + 1;
         if (k <= Len(Order)) { goto c7 };
    c11p: if (FIXPM) { pm := "free" };
    c11: tlm := "free";
    cDone: skip;
  }
  process (B = "B")
    variables snap = 0, v = 0, e = 0;
  {
    b0: assert cstate = "created";
    b1: cstate := "locked"; parent["C"] := "P";                                     \* CAS (RMW; buffer is empty here)
    b2: if (BView("hint", "P", hint["P"]) = 1) { goto b4 };
    b3: if (HINTSC) { hint["P"] := 1 }                                             \* (candidate repair) seq_cst store: not buffered (buffer is empty here)
        else { sb := Append(sb, <<"hint", "P", 1>>) };                              \* relaxed store -> buffered
    b4: snap := lepoch["X"];
    b5: v := BView("cancel", "P", cancel["P"]);
    b6: sb := Append(sb, <<"cancel", "C", v>>);                                     \* relaxed store -> buffered
    b7: await lm["B"] = "free"; Flush(); lm["B"] := "B"; list["B"] := <<"C">> \o list["B"];   \* mutex exchange drains the buffer
    b8: lm["B"] := "free";
    b9: e := gepoch;
        if (snap = e) { goto b14 };
    b10: await pm = "free"; Flush(); pm := "B";
    b11: v := BView("cancel", "P", cancel["P"]);
    b12: sb := Append(sb, <<"cancel", "C", v>>);
    b13: sb := Append(sb, <<"pm", "-", "free">>);                                   \* spin_mutex unlock: release store -> buffered
    b14: sb := Append(sb, <<"cstate", "C", "bound">>);
    b15: assert BView("cstate", "C", cstate) = "bound";
  }
  process (D = "D")
  {
    d1: while (~(pc["B"] = "Done" /\ sb = <<>>)) {
          await sb # <<>> \/ pc["B"] = "Done";
          if (sb # <<>>) {
            if (Head(sb)[1] = "cancel") { cancel[Head(sb)[2]] := Head(sb)[3] }
            else if (Head(sb)[1] = "hint") { hint[Head(sb)[2]] := Head(sb)[3] }
            else if (Head(sb)[1] = "pm") { pm := "free" }
            else { cstate := Head(sb)[3] };
            sb := Tail(sb);
          }
        }
  }
} *)
\* BEGIN TRANSLATION
VARIABLES pc, cancel, hint, parent, cstate, list, lepoch, gepoch, tlm, pm, lm, 
          ret, sb

(* define statement *)
Anc1(c) == IF parent[c] = "none" THEN {} ELSE {parent[c]}
Anc(c) == Anc1(c) \cup UNION {Anc1(p) : p \in Anc1(c)} \cup UNION {UNION {Anc1(q) : q \in Anc1(p)} : p \in Anc1(c)}

Chain(c, a) == {c} \cup {x \in Anc(c) : a \in Anc(x)}

Hits(f, c) == {i \in 1..Len(sb) : sb[i][1] = f /\ sb[i][2] = c}
BView(f, c, m) == IF Hits(f, c) = {} THEN m ELSE sb[CHOOSE i \in Hits(f, c) : \A kk \in Hits(f, c) : kk <= i][3]

VARIABLES old, k, j, cx, todo, snap, v, e

vars == << pc, cancel, hint, parent, cstate, list, lepoch, gepoch, tlm, pm, 
           lm, ret, sb, old, k, j, cx, todo, snap, v, e >>

ProcSet == (Cancellers) \cup {"B"} \cup {"D"}

Init == (* Global variables *)
        /\ cancel = [c \in Ctxs |-> 0]
        /\ hint = [c \in Ctxs |-> IF c = "G" THEN 1 ELSE 0]
        /\ parent = [c \in Ctxs |-> IF c \in {"P", "S"} THEN "G" ELSE "none"]
        /\ cstate = "created"
        /\ list = [t \in Thr |-> IF t = "X" THEN <<"S", "P">> ELSE <<>>]
        /\ lepoch = [t \in Thr |-> 0]
        /\ gepoch = 0
        /\ tlm = "free"
        /\ pm = "free"
        /\ lm = [t \in Thr |-> "free"]
        /\ ret = [a \in Cancellers |-> "na"]
        /\ sb = <<>>
        (* Process A *)
        /\ old = [self \in Cancellers |-> 0]
        /\ k = [self \in Cancellers |-> 1]
        /\ j = [self \in Cancellers |-> 1]
        /\ cx = [self \in Cancellers |-> ""]
        /\ todo = [self \in Cancellers |-> {}]
        (* Process B *)
        /\ snap = 0
        /\ v = 0
        /\ e = 0
        /\ pc = [self \in ProcSet |-> CASE self \in Cancellers -> "c1"
                                        [] self = "B" -> "b0"
                                        [] self = "D" -> "d1"]

c1(self) == /\ pc[self] = "c1"
            /\ IF cancel[Tgt[self]] = 1
                  THEN /\ ret' = [ret EXCEPT ![self] = "false"]
                       /\ pc' = [pc EXCEPT ![self] = "cDone"]
                  ELSE /\ pc' = [pc EXCEPT ![self] = "c2"]
                       /\ ret' = ret
            /\ UNCHANGED << cancel, hint, parent, cstate, list, lepoch, gepoch, 
                            tlm, pm, lm, sb, old, k, j, cx, todo, snap, v, e >>

c2(self) == /\ pc[self] = "c2"
            /\ old' = [old EXCEPT ![self] = cancel[Tgt[self]]]
            /\ cancel' = [cancel EXCEPT ![Tgt[self]] = 1]
            /\ IF old'[self] = 1
                  THEN /\ ret' = [ret EXCEPT ![self] = "false"]
                       /\ pc' = [pc EXCEPT ![self] = "cDone"]
                  ELSE /\ ret' = [ret EXCEPT ![self] = "true"]
                       /\ pc' = [pc EXCEPT ![self] = "c3"]
            /\ UNCHANGED << hint, parent, cstate, list, lepoch, gepoch, tlm, 
                            pm, lm, sb, k, j, cx, todo, snap, v, e >>

c3(self) == /\ pc[self] = "c3"
            /\ IF hint[Tgt[self]] # 1
                  THEN /\ pc' = [pc EXCEPT ![self] = "cDone"]
                  ELSE /\ pc' = [pc EXCEPT ![self] = "c4"]
            /\ UNCHANGED << cancel, hint, parent, cstate, list, lepoch, gepoch, 
                            tlm, pm, lm, ret, sb, old, k, j, cx, todo, snap, v, 
                            e >>

c4(self) == /\ pc[self] = "c4"
            /\ tlm = "free"
            /\ tlm' = self
            /\ pc' = [pc EXCEPT ![self] = "c4p"]
            /\ UNCHANGED << cancel, hint, parent, cstate, list, lepoch, gepoch, 
                            pm, lm, ret, sb, old, k, j, cx, todo, snap, v, e >>

c4p(self) == /\ pc[self] = "c4p"
             /\ IF FIXPM
                   THEN /\ pm = "free"
                        /\ pm' = self
                   ELSE /\ TRUE
                        /\ pm' = pm
             /\ pc' = [pc EXCEPT ![self] = "c5"]
             /\ UNCHANGED << cancel, hint, parent, cstate, list, lepoch, 
                             gepoch, tlm, lm, ret, sb, old, k, j, cx, todo, 
                             snap, v, e >>

c5(self) == /\ pc[self] = "c5"
            /\ IF cancel[Tgt[self]] # 1
                  THEN /\ pc' = [pc EXCEPT ![self] = "c11p"]
                  ELSE /\ pc' = [pc EXCEPT ![self] = "c6"]
            /\ UNCHANGED << cancel, hint, parent, cstate, list, lepoch, gepoch, 
                            tlm, pm, lm, ret, sb, old, k, j, cx, todo, snap, v, 
                            e >>

c6(self) == /\ pc[self] = "c6"
            /\ gepoch' = gepoch + 1
            /\ pc' = [pc EXCEPT ![self] = "c7"]
            /\ UNCHANGED << cancel, hint, parent, cstate, list, lepoch, tlm, 
                            pm, lm, ret, sb, old, k, j, cx, todo, snap, v, e >>

c7(self) == /\ pc[self] = "c7"
            /\ lm[Order[k[self]]] = "free"
            /\ lm' = [lm EXCEPT ![Order[k[self]]] = self]
            /\ j' = [j EXCEPT ![self] = 1]
            /\ IF Len(list[Order[k[self]]]) = 0
                  THEN /\ pc' = [pc EXCEPT ![self] = "c9a"]
                  ELSE /\ pc' = [pc EXCEPT ![self] = "c8"]
            /\ UNCHANGED << cancel, hint, parent, cstate, list, lepoch, gepoch, 
                            tlm, pm, ret, sb, old, k, cx, todo, snap, v, e >>

c8(self) == /\ pc[self] = "c8"
            /\ cx' = [cx EXCEPT ![self] = list[Order[k[self]]][j[self]]]
            /\ IF cancel[cx'[self]] = 1
                  THEN /\ pc' = [pc EXCEPT ![self] = "c8d"]
                  ELSE /\ pc' = [pc EXCEPT ![self] = "c8b"]
            /\ UNCHANGED << cancel, hint, parent, cstate, list, lepoch, gepoch, 
                            tlm, pm, lm, ret, sb, old, k, j, todo, snap, v, e >>

c8b(self) == /\ pc[self] = "c8b"
             /\ IF cancel[cx[self]] # 1 /\ cx[self] # Tgt[self] /\ Tgt[self] \in Anc(cx[self])
                   THEN /\ todo' = [todo EXCEPT ![self] = Chain(cx[self], Tgt[self])]
                        /\ pc' = [pc EXCEPT ![self] = "c8c"]
                   ELSE /\ pc' = [pc EXCEPT ![self] = "c8d"]
                        /\ todo' = todo
             /\ UNCHANGED << cancel, hint, parent, cstate, list, lepoch, 
                             gepoch, tlm, pm, lm, ret, sb, old, k, j, cx, snap, 
                             v, e >>

c8c(self) == /\ pc[self] = "c8c"
             /\ \E x \in {y \in todo[self] : \A z \in todo[self] : z = y \/ y \notin Anc(z)}:
                  /\ cancel' = [cancel EXCEPT ![x] = 1]
                  /\ todo' = [todo EXCEPT ![self] = todo[self] \ {x}]
             /\ IF todo'[self] # {}
                   THEN /\ pc' = [pc EXCEPT ![self] = "c8c"]
                   ELSE /\ pc' = [pc EXCEPT ![self] = "c8d"]
             /\ UNCHANGED << hint, parent, cstate, list, lepoch, gepoch, tlm, 
                             pm, lm, ret, sb, old, k, j, cx, snap, v, e >>

c8d(self) == /\ pc[self] = "c8d"
             /\ j' = [j EXCEPT ![self] = j[self] + 1]
             /\ IF j'[self] <= Len(list[Order[k[self]]])
                   THEN /\ pc' = [pc EXCEPT ![self] = "c8"]
                   ELSE /\ pc' = [pc EXCEPT ![self] = "c9a"]
             /\ UNCHANGED << cancel, hint, parent, cstate, list, lepoch, 
                             gepoch, tlm, pm, lm, ret, sb, old, k, cx, todo, 
                             snap, v, e >>

c9a(self) == /\ pc[self] = "c9a"
             /\ old' = [old EXCEPT ![self] = gepoch]
             /\ pc' = [pc EXCEPT ![self] = "c9b"]
             /\ UNCHANGED << cancel, hint, parent, cstate, list, lepoch, 
                             gepoch, tlm, pm, lm, ret, sb, k, j, cx, todo, 
                             snap, v, e >>

c9b(self) == /\ pc[self] = "c9b"
             /\ lepoch' = [lepoch EXCEPT ![Order[k[self]]] = old[self]]
             /\ pc' = [pc EXCEPT ![self] = "c10"]
             /\ UNCHANGED << cancel, hint, parent, cstate, list, gepoch, tlm, 
                             pm, lm, ret, sb, old, k, j, cx, todo, snap, v, e >>

c10(self) == /\ pc[self] = "c10"
             /\ lm' = [lm EXCEPT ![Order[k[self]]] = "free"]
             /\ k' = [k EXCEPT ![self] = k[self] + 1]
             /\ IF k'[self] <= Len(Order)
                   THEN /\ pc' = [pc EXCEPT ![self] = "c7"]
                   ELSE /\ pc' = [pc EXCEPT ![self] = "c11p"]
             /\ UNCHANGED << cancel, hint, parent, cstate, list, lepoch, 
                             gepoch, tlm, pm, ret, sb, old, j, cx, todo, snap, 
                             v, e >>

c11p(self) == /\ pc[self] = "c11p"
              /\ IF FIXPM
                    THEN /\ pm' = "free"
                    ELSE /\ TRUE
                         /\ pm' = pm
              /\ pc' = [pc EXCEPT ![self] = "c11"]
              /\ UNCHANGED << cancel, hint, parent, cstate, list, lepoch, 
                              gepoch, tlm, lm, ret, sb, old, k, j, cx, todo, 
                              snap, v, e >>

c11(self) == /\ pc[self] = "c11"
             /\ tlm' = "free"
             /\ pc' = [pc EXCEPT ![self] = "cDone"]
             /\ UNCHANGED << cancel, hint, parent, cstate, list, lepoch, 
                             gepoch, pm, lm, ret, sb, old, k, j, cx, todo, 
                             snap, v, e >>

cDone(self) == /\ pc[self] = "cDone"
               /\ TRUE
               /\ pc' = [pc EXCEPT ![self] = "Done"]
               /\ UNCHANGED << cancel, hint, parent, cstate, list, lepoch, 
                               gepoch, tlm, pm, lm, ret, sb, old, k, j, cx, 
                               todo, snap, v, e >>

A(self) == c1(self) \/ c2(self) \/ c3(self) \/ c4(self) \/ c4p(self)
              \/ c5(self) \/ c6(self) \/ c7(self) \/ c8(self) \/ c8b(self)
              \/ c8c(self) \/ c8d(self) \/ c9a(self) \/ c9b(self)
              \/ c10(self) \/ c11p(self) \/ c11(self) \/ cDone(self)

b0 == /\ pc["B"] = "b0"
      /\ Assert(cstate = "created", 
                "Failure of assertion at line 94, column 9.")
      /\ pc' = [pc EXCEPT !["B"] = "b1"]
      /\ UNCHANGED << cancel, hint, parent, cstate, list, lepoch, gepoch, tlm, 
                      pm, lm, ret, sb, old, k, j, cx, todo, snap, v, e >>

b1 == /\ pc["B"] = "b1"
      /\ cstate' = "locked"
      /\ parent' = [parent EXCEPT !["C"] = "P"]
      /\ pc' = [pc EXCEPT !["B"] = "b2"]
      /\ UNCHANGED << cancel, hint, list, lepoch, gepoch, tlm, pm, lm, ret, sb, 
                      old, k, j, cx, todo, snap, v, e >>

b2 == /\ pc["B"] = "b2"
      /\ IF BView("hint", "P", hint["P"]) = 1
            THEN /\ pc' = [pc EXCEPT !["B"] = "b4"]
            ELSE /\ pc' = [pc EXCEPT !["B"] = "b3"]
      /\ UNCHANGED << cancel, hint, parent, cstate, list, lepoch, gepoch, tlm, 
                      pm, lm, ret, sb, old, k, j, cx, todo, snap, v, e >>

b3 == /\ pc["B"] = "b3"
      /\ IF HINTSC
            THEN /\ hint' = [hint EXCEPT !["P"] = 1]
                 /\ sb' = sb
            ELSE /\ sb' = Append(sb, <<"hint", "P", 1>>)
                 /\ hint' = hint
      /\ pc' = [pc EXCEPT !["B"] = "b4"]
      /\ UNCHANGED << cancel, parent, cstate, list, lepoch, gepoch, tlm, pm, 
                      lm, ret, old, k, j, cx, todo, snap, v, e >>

b4 == /\ pc["B"] = "b4"
      /\ snap' = lepoch["X"]
      /\ pc' = [pc EXCEPT !["B"] = "b5"]
      /\ UNCHANGED << cancel, hint, parent, cstate, list, lepoch, gepoch, tlm, 
                      pm, lm, ret, sb, old, k, j, cx, todo, v, e >>

b5 == /\ pc["B"] = "b5"
      /\ v' = BView("cancel", "P", cancel["P"])
      /\ pc' = [pc EXCEPT !["B"] = "b6"]
      /\ UNCHANGED << cancel, hint, parent, cstate, list, lepoch, gepoch, tlm, 
                      pm, lm, ret, sb, old, k, j, cx, todo, snap, e >>

b6 == /\ pc["B"] = "b6"
      /\ sb' = Append(sb, <<"cancel", "C", v>>)
      /\ pc' = [pc EXCEPT !["B"] = "b7"]
      /\ UNCHANGED << cancel, hint, parent, cstate, list, lepoch, gepoch, tlm, 
                      pm, lm, ret, old, k, j, cx, todo, snap, v, e >>

b7 == /\ pc["B"] = "b7"
      /\ lm["B"] = "free"
      /\ cancel' = [c \in Ctxs |-> LET h == {i \in 1..Len(sb) : sb[i][1] = "cancel" /\ sb[i][2] = c} IN IF h = {} THEN cancel[c] ELSE sb[CHOOSE i \in h : \A kk \in h : kk <= i][3]]
      /\ hint' = [c \in Ctxs |-> LET h == {i \in 1..Len(sb) : sb[i][1] = "hint" /\ sb[i][2] = c} IN IF h = {} THEN hint[c] ELSE sb[CHOOSE i \in h : \A kk \in h : kk <= i][3]]
      /\ cstate' = (LET h == {i \in 1..Len(sb) : sb[i][1] = "cstate"} IN IF h = {} THEN cstate ELSE sb[CHOOSE i \in h : \A kk \in h : kk <= i][3])
      /\ sb' = <<>>
      /\ lm' = [lm EXCEPT !["B"] = "B"]
      /\ list' = [list EXCEPT !["B"] = <<"C">> \o list["B"]]
      /\ pc' = [pc EXCEPT !["B"] = "b8"]
      /\ UNCHANGED << parent, lepoch, gepoch, tlm, pm, ret, old, k, j, cx, 
                      todo, snap, v, e >>

b8 == /\ pc["B"] = "b8"
      /\ lm' = [lm EXCEPT !["B"] = "free"]
      /\ pc' = [pc EXCEPT !["B"] = "b9"]
      /\ UNCHANGED << cancel, hint, parent, cstate, list, lepoch, gepoch, tlm, 
                      pm, ret, sb, old, k, j, cx, todo, snap, v, e >>

b9 == /\ pc["B"] = "b9"
      /\ e' = gepoch
      /\ IF snap = e'
            THEN /\ pc' = [pc EXCEPT !["B"] = "b14"]
            ELSE /\ pc' = [pc EXCEPT !["B"] = "b10"]
      /\ UNCHANGED << cancel, hint, parent, cstate, list, lepoch, gepoch, tlm, 
                      pm, lm, ret, sb, old, k, j, cx, todo, snap, v >>

b10 == /\ pc["B"] = "b10"
       /\ pm = "free"
       /\ cancel' = [c \in Ctxs |-> LET h == {i \in 1..Len(sb) : sb[i][1] = "cancel" /\ sb[i][2] = c} IN IF h = {} THEN cancel[c] ELSE sb[CHOOSE i \in h : \A kk \in h : kk <= i][3]]
       /\ hint' = [c \in Ctxs |-> LET h == {i \in 1..Len(sb) : sb[i][1] = "hint" /\ sb[i][2] = c} IN IF h = {} THEN hint[c] ELSE sb[CHOOSE i \in h : \A kk \in h : kk <= i][3]]
       /\ cstate' = (LET h == {i \in 1..Len(sb) : sb[i][1] = "cstate"} IN IF h = {} THEN cstate ELSE sb[CHOOSE i \in h : \A kk \in h : kk <= i][3])
       /\ sb' = <<>>
       /\ pm' = "B"
       /\ pc' = [pc EXCEPT !["B"] = "b11"]
       /\ UNCHANGED << parent, list, lepoch, gepoch, tlm, lm, ret, old, k, j, 
                       cx, todo, snap, v, e >>

b11 == /\ pc["B"] = "b11"
       /\ v' = BView("cancel", "P", cancel["P"])
       /\ pc' = [pc EXCEPT !["B"] = "b12"]
       /\ UNCHANGED << cancel, hint, parent, cstate, list, lepoch, gepoch, tlm, 
                       pm, lm, ret, sb, old, k, j, cx, todo, snap, e >>

b12 == /\ pc["B"] = "b12"
       /\ sb' = Append(sb, <<"cancel", "C", v>>)
       /\ pc' = [pc EXCEPT !["B"] = "b13"]
       /\ UNCHANGED << cancel, hint, parent, cstate, list, lepoch, gepoch, tlm, 
                       pm, lm, ret, old, k, j, cx, todo, snap, v, e >>

b13 == /\ pc["B"] = "b13"
       /\ sb' = Append(sb, <<"pm", "-", "free">>)
       /\ pc' = [pc EXCEPT !["B"] = "b14"]
       /\ UNCHANGED << cancel, hint, parent, cstate, list, lepoch, gepoch, tlm, 
                       pm, lm, ret, old, k, j, cx, todo, snap, v, e >>

b14 == /\ pc["B"] = "b14"
       /\ sb' = Append(sb, <<"cstate", "C", "bound">>)
       /\ pc' = [pc EXCEPT !["B"] = "b15"]
       /\ UNCHANGED << cancel, hint, parent, cstate, list, lepoch, gepoch, tlm, 
                       pm, lm, ret, old, k, j, cx, todo, snap, v, e >>

b15 == /\ pc["B"] = "b15"
       /\ Assert(BView("cstate", "C", cstate) = "bound", 
                 "Failure of assertion at line 111, column 10.")
       /\ pc' = [pc EXCEPT !["B"] = "Done"]
       /\ UNCHANGED << cancel, hint, parent, cstate, list, lepoch, gepoch, tlm, 
                       pm, lm, ret, sb, old, k, j, cx, todo, snap, v, e >>

B == b0 \/ b1 \/ b2 \/ b3 \/ b4 \/ b5 \/ b6 \/ b7 \/ b8 \/ b9 \/ b10 \/ b11
        \/ b12 \/ b13 \/ b14 \/ b15

d1 == /\ pc["D"] = "d1"
      /\ IF ~(pc["B"] = "Done" /\ sb = <<>>)
            THEN /\ sb # <<>> \/ pc["B"] = "Done"
                 /\ IF sb # <<>>
                       THEN /\ IF Head(sb)[1] = "cancel"
                                  THEN /\ cancel' = [cancel EXCEPT ![Head(sb)[2]] = Head(sb)[3]]
                                       /\ UNCHANGED << hint, cstate, pm >>
                                  ELSE /\ IF Head(sb)[1] = "hint"
                                             THEN /\ hint' = [hint EXCEPT ![Head(sb)[2]] = Head(sb)[3]]
                                                  /\ UNCHANGED << cstate, pm >>
                                             ELSE /\ IF Head(sb)[1] = "pm"
                                                        THEN /\ pm' = "free"
                                                             /\ UNCHANGED cstate
                                                        ELSE /\ cstate' = Head(sb)[3]
                                                             /\ pm' = pm
                                                  /\ hint' = hint
                                       /\ UNCHANGED cancel
                            /\ sb' = Tail(sb)
                       ELSE /\ TRUE
                            /\ UNCHANGED << cancel, hint, cstate, pm, sb >>
                 /\ pc' = [pc EXCEPT !["D"] = "d1"]
            ELSE /\ pc' = [pc EXCEPT !["D"] = "Done"]
                 /\ UNCHANGED << cancel, hint, cstate, pm, sb >>
      /\ UNCHANGED << parent, list, lepoch, gepoch, tlm, lm, ret, old, k, j, 
                      cx, todo, snap, v, e >>

D == d1

(* Allow infinite stuttering to prevent deadlock on termination. *)
Terminating == /\ \A self \in ProcSet: pc[self] = "Done"
               /\ UNCHANGED vars

Next == B \/ D
           \/ (\E self \in Cancellers: A(self))
           \/ Terminating

Spec == Init /\ [][Next]_vars

Termination == <>(\A self \in ProcSet: pc[self] = "Done")

\* END TRANSLATION

AllDone == (\A a \in Cancellers : pc[a] = "Done") /\ pc["B"] = "Done" /\ pc["D"] = "Done"
Targets == {Tgt[a] : a \in Cancellers}
\* C04: once every cancel call and every binding completed, a context is cancelled iff it is a target or bound beneath one
Closure == Targets \cup {c \in Ctxs : Anc(c) \cap Targets # {}}
Reaches == AllDone => \A c \in Closure : cancel[c] = 1
NothingElse == \A c \in Ctxs \ Closure : cancel[c] = 0
\* exactly one of the concurrent callers on a not-yet-cancelled context gets true
OneWinner == AllDone => \A t \in Targets :
                 LET callers == {a \in Cancellers : Tgt[a] = t} IN
                 /\ Cardinality({a \in callers : ret[a] = "true"}) <= 1
                 /\ (Anc(t) \cap Targets = {} => Cardinality({a \in callers : ret[a] = "true"}) = 1)
Sticky == [][\A c \in Ctxs : cancel[c] = 1 => cancel'[c] = 1 \/ c = "C"]_vars
=============================================================================
