---- MODULE MCCtx ----
EXTENDS CtxTree
TgtG == [a \in {"A1"} |-> "G"]
TgtP == [a \in {"A1"} |-> "P"]
TgtGG == [a \in {"A1", "A2"} |-> "G"]
TgtGP == [a \in {"A1", "A2"} |-> IF a = "A1" THEN "G" ELSE "P"]
OABX == <<"A1", "B", "X">>
OXBA == <<"X", "B", "A1">>
OBXA == <<"B", "X", "A1">>
O4a == <<"A2", "A1", "B", "X">>
O4b == <<"B", "A2", "X", "A1">>
====
