SPECIFICATION Spec
CONSTANT Threads = {1,2,3,4}
CONSTANT Prog <- Prog4
INVARIANT Mutex
INVARIANT Quiescent
INVARIANT WordOK
