SPECIFICATION Spec
CONSTANT Sleepers = {"s1","s2"}
CONSTANT Notifiers = {"n1"}
CONSTANT TSO = TRUE
CONSTANT FENCE_W = TRUE
CONSTANT FENCE_N = TRUE
CONSTANT CLIENT_SC = FALSE
CONSTANT ROUNDS = 1
INVARIANT NoLostWakeup

CHECK_DEADLOCK FALSE
