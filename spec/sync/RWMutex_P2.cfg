SPECIFICATION Spec
CONSTANT Threads = {1,2}
CONSTANT Prog <- P2
CONSTANT defaultInitValue = 0
INVARIANT Mutex
