SPECIFICATION Spec
CONSTANT N = 3
CONSTANT Prog <- PT
INVARIANT Mutex
INVARIANT Fifo
INVARIANT UpgradeTruth
