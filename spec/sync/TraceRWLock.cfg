SPECIFICATION TraceSpec
INVARIANT NotAccepted
INVARIANT Exclusion
CHECK_DEADLOCK FALSE
