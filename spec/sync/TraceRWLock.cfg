SPECIFICATION TraceSpec
INVARIANT Exclusion
\* NotAccepted is listed LAST: TLC reports the first violated invariant of a state, and a property invariant violated in the final state of a
\* recorded execution must not be masked by the acceptance marker
INVARIANT NotAccepted
CHECK_DEADLOCK FALSE
