---------------------------- MODULE TraceRWLock ----------------------------
(* Trace validation of recorded executions of the real oneTBB locks against RWLockAbs (binding 2, DESIGN 2.5). *)
(* Events (ndjson, one per line; executions separated by {"e":"Reset"}):                                       *)
(*   Enq t m | Acq t m d | TryFail t | Rel t | UpB t | UpE t ok d | DnB t | DnE t | Stuck | Crash               *)
(* UpRelease and DnLin are unlogged internal steps inferred by TLC.  Stuck/Crash are consumed by no action,      *)
(* so a trace containing one is rejected (lost hand-off / try-acquire that blocks).                              *)
EXTENDS Naturals, Sequences, FiniteSets, TLC, Json, IOUtils
TraceLog == ndJsonDeserialize(IOEnv.TRACE)
Threads == 1..4
VARIABLES writer, readers, upg, upgRel, dng, queue, ver, l
A == INSTANCE RWLockAbs
vars == <<writer, readers, upg, upgRel, dng, queue, ver, l>>

Ev == TraceLog[l]
Is(e) == l <= Len(TraceLog) /\ TraceLog[l].e = e /\ l' = l + 1

TInit == A!AInit /\ l = 1
TEnq   == Is("Enq") /\ A!Enq(Ev.t, Ev.m)
TAcq   == Is("Acq") /\ IF Ev.m = "W" THEN A!AcqW(Ev.t, Ev.d) ELSE A!AcqR(Ev.t, Ev.d)
TTryF  == Is("TryFail") /\ A!TryFail(Ev.t)
TRel   == Is("Rel") /\ A!Rel(Ev.t)
TUpB   == Is("UpB") /\ A!UpBegin(Ev.t)
TUpE   == Is("UpE") /\ A!UpEnd(Ev.t, Ev.ok = 1, Ev.d)
TDnB   == Is("DnB") /\ A!DnBegin(Ev.t)
TDnE   == Is("DnE") /\ A!DnEnd(Ev.t)
TReset == /\ Is("Reset")
          /\ writer' = 0 /\ readers' = {} /\ upg' = {} /\ upgRel' = {} /\ dng' = {} /\ queue' = <<>> /\ ver' = 0
Internal == /\ l <= Len(TraceLog) /\ UNCHANGED l
            /\ \E t \in Threads : A!UpRelease(t) \/ A!DnLin(t)
TNext == TEnq \/ TAcq \/ TTryF \/ TRel \/ TUpB \/ TUpE \/ TDnB \/ TDnE \/ TReset \/ Internal
TraceSpec == TInit /\ [][TNext]_vars
NotAccepted == l <= Len(TraceLog)
Exclusion == A!Exclusion
=============================================================================
