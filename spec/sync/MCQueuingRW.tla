---- MODULE MCQueuingRW ----
EXTENDS QueuingRW
\* readers and a writer through the queue (FIFO clause)
PF == <<<<"lockR","rel">>, <<"lockW","rel">>, <<"lockR","rel">>>>
PF2 == <<<<"lockW","rel">>, <<"lockW","rel">>, <<"lockR","rel">>>>
\* two concurrently upgrading readers
PU2 == <<<<"lockR","up","rel">>, <<"lockR","up","rel">>>>
\* two upgrading readers + a writer that downgrades (1.6M states)
PU == <<<<"lockR","up","rel">>, <<"lockR","up","rel">>, <<"lockW","down","rel">>>>
\* a writer that downgrades with a reader and a writer queued behind it; a reader that upgrades with a writer queued behind
PD == <<<<"lockW","down","rel">>, <<"lockR","rel">>, <<"lockW","rel">>>>
PUW == <<<<"lockR","up","rel">>, <<"lockW","rel">>, <<"tryR","rel">>>>
\* try operations
PT == <<<<"tryW","down","rel">>, <<"tryR","up","rel">>, <<"lockR","rel">>>>
====
