SPECIFICATION Spec
CONSTANT Sleepers = {"s1"}
CONSTANT Notifiers = {"n1"}
CONSTANT TSO = TRUE
CONSTANT FENCE_W = TRUE
CONSTANT FENCE_N = FALSE
CONSTANT CLIENT_SC = TRUE
CONSTANT ROUNDS = 1
INVARIANT NoLostWakeup

CHECK_DEADLOCK FALSE
