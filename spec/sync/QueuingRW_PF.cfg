SPECIFICATION Spec
CONSTANT N = 3
CONSTANT Prog <- PF
INVARIANT Mutex
INVARIANT Fifo
INVARIANT UpgradeTruth
