SPECIFICATION Spec
CONSTANT Threads = {1,2,3}
CONSTANT Prog <- Prog3
INVARIANT Mutex
INVARIANT Quiescent
INVARIANT FIFO
