SPECIFICATION Spec
CONSTANT Threads = {1,2,3}
CONSTANT Prog <- Prog3b
INVARIANT Mutex
INVARIANT Quiescent
INVARIANT FIFO
