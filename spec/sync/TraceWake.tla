------------------------------- MODULE TraceWake -------------------------------
(* Validation of recorded executions of blocking library calls against WakeAbs.                                 *)
(* Events: Prod r n | Inv t r need | Res t r c | Enq u | Begin u | Stuck blocked | Quiesce | Reset ; Crash/Terminate are unexplainable. *)
EXTENDS Integers, Sequences, FiniteSets, TLC, Json, IOUtils
TraceLog == ndJsonDeserialize(IOEnv.TRACE)
Threads == 0..15
Resources == 1..12
Units == 1..40
VARIABLES avail, waiting, enq, l
A == INSTANCE WakeAbs
vars == <<avail, waiting, enq, l>>
Ev == TraceLog[l]
Is(e) == l <= Len(TraceLog) /\ TraceLog[l].e = e /\ l' = l + 1
TInit == A!WInit /\ l = 1
TNext == \/ Is("Prod") /\ A!Prod(Ev.r, Ev.n)
         \/ Is("Inv") /\ A!Inv(Ev.t, Ev.r, Ev.need)
         \/ Is("Res") /\ A!Res(Ev.t, Ev.r, Ev.c)
         \/ Is("ResS") /\ A!ResS(Ev.t, Ev.r, Ev.c)
         \/ Is("Enq") /\ A!Enq(Ev.u)
         \/ Is("Begin") /\ A!Begin(Ev.u)
         \/ Is("Stuck") /\ A!Stuck(Ev.blocked)
         \/ Is("Quiesce") /\ A!Quiesce
         \/ Is("Scenario") /\ UNCHANGED <<avail, waiting, enq>>
         \/ Is("Reset") /\ avail' = [r \in Resources |-> 0] /\ waiting' = [t \in Threads |-> <<0, 0>>] /\ enq' = {}
TraceSpec == TInit /\ [][TNext]_vars
NotAccepted == l <= Len(TraceLog)
=============================================================================
