SPECIFICATION Spec
CONSTANT N = 2
CONSTANT Prog <- PU2
INVARIANT Mutex
INVARIANT Fifo
INVARIANT UpgradeTruth
