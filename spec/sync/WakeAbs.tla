-------------------------------- MODULE WakeAbs --------------------------------
(* Abstract specification of property C02: no lost wake-up; enqueued work eventually runs.                      *)
(*   avail    resource -> units currently available (produced - consumed); a "resource" is whatever a blocking   *)
(*            call waits for: a free lock (1 unit; a rw lock has BIG units, a writer needs all of them), an item  *)
(*            or a free place of a bounded queue, a finished task of a group, a free arena slot, a resume call    *)
(*   waiting  thread -> <<resource, need>> of the blocking call it is inside, or <<0,0>>                         *)
(*   enq      enqueued units that have not begun yet                                                             *)
(* The only thing the property forbids is a state in which nothing can run any more (every unfinished thread is   *)
(* asleep or spins without effect - the cooperative scheduler detects that state exactly) although some blocked   *)
(* thread's condition is satisfied, or although an enqueued unit has not begun.  Such a state is logged as        *)
(* Stuck(B); it is explainable only if every thread of B waits for something that is really unavailable and       *)
(* nothing enqueued is pending (that would be a dead-lock of the scenario itself, which the driver reports as a    *)
(* harness failure, not as a verdict).                                                                            *)
EXTENDS Integers, FiniteSets, Sequences
CONSTANTS Threads, Resources, Units
VARIABLES avail, waiting, enq
wvars == <<avail, waiting, enq>>
WInit == avail = [r \in Resources |-> 0] /\ waiting = [t \in Threads |-> <<0, 0>>] /\ enq = {}
Prod(r, n) == avail' = [avail EXCEPT ![r] = @ + n] /\ UNCHANGED <<waiting, enq>>
Inv(t, r, need) == waiting[t] = <<0, 0>> /\ waiting' = [waiting EXCEPT ![t] = <<r, need>>] /\ UNCHANGED <<avail, enq>>
Res(t, r, c) == waiting[t][1] = r /\ waiting' = [waiting EXCEPT ![t] = <<0, 0>>] /\ avail' = [avail EXCEPT ![r] = @ - c] /\ UNCHANGED enq
\* a response that is only possible after the resource was produced (a suspended task continues only after resume was called: the Prod event is logged before
\* the resume call, the response after suspend returned, so in every correct execution the unit is available)
ResS(t, r, c) == waiting[t][1] = r /\ avail[r] >= c /\ waiting' = [waiting EXCEPT ![t] = <<0, 0>>] /\ avail' = [avail EXCEPT ![r] = @ - c] /\ UNCHANGED enq
Enq(u) == u \notin enq /\ enq' = enq \cup {u} /\ UNCHANGED <<avail, waiting>>
Begin(u) == u \in enq /\ enq' = enq \ {u} /\ UNCHANGED <<avail, waiting>>
Satisfied(t) == waiting[t][1] # 0 /\ avail[waiting[t][1]] >= waiting[t][2]
Stuck(B) == /\ enq = {}
            /\ \A i \in DOMAIN B : waiting[B[i]][1] # 0 /\ ~Satisfied(B[i])
            /\ UNCHANGED wvars
Quiesce == enq = {} /\ (\A t \in Threads : waiting[t] = <<0, 0>>) /\ UNCHANGED wvars
=============================================================================
