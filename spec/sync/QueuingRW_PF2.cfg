SPECIFICATION Spec
CONSTANT N = 3
CONSTANT Prog <- PF2
INVARIANT Mutex
INVARIANT Fifo
INVARIANT UpgradeTruth
