---- MODULE Monitor ----
\* concurrent_monitor_base + binary_semaphore (futex "mutex take 3") + a client predicate.
\* Sleepers run:  wait(pred):  prepare_wait; while(!pred){ if(commit_wait) return; prepare_wait } cancel_wait
\* Notifiers run: pred := TRUE (client store, order given by CLIENT_SC); notify (FENCE_N ? fence : -) ; notify_relaxed
EXTENDS Integers, Sequences, FiniteSets, TLC
CONSTANTS Sleepers, Notifiers, TSO, FENCE_W, FENCE_N, CLIENT_SC, ROUNDS
Threads == Sleepers \cup Notifiers
(* --algorithm monitor {
  variables
    pred = FALSE,                 \* client condition, memory value
    predBuf = [t \in Threads |-> FALSE],     \* notifier's buffered store pred:=TRUE (TSO)
    epoch = 0, waitset = <<>>, cnt = 0,      \* cnt = waitset size as read without the lock (relaxed)
    cntBuf = [t \in Threads |-> 0],
    mtx = "free",
    inlist = [t \in Threads |-> FALSE], nepoch = [t \in Threads |-> 0],
    skipped = [t \in Threads |-> FALSE], inited = [t \in Threads |-> FALSE],
    sem = [t \in Threads |-> 1],             \* 0 open, 1 closed, 2 closed+waiter
    fwait = [t \in Threads |-> FALSE],       \* blocked in futex_wait
    woke = [t \in Threads |-> 0];            \* ghost: number of times wait() returned by wake-up

  macro lock_mtx() { await mtx = "free"; mtx := self }
  macro unlock_mtx() { mtx := "free" }

  \* ------------------------------------------------------------------ sleepers
  process (s \in Sleepers)
    variables p = FALSE, sv = 0, il = FALSE, rounds = 0;
  {
  s_begin: while (rounds < ROUNDS) {
    \* prepare_wait
    pw0: if (~inited[self]) { inited[self] := TRUE; sem[self] := 1 }
         else if (skipped[self]) { skipped[self] := FALSE; goto P_entry_reset };
    pw1: inlist[self] := TRUE;
    pw2: lock_mtx();
    pw3: nepoch[self] := epoch; waitset := Append(waitset, self); cnt := cnt + 1;
    pw4: unlock_mtx();                                  \* exchange(0): RMW, drains
    pw5: skip;                                          \* atomic_fence_seq_cst (explicit) -- FENCE_W
    \* predicate
    chk: if (TSO /\ ~FENCE_W /\ FALSE) { skip };
         p := pred;
         if (p) { goto cw0 } else { goto cm0 };
    \* commit_wait
    cm0: if (nepoch[self] = epoch) { goto P_entry } else { goto cw0c };
    \* cancel_wait (from failed commit): then loop to prepare_wait again
    cw0c: skipped[self] := TRUE; il := inlist[self];
          if (il) { goto cw1c } else { goto pw0 };
    cw1c: lock_mtx();
    cw2c: if (inlist[self]) { waitset := SelectSeq(waitset, LAMBDA x : x # self); cnt := cnt - 1; inlist[self] := FALSE; skipped[self] := FALSE };
    cw3c: unlock_mtx(); goto pw0;
    \* cancel_wait (predicate true): leave
    cw0: skipped[self] := TRUE; il := inlist[self];
         if (il) { goto cw1 } else { goto s_done };
    cw1: lock_mtx();
    cw2: if (inlist[self]) { waitset := SelectSeq(waitset, LAMBDA x : x # self); cnt := cnt - 1; inlist[self] := FALSE; skipped[self] := FALSE };
    cw3: unlock_mtx(); goto s_done;
    \* semaphore P() for reset (pump skipped wakeup), then continue prepare
    P_entry_reset: if (sem[self] = 0) { sem[self] := 1; goto pw1 } else { goto Pr1 };
    Pr1: sv := sem[self]; sem[self] := 2;               \* exchange(2) (if s != 2)
    Pr2: if (sv = 0) { goto pw1 } else { fwait[self] := (sem[self] = 2); goto Pr3 };
    Pr3: await ~fwait[self]; goto Pr1;
    \* semaphore P() for the real sleep
    P_entry: if (sem[self] = 0) { sem[self] := 1; goto s_woken } else { goto P1 };
    P1: sv := sem[self]; sem[self] := 2;
    P2: if (sv = 0) { goto s_woken } else { fwait[self] := (sem[self] = 2); goto P3 };
    P3: await ~fwait[self]; goto P1;
    s_woken: woke[self] := woke[self] + 1;              \* wait() returned true; caller re-evaluates its own condition
             p := pred;
             if (p) { goto s_done } else { goto pw0 };
    s_done: rounds := ROUNDS;
    }
  }
  \* ------------------------------------------------------------------ notifiers
  process (n \in Notifiers)
    variables c = 0, tgt = <<>>, i = 1, old = 0;
  {
    n0: if (TSO /\ ~CLIENT_SC) { predBuf[self] := TRUE } else { pred := TRUE };
    n1: if (FENCE_N) { await ~predBuf[self] };          \* atomic_fence_seq_cst drains the buffer
    n2: c := cnt;                                        \* my_waitset.empty() : relaxed load
        if (c = 0) { goto n_done };
    n3: lock_mtx();                                      \* RMW: drains own buffer
        if (predBuf[self]) { pred := TRUE; predBuf[self] := FALSE };
    n4: epoch := epoch + 1; tgt := waitset; waitset := <<>>; cnt := 0;
        inlist := [t \in Threads |-> IF \E k \in 1..Len(tgt) : tgt[k] = t THEN FALSE ELSE inlist[t]];
    n5: unlock_mtx();
    n6: while (i <= Len(tgt)) {                          \* V(): exchange(0); if old==2 futex_wake
          old := sem[tgt[i]]; sem[tgt[i]] := 0;
      n7: if (old = 2) { fwait[tgt[i]] := FALSE };
          i := i + 1;
        };
    n_done: if (predBuf[self]) { await FALSE };          \* (drain process completes it)
  }
  \* store-buffer drain for notifiers' client store
  process (d \in {"drain"}) {
    d0: while (TRUE) { with (t \in {x \in Notifiers : predBuf[x]}) { pred := TRUE; predBuf[t] := FALSE } }
  }
} *)
\* BEGIN TRANSLATION
VARIABLES pc, pred, predBuf, epoch, waitset, cnt, cntBuf, mtx, inlist, nepoch, 
          skipped, inited, sem, fwait, woke, p, sv, il, rounds, c, tgt, i, 
          old

vars == << pc, pred, predBuf, epoch, waitset, cnt, cntBuf, mtx, inlist, 
           nepoch, skipped, inited, sem, fwait, woke, p, sv, il, rounds, c, 
           tgt, i, old >>

ProcSet == (Sleepers) \cup (Notifiers) \cup ({"drain"})

Init == (* Global variables *)
        /\ pred = FALSE
        /\ predBuf = [t \in Threads |-> FALSE]
        /\ epoch = 0
        /\ waitset = <<>>
        /\ cnt = 0
        /\ cntBuf = [t \in Threads |-> 0]
        /\ mtx = "free"
        /\ inlist = [t \in Threads |-> FALSE]
        /\ nepoch = [t \in Threads |-> 0]
        /\ skipped = [t \in Threads |-> FALSE]
        /\ inited = [t \in Threads |-> FALSE]
        /\ sem = [t \in Threads |-> 1]
        /\ fwait = [t \in Threads |-> FALSE]
        /\ woke = [t \in Threads |-> 0]
        (* Process s *)
        /\ p = [self \in Sleepers |-> FALSE]
        /\ sv = [self \in Sleepers |-> 0]
        /\ il = [self \in Sleepers |-> FALSE]
        /\ rounds = [self \in Sleepers |-> 0]
        (* Process n *)
        /\ c = [self \in Notifiers |-> 0]
        /\ tgt = [self \in Notifiers |-> <<>>]
        /\ i = [self \in Notifiers |-> 1]
        /\ old = [self \in Notifiers |-> 0]
        /\ pc = [self \in ProcSet |-> CASE self \in Sleepers -> "s_begin"
                                        [] self \in Notifiers -> "n0"
                                        [] self \in {"drain"} -> "d0"]

s_begin(self) == /\ pc[self] = "s_begin"
                 /\ IF rounds[self] < ROUNDS
                       THEN /\ pc' = [pc EXCEPT ![self] = "pw0"]
                       ELSE /\ pc' = [pc EXCEPT ![self] = "Done"]
                 /\ UNCHANGED << pred, predBuf, epoch, waitset, cnt, cntBuf, 
                                 mtx, inlist, nepoch, skipped, inited, sem, 
                                 fwait, woke, p, sv, il, rounds, c, tgt, i, 
                                 old >>

pw0(self) == /\ pc[self] = "pw0"
             /\ IF ~inited[self]
                   THEN /\ inited' = [inited EXCEPT ![self] = TRUE]
                        /\ sem' = [sem EXCEPT ![self] = 1]
                        /\ pc' = [pc EXCEPT ![self] = "pw1"]
                        /\ UNCHANGED skipped
                   ELSE /\ IF skipped[self]
                              THEN /\ skipped' = [skipped EXCEPT ![self] = FALSE]
                                   /\ pc' = [pc EXCEPT ![self] = "P_entry_reset"]
                              ELSE /\ pc' = [pc EXCEPT ![self] = "pw1"]
                                   /\ UNCHANGED skipped
                        /\ UNCHANGED << inited, sem >>
             /\ UNCHANGED << pred, predBuf, epoch, waitset, cnt, cntBuf, mtx, 
                             inlist, nepoch, fwait, woke, p, sv, il, rounds, c, 
                             tgt, i, old >>

pw1(self) == /\ pc[self] = "pw1"
             /\ inlist' = [inlist EXCEPT ![self] = TRUE]
             /\ pc' = [pc EXCEPT ![self] = "pw2"]
             /\ UNCHANGED << pred, predBuf, epoch, waitset, cnt, cntBuf, mtx, 
                             nepoch, skipped, inited, sem, fwait, woke, p, sv, 
                             il, rounds, c, tgt, i, old >>

pw2(self) == /\ pc[self] = "pw2"
             /\ mtx = "free"
             /\ mtx' = self
             /\ pc' = [pc EXCEPT ![self] = "pw3"]
             /\ UNCHANGED << pred, predBuf, epoch, waitset, cnt, cntBuf, 
                             inlist, nepoch, skipped, inited, sem, fwait, woke, 
                             p, sv, il, rounds, c, tgt, i, old >>

pw3(self) == /\ pc[self] = "pw3"
             /\ nepoch' = [nepoch EXCEPT ![self] = epoch]
             /\ waitset' = Append(waitset, self)
             /\ cnt' = cnt + 1
             /\ pc' = [pc EXCEPT ![self] = "pw4"]
             /\ UNCHANGED << pred, predBuf, epoch, cntBuf, mtx, inlist, 
                             skipped, inited, sem, fwait, woke, p, sv, il, 
                             rounds, c, tgt, i, old >>

pw4(self) == /\ pc[self] = "pw4"
             /\ mtx' = "free"
             /\ pc' = [pc EXCEPT ![self] = "pw5"]
             /\ UNCHANGED << pred, predBuf, epoch, waitset, cnt, cntBuf, 
                             inlist, nepoch, skipped, inited, sem, fwait, woke, 
                             p, sv, il, rounds, c, tgt, i, old >>

pw5(self) == /\ pc[self] = "pw5"
             /\ TRUE
             /\ pc' = [pc EXCEPT ![self] = "chk"]
             /\ UNCHANGED << pred, predBuf, epoch, waitset, cnt, cntBuf, mtx, 
                             inlist, nepoch, skipped, inited, sem, fwait, woke, 
                             p, sv, il, rounds, c, tgt, i, old >>

chk(self) == /\ pc[self] = "chk"
             /\ IF TSO /\ ~FENCE_W /\ FALSE
                   THEN /\ TRUE
                   ELSE /\ TRUE
             /\ p' = [p EXCEPT ![self] = pred]
             /\ IF p'[self]
                   THEN /\ pc' = [pc EXCEPT ![self] = "cw0"]
                   ELSE /\ pc' = [pc EXCEPT ![self] = "cm0"]
             /\ UNCHANGED << pred, predBuf, epoch, waitset, cnt, cntBuf, mtx, 
                             inlist, nepoch, skipped, inited, sem, fwait, woke, 
                             sv, il, rounds, c, tgt, i, old >>

cm0(self) == /\ pc[self] = "cm0"
             /\ IF nepoch[self] = epoch
                   THEN /\ pc' = [pc EXCEPT ![self] = "P_entry"]
                   ELSE /\ pc' = [pc EXCEPT ![self] = "cw0c"]
             /\ UNCHANGED << pred, predBuf, epoch, waitset, cnt, cntBuf, mtx, 
                             inlist, nepoch, skipped, inited, sem, fwait, woke, 
                             p, sv, il, rounds, c, tgt, i, old >>

cw0c(self) == /\ pc[self] = "cw0c"
              /\ skipped' = [skipped EXCEPT ![self] = TRUE]
              /\ il' = [il EXCEPT ![self] = inlist[self]]
              /\ IF il'[self]
                    THEN /\ pc' = [pc EXCEPT ![self] = "cw1c"]
                    ELSE /\ pc' = [pc EXCEPT ![self] = "pw0"]
              /\ UNCHANGED << pred, predBuf, epoch, waitset, cnt, cntBuf, mtx, 
                              inlist, nepoch, inited, sem, fwait, woke, p, sv, 
                              rounds, c, tgt, i, old >>

cw1c(self) == /\ pc[self] = "cw1c"
              /\ mtx = "free"
              /\ mtx' = self
              /\ pc' = [pc EXCEPT ![self] = "cw2c"]
              /\ UNCHANGED << pred, predBuf, epoch, waitset, cnt, cntBuf, 
                              inlist, nepoch, skipped, inited, sem, fwait, 
                              woke, p, sv, il, rounds, c, tgt, i, old >>

cw2c(self) == /\ pc[self] = "cw2c"
              /\ IF inlist[self]
                    THEN /\ waitset' = SelectSeq(waitset, LAMBDA x : x # self)
                         /\ cnt' = cnt - 1
                         /\ inlist' = [inlist EXCEPT ![self] = FALSE]
                         /\ skipped' = [skipped EXCEPT ![self] = FALSE]
                    ELSE /\ TRUE
                         /\ UNCHANGED << waitset, cnt, inlist, skipped >>
              /\ pc' = [pc EXCEPT ![self] = "cw3c"]
              /\ UNCHANGED << pred, predBuf, epoch, cntBuf, mtx, nepoch, 
                              inited, sem, fwait, woke, p, sv, il, rounds, c, 
                              tgt, i, old >>

cw3c(self) == /\ pc[self] = "cw3c"
              /\ mtx' = "free"
              /\ pc' = [pc EXCEPT ![self] = "pw0"]
              /\ UNCHANGED << pred, predBuf, epoch, waitset, cnt, cntBuf, 
                              inlist, nepoch, skipped, inited, sem, fwait, 
                              woke, p, sv, il, rounds, c, tgt, i, old >>

cw0(self) == /\ pc[self] = "cw0"
             /\ skipped' = [skipped EXCEPT ![self] = TRUE]
             /\ il' = [il EXCEPT ![self] = inlist[self]]
             /\ IF il'[self]
                   THEN /\ pc' = [pc EXCEPT ![self] = "cw1"]
                   ELSE /\ pc' = [pc EXCEPT ![self] = "s_done"]
             /\ UNCHANGED << pred, predBuf, epoch, waitset, cnt, cntBuf, mtx, 
                             inlist, nepoch, inited, sem, fwait, woke, p, sv, 
                             rounds, c, tgt, i, old >>

cw1(self) == /\ pc[self] = "cw1"
             /\ mtx = "free"
             /\ mtx' = self
             /\ pc' = [pc EXCEPT ![self] = "cw2"]
             /\ UNCHANGED << pred, predBuf, epoch, waitset, cnt, cntBuf, 
                             inlist, nepoch, skipped, inited, sem, fwait, woke, 
                             p, sv, il, rounds, c, tgt, i, old >>

cw2(self) == /\ pc[self] = "cw2"
             /\ IF inlist[self]
                   THEN /\ waitset' = SelectSeq(waitset, LAMBDA x : x # self)
                        /\ cnt' = cnt - 1
                        /\ inlist' = [inlist EXCEPT ![self] = FALSE]
                        /\ skipped' = [skipped EXCEPT ![self] = FALSE]
                   ELSE /\ TRUE
                        /\ UNCHANGED << waitset, cnt, inlist, skipped >>
             /\ pc' = [pc EXCEPT ![self] = "cw3"]
             /\ UNCHANGED << pred, predBuf, epoch, cntBuf, mtx, nepoch, inited, 
                             sem, fwait, woke, p, sv, il, rounds, c, tgt, i, 
                             old >>

cw3(self) == /\ pc[self] = "cw3"
             /\ mtx' = "free"
             /\ pc' = [pc EXCEPT ![self] = "s_done"]
             /\ UNCHANGED << pred, predBuf, epoch, waitset, cnt, cntBuf, 
                             inlist, nepoch, skipped, inited, sem, fwait, woke, 
                             p, sv, il, rounds, c, tgt, i, old >>

P_entry_reset(self) == /\ pc[self] = "P_entry_reset"
                       /\ IF sem[self] = 0
                             THEN /\ sem' = [sem EXCEPT ![self] = 1]
                                  /\ pc' = [pc EXCEPT ![self] = "pw1"]
                             ELSE /\ pc' = [pc EXCEPT ![self] = "Pr1"]
                                  /\ sem' = sem
                       /\ UNCHANGED << pred, predBuf, epoch, waitset, cnt, 
                                       cntBuf, mtx, inlist, nepoch, skipped, 
                                       inited, fwait, woke, p, sv, il, rounds, 
                                       c, tgt, i, old >>

Pr1(self) == /\ pc[self] = "Pr1"
             /\ sv' = [sv EXCEPT ![self] = sem[self]]
             /\ sem' = [sem EXCEPT ![self] = 2]
             /\ pc' = [pc EXCEPT ![self] = "Pr2"]
             /\ UNCHANGED << pred, predBuf, epoch, waitset, cnt, cntBuf, mtx, 
                             inlist, nepoch, skipped, inited, fwait, woke, p, 
                             il, rounds, c, tgt, i, old >>

Pr2(self) == /\ pc[self] = "Pr2"
             /\ IF sv[self] = 0
                   THEN /\ pc' = [pc EXCEPT ![self] = "pw1"]
                        /\ fwait' = fwait
                   ELSE /\ fwait' = [fwait EXCEPT ![self] = (sem[self] = 2)]
                        /\ pc' = [pc EXCEPT ![self] = "Pr3"]
             /\ UNCHANGED << pred, predBuf, epoch, waitset, cnt, cntBuf, mtx, 
                             inlist, nepoch, skipped, inited, sem, woke, p, sv, 
                             il, rounds, c, tgt, i, old >>

Pr3(self) == /\ pc[self] = "Pr3"
             /\ ~fwait[self]
             /\ pc' = [pc EXCEPT ![self] = "Pr1"]
             /\ UNCHANGED << pred, predBuf, epoch, waitset, cnt, cntBuf, mtx, 
                             inlist, nepoch, skipped, inited, sem, fwait, woke, 
                             p, sv, il, rounds, c, tgt, i, old >>

P_entry(self) == /\ pc[self] = "P_entry"
                 /\ IF sem[self] = 0
                       THEN /\ sem' = [sem EXCEPT ![self] = 1]
                            /\ pc' = [pc EXCEPT ![self] = "s_woken"]
                       ELSE /\ pc' = [pc EXCEPT ![self] = "P1"]
                            /\ sem' = sem
                 /\ UNCHANGED << pred, predBuf, epoch, waitset, cnt, cntBuf, 
                                 mtx, inlist, nepoch, skipped, inited, fwait, 
                                 woke, p, sv, il, rounds, c, tgt, i, old >>

P1(self) == /\ pc[self] = "P1"
            /\ sv' = [sv EXCEPT ![self] = sem[self]]
            /\ sem' = [sem EXCEPT ![self] = 2]
            /\ pc' = [pc EXCEPT ![self] = "P2"]
            /\ UNCHANGED << pred, predBuf, epoch, waitset, cnt, cntBuf, mtx, 
                            inlist, nepoch, skipped, inited, fwait, woke, p, 
                            il, rounds, c, tgt, i, old >>

P2(self) == /\ pc[self] = "P2"
            /\ IF sv[self] = 0
                  THEN /\ pc' = [pc EXCEPT ![self] = "s_woken"]
                       /\ fwait' = fwait
                  ELSE /\ fwait' = [fwait EXCEPT ![self] = (sem[self] = 2)]
                       /\ pc' = [pc EXCEPT ![self] = "P3"]
            /\ UNCHANGED << pred, predBuf, epoch, waitset, cnt, cntBuf, mtx, 
                            inlist, nepoch, skipped, inited, sem, woke, p, sv, 
                            il, rounds, c, tgt, i, old >>

P3(self) == /\ pc[self] = "P3"
            /\ ~fwait[self]
            /\ pc' = [pc EXCEPT ![self] = "P1"]
            /\ UNCHANGED << pred, predBuf, epoch, waitset, cnt, cntBuf, mtx, 
                            inlist, nepoch, skipped, inited, sem, fwait, woke, 
                            p, sv, il, rounds, c, tgt, i, old >>

s_woken(self) == /\ pc[self] = "s_woken"
                 /\ woke' = [woke EXCEPT ![self] = woke[self] + 1]
                 /\ p' = [p EXCEPT ![self] = pred]
                 /\ IF p'[self]
                       THEN /\ pc' = [pc EXCEPT ![self] = "s_done"]
                       ELSE /\ pc' = [pc EXCEPT ![self] = "pw0"]
                 /\ UNCHANGED << pred, predBuf, epoch, waitset, cnt, cntBuf, 
                                 mtx, inlist, nepoch, skipped, inited, sem, 
                                 fwait, sv, il, rounds, c, tgt, i, old >>

s_done(self) == /\ pc[self] = "s_done"
                /\ rounds' = [rounds EXCEPT ![self] = ROUNDS]
                /\ pc' = [pc EXCEPT ![self] = "s_begin"]
                /\ UNCHANGED << pred, predBuf, epoch, waitset, cnt, cntBuf, 
                                mtx, inlist, nepoch, skipped, inited, sem, 
                                fwait, woke, p, sv, il, c, tgt, i, old >>

s(self) == s_begin(self) \/ pw0(self) \/ pw1(self) \/ pw2(self)
              \/ pw3(self) \/ pw4(self) \/ pw5(self) \/ chk(self)
              \/ cm0(self) \/ cw0c(self) \/ cw1c(self) \/ cw2c(self)
              \/ cw3c(self) \/ cw0(self) \/ cw1(self) \/ cw2(self)
              \/ cw3(self) \/ P_entry_reset(self) \/ Pr1(self) \/ Pr2(self)
              \/ Pr3(self) \/ P_entry(self) \/ P1(self) \/ P2(self)
              \/ P3(self) \/ s_woken(self) \/ s_done(self)

n0(self) == /\ pc[self] = "n0"
            /\ IF TSO /\ ~CLIENT_SC
                  THEN /\ predBuf' = [predBuf EXCEPT ![self] = TRUE]
                       /\ pred' = pred
                  ELSE /\ pred' = TRUE
                       /\ UNCHANGED predBuf
            /\ pc' = [pc EXCEPT ![self] = "n1"]
            /\ UNCHANGED << epoch, waitset, cnt, cntBuf, mtx, inlist, nepoch, 
                            skipped, inited, sem, fwait, woke, p, sv, il, 
                            rounds, c, tgt, i, old >>

n1(self) == /\ pc[self] = "n1"
            /\ IF FENCE_N
                  THEN /\ ~predBuf[self]
                  ELSE /\ TRUE
            /\ pc' = [pc EXCEPT ![self] = "n2"]
            /\ UNCHANGED << pred, predBuf, epoch, waitset, cnt, cntBuf, mtx, 
                            inlist, nepoch, skipped, inited, sem, fwait, woke, 
                            p, sv, il, rounds, c, tgt, i, old >>

n2(self) == /\ pc[self] = "n2"
            /\ c' = [c EXCEPT ![self] = cnt]
            /\ IF c'[self] = 0
                  THEN /\ pc' = [pc EXCEPT ![self] = "n_done"]
                  ELSE /\ pc' = [pc EXCEPT ![self] = "n3"]
            /\ UNCHANGED << pred, predBuf, epoch, waitset, cnt, cntBuf, mtx, 
                            inlist, nepoch, skipped, inited, sem, fwait, woke, 
                            p, sv, il, rounds, tgt, i, old >>

n3(self) == /\ pc[self] = "n3"
            /\ mtx = "free"
            /\ mtx' = self
            /\ IF predBuf[self]
                  THEN /\ pred' = TRUE
                       /\ predBuf' = [predBuf EXCEPT ![self] = FALSE]
                  ELSE /\ TRUE
                       /\ UNCHANGED << pred, predBuf >>
            /\ pc' = [pc EXCEPT ![self] = "n4"]
            /\ UNCHANGED << epoch, waitset, cnt, cntBuf, inlist, nepoch, 
                            skipped, inited, sem, fwait, woke, p, sv, il, 
                            rounds, c, tgt, i, old >>

n4(self) == /\ pc[self] = "n4"
            /\ epoch' = epoch + 1
            /\ tgt' = [tgt EXCEPT ![self] = waitset]
            /\ waitset' = <<>>
            /\ cnt' = 0
            /\ inlist' = [t \in Threads |-> IF \E k \in 1..Len(tgt'[self]) : tgt'[self][k] = t THEN FALSE ELSE inlist[t]]
            /\ pc' = [pc EXCEPT ![self] = "n5"]
            /\ UNCHANGED << pred, predBuf, cntBuf, mtx, nepoch, skipped, 
                            inited, sem, fwait, woke, p, sv, il, rounds, c, i, 
                            old >>

n5(self) == /\ pc[self] = "n5"
            /\ mtx' = "free"
            /\ pc' = [pc EXCEPT ![self] = "n6"]
            /\ UNCHANGED << pred, predBuf, epoch, waitset, cnt, cntBuf, inlist, 
                            nepoch, skipped, inited, sem, fwait, woke, p, sv, 
                            il, rounds, c, tgt, i, old >>

n6(self) == /\ pc[self] = "n6"
            /\ IF i[self] <= Len(tgt[self])
                  THEN /\ old' = [old EXCEPT ![self] = sem[tgt[self][i[self]]]]
                       /\ sem' = [sem EXCEPT ![tgt[self][i[self]]] = 0]
                       /\ pc' = [pc EXCEPT ![self] = "n7"]
                  ELSE /\ pc' = [pc EXCEPT ![self] = "n_done"]
                       /\ UNCHANGED << sem, old >>
            /\ UNCHANGED << pred, predBuf, epoch, waitset, cnt, cntBuf, mtx, 
                            inlist, nepoch, skipped, inited, fwait, woke, p, 
                            sv, il, rounds, c, tgt, i >>

n7(self) == /\ pc[self] = "n7"
            /\ IF old[self] = 2
                  THEN /\ fwait' = [fwait EXCEPT ![tgt[self][i[self]]] = FALSE]
                  ELSE /\ TRUE
                       /\ fwait' = fwait
            /\ i' = [i EXCEPT ![self] = i[self] + 1]
            /\ pc' = [pc EXCEPT ![self] = "n6"]
            /\ UNCHANGED << pred, predBuf, epoch, waitset, cnt, cntBuf, mtx, 
                            inlist, nepoch, skipped, inited, sem, woke, p, sv, 
                            il, rounds, c, tgt, old >>

n_done(self) == /\ pc[self] = "n_done"
                /\ IF predBuf[self]
                      THEN /\ FALSE
                      ELSE /\ TRUE
                /\ pc' = [pc EXCEPT ![self] = "Done"]
                /\ UNCHANGED << pred, predBuf, epoch, waitset, cnt, cntBuf, 
                                mtx, inlist, nepoch, skipped, inited, sem, 
                                fwait, woke, p, sv, il, rounds, c, tgt, i, old >>

n(self) == n0(self) \/ n1(self) \/ n2(self) \/ n3(self) \/ n4(self)
              \/ n5(self) \/ n6(self) \/ n7(self) \/ n_done(self)

d0(self) == /\ pc[self] = "d0"
            /\ \E t \in {x \in Notifiers : predBuf[x]}:
                 /\ pred' = TRUE
                 /\ predBuf' = [predBuf EXCEPT ![t] = FALSE]
            /\ pc' = [pc EXCEPT ![self] = "d0"]
            /\ UNCHANGED << epoch, waitset, cnt, cntBuf, mtx, inlist, nepoch, 
                            skipped, inited, sem, fwait, woke, p, sv, il, 
                            rounds, c, tgt, i, old >>

d(self) == d0(self)

Next == (\E self \in Sleepers: s(self))
           \/ (\E self \in Notifiers: n(self))
           \/ (\E self \in {"drain"}: d(self))

Spec == Init /\ [][Next]_vars

\* END TRANSLATION
FairSpec == Spec /\ (\A t \in Sleepers : WF_vars(s(t))) /\ (\A t \in Notifiers : WF_vars(n(t))) /\ WF_vars(d("drain"))
SleepersDone == <>(\A t \in Sleepers : pc[t] = "Done")
AllDone == \A t \in Sleepers \cup Notifiers : pc[t] \in {"Done"}
\* lost wake-up: a sleeper is blocked in futex/await forever: detected as deadlock by TLC when nothing else is enabled.
NoLostWakeup == ~(\E t \in Sleepers : pc[t] \in {"P3","Pr3"} /\ fwait[t]
                   /\ \A m \in Notifiers : pc[m] = "Done" /\ ~predBuf[m])
====
