---- MODULE RWMutex ----
\* tbb::rw_mutex (include/oneapi/tbb/rw_mutex.h) with its sleeping paths through the address waiter.
\* m_state accesses are one label each; the address-waiter monitor is abstracted to its critical sections
\* (prepare / commit / cancel / notify) -- its internals are the subject of Monitor.tla.
EXTENDS Integers, Sequences, FiniteSets, TLC
CONSTANTS Threads, Prog
Wb(x) == x % 2
Pb(x) == (x \div 2) % 2
Rc(x) == x \div 4
BUSY(x) == Wb(x) = 1 \/ Rc(x) > 0
WCTX == 0  RCTX == 1
(* --algorithm rwm {
  variables m = 0, epoch = 0, waitset = {},      \* waitset: set of <<thread, ctx>>
            nep = [t \in Threads |-> 0], asleep = [t \in Threads |-> FALSE],
            wr = {}, rd = {}, upres = [t \in Threads |-> "na"],
            tgtv = [t \in Threads |-> {}], okv = [t \in Threads |-> FALSE];
  \* notify(ctx): ctx = 0/1 or 2 for "all"
  procedure notify(nctx)
  {
    N1: if (waitset = {}) { return };                                  \* my_waitset.empty() (relaxed, after an RMW)
    N2: tgtv[self] := {w \in waitset : nctx = 2 \/ w[2] = nctx};
        epoch := epoch + 1; waitset := waitset \ tgtv[self];
        asleep := [t \in Threads |-> IF \E w \in tgtv[self] : w[1] = t THEN FALSE ELSE asleep[t]];
        return;
  }
  \* adaptive_wait_on_address(cond, ctx): returns after cond seen true or after one sleep
  procedure waitaddr(kind, wctx)
  {
    \* optional spinning phase: one check (timed_spin_wait_until)
    W0: okv[self] := IF kind = "notbusy" THEN ~BUSY(m) ELSE IF kind = "nowriter" THEN (Wb(m) = 0 /\ Pb(m) = 0) ELSE (Rc(m) = 1);
        if (okv[self]) { return };
    W1: nep[self] := epoch; waitset := waitset \cup {<<self, wctx>>};   \* prepare_wait (+fence)
    W2: okv[self] := IF kind = "notbusy" THEN ~BUSY(m) ELSE IF kind = "nowriter" THEN (Wb(m) = 0 /\ Pb(m) = 0) ELSE (Rc(m) = 1);
        if (okv[self]) { goto W5 };
    W3: if (nep[self] = epoch) { asleep[self] := (<<self, wctx>> \in waitset) ; goto W4 }     \* commit_wait
        else { waitset := waitset \ {<<self, wctx>>}; goto W1 };                               \* cancel + re-prepare
    W4: await ~asleep[self]; return;                                    \* semaphore P(); wait() returns true
    W5: waitset := waitset \ {<<self, wctx>>}; return;                  \* cancel_wait
  }
  process (t \in Threads)
    variables i = 1, op = "", s = 0, prev = 0, cur = 0;
  {
  Loop: while (i <= Len(Prog[self])) {
      op := Prog[self][i];
      if (op = "lock") { goto L1 } else if (op = "unlock") { goto UL }
      else if (op = "lock_shared") { goto S1 } else if (op = "unlock_shared") { goto US }
      else if (op = "upgrade") { goto UP1 } else { goto DG };
    \* lock(): while(!try_lock()) { if(!(m&P)) m|=P; adaptive_wait(!BUSY, WCTX) }
    L1: s := m; if (~BUSY(s)) { goto L2 } else { goto L3 };
    L2: if (m = s) { m := 1; wr := wr \cup {self}; goto Fin } else { goto L3 };
    L3: s := m; if (Pb(s) = 0) { goto L4 } else { goto L5 };
    L4: m := IF Pb(m) = 1 THEN m ELSE m + 2;
    L5: call waitaddr("notbusy", WCTX);
    L6: goto L1;
    \* unlock(): curr = (m &= READERS|PENDING)
    UL: m := m - Wb(m); cur := m; wr := wr \ {self};
        if (Pb(cur) = 1) { call notify(WCTX) } else { call notify(2) };
    UL2: goto Fin;
    \* lock_shared(): while(!try_lock_shared()) adaptive_wait(no writer/pending, RCTX)
    S1: s := m; if (Wb(s) = 0 /\ Pb(s) = 0) { goto S2 } else { goto S5 };
    S2: prev := m; m := m + 4;
        if (Wb(prev) = 1 \/ Pb(prev) = 1) { goto S3 } else { rd := rd \cup {self}; goto Fin };
    S3: m := m - 4;
    S4: call notify(WCTX);
    S5: call waitaddr("nowriter", RCTX);
    S6: goto S1;
    \* unlock_shared()
    US: m := m - 4; cur := m; rd := rd \ {self};
        if (Pb(cur) = 1) { call notify(WCTX) } else { call notify(2) };
    US2: goto Fin;
    \* upgrade()
    UP1: s := m;
    UP2: if (Rc(s) = 1 \/ Pb(s) = 0) { goto UP3 } else { goto UP8 };
    UP3: if (m = s) { m := s + (1 - Wb(s)) + 2 * (1 - Pb(s)); goto UP4 } else { s := m; goto UP2 };
    UP4: cur := m; if (Rc(cur) # 1) { goto UP5 } else { goto UP7 };
    UP5: call waitaddr("onereader", WCTX);
    UP6: goto UP4;
    UP7: m := m - 6; rd := rd \ {self}; wr := wr \cup {self}; upres[self] := "true"; goto Fin;
    UP8: m := m - 4; cur := m; rd := rd \ {self}; upres[self] := "false";      \* slow path: unlock_shared(); lock()
         if (Pb(cur) = 1) { call notify(WCTX) } else { call notify(2) };
    UP9: goto L1;
    \* downgrade(): m += ONE_READER - WRITER; if(!(m & P)) notify(RCTX)
    DG: m := m + 3; wr := wr \ {self}; rd := rd \cup {self};
    DG2: cur := m; if (Pb(cur) = 0) { call notify(RCTX) };
    DG3: goto Fin;
    Fin: i := i + 1;
    }
  }
} *)
\* BEGIN TRANSLATION
CONSTANT defaultInitValue
VARIABLES pc, m, epoch, waitset, nep, asleep, wr, rd, upres, tgtv, okv, stack, 
          nctx, kind, wctx, i, op, s, prev, cur

vars == << pc, m, epoch, waitset, nep, asleep, wr, rd, upres, tgtv, okv, 
           stack, nctx, kind, wctx, i, op, s, prev, cur >>

ProcSet == (Threads)

Init == (* Global variables *)
        /\ m = 0
        /\ epoch = 0
        /\ waitset = {}
        /\ nep = [t \in Threads |-> 0]
        /\ asleep = [t \in Threads |-> FALSE]
        /\ wr = {}
        /\ rd = {}
        /\ upres = [t \in Threads |-> "na"]
        /\ tgtv = [t \in Threads |-> {}]
        /\ okv = [t \in Threads |-> FALSE]
        (* Procedure notify *)
        /\ nctx = [ self \in ProcSet |-> defaultInitValue]
        (* Procedure waitaddr *)
        /\ kind = [ self \in ProcSet |-> defaultInitValue]
        /\ wctx = [ self \in ProcSet |-> defaultInitValue]
        (* Process t *)
        /\ i = [self \in Threads |-> 1]
        /\ op = [self \in Threads |-> ""]
        /\ s = [self \in Threads |-> 0]
        /\ prev = [self \in Threads |-> 0]
        /\ cur = [self \in Threads |-> 0]
        /\ stack = [self \in ProcSet |-> << >>]
        /\ pc = [self \in ProcSet |-> "Loop"]

N1(self) == /\ pc[self] = "N1"
            /\ IF waitset = {}
                  THEN /\ pc' = [pc EXCEPT ![self] = Head(stack[self]).pc]
                       /\ nctx' = [nctx EXCEPT ![self] = Head(stack[self]).nctx]
                       /\ stack' = [stack EXCEPT ![self] = Tail(stack[self])]
                  ELSE /\ pc' = [pc EXCEPT ![self] = "N2"]
                       /\ UNCHANGED << stack, nctx >>
            /\ UNCHANGED << m, epoch, waitset, nep, asleep, wr, rd, upres, 
                            tgtv, okv, kind, wctx, i, op, s, prev, cur >>

N2(self) == /\ pc[self] = "N2"
            /\ tgtv' = [tgtv EXCEPT ![self] = {w \in waitset : nctx[self] = 2 \/ w[2] = nctx[self]}]
            /\ epoch' = epoch + 1
            /\ waitset' = waitset \ tgtv'[self]
            /\ asleep' = [t \in Threads |-> IF \E w \in tgtv'[self] : w[1] = t THEN FALSE ELSE asleep[t]]
            /\ pc' = [pc EXCEPT ![self] = Head(stack[self]).pc]
            /\ nctx' = [nctx EXCEPT ![self] = Head(stack[self]).nctx]
            /\ stack' = [stack EXCEPT ![self] = Tail(stack[self])]
            /\ UNCHANGED << m, nep, wr, rd, upres, okv, kind, wctx, i, op, s, 
                            prev, cur >>

notify(self) == N1(self) \/ N2(self)

W0(self) == /\ pc[self] = "W0"
            /\ okv' = [okv EXCEPT ![self] = IF kind[self] = "notbusy" THEN ~BUSY(m) ELSE IF kind[self] = "nowriter" THEN (Wb(m) = 0 /\ Pb(m) = 0) ELSE (Rc(m) = 1)]
            /\ IF okv'[self]
                  THEN /\ pc' = [pc EXCEPT ![self] = Head(stack[self]).pc]
                       /\ kind' = [kind EXCEPT ![self] = Head(stack[self]).kind]
                       /\ wctx' = [wctx EXCEPT ![self] = Head(stack[self]).wctx]
                       /\ stack' = [stack EXCEPT ![self] = Tail(stack[self])]
                  ELSE /\ pc' = [pc EXCEPT ![self] = "W1"]
                       /\ UNCHANGED << stack, kind, wctx >>
            /\ UNCHANGED << m, epoch, waitset, nep, asleep, wr, rd, upres, 
                            tgtv, nctx, i, op, s, prev, cur >>

W1(self) == /\ pc[self] = "W1"
            /\ nep' = [nep EXCEPT ![self] = epoch]
            /\ waitset' = (waitset \cup {<<self, wctx[self]>>})
            /\ pc' = [pc EXCEPT ![self] = "W2"]
            /\ UNCHANGED << m, epoch, asleep, wr, rd, upres, tgtv, okv, stack, 
                            nctx, kind, wctx, i, op, s, prev, cur >>

W2(self) == /\ pc[self] = "W2"
            /\ okv' = [okv EXCEPT ![self] = IF kind[self] = "notbusy" THEN ~BUSY(m) ELSE IF kind[self] = "nowriter" THEN (Wb(m) = 0 /\ Pb(m) = 0) ELSE (Rc(m) = 1)]
            /\ IF okv'[self]
                  THEN /\ pc' = [pc EXCEPT ![self] = "W5"]
                  ELSE /\ pc' = [pc EXCEPT ![self] = "W3"]
            /\ UNCHANGED << m, epoch, waitset, nep, asleep, wr, rd, upres, 
                            tgtv, stack, nctx, kind, wctx, i, op, s, prev, cur >>

W3(self) == /\ pc[self] = "W3"
            /\ IF nep[self] = epoch
                  THEN /\ asleep' = [asleep EXCEPT ![self] = (<<self, wctx[self]>> \in waitset)]
                       /\ pc' = [pc EXCEPT ![self] = "W4"]
                       /\ UNCHANGED waitset
                  ELSE /\ waitset' = waitset \ {<<self, wctx[self]>>}
                       /\ pc' = [pc EXCEPT ![self] = "W1"]
                       /\ UNCHANGED asleep
            /\ UNCHANGED << m, epoch, nep, wr, rd, upres, tgtv, okv, stack, 
                            nctx, kind, wctx, i, op, s, prev, cur >>

W4(self) == /\ pc[self] = "W4"
            /\ ~asleep[self]
            /\ pc' = [pc EXCEPT ![self] = Head(stack[self]).pc]
            /\ kind' = [kind EXCEPT ![self] = Head(stack[self]).kind]
            /\ wctx' = [wctx EXCEPT ![self] = Head(stack[self]).wctx]
            /\ stack' = [stack EXCEPT ![self] = Tail(stack[self])]
            /\ UNCHANGED << m, epoch, waitset, nep, asleep, wr, rd, upres, 
                            tgtv, okv, nctx, i, op, s, prev, cur >>

W5(self) == /\ pc[self] = "W5"
            /\ waitset' = waitset \ {<<self, wctx[self]>>}
            /\ pc' = [pc EXCEPT ![self] = Head(stack[self]).pc]
            /\ kind' = [kind EXCEPT ![self] = Head(stack[self]).kind]
            /\ wctx' = [wctx EXCEPT ![self] = Head(stack[self]).wctx]
            /\ stack' = [stack EXCEPT ![self] = Tail(stack[self])]
            /\ UNCHANGED << m, epoch, nep, asleep, wr, rd, upres, tgtv, okv, 
                            nctx, i, op, s, prev, cur >>

waitaddr(self) == W0(self) \/ W1(self) \/ W2(self) \/ W3(self) \/ W4(self)
                     \/ W5(self)

Loop(self) == /\ pc[self] = "Loop"
              /\ IF i[self] <= Len(Prog[self])
                    THEN /\ op' = [op EXCEPT ![self] = Prog[self][i[self]]]
                         /\ IF op'[self] = "lock"
                               THEN /\ pc' = [pc EXCEPT ![self] = "L1"]
                               ELSE /\ IF op'[self] = "unlock"
                                          THEN /\ pc' = [pc EXCEPT ![self] = "UL"]
                                          ELSE /\ IF op'[self] = "lock_shared"
                                                     THEN /\ pc' = [pc EXCEPT ![self] = "S1"]
                                                     ELSE /\ IF op'[self] = "unlock_shared"
                                                                THEN /\ pc' = [pc EXCEPT ![self] = "US"]
                                                                ELSE /\ IF op'[self] = "upgrade"
                                                                           THEN /\ pc' = [pc EXCEPT ![self] = "UP1"]
                                                                           ELSE /\ pc' = [pc EXCEPT ![self] = "DG"]
                    ELSE /\ pc' = [pc EXCEPT ![self] = "Done"]
                         /\ op' = op
              /\ UNCHANGED << m, epoch, waitset, nep, asleep, wr, rd, upres, 
                              tgtv, okv, stack, nctx, kind, wctx, i, s, prev, 
                              cur >>

L1(self) == /\ pc[self] = "L1"
            /\ s' = [s EXCEPT ![self] = m]
            /\ IF ~BUSY(s'[self])
                  THEN /\ pc' = [pc EXCEPT ![self] = "L2"]
                  ELSE /\ pc' = [pc EXCEPT ![self] = "L3"]
            /\ UNCHANGED << m, epoch, waitset, nep, asleep, wr, rd, upres, 
                            tgtv, okv, stack, nctx, kind, wctx, i, op, prev, 
                            cur >>

L2(self) == /\ pc[self] = "L2"
            /\ IF m = s[self]
                  THEN /\ m' = 1
                       /\ wr' = (wr \cup {self})
                       /\ pc' = [pc EXCEPT ![self] = "Fin"]
                  ELSE /\ pc' = [pc EXCEPT ![self] = "L3"]
                       /\ UNCHANGED << m, wr >>
            /\ UNCHANGED << epoch, waitset, nep, asleep, rd, upres, tgtv, okv, 
                            stack, nctx, kind, wctx, i, op, s, prev, cur >>

L3(self) == /\ pc[self] = "L3"
            /\ s' = [s EXCEPT ![self] = m]
            /\ IF Pb(s'[self]) = 0
                  THEN /\ pc' = [pc EXCEPT ![self] = "L4"]
                  ELSE /\ pc' = [pc EXCEPT ![self] = "L5"]
            /\ UNCHANGED << m, epoch, waitset, nep, asleep, wr, rd, upres, 
                            tgtv, okv, stack, nctx, kind, wctx, i, op, prev, 
                            cur >>

L4(self) == /\ pc[self] = "L4"
            /\ m' = (IF Pb(m) = 1 THEN m ELSE m + 2)
            /\ pc' = [pc EXCEPT ![self] = "L5"]
            /\ UNCHANGED << epoch, waitset, nep, asleep, wr, rd, upres, tgtv, 
                            okv, stack, nctx, kind, wctx, i, op, s, prev, cur >>

L5(self) == /\ pc[self] = "L5"
            /\ /\ kind' = [kind EXCEPT ![self] = "notbusy"]
               /\ stack' = [stack EXCEPT ![self] = << [ procedure |->  "waitaddr",
                                                        pc        |->  "L6",
                                                        kind      |->  kind[self],
                                                        wctx      |->  wctx[self] ] >>
                                                    \o stack[self]]
               /\ wctx' = [wctx EXCEPT ![self] = WCTX]
            /\ pc' = [pc EXCEPT ![self] = "W0"]
            /\ UNCHANGED << m, epoch, waitset, nep, asleep, wr, rd, upres, 
                            tgtv, okv, nctx, i, op, s, prev, cur >>

L6(self) == /\ pc[self] = "L6"
            /\ pc' = [pc EXCEPT ![self] = "L1"]
            /\ UNCHANGED << m, epoch, waitset, nep, asleep, wr, rd, upres, 
                            tgtv, okv, stack, nctx, kind, wctx, i, op, s, prev, 
                            cur >>

UL(self) == /\ pc[self] = "UL"
            /\ m' = m - Wb(m)
            /\ cur' = [cur EXCEPT ![self] = m']
            /\ wr' = wr \ {self}
            /\ IF Pb(cur'[self]) = 1
                  THEN /\ /\ nctx' = [nctx EXCEPT ![self] = WCTX]
                          /\ stack' = [stack EXCEPT ![self] = << [ procedure |->  "notify",
                                                                   pc        |->  "UL2",
                                                                   nctx      |->  nctx[self] ] >>
                                                               \o stack[self]]
                       /\ pc' = [pc EXCEPT ![self] = "N1"]
                  ELSE /\ /\ nctx' = [nctx EXCEPT ![self] = 2]
                          /\ stack' = [stack EXCEPT ![self] = << [ procedure |->  "notify",
                                                                   pc        |->  "UL2",
                                                                   nctx      |->  nctx[self] ] >>
                                                               \o stack[self]]
                       /\ pc' = [pc EXCEPT ![self] = "N1"]
            /\ UNCHANGED << epoch, waitset, nep, asleep, rd, upres, tgtv, okv, 
                            kind, wctx, i, op, s, prev >>

UL2(self) == /\ pc[self] = "UL2"
             /\ pc' = [pc EXCEPT ![self] = "Fin"]
             /\ UNCHANGED << m, epoch, waitset, nep, asleep, wr, rd, upres, 
                             tgtv, okv, stack, nctx, kind, wctx, i, op, s, 
                             prev, cur >>

S1(self) == /\ pc[self] = "S1"
            /\ s' = [s EXCEPT ![self] = m]
            /\ IF Wb(s'[self]) = 0 /\ Pb(s'[self]) = 0
                  THEN /\ pc' = [pc EXCEPT ![self] = "S2"]
                  ELSE /\ pc' = [pc EXCEPT ![self] = "S5"]
            /\ UNCHANGED << m, epoch, waitset, nep, asleep, wr, rd, upres, 
                            tgtv, okv, stack, nctx, kind, wctx, i, op, prev, 
                            cur >>

S2(self) == /\ pc[self] = "S2"
            /\ prev' = [prev EXCEPT ![self] = m]
            /\ m' = m + 4
            /\ IF Wb(prev'[self]) = 1 \/ Pb(prev'[self]) = 1
                  THEN /\ pc' = [pc EXCEPT ![self] = "S3"]
                       /\ rd' = rd
                  ELSE /\ rd' = (rd \cup {self})
                       /\ pc' = [pc EXCEPT ![self] = "Fin"]
            /\ UNCHANGED << epoch, waitset, nep, asleep, wr, upres, tgtv, okv, 
                            stack, nctx, kind, wctx, i, op, s, cur >>

S3(self) == /\ pc[self] = "S3"
            /\ m' = m - 4
            /\ pc' = [pc EXCEPT ![self] = "S4"]
            /\ UNCHANGED << epoch, waitset, nep, asleep, wr, rd, upres, tgtv, 
                            okv, stack, nctx, kind, wctx, i, op, s, prev, cur >>

S4(self) == /\ pc[self] = "S4"
            /\ /\ nctx' = [nctx EXCEPT ![self] = WCTX]
               /\ stack' = [stack EXCEPT ![self] = << [ procedure |->  "notify",
                                                        pc        |->  "S5",
                                                        nctx      |->  nctx[self] ] >>
                                                    \o stack[self]]
            /\ pc' = [pc EXCEPT ![self] = "N1"]
            /\ UNCHANGED << m, epoch, waitset, nep, asleep, wr, rd, upres, 
                            tgtv, okv, kind, wctx, i, op, s, prev, cur >>

S5(self) == /\ pc[self] = "S5"
            /\ /\ kind' = [kind EXCEPT ![self] = "nowriter"]
               /\ stack' = [stack EXCEPT ![self] = << [ procedure |->  "waitaddr",
                                                        pc        |->  "S6",
                                                        kind      |->  kind[self],
                                                        wctx      |->  wctx[self] ] >>
                                                    \o stack[self]]
               /\ wctx' = [wctx EXCEPT ![self] = RCTX]
            /\ pc' = [pc EXCEPT ![self] = "W0"]
            /\ UNCHANGED << m, epoch, waitset, nep, asleep, wr, rd, upres, 
                            tgtv, okv, nctx, i, op, s, prev, cur >>

S6(self) == /\ pc[self] = "S6"
            /\ pc' = [pc EXCEPT ![self] = "S1"]
            /\ UNCHANGED << m, epoch, waitset, nep, asleep, wr, rd, upres, 
                            tgtv, okv, stack, nctx, kind, wctx, i, op, s, prev, 
                            cur >>

US(self) == /\ pc[self] = "US"
            /\ m' = m - 4
            /\ cur' = [cur EXCEPT ![self] = m']
            /\ rd' = rd \ {self}
            /\ IF Pb(cur'[self]) = 1
                  THEN /\ /\ nctx' = [nctx EXCEPT ![self] = WCTX]
                          /\ stack' = [stack EXCEPT ![self] = << [ procedure |->  "notify",
                                                                   pc        |->  "US2",
                                                                   nctx      |->  nctx[self] ] >>
                                                               \o stack[self]]
                       /\ pc' = [pc EXCEPT ![self] = "N1"]
                  ELSE /\ /\ nctx' = [nctx EXCEPT ![self] = 2]
                          /\ stack' = [stack EXCEPT ![self] = << [ procedure |->  "notify",
                                                                   pc        |->  "US2",
                                                                   nctx      |->  nctx[self] ] >>
                                                               \o stack[self]]
                       /\ pc' = [pc EXCEPT ![self] = "N1"]
            /\ UNCHANGED << epoch, waitset, nep, asleep, wr, upres, tgtv, okv, 
                            kind, wctx, i, op, s, prev >>

US2(self) == /\ pc[self] = "US2"
             /\ pc' = [pc EXCEPT ![self] = "Fin"]
             /\ UNCHANGED << m, epoch, waitset, nep, asleep, wr, rd, upres, 
                             tgtv, okv, stack, nctx, kind, wctx, i, op, s, 
                             prev, cur >>

UP1(self) == /\ pc[self] = "UP1"
             /\ s' = [s EXCEPT ![self] = m]
             /\ pc' = [pc EXCEPT ![self] = "UP2"]
             /\ UNCHANGED << m, epoch, waitset, nep, asleep, wr, rd, upres, 
                             tgtv, okv, stack, nctx, kind, wctx, i, op, prev, 
                             cur >>

UP2(self) == /\ pc[self] = "UP2"
             /\ IF Rc(s[self]) = 1 \/ Pb(s[self]) = 0
                   THEN /\ pc' = [pc EXCEPT ![self] = "UP3"]
                   ELSE /\ pc' = [pc EXCEPT ![self] = "UP8"]
             /\ UNCHANGED << m, epoch, waitset, nep, asleep, wr, rd, upres, 
                             tgtv, okv, stack, nctx, kind, wctx, i, op, s, 
                             prev, cur >>

UP3(self) == /\ pc[self] = "UP3"
             /\ IF m = s[self]
                   THEN /\ m' = s[self] + (1 - Wb(s[self])) + 2 * (1 - Pb(s[self]))
                        /\ pc' = [pc EXCEPT ![self] = "UP4"]
                        /\ s' = s
                   ELSE /\ s' = [s EXCEPT ![self] = m]
                        /\ pc' = [pc EXCEPT ![self] = "UP2"]
                        /\ m' = m
             /\ UNCHANGED << epoch, waitset, nep, asleep, wr, rd, upres, tgtv, 
                             okv, stack, nctx, kind, wctx, i, op, prev, cur >>

UP4(self) == /\ pc[self] = "UP4"
             /\ cur' = [cur EXCEPT ![self] = m]
             /\ IF Rc(cur'[self]) # 1
                   THEN /\ pc' = [pc EXCEPT ![self] = "UP5"]
                   ELSE /\ pc' = [pc EXCEPT ![self] = "UP7"]
             /\ UNCHANGED << m, epoch, waitset, nep, asleep, wr, rd, upres, 
                             tgtv, okv, stack, nctx, kind, wctx, i, op, s, 
                             prev >>

UP5(self) == /\ pc[self] = "UP5"
             /\ /\ kind' = [kind EXCEPT ![self] = "onereader"]
                /\ stack' = [stack EXCEPT ![self] = << [ procedure |->  "waitaddr",
                                                         pc        |->  "UP6",
                                                         kind      |->  kind[self],
                                                         wctx      |->  wctx[self] ] >>
                                                     \o stack[self]]
                /\ wctx' = [wctx EXCEPT ![self] = WCTX]
             /\ pc' = [pc EXCEPT ![self] = "W0"]
             /\ UNCHANGED << m, epoch, waitset, nep, asleep, wr, rd, upres, 
                             tgtv, okv, nctx, i, op, s, prev, cur >>

UP6(self) == /\ pc[self] = "UP6"
             /\ pc' = [pc EXCEPT ![self] = "UP4"]
             /\ UNCHANGED << m, epoch, waitset, nep, asleep, wr, rd, upres, 
                             tgtv, okv, stack, nctx, kind, wctx, i, op, s, 
                             prev, cur >>

UP7(self) == /\ pc[self] = "UP7"
             /\ m' = m - 6
             /\ rd' = rd \ {self}
             /\ wr' = (wr \cup {self})
             /\ upres' = [upres EXCEPT ![self] = "true"]
             /\ pc' = [pc EXCEPT ![self] = "Fin"]
             /\ UNCHANGED << epoch, waitset, nep, asleep, tgtv, okv, stack, 
                             nctx, kind, wctx, i, op, s, prev, cur >>

UP8(self) == /\ pc[self] = "UP8"
             /\ m' = m - 4
             /\ cur' = [cur EXCEPT ![self] = m']
             /\ rd' = rd \ {self}
             /\ upres' = [upres EXCEPT ![self] = "false"]
             /\ IF Pb(cur'[self]) = 1
                   THEN /\ /\ nctx' = [nctx EXCEPT ![self] = WCTX]
                           /\ stack' = [stack EXCEPT ![self] = << [ procedure |->  "notify",
                                                                    pc        |->  "UP9",
                                                                    nctx      |->  nctx[self] ] >>
                                                                \o stack[self]]
                        /\ pc' = [pc EXCEPT ![self] = "N1"]
                   ELSE /\ /\ nctx' = [nctx EXCEPT ![self] = 2]
                           /\ stack' = [stack EXCEPT ![self] = << [ procedure |->  "notify",
                                                                    pc        |->  "UP9",
                                                                    nctx      |->  nctx[self] ] >>
                                                                \o stack[self]]
                        /\ pc' = [pc EXCEPT ![self] = "N1"]
             /\ UNCHANGED << epoch, waitset, nep, asleep, wr, tgtv, okv, kind, 
                             wctx, i, op, s, prev >>

UP9(self) == /\ pc[self] = "UP9"
             /\ pc' = [pc EXCEPT ![self] = "L1"]
             /\ UNCHANGED << m, epoch, waitset, nep, asleep, wr, rd, upres, 
                             tgtv, okv, stack, nctx, kind, wctx, i, op, s, 
                             prev, cur >>

DG(self) == /\ pc[self] = "DG"
            /\ m' = m + 3
            /\ wr' = wr \ {self}
            /\ rd' = (rd \cup {self})
            /\ pc' = [pc EXCEPT ![self] = "DG2"]
            /\ UNCHANGED << epoch, waitset, nep, asleep, upres, tgtv, okv, 
                            stack, nctx, kind, wctx, i, op, s, prev, cur >>

DG2(self) == /\ pc[self] = "DG2"
             /\ cur' = [cur EXCEPT ![self] = m]
             /\ IF Pb(cur'[self]) = 0
                   THEN /\ /\ nctx' = [nctx EXCEPT ![self] = RCTX]
                           /\ stack' = [stack EXCEPT ![self] = << [ procedure |->  "notify",
                                                                    pc        |->  "DG3",
                                                                    nctx      |->  nctx[self] ] >>
                                                                \o stack[self]]
                        /\ pc' = [pc EXCEPT ![self] = "N1"]
                   ELSE /\ pc' = [pc EXCEPT ![self] = "DG3"]
                        /\ UNCHANGED << stack, nctx >>
             /\ UNCHANGED << m, epoch, waitset, nep, asleep, wr, rd, upres, 
                             tgtv, okv, kind, wctx, i, op, s, prev >>

DG3(self) == /\ pc[self] = "DG3"
             /\ pc' = [pc EXCEPT ![self] = "Fin"]
             /\ UNCHANGED << m, epoch, waitset, nep, asleep, wr, rd, upres, 
                             tgtv, okv, stack, nctx, kind, wctx, i, op, s, 
                             prev, cur >>

Fin(self) == /\ pc[self] = "Fin"
             /\ i' = [i EXCEPT ![self] = i[self] + 1]
             /\ pc' = [pc EXCEPT ![self] = "Loop"]
             /\ UNCHANGED << m, epoch, waitset, nep, asleep, wr, rd, upres, 
                             tgtv, okv, stack, nctx, kind, wctx, op, s, prev, 
                             cur >>

t(self) == Loop(self) \/ L1(self) \/ L2(self) \/ L3(self) \/ L4(self)
              \/ L5(self) \/ L6(self) \/ UL(self) \/ UL2(self) \/ S1(self)
              \/ S2(self) \/ S3(self) \/ S4(self) \/ S5(self) \/ S6(self)
              \/ US(self) \/ US2(self) \/ UP1(self) \/ UP2(self)
              \/ UP3(self) \/ UP4(self) \/ UP5(self) \/ UP6(self)
              \/ UP7(self) \/ UP8(self) \/ UP9(self) \/ DG(self)
              \/ DG2(self) \/ DG3(self) \/ Fin(self)

(* Allow infinite stuttering to prevent deadlock on termination. *)
Terminating == /\ \A self \in ProcSet: pc[self] = "Done"
               /\ UNCHANGED vars

Next == (\E self \in ProcSet: notify(self) \/ waitaddr(self))
           \/ (\E self \in Threads: t(self))
           \/ Terminating

Spec == Init /\ [][Next]_vars

Termination == <>(\A self \in ProcSet: pc[self] = "Done")

\* END TRANSLATION
Mutex == /\ Cardinality(wr) <= 1 /\ (wr # {} => rd = {})
====
