---- MODULE MCRWMutex ----
EXTENDS RWMutex
P2 == [tt \in {1,2} |-> IF tt = 1 THEN <<"lock","downgrade","unlock_shared">> ELSE <<"lock_shared","upgrade","unlock">>]
PA == [tt \in {1,2,3} |-> IF tt = 1 THEN <<"lock","unlock">> ELSE IF tt = 2 THEN <<"lock","unlock">> ELSE <<"lock_shared","unlock_shared">>]
PB == [tt \in {1,2,3} |-> IF tt = 1 THEN <<"lock_shared","upgrade","unlock">> ELSE IF tt = 2 THEN <<"lock_shared","unlock_shared">> ELSE <<"lock","unlock">>]
PC == [tt \in {1,2,3} |-> IF tt = 1 THEN <<"lock","downgrade","unlock_shared">> ELSE IF tt = 2 THEN <<"lock","unlock">> ELSE <<"lock_shared","unlock_shared">>]
====
