------------------------------- MODULE SpinRW -------------------------------
(***************************************************************************)
(* Protocol specification of tbb::spin_rw_mutex (include/oneapi/tbb/        *)
(* spin_rw_mutex.h): one PlusCal label per access to the state word         *)
(*   m = WRITER(1) | WRITER_PENDING(2) | readers*4 .                        *)
(* Labels without an access to m (Loop, UP_chk, Fin) are local steps.       *)
(* Each thread runs the operation sequence Prog[self]; "rel" releases       *)
(* whatever the thread holds (nothing after a failed try).                  *)
(* held/res are ghost variables (not in the code) used by the invariants.   *)
(***************************************************************************)
EXTENDS Naturals, Sequences, FiniteSets, TLC
CONSTANTS Threads, Prog
W(x) == x % 2
P(x) == (x \div 2) % 2
R(x) == x \div 4
(* --algorithm spinrw {
  variables m = 0, held = [t \in Threads |-> "N"], res = [t \in Threads |-> "na"];
  process (thr \in Threads)
    variables i = 1, s = 0, prev = 0, op = "";
  {
  Loop: while (i <= Len(Prog[self])) {
      op := Prog[self][i];
      if (op = "lock") { goto WL_load }
      else if (op = "try_lock") { goto TW_load }
      else if (op = "lock_shared") { goto RL_load }
      else if (op = "try_lock_shared") { goto TR_load }
      else if (op = "upgrade") { if (held[self] = "R") { goto UP_load } else { goto Fin } }
      else if (op = "downgrade") { if (held[self] = "W") { goto DN } else { goto Fin } }
      else { if (held[self] = "W") { goto UL } else if (held[self] = "R") { goto RU } else { goto Fin } };
    \* ---- lock()
    WL_load: s := m;
      if (W(s) = 0 /\ R(s) = 0) { goto WL_cas }
      else if (P(s) = 0) { goto WL_or }
      else { goto WL_load };
    WL_cas: if (m = s) { m := 1; held[self] := "W"; goto Fin }
      else { goto WL_load };
    WL_or: m := IF P(m) = 1 THEN m ELSE m + 2; goto WL_load;
    \* ---- try_lock()
    TW_load: s := m;
      if (W(s) = 0 /\ R(s) = 0) { goto TW_cas } else { res[self] := "fail"; goto Fin };
    TW_cas: if (m = s) { m := 1; held[self] := "W"; res[self] := "ok"; goto Fin }
      else { res[self] := "fail"; goto Fin };
    \* ---- unlock(): m &= READERS
    UL: m := m - W(m) - 2*P(m); held[self] := "N"; goto Fin;
    \* ---- lock_shared()
    RL_load: s := m;
      if (W(s) = 0 /\ P(s) = 0) { goto RL_add } else { goto RL_load };
    RL_add: prev := m; m := m + 4;
      if (W(prev) = 0) { held[self] := "R"; goto Fin } else { goto RL_undo };
    RL_undo: m := m - 4; goto RL_load;
    \* ---- try_lock_shared()
    TR_load: s := m;
      if (W(s) = 0 /\ P(s) = 0) { goto TR_add } else { res[self] := "fail"; goto Fin };
    TR_add: prev := m; m := m + 4;
      if (W(prev) = 0) { held[self] := "R"; res[self] := "ok"; goto Fin } else { goto TR_undo };
    TR_undo: m := m - 4; res[self] := "fail"; goto Fin;
    \* ---- unlock_shared()
    RU: m := m - 4; held[self] := "N"; goto Fin;
    \* ---- upgrade()
    UP_load: s := m;
    UP_chk: if (R(s) = 1 \/ P(s) = 0) { goto UP_cas } else { goto UP_slow };
    UP_cas: if (m = s) { m := s + (1 - W(s)) + 2*(1 - P(s)); goto UP_wait }
      else { s := m; goto UP_chk };
    UP_wait: if (R(m) # 1) { goto UP_wait } else { goto UP_sub };
    UP_sub: m := m - 6; held[self] := "W"; res[self] := "true"; goto Fin;
    UP_slow: m := m - 4; held[self] := "N"; res[self] := "false"; goto WL_load;
    \* ---- downgrade(): m += ONE_READER - WRITER
    DN: m := m + 3; held[self] := "R"; goto Fin;
    Fin: i := i + 1;
    }
  }
} *)
\* BEGIN TRANSLATION
VARIABLES pc, m, held, res, i, s, prev, op

vars == << pc, m, held, res, i, s, prev, op >>

ProcSet == (Threads)

Init == (* Global variables *)
        /\ m = 0
        /\ held = [t \in Threads |-> "N"]
        /\ res = [t \in Threads |-> "na"]
        (* Process thr *)
        /\ i = [self \in Threads |-> 1]
        /\ s = [self \in Threads |-> 0]
        /\ prev = [self \in Threads |-> 0]
        /\ op = [self \in Threads |-> ""]
        /\ pc = [self \in ProcSet |-> "Loop"]

Loop(self) == /\ pc[self] = "Loop"
              /\ IF i[self] <= Len(Prog[self])
                    THEN /\ op' = [op EXCEPT ![self] = Prog[self][i[self]]]
                         /\ IF op'[self] = "lock"
                               THEN /\ pc' = [pc EXCEPT ![self] = "WL_load"]
                               ELSE /\ IF op'[self] = "try_lock"
                                          THEN /\ pc' = [pc EXCEPT ![self] = "TW_load"]
                                          ELSE /\ IF op'[self] = "lock_shared"
                                                     THEN /\ pc' = [pc EXCEPT ![self] = "RL_load"]
                                                     ELSE /\ IF op'[self] = "try_lock_shared"
                                                                THEN /\ pc' = [pc EXCEPT ![self] = "TR_load"]
                                                                ELSE /\ IF op'[self] = "upgrade"
                                                                           THEN /\ IF held[self] = "R"
                                                                                      THEN /\ pc' = [pc EXCEPT ![self] = "UP_load"]
                                                                                      ELSE /\ pc' = [pc EXCEPT ![self] = "Fin"]
                                                                           ELSE /\ IF op'[self] = "downgrade"
                                                                                      THEN /\ IF held[self] = "W"
                                                                                                 THEN /\ pc' = [pc EXCEPT ![self] = "DN"]
                                                                                                 ELSE /\ pc' = [pc EXCEPT ![self] = "Fin"]
                                                                                      ELSE /\ IF held[self] = "W"
                                                                                                 THEN /\ pc' = [pc EXCEPT ![self] = "UL"]
                                                                                                 ELSE /\ IF held[self] = "R"
                                                                                                            THEN /\ pc' = [pc EXCEPT ![self] = "RU"]
                                                                                                            ELSE /\ pc' = [pc EXCEPT ![self] = "Fin"]
                    ELSE /\ pc' = [pc EXCEPT ![self] = "Done"]
                         /\ op' = op
              /\ UNCHANGED << m, held, res, i, s, prev >>

WL_load(self) == /\ pc[self] = "WL_load"
                 /\ s' = [s EXCEPT ![self] = m]
                 /\ IF W(s'[self]) = 0 /\ R(s'[self]) = 0
                       THEN /\ pc' = [pc EXCEPT ![self] = "WL_cas"]
                       ELSE /\ IF P(s'[self]) = 0
                                  THEN /\ pc' = [pc EXCEPT ![self] = "WL_or"]
                                  ELSE /\ pc' = [pc EXCEPT ![self] = "WL_load"]
                 /\ UNCHANGED << m, held, res, i, prev, op >>

WL_cas(self) == /\ pc[self] = "WL_cas"
                /\ IF m = s[self]
                      THEN /\ m' = 1
                           /\ held' = [held EXCEPT ![self] = "W"]
                           /\ pc' = [pc EXCEPT ![self] = "Fin"]
                      ELSE /\ pc' = [pc EXCEPT ![self] = "WL_load"]
                           /\ UNCHANGED << m, held >>
                /\ UNCHANGED << res, i, s, prev, op >>

WL_or(self) == /\ pc[self] = "WL_or"
               /\ m' = (IF P(m) = 1 THEN m ELSE m + 2)
               /\ pc' = [pc EXCEPT ![self] = "WL_load"]
               /\ UNCHANGED << held, res, i, s, prev, op >>

TW_load(self) == /\ pc[self] = "TW_load"
                 /\ s' = [s EXCEPT ![self] = m]
                 /\ IF W(s'[self]) = 0 /\ R(s'[self]) = 0
                       THEN /\ pc' = [pc EXCEPT ![self] = "TW_cas"]
                            /\ res' = res
                       ELSE /\ res' = [res EXCEPT ![self] = "fail"]
                            /\ pc' = [pc EXCEPT ![self] = "Fin"]
                 /\ UNCHANGED << m, held, i, prev, op >>

TW_cas(self) == /\ pc[self] = "TW_cas"
                /\ IF m = s[self]
                      THEN /\ m' = 1
                           /\ held' = [held EXCEPT ![self] = "W"]
                           /\ res' = [res EXCEPT ![self] = "ok"]
                           /\ pc' = [pc EXCEPT ![self] = "Fin"]
                      ELSE /\ res' = [res EXCEPT ![self] = "fail"]
                           /\ pc' = [pc EXCEPT ![self] = "Fin"]
                           /\ UNCHANGED << m, held >>
                /\ UNCHANGED << i, s, prev, op >>

UL(self) == /\ pc[self] = "UL"
            /\ m' = m - W(m) - 2*P(m)
            /\ held' = [held EXCEPT ![self] = "N"]
            /\ pc' = [pc EXCEPT ![self] = "Fin"]
            /\ UNCHANGED << res, i, s, prev, op >>

RL_load(self) == /\ pc[self] = "RL_load"
                 /\ s' = [s EXCEPT ![self] = m]
                 /\ IF W(s'[self]) = 0 /\ P(s'[self]) = 0
                       THEN /\ pc' = [pc EXCEPT ![self] = "RL_add"]
                       ELSE /\ pc' = [pc EXCEPT ![self] = "RL_load"]
                 /\ UNCHANGED << m, held, res, i, prev, op >>

RL_add(self) == /\ pc[self] = "RL_add"
                /\ prev' = [prev EXCEPT ![self] = m]
                /\ m' = m + 4
                /\ IF W(prev'[self]) = 0
                      THEN /\ held' = [held EXCEPT ![self] = "R"]
                           /\ pc' = [pc EXCEPT ![self] = "Fin"]
                      ELSE /\ pc' = [pc EXCEPT ![self] = "RL_undo"]
                           /\ held' = held
                /\ UNCHANGED << res, i, s, op >>

RL_undo(self) == /\ pc[self] = "RL_undo"
                 /\ m' = m - 4
                 /\ pc' = [pc EXCEPT ![self] = "RL_load"]
                 /\ UNCHANGED << held, res, i, s, prev, op >>

TR_load(self) == /\ pc[self] = "TR_load"
                 /\ s' = [s EXCEPT ![self] = m]
                 /\ IF W(s'[self]) = 0 /\ P(s'[self]) = 0
                       THEN /\ pc' = [pc EXCEPT ![self] = "TR_add"]
                            /\ res' = res
                       ELSE /\ res' = [res EXCEPT ![self] = "fail"]
                            /\ pc' = [pc EXCEPT ![self] = "Fin"]
                 /\ UNCHANGED << m, held, i, prev, op >>

TR_add(self) == /\ pc[self] = "TR_add"
                /\ prev' = [prev EXCEPT ![self] = m]
                /\ m' = m + 4
                /\ IF W(prev'[self]) = 0
                      THEN /\ held' = [held EXCEPT ![self] = "R"]
                           /\ res' = [res EXCEPT ![self] = "ok"]
                           /\ pc' = [pc EXCEPT ![self] = "Fin"]
                      ELSE /\ pc' = [pc EXCEPT ![self] = "TR_undo"]
                           /\ UNCHANGED << held, res >>
                /\ UNCHANGED << i, s, op >>

TR_undo(self) == /\ pc[self] = "TR_undo"
                 /\ m' = m - 4
                 /\ res' = [res EXCEPT ![self] = "fail"]
                 /\ pc' = [pc EXCEPT ![self] = "Fin"]
                 /\ UNCHANGED << held, i, s, prev, op >>

RU(self) == /\ pc[self] = "RU"
            /\ m' = m - 4
            /\ held' = [held EXCEPT ![self] = "N"]
            /\ pc' = [pc EXCEPT ![self] = "Fin"]
            /\ UNCHANGED << res, i, s, prev, op >>

UP_load(self) == /\ pc[self] = "UP_load"
                 /\ s' = [s EXCEPT ![self] = m]
                 /\ pc' = [pc EXCEPT ![self] = "UP_chk"]
                 /\ UNCHANGED << m, held, res, i, prev, op >>

UP_chk(self) == /\ pc[self] = "UP_chk"
                /\ IF R(s[self]) = 1 \/ P(s[self]) = 0
                      THEN /\ pc' = [pc EXCEPT ![self] = "UP_cas"]
                      ELSE /\ pc' = [pc EXCEPT ![self] = "UP_slow"]
                /\ UNCHANGED << m, held, res, i, s, prev, op >>

UP_cas(self) == /\ pc[self] = "UP_cas"
                /\ IF m = s[self]
                      THEN /\ m' = s[self] + (1 - W(s[self])) + 2*(1 - P(s[self]))
                           /\ pc' = [pc EXCEPT ![self] = "UP_wait"]
                           /\ s' = s
                      ELSE /\ s' = [s EXCEPT ![self] = m]
                           /\ pc' = [pc EXCEPT ![self] = "UP_chk"]
                           /\ m' = m
                /\ UNCHANGED << held, res, i, prev, op >>

UP_wait(self) == /\ pc[self] = "UP_wait"
                 /\ IF R(m) # 1
                       THEN /\ pc' = [pc EXCEPT ![self] = "UP_wait"]
                       ELSE /\ pc' = [pc EXCEPT ![self] = "UP_sub"]
                 /\ UNCHANGED << m, held, res, i, s, prev, op >>

UP_sub(self) == /\ pc[self] = "UP_sub"
                /\ m' = m - 6
                /\ held' = [held EXCEPT ![self] = "W"]
                /\ res' = [res EXCEPT ![self] = "true"]
                /\ pc' = [pc EXCEPT ![self] = "Fin"]
                /\ UNCHANGED << i, s, prev, op >>

UP_slow(self) == /\ pc[self] = "UP_slow"
                 /\ m' = m - 4
                 /\ held' = [held EXCEPT ![self] = "N"]
                 /\ res' = [res EXCEPT ![self] = "false"]
                 /\ pc' = [pc EXCEPT ![self] = "WL_load"]
                 /\ UNCHANGED << i, s, prev, op >>

DN(self) == /\ pc[self] = "DN"
            /\ m' = m + 3
            /\ held' = [held EXCEPT ![self] = "R"]
            /\ pc' = [pc EXCEPT ![self] = "Fin"]
            /\ UNCHANGED << res, i, s, prev, op >>

Fin(self) == /\ pc[self] = "Fin"
             /\ i' = [i EXCEPT ![self] = i[self] + 1]
             /\ pc' = [pc EXCEPT ![self] = "Loop"]
             /\ UNCHANGED << m, held, res, s, prev, op >>

thr(self) == Loop(self) \/ WL_load(self) \/ WL_cas(self) \/ WL_or(self)
                \/ TW_load(self) \/ TW_cas(self) \/ UL(self)
                \/ RL_load(self) \/ RL_add(self) \/ RL_undo(self)
                \/ TR_load(self) \/ TR_add(self) \/ TR_undo(self)
                \/ RU(self) \/ UP_load(self) \/ UP_chk(self)
                \/ UP_cas(self) \/ UP_wait(self) \/ UP_sub(self)
                \/ UP_slow(self) \/ DN(self) \/ Fin(self)

(* Allow infinite stuttering to prevent deadlock on termination. *)
Terminating == /\ \A self \in ProcSet: pc[self] = "Done"
               /\ UNCHANGED vars

Next == (\E self \in Threads: thr(self))
           \/ Terminating

Spec == Init /\ [][Next]_vars

Termination == <>(\A self \in ProcSet: pc[self] = "Done")

\* END TRANSLATION

Holders(mode) == {t \in Threads : held[t] = mode}
\* C08: at most one writer, no reader together with a writer
Mutex == /\ Cardinality(Holders("W")) <= 1
         /\ (Holders("W") # {} => Holders("R") = {})
\* the state word is consistent with the holders
WordOK == /\ R(m) >= Cardinality(Holders("R"))
          /\ (Holders("W") # {} => W(m) = 1)
\* upgrade answered true => the thread never left the reader set (structural: UP_sub moves R -> W atomically)
AllDone == \A t \in Threads : pc[t] = "Done"
Quiescent == AllDone => m \in {0, 2}
Termination2 == <>AllDone
=============================================================================
