---- MODULE MCQueuingMutex ----
EXTENDS QueuingMutex
Prog3 == (1 :> <<"lock","rel","try_lock","rel">>) @@ (2 :> <<"lock","rel">>) @@ (3 :> <<"lock","rel">>)
Prog3b == (1 :> <<"lock","rel","lock","rel">>) @@ (2 :> <<"lock","rel","lock","rel">>) @@ (3 :> <<"try_lock","rel","lock","rel">>)
====
