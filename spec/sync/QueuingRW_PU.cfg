SPECIFICATION Spec
CONSTANT N = 3
CONSTANT Prog <- PU
INVARIANT Mutex
INVARIANT Fifo
INVARIANT UpgradeTruth
