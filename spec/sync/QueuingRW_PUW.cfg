SPECIFICATION Spec
CONSTANT N = 3
CONSTANT Prog <- PUW
INVARIANT Mutex
INVARIANT Fifo
INVARIANT UpgradeTruth
