SPECIFICATION Spec
CONSTANT Threads = {1,2,3}
CONSTANT Prog <- ProgTryB
INVARIANT Mutex
INVARIANT WordOK
INVARIANT Quiescent
CHECK_DEADLOCK FALSE
