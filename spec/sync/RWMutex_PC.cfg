SPECIFICATION Spec
CONSTANT Threads = {1,2,3}
CONSTANT Prog <- PC
CONSTANT defaultInitValue = 0
INVARIANT Mutex
