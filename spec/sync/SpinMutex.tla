------------------------------ MODULE SpinMutex ------------------------------
(* tbb::spin_mutex (include/oneapi/tbb/spin_mutex.h): one label per access to m_flag. *)
EXTENDS Naturals, Sequences, FiniteSets, TLC
CONSTANTS Threads, Prog
(* --algorithm spinmutex {
  variables flag = 0, held = [t \in Threads |-> "N"], res = [t \in Threads |-> "na"];
  process (thr \in Threads)
    variables i = 1, op = "", old = 0;
  {
  Loop: while (i <= Len(Prog[self])) {
      op := Prog[self][i];
      if (op = "lock") { goto L_xchg }
      else if (op = "try_lock") { goto T_xchg }
      else { if (held[self] = "W") { goto U_store } else { goto Fin } };
    L_xchg: old := flag; flag := 1;                       \* while (m_flag.exchange(true)) backoff.pause();
      if (old = 0) { held[self] := "W"; goto Fin } else { goto L_xchg };
    T_xchg: old := flag; flag := 1;                       \* !m_flag.exchange(true)
      if (old = 0) { held[self] := "W"; res[self] := "ok" } else { res[self] := "fail" };
      goto Fin;
    U_store: flag := 0; held[self] := "N";                \* m_flag.store(false, release)
    Fin: i := i + 1;
    }
  }
} *)
\* BEGIN TRANSLATION
VARIABLES pc, flag, held, res, i, op, old

vars == << pc, flag, held, res, i, op, old >>

ProcSet == (Threads)

Init == (* Global variables *)
        /\ flag = 0
        /\ held = [t \in Threads |-> "N"]
        /\ res = [t \in Threads |-> "na"]
        (* Process thr *)
        /\ i = [self \in Threads |-> 1]
        /\ op = [self \in Threads |-> ""]
        /\ old = [self \in Threads |-> 0]
        /\ pc = [self \in ProcSet |-> "Loop"]

Loop(self) == /\ pc[self] = "Loop"
              /\ IF i[self] <= Len(Prog[self])
                    THEN /\ op' = [op EXCEPT ![self] = Prog[self][i[self]]]
                         /\ IF op'[self] = "lock"
                               THEN /\ pc' = [pc EXCEPT ![self] = "L_xchg"]
                               ELSE /\ IF op'[self] = "try_lock"
                                          THEN /\ pc' = [pc EXCEPT ![self] = "T_xchg"]
                                          ELSE /\ IF held[self] = "W"
                                                     THEN /\ pc' = [pc EXCEPT ![self] = "U_store"]
                                                     ELSE /\ pc' = [pc EXCEPT ![self] = "Fin"]
                    ELSE /\ pc' = [pc EXCEPT ![self] = "Done"]
                         /\ op' = op
              /\ UNCHANGED << flag, held, res, i, old >>

L_xchg(self) == /\ pc[self] = "L_xchg"
                /\ old' = [old EXCEPT ![self] = flag]
                /\ flag' = 1
                /\ IF old'[self] = 0
                      THEN /\ held' = [held EXCEPT ![self] = "W"]
                           /\ pc' = [pc EXCEPT ![self] = "Fin"]
                      ELSE /\ pc' = [pc EXCEPT ![self] = "L_xchg"]
                           /\ held' = held
                /\ UNCHANGED << res, i, op >>

T_xchg(self) == /\ pc[self] = "T_xchg"
                /\ old' = [old EXCEPT ![self] = flag]
                /\ flag' = 1
                /\ IF old'[self] = 0
                      THEN /\ held' = [held EXCEPT ![self] = "W"]
                           /\ res' = [res EXCEPT ![self] = "ok"]
                      ELSE /\ res' = [res EXCEPT ![self] = "fail"]
                           /\ held' = held
                /\ pc' = [pc EXCEPT ![self] = "Fin"]
                /\ UNCHANGED << i, op >>

U_store(self) == /\ pc[self] = "U_store"
                 /\ flag' = 0
                 /\ held' = [held EXCEPT ![self] = "N"]
                 /\ pc' = [pc EXCEPT ![self] = "Fin"]
                 /\ UNCHANGED << res, i, op, old >>

Fin(self) == /\ pc[self] = "Fin"
             /\ i' = [i EXCEPT ![self] = i[self] + 1]
             /\ pc' = [pc EXCEPT ![self] = "Loop"]
             /\ UNCHANGED << flag, held, res, op, old >>

thr(self) == Loop(self) \/ L_xchg(self) \/ T_xchg(self) \/ U_store(self)
                \/ Fin(self)

(* Allow infinite stuttering to prevent deadlock on termination. *)
Terminating == /\ \A self \in ProcSet: pc[self] = "Done"
               /\ UNCHANGED vars

Next == (\E self \in Threads: thr(self))
           \/ Terminating

Spec == Init /\ [][Next]_vars

Termination == <>(\A self \in ProcSet: pc[self] = "Done")

\* END TRANSLATION
Holders == {t \in Threads : held[t] = "W"}
Mutex == Cardinality(Holders) <= 1
WordOK == (Holders # {}) => flag = 1
AllDone == \A t \in Threads : pc[t] = "Done"
Quiescent == AllDone => flag = 0
=============================================================================
