---- MODULE QueuingRW ----
\* queuing_rw_mutex (src/tbb/queuing_rw_mutex.cpp). One label = one atomic access (+ local branching).
\* Node i belongs to thread i. Pointers are node ids (0 = null) with a separate flag bit.
EXTENDS Integers, Sequences, FiniteSets, TLC
CONSTANTS N, Prog
Nodes == 1..N
NONE == 0  W == 1  R == 2  RU == 4  AR == 8  UREQ == 16  UWAIT == 32  ULOSER == 64
(* --algorithm qrw {
  variables tailp = 0, tailf = 0,
            prevp = [nn \in Nodes |-> 0], prevf = [nn \in Nodes |-> 0],
            nextp = [nn \in Nodes |-> 0], nextf = [nn \in Nodes |-> 0],
            st = [nn \in Nodes |-> NONE], going = [nn \in Nodes |-> 0], il = [nn \in Nodes |-> 0],
            \* ghost
            wr = {}, rd = {}, res = [nn \in Nodes |-> "na"],
            entry = <<>>, granted = {}, wepoch = 0, ustart = [nn \in Nodes |-> 0], fifoBad = FALSE, upBad = FALSE;
  process (t \in Nodes)
    variables i = 1, op = "", pred = 0, predf = 0, ps = 0, old = 0, nx = 0, tmpf = 0, tp = 0, succ = FALSE, nst = 0;
  {
  Loop: while (i <= Len(Prog[self])) {
      op := Prog[self][i];
      \* field initialisation of the (private, unpublished) node
      if (op # "rel" /\ op # "up" /\ op # "down") {
        prevp[self] := 0; prevf[self] := 0; nextp[self] := 0; nextf[self] := 0; going[self] := 0; il[self] := 0;
      };
      if (op = "lockW") { st[self] := W; goto A1 }
      else if (op = "lockR") { st[self] := R; goto A1 }
      else if (op = "tryW") { goto T0 }
      else if (op = "tryR") { goto T0 }
      else if (op = "up") { if (self \in rd) { goto U0 } else { goto Fin2 } }      \* ops on a lock that is not held (failed try) are skipped
      else if (op = "down") { if (self \in wr) { goto Dg0 } else { goto Fin2 } }
      else { if (self \in wr \cup rd) { goto R0 } else { goto Fin2 } };
    \* ------------------------------------------------------------ acquire
    A1: pred := tailp; predf := tailf; tailp := self; tailf := 0; entry := Append(entry, <<self, op>>);   \* q_tail.exchange(&s)
        if (op = "lockW") { if (pred # 0) { goto A2w } else { wr := wr \cup {self}; wepoch := wepoch + 1; fifoBad := fifoBad \/ (\E k \in 1..Len(entry) : \E m \in 1..Len(entry) : entry[m][1] = self /\ k < m /\ TRUE /\ entry[k][1] \notin granted); granted := granted \cup {self}; goto Fin } }
        else { if (pred # 0) { if (predf = 1) { ps := UWAIT; goto A5r } else { goto A2r } } else { goto A8r } };
    A2w: nextp[pred] := self; nextf[pred] := 0;                              \* predecessor->my_next.store(&s)
    A3w: if (going[self] = 1) { wr := wr \cup {self}; wepoch := wepoch + 1; fifoBad := fifoBad \/ (\E k \in 1..Len(entry) : \E m \in 1..Len(entry) : entry[m][1] = self /\ k < m /\ TRUE /\ entry[k][1] \notin granted); granted := granted \cup {self}; goto Fin } else { goto A3w };   \* spin_wait_until_eq(my_going,1)
    A2r: ps := st[pred];                                                     \* predecessor->my_state.load
        if (ps = R) { goto A3r } else if (ps = AR) { goto A4r } else { goto A5r };
    A3r: if (st[pred] = R) { st[pred] := RU; goto A5r }                      \* CAS(R -> READER_UNBLOCKNEXT)
         else { ps := st[pred]; if (ps = AR) { goto A4r } else { goto A5r } };
    A4r: skip;                                                               \* (void) my_state.load(acquire)
    A5r: prevp[self] := pred; prevf[self] := 0;                              \* s.my_prev.store(predecessor)
    A6r: nextp[pred] := self; nextf[pred] := 0;                              \* predecessor->my_next.store(&s)
         if (ps # AR) { goto A7r } else { goto A8r };
    A7r: if (going[self] = 1) { goto A8r } else { goto A7r };
    A8r: old := st[self];                                                    \* CAS(my_state, R -> ACTIVEREADER)
         if (old = R) { st[self] := AR; rd := rd \cup {self}; fifoBad := fifoBad \/ (\E k \in 1..Len(entry) : \E m \in 1..Len(entry) : entry[m][1] = self /\ k < m /\ entry[k][2] = "lockW" /\ entry[k][1] \notin granted); granted := granted \cup {self}; goto Fin } else { goto A9r };
    A9r: if (nextp[self] = 0 /\ nextf[self] = 0) { goto A9r } else { goto A10r };  \* spin_wait_while_eq(my_next,0)
    A10r: st[self] := AR; rd := rd \cup {self}; fifoBad := fifoBad \/ (\E k \in 1..Len(entry) : \E m \in 1..Len(entry) : entry[m][1] = self /\ k < m /\ entry[k][2] = "lockW" /\ entry[k][1] \notin granted); granted := granted \cup {self}; 
    A11r: nx := nextp[self];                                                 \* load my_next (relaxed)
    A12r: going[nx] := 1; goto Fin;
    \* ------------------------------------------------------------ try_acquire
    T0: if (tailp # 0 \/ tailf # 0) { res[self] := "fail"; goto Fin2 }       \* q_tail.load
        else { goto T1 };
    \* the node fields are initialised (5 relaxed stores) and then the CAS on q_tail is attempted; on failure the fields keep the values just stored
    T1: st[self] := IF op = "tryW" THEN W ELSE AR;
        if (tailp = 0 /\ tailf = 0) { tailp := self; tailf := 0; res[self] := "ok";
              if (op = "tryW") { wr := wr \cup {self} } else { rd := rd \cup {self} }; goto Fin }
        else { res[self] := "fail"; goto Fin2 };
    \* ------------------------------------------------------------ release
    R0: old := st[self];                                                     \* my_state.load
        if (old = W) { wr := wr \ {self}; goto Rw1 } else { rd := rd \ {self}; tmpf := 0; goto Rr1 };
    Rw1: nx := nextp[self];                                                  \* my_next.load(acquire)
         if (nx = 0) { goto Rw2 } else { goto Rw5 };
    Rw2: if (tailp = self /\ tailf = 0) { tailp := 0; goto D1 } else { goto Rw3 };  \* CAS(q_tail, &s -> null)
    Rw3: if (nextp[self] = 0 /\ nextf[self] = 0) { goto Rw3 } else { goto Rw4 };
    Rw4: nx := nextp[self];
    Rw5: going[nx] := 2;
    Rw6: ps := st[nx];                                                       \* next->my_state.load(acquire)
         if (ps = UWAIT) { goto Rw7 } else { goto Rw12 };
    Rw7: if (il[self] = 0) { il[self] := 1; goto Rw8 } else { goto Rw7 };    \* acquire_internal_lock(s)
    Rw8: tp := prevp[nx]; tmpf := prevf[nx]; prevp[nx] := 0; prevf[nx] := 0; \* exchange(next->my_prev, null)
    Rw9: st[nx] := ULOSER;
    Rw10: going[nx] := 1;
          if (tmpf = 1) { goto Rw11w } else { goto Rw11r };
    Rw11w: if (il[self] = 0) { goto D1 } else { goto Rw11w };                \* wait_for_release_of_internal_lock
    Rw11r: il[self] := 0; goto D1;                                           \* release_internal_lock
    Rw12: prevp[nx] := 0; prevf[nx] := 0;
    Rw13: going[nx] := 1; goto D1;
    \* reader release
    Rr1: pred := prevp[self]; predf := prevf[self]; prevf[self] := 1;        \* fetch_add(my_prev, FLAG)
         if (pred # 0) { goto Rr2 } else { goto Rr15 };
    Rr2: if (il[pred] = 0) { il[pred] := 1; goto Rr5 } else { goto Rr3 };    \* try_acquire_internal_lock(pred)
    Rr3: if (prevp[self] = pred /\ prevf[self] = 1) { prevf[self] := 0; tmpf := 0; goto Rr1 }   \* CAS(my_prev, pred|FLAG -> pred): success: tmp has FLAG
         else { if (prevf[self] = 0) { goto Rr4 } else { tmpf := 0; goto Rr1 } };
    Rr4: il[pred] := 0; tmpf := 0; goto Rr1;                                 \* release_internal_lock(pred); retry
    Rr5: prevp[self] := pred; prevf[self] := 0;                              \* my_prev.store(predecessor)
    Rr6: if (il[self] = 0) { il[self] := 1; goto Rr7 } else { goto Rr6 };    \* acquire_internal_lock(s)
    Rr7: nextp[pred] := 0; nextf[pred] := 0;                                 \* predecessor->my_next.store(null)
    Rr8: nx := nextp[self];                                                  \* my_next.load(acquire)
         if (nx = 0) { goto Rr9 } else { goto Rr11 };
    Rr9: if (tailp = self /\ tailf = 0) { tailp := pred; tailf := 0; goto Rr11 } else { goto Rr10 };  \* CAS(q_tail,&s -> predecessor)
    Rr10: if (nextp[self] = 0 /\ nextf[self] = 0) { goto Rr10 } else { goto Rr11 };
    Rr11: nx := nextp[self];                                                 \* my_next.load(relaxed)
          if (nx # 0) { goto Rr12 } else { goto Rr14 };
    Rr12: tp := prevp[nx]; tmpf := prevf[nx]; prevp[nx] := pred; prevf[nx] := 0;   \* exchange(l_next->my_prev, predecessor)
    Rr13a: tp := nextp[self];                                                \* s.my_next.load(relaxed)
    Rr13: nextp[pred] := tp; nextf[pred] := 0;                               \* predecessor->my_next.store(s.my_next)
    Rr14: il[pred] := 0; goto Rr23;                                          \* release_internal_lock(pred)
    Rr15: if (il[self] = 0) { il[self] := 1; goto Rr16 } else { goto Rr15 };
    Rr16: nx := nextp[self];
          if (nx = 0) { goto Rr17 } else { goto Rr20 };
    Rr17: if (tailp = self /\ tailf = 0) { tailp := 0; goto Rr23 } else { goto Rr18 };
    Rr18: if (nextp[self] = 0 /\ nextf[self] = 0) { goto Rr18 } else { goto Rr19 };
    Rr19: nx := nextp[self];
    Rr20: going[nx] := 2;
    Rr21: tp := prevp[nx]; tmpf := prevf[nx]; prevp[nx] := 0; prevf[nx] := 0;
    Rr22: going[nx] := 1;
    Rr23: if (tmpf = 1) { goto Rr23w } else { goto Rr23r };
    Rr23w: if (il[self] = 0) { goto D1 } else { goto Rr23w };
    Rr23r: il[self] := 0;
    D1: if (going[self] = 2) { goto D1 } else { goto D2 };                   \* spin_wait_while_eq(my_going, 2)
    D2: il[self] := 0; going[self] := 0; goto Fin2;                          \* s.initialize(): 2 relaxed stores (my_state keeps its value)
    \* ------------------------------------------------------------ downgrade_to_reader
    Dg0: old := st[self];
         if (old = AR) { goto Fin } else { wr := wr \ {self}; rd := rd \cup {self}; goto Dg1 };
    Dg1: nx := nextp[self];                                                  \* my_next.load(acquire)
         if (nx = 0) { goto Dg2 } else { goto Dg7 };
    Dg2: st[self] := R;                                                      \* store seq_cst
    Dg3: if (tailp = self /\ tailf = 0) { goto Dg4 } else { goto Dg5 };      \* q_tail.load(seq_cst) == &s
    Dg4: if (st[self] = R) { st[self] := AR; goto Fin } else { goto Dg5 };   \* CAS(R -> ACTIVEREADER)
    Dg5: if (nextp[self] = 0 /\ nextf[self] = 0) { goto Dg5 } else { goto Dg6 };
    Dg6: nx := nextp[self];
    Dg7: nst := st[nx];                                                      \* next->my_state.load(relaxed)
         if (nst = R \/ nst = RU) { goto Dg8 } else { goto Dg9 };
    Dg8: going[nx] := 1; goto Dg11;
    Dg9: nst := st[nx];                                                      \* next->my_state.load(acquire)
         if (nst = UWAIT) { goto Dg10 } else { goto Dg11 };
    Dg10: st[nx] := ULOSER;
    Dg11: st[self] := AR; goto Fin;
    \* ------------------------------------------------------------ upgrade_to_writer
    U0: old := st[self];
        if (old = W) { res[self] := "true"; goto Fin } else { rd := rd \ {self}; ustart[self] := wepoch; goto U1 };
    U1: st[self] := UREQ;
    U2: if (il[self] = 0) { il[self] := 1; goto U3 } else { goto U2 };       \* acquire_internal_lock(s)
    U3: if (tailp = self /\ tailf = 0) { tailf := 1; goto U15 } else { goto U4 };   \* CAS(q_tail, &s -> &s|FLAG)
    U4: if (nextp[self] = 0 /\ nextf[self] = 0) { goto U4 } else { goto U5 };
    U5: nx := nextp[self]; nextf[self] := 1;                                 \* fetch_add(my_next, FLAG)
    U6: nst := st[nx];                                                       \* next->my_state.load(acquire)
        if (nst = R \/ nst = RU) { goto U7 } else { goto U8 };
    U7: going[nx] := 1;
    U8: tp := prevp[nx]; tmpf := prevf[nx]; prevp[nx] := self; prevf[nx] := 0;   \* exchange(next->my_prev, &s)
        if (tmpf = 1) { goto U9w } else { goto U9r };
    U9w: if (il[self] = 0) { goto U9x } else { goto U9w };
    U9r: il[self] := 0;
    U9x: if (nst = R \/ nst = RU \/ nst = AR \/ nst = UREQ) { goto U10 } else { goto U14 };
    U10: if (nextp[self] = nx /\ nextf[self] = 1) { goto U11 } else { goto U2 };     \* load(my_next)==next|FLAG ? else goto requested
    U11: old := st[self];                                                    \* my_state.load(acquire) & COMBINED_UPGRADING
         if (old = UWAIT \/ old = ULOSER) { goto U12 } else { goto U10 };
    U12: if (nextp[self] = nx /\ nextf[self] = 1) { goto U13 } else { goto U17 };
    U13: nextp[self] := nx; nextf[self] := 0; goto U17;
    U14: nextp[self] := nx; nextf[self] := 0; goto U16;
    U15: il[self] := 0;                                                      \* release_internal_lock(s)
    U16: if (st[self] = UREQ) { st[self] := UWAIT };                         \* CAS(UPGRADE_REQUESTED -> UPGRADE_WAITING)
    \* waiting:
    U17: if (tailp = self /\ tailf = 1) { tailf := 0 };                      \* CAS(q_tail, &s|FLAG -> &s)
    U18: pred := prevp[self]; predf := prevf[self]; prevf[self] := 1;        \* fetch_add(my_prev, FLAG)
         if (pred # 0) { goto U19 } else { goto U30 };
    U19: if (il[pred] = 0) { il[pred] := 1; succ := TRUE } else { succ := FALSE };   \* try_acquire_internal_lock(pred)
    U20: if (st[pred] = UREQ) { st[pred] := UWAIT };                         \* CAS(pred->my_state, UREQ -> UWAIT)
         if (succ) { goto U26 } else { goto U21 };
    U21: if (prevp[self] = pred /\ prevf[self] = 1) { prevf[self] := 0; goto U22 }   \* CAS(my_prev, pred|FLAG -> pred)
         else { if (prevf[self] = 1) { goto U22 } else { goto U24 } };
    U22: if (prevp[self] = pred /\ prevf[self] = 0) { goto U22 } else { goto U23 };  \* spin_wait_while_eq(my_prev, pred)
    U23: pred := prevp[self]; goto U29x;
    U24: if (prevp[self] = pred /\ prevf[self] = 1) { goto U24 } else { goto U25 };  \* spin_wait_while_eq(my_prev, pred|FLAG)
    U25: il[pred] := 0; goto U29x;
    U26: prevp[self] := pred; prevf[self] := 0;
    U27: il[pred] := 0;
    U28: if (prevp[self] = pred /\ prevf[self] = 0) { goto U28 } else { goto U29 };
    U29: pred := prevp[self];
    U29x: if (pred # 0) { goto U17 } else { goto U31 };
    U30: prevp[self] := 0; prevf[self] := 0;
    U31: if (il[self] = 0) { goto U32 } else { goto U31 };                   \* wait_for_release_of_internal_lock(s)
    U32: if (going[self] = 2) { goto U32 } else { goto U33 };
    U33: res[self] := IF st[self] # ULOSER THEN "true" ELSE "false";         \* my_state != UPGRADE_LOSER
    U34: st[self] := W; wr := wr \cup {self}; upBad := upBad \/ (res[self] = "true" /\ wepoch # ustart[self]); wepoch := wepoch + 1;
    U35: going[self] := 1; goto Fin;
    Fin: skip;
    Fin2: i := i + 1;
    }
  }
} *)
\* BEGIN TRANSLATION
VARIABLES pc, tailp, tailf, prevp, prevf, nextp, nextf, st, going, il, wr, rd, 
          res, entry, granted, wepoch, ustart, fifoBad, upBad, i, op, pred, 
          predf, ps, old, nx, tmpf, tp, succ, nst

vars == << pc, tailp, tailf, prevp, prevf, nextp, nextf, st, going, il, wr, 
           rd, res, entry, granted, wepoch, ustart, fifoBad, upBad, i, op, 
           pred, predf, ps, old, nx, tmpf, tp, succ, nst >>

ProcSet == (Nodes)

Init == (* Global variables *)
        /\ tailp = 0
        /\ tailf = 0
        /\ prevp = [nn \in Nodes |-> 0]
        /\ prevf = [nn \in Nodes |-> 0]
        /\ nextp = [nn \in Nodes |-> 0]
        /\ nextf = [nn \in Nodes |-> 0]
        /\ st = [nn \in Nodes |-> NONE]
        /\ going = [nn \in Nodes |-> 0]
        /\ il = [nn \in Nodes |-> 0]
        /\ wr = {}
        /\ rd = {}
        /\ res = [nn \in Nodes |-> "na"]
        /\ entry = <<>>
        /\ granted = {}
        /\ wepoch = 0
        /\ ustart = [nn \in Nodes |-> 0]
        /\ fifoBad = FALSE
        /\ upBad = FALSE
        (* Process t *)
        /\ i = [self \in Nodes |-> 1]
        /\ op = [self \in Nodes |-> ""]
        /\ pred = [self \in Nodes |-> 0]
        /\ predf = [self \in Nodes |-> 0]
        /\ ps = [self \in Nodes |-> 0]
        /\ old = [self \in Nodes |-> 0]
        /\ nx = [self \in Nodes |-> 0]
        /\ tmpf = [self \in Nodes |-> 0]
        /\ tp = [self \in Nodes |-> 0]
        /\ succ = [self \in Nodes |-> FALSE]
        /\ nst = [self \in Nodes |-> 0]
        /\ pc = [self \in ProcSet |-> "Loop"]

Loop(self) == /\ pc[self] = "Loop"
              /\ IF i[self] <= Len(Prog[self])
                    THEN /\ op' = [op EXCEPT ![self] = Prog[self][i[self]]]
                         /\ IF op'[self] # "rel" /\ op'[self] # "up" /\ op'[self] # "down"
                               THEN /\ prevp' = [prevp EXCEPT ![self] = 0]
                                    /\ prevf' = [prevf EXCEPT ![self] = 0]
                                    /\ nextp' = [nextp EXCEPT ![self] = 0]
                                    /\ nextf' = [nextf EXCEPT ![self] = 0]
                                    /\ going' = [going EXCEPT ![self] = 0]
                                    /\ il' = [il EXCEPT ![self] = 0]
                               ELSE /\ TRUE
                                    /\ UNCHANGED << prevp, prevf, nextp, nextf, 
                                                    going, il >>
                         /\ IF op'[self] = "lockW"
                               THEN /\ st' = [st EXCEPT ![self] = W]
                                    /\ pc' = [pc EXCEPT ![self] = "A1"]
                               ELSE /\ IF op'[self] = "lockR"
                                          THEN /\ st' = [st EXCEPT ![self] = R]
                                               /\ pc' = [pc EXCEPT ![self] = "A1"]
                                          ELSE /\ IF op'[self] = "tryW"
                                                     THEN /\ pc' = [pc EXCEPT ![self] = "T0"]
                                                     ELSE /\ IF op'[self] = "tryR"
                                                                THEN /\ pc' = [pc EXCEPT ![self] = "T0"]
                                                                ELSE /\ IF op'[self] = "up"
                                                                           THEN /\ IF self \in rd
                                                                                      THEN /\ pc' = [pc EXCEPT ![self] = "U0"]
                                                                                      ELSE /\ pc' = [pc EXCEPT ![self] = "Fin2"]
                                                                           ELSE /\ IF op'[self] = "down"
                                                                                      THEN /\ IF self \in wr
                                                                                                 THEN /\ pc' = [pc EXCEPT ![self] = "Dg0"]
                                                                                                 ELSE /\ pc' = [pc EXCEPT ![self] = "Fin2"]
                                                                                      ELSE /\ IF self \in wr \cup rd
                                                                                                 THEN /\ pc' = [pc EXCEPT ![self] = "R0"]
                                                                                                 ELSE /\ pc' = [pc EXCEPT ![self] = "Fin2"]
                                               /\ st' = st
                    ELSE /\ pc' = [pc EXCEPT ![self] = "Done"]
                         /\ UNCHANGED << prevp, prevf, nextp, nextf, st, going, 
                                         il, op >>
              /\ UNCHANGED << tailp, tailf, wr, rd, res, entry, granted, 
                              wepoch, ustart, fifoBad, upBad, i, pred, predf, 
                              ps, old, nx, tmpf, tp, succ, nst >>

A1(self) == /\ pc[self] = "A1"
            /\ pred' = [pred EXCEPT ![self] = tailp]
            /\ predf' = [predf EXCEPT ![self] = tailf]
            /\ tailp' = self
            /\ tailf' = 0
            /\ entry' = Append(entry, <<self, op[self]>>)
            /\ IF op[self] = "lockW"
                  THEN /\ IF pred'[self] # 0
                             THEN /\ pc' = [pc EXCEPT ![self] = "A2w"]
                                  /\ UNCHANGED << wr, granted, wepoch, fifoBad >>
                             ELSE /\ wr' = (wr \cup {self})
                                  /\ wepoch' = wepoch + 1
                                  /\ fifoBad' = (fifoBad \/ (\E k \in 1..Len(entry') : \E m \in 1..Len(entry') : entry'[m][1] = self /\ k < m /\ TRUE /\ entry'[k][1] \notin granted))
                                  /\ granted' = (granted \cup {self})
                                  /\ pc' = [pc EXCEPT ![self] = "Fin"]
                       /\ ps' = ps
                  ELSE /\ IF pred'[self] # 0
                             THEN /\ IF predf'[self] = 1
                                        THEN /\ ps' = [ps EXCEPT ![self] = UWAIT]
                                             /\ pc' = [pc EXCEPT ![self] = "A5r"]
                                        ELSE /\ pc' = [pc EXCEPT ![self] = "A2r"]
                                             /\ ps' = ps
                             ELSE /\ pc' = [pc EXCEPT ![self] = "A8r"]
                                  /\ ps' = ps
                       /\ UNCHANGED << wr, granted, wepoch, fifoBad >>
            /\ UNCHANGED << prevp, prevf, nextp, nextf, st, going, il, rd, res, 
                            ustart, upBad, i, op, old, nx, tmpf, tp, succ, nst >>

A2w(self) == /\ pc[self] = "A2w"
             /\ nextp' = [nextp EXCEPT ![pred[self]] = self]
             /\ nextf' = [nextf EXCEPT ![pred[self]] = 0]
             /\ pc' = [pc EXCEPT ![self] = "A3w"]
             /\ UNCHANGED << tailp, tailf, prevp, prevf, st, going, il, wr, rd, 
                             res, entry, granted, wepoch, ustart, fifoBad, 
                             upBad, i, op, pred, predf, ps, old, nx, tmpf, tp, 
                             succ, nst >>

A3w(self) == /\ pc[self] = "A3w"
             /\ IF going[self] = 1
                   THEN /\ wr' = (wr \cup {self})
                        /\ wepoch' = wepoch + 1
                        /\ fifoBad' = (fifoBad \/ (\E k \in 1..Len(entry) : \E m \in 1..Len(entry) : entry[m][1] = self /\ k < m /\ TRUE /\ entry[k][1] \notin granted))
                        /\ granted' = (granted \cup {self})
                        /\ pc' = [pc EXCEPT ![self] = "Fin"]
                   ELSE /\ pc' = [pc EXCEPT ![self] = "A3w"]
                        /\ UNCHANGED << wr, granted, wepoch, fifoBad >>
             /\ UNCHANGED << tailp, tailf, prevp, prevf, nextp, nextf, st, 
                             going, il, rd, res, entry, ustart, upBad, i, op, 
                             pred, predf, ps, old, nx, tmpf, tp, succ, nst >>

A2r(self) == /\ pc[self] = "A2r"
             /\ ps' = [ps EXCEPT ![self] = st[pred[self]]]
             /\ IF ps'[self] = R
                   THEN /\ pc' = [pc EXCEPT ![self] = "A3r"]
                   ELSE /\ IF ps'[self] = AR
                              THEN /\ pc' = [pc EXCEPT ![self] = "A4r"]
                              ELSE /\ pc' = [pc EXCEPT ![self] = "A5r"]
             /\ UNCHANGED << tailp, tailf, prevp, prevf, nextp, nextf, st, 
                             going, il, wr, rd, res, entry, granted, wepoch, 
                             ustart, fifoBad, upBad, i, op, pred, predf, old, 
                             nx, tmpf, tp, succ, nst >>

A3r(self) == /\ pc[self] = "A3r"
             /\ IF st[pred[self]] = R
                   THEN /\ st' = [st EXCEPT ![pred[self]] = RU]
                        /\ pc' = [pc EXCEPT ![self] = "A5r"]
                        /\ ps' = ps
                   ELSE /\ ps' = [ps EXCEPT ![self] = st[pred[self]]]
                        /\ IF ps'[self] = AR
                              THEN /\ pc' = [pc EXCEPT ![self] = "A4r"]
                              ELSE /\ pc' = [pc EXCEPT ![self] = "A5r"]
                        /\ st' = st
             /\ UNCHANGED << tailp, tailf, prevp, prevf, nextp, nextf, going, 
                             il, wr, rd, res, entry, granted, wepoch, ustart, 
                             fifoBad, upBad, i, op, pred, predf, old, nx, tmpf, 
                             tp, succ, nst >>

A4r(self) == /\ pc[self] = "A4r"
             /\ TRUE
             /\ pc' = [pc EXCEPT ![self] = "A5r"]
             /\ UNCHANGED << tailp, tailf, prevp, prevf, nextp, nextf, st, 
                             going, il, wr, rd, res, entry, granted, wepoch, 
                             ustart, fifoBad, upBad, i, op, pred, predf, ps, 
                             old, nx, tmpf, tp, succ, nst >>

A5r(self) == /\ pc[self] = "A5r"
             /\ prevp' = [prevp EXCEPT ![self] = pred[self]]
             /\ prevf' = [prevf EXCEPT ![self] = 0]
             /\ pc' = [pc EXCEPT ![self] = "A6r"]
             /\ UNCHANGED << tailp, tailf, nextp, nextf, st, going, il, wr, rd, 
                             res, entry, granted, wepoch, ustart, fifoBad, 
                             upBad, i, op, pred, predf, ps, old, nx, tmpf, tp, 
                             succ, nst >>

A6r(self) == /\ pc[self] = "A6r"
             /\ nextp' = [nextp EXCEPT ![pred[self]] = self]
             /\ nextf' = [nextf EXCEPT ![pred[self]] = 0]
             /\ IF ps[self] # AR
                   THEN /\ pc' = [pc EXCEPT ![self] = "A7r"]
                   ELSE /\ pc' = [pc EXCEPT ![self] = "A8r"]
             /\ UNCHANGED << tailp, tailf, prevp, prevf, st, going, il, wr, rd, 
                             res, entry, granted, wepoch, ustart, fifoBad, 
                             upBad, i, op, pred, predf, ps, old, nx, tmpf, tp, 
                             succ, nst >>

A7r(self) == /\ pc[self] = "A7r"
             /\ IF going[self] = 1
                   THEN /\ pc' = [pc EXCEPT ![self] = "A8r"]
                   ELSE /\ pc' = [pc EXCEPT ![self] = "A7r"]
             /\ UNCHANGED << tailp, tailf, prevp, prevf, nextp, nextf, st, 
                             going, il, wr, rd, res, entry, granted, wepoch, 
                             ustart, fifoBad, upBad, i, op, pred, predf, ps, 
                             old, nx, tmpf, tp, succ, nst >>

A8r(self) == /\ pc[self] = "A8r"
             /\ old' = [old EXCEPT ![self] = st[self]]
             /\ IF old'[self] = R
                   THEN /\ st' = [st EXCEPT ![self] = AR]
                        /\ rd' = (rd \cup {self})
                        /\ fifoBad' = (fifoBad \/ (\E k \in 1..Len(entry) : \E m \in 1..Len(entry) : entry[m][1] = self /\ k < m /\ entry[k][2] = "lockW" /\ entry[k][1] \notin granted))
                        /\ granted' = (granted \cup {self})
                        /\ pc' = [pc EXCEPT ![self] = "Fin"]
                   ELSE /\ pc' = [pc EXCEPT ![self] = "A9r"]
                        /\ UNCHANGED << st, rd, granted, fifoBad >>
             /\ UNCHANGED << tailp, tailf, prevp, prevf, nextp, nextf, going, 
                             il, wr, res, entry, wepoch, ustart, upBad, i, op, 
                             pred, predf, ps, nx, tmpf, tp, succ, nst >>

A9r(self) == /\ pc[self] = "A9r"
             /\ IF nextp[self] = 0 /\ nextf[self] = 0
                   THEN /\ pc' = [pc EXCEPT ![self] = "A9r"]
                   ELSE /\ pc' = [pc EXCEPT ![self] = "A10r"]
             /\ UNCHANGED << tailp, tailf, prevp, prevf, nextp, nextf, st, 
                             going, il, wr, rd, res, entry, granted, wepoch, 
                             ustart, fifoBad, upBad, i, op, pred, predf, ps, 
                             old, nx, tmpf, tp, succ, nst >>

A10r(self) == /\ pc[self] = "A10r"
              /\ st' = [st EXCEPT ![self] = AR]
              /\ rd' = (rd \cup {self})
              /\ fifoBad' = (fifoBad \/ (\E k \in 1..Len(entry) : \E m \in 1..Len(entry) : entry[m][1] = self /\ k < m /\ entry[k][2] = "lockW" /\ entry[k][1] \notin granted))
              /\ granted' = (granted \cup {self})
              /\ pc' = [pc EXCEPT ![self] = "A11r"]
              /\ UNCHANGED << tailp, tailf, prevp, prevf, nextp, nextf, going, 
                              il, wr, res, entry, wepoch, ustart, upBad, i, op, 
                              pred, predf, ps, old, nx, tmpf, tp, succ, nst >>

A11r(self) == /\ pc[self] = "A11r"
              /\ nx' = [nx EXCEPT ![self] = nextp[self]]
              /\ pc' = [pc EXCEPT ![self] = "A12r"]
              /\ UNCHANGED << tailp, tailf, prevp, prevf, nextp, nextf, st, 
                              going, il, wr, rd, res, entry, granted, wepoch, 
                              ustart, fifoBad, upBad, i, op, pred, predf, ps, 
                              old, tmpf, tp, succ, nst >>

A12r(self) == /\ pc[self] = "A12r"
              /\ going' = [going EXCEPT ![nx[self]] = 1]
              /\ pc' = [pc EXCEPT ![self] = "Fin"]
              /\ UNCHANGED << tailp, tailf, prevp, prevf, nextp, nextf, st, il, 
                              wr, rd, res, entry, granted, wepoch, ustart, 
                              fifoBad, upBad, i, op, pred, predf, ps, old, nx, 
                              tmpf, tp, succ, nst >>

T0(self) == /\ pc[self] = "T0"
            /\ IF tailp # 0 \/ tailf # 0
                  THEN /\ res' = [res EXCEPT ![self] = "fail"]
                       /\ pc' = [pc EXCEPT ![self] = "Fin2"]
                  ELSE /\ pc' = [pc EXCEPT ![self] = "T1"]
                       /\ res' = res
            /\ UNCHANGED << tailp, tailf, prevp, prevf, nextp, nextf, st, 
                            going, il, wr, rd, entry, granted, wepoch, ustart, 
                            fifoBad, upBad, i, op, pred, predf, ps, old, nx, 
                            tmpf, tp, succ, nst >>

T1(self) == /\ pc[self] = "T1"
            /\ st' = [st EXCEPT ![self] = IF op[self] = "tryW" THEN W ELSE AR]
            /\ IF tailp = 0 /\ tailf = 0
                  THEN /\ tailp' = self
                       /\ tailf' = 0
                       /\ res' = [res EXCEPT ![self] = "ok"]
                       /\ IF op[self] = "tryW"
                             THEN /\ wr' = (wr \cup {self})
                                  /\ rd' = rd
                             ELSE /\ rd' = (rd \cup {self})
                                  /\ wr' = wr
                       /\ pc' = [pc EXCEPT ![self] = "Fin"]
                  ELSE /\ res' = [res EXCEPT ![self] = "fail"]
                       /\ pc' = [pc EXCEPT ![self] = "Fin2"]
                       /\ UNCHANGED << tailp, tailf, wr, rd >>
            /\ UNCHANGED << prevp, prevf, nextp, nextf, going, il, entry, 
                            granted, wepoch, ustart, fifoBad, upBad, i, op, 
                            pred, predf, ps, old, nx, tmpf, tp, succ, nst >>

R0(self) == /\ pc[self] = "R0"
            /\ old' = [old EXCEPT ![self] = st[self]]
            /\ IF old'[self] = W
                  THEN /\ wr' = wr \ {self}
                       /\ pc' = [pc EXCEPT ![self] = "Rw1"]
                       /\ UNCHANGED << rd, tmpf >>
                  ELSE /\ rd' = rd \ {self}
                       /\ tmpf' = [tmpf EXCEPT ![self] = 0]
                       /\ pc' = [pc EXCEPT ![self] = "Rr1"]
                       /\ wr' = wr
            /\ UNCHANGED << tailp, tailf, prevp, prevf, nextp, nextf, st, 
                            going, il, res, entry, granted, wepoch, ustart, 
                            fifoBad, upBad, i, op, pred, predf, ps, nx, tp, 
                            succ, nst >>

Rw1(self) == /\ pc[self] = "Rw1"
             /\ nx' = [nx EXCEPT ![self] = nextp[self]]
             /\ IF nx'[self] = 0
                   THEN /\ pc' = [pc EXCEPT ![self] = "Rw2"]
                   ELSE /\ pc' = [pc EXCEPT ![self] = "Rw5"]
             /\ UNCHANGED << tailp, tailf, prevp, prevf, nextp, nextf, st, 
                             going, il, wr, rd, res, entry, granted, wepoch, 
                             ustart, fifoBad, upBad, i, op, pred, predf, ps, 
                             old, tmpf, tp, succ, nst >>

Rw2(self) == /\ pc[self] = "Rw2"
             /\ IF tailp = self /\ tailf = 0
                   THEN /\ tailp' = 0
                        /\ pc' = [pc EXCEPT ![self] = "D1"]
                   ELSE /\ pc' = [pc EXCEPT ![self] = "Rw3"]
                        /\ tailp' = tailp
             /\ UNCHANGED << tailf, prevp, prevf, nextp, nextf, st, going, il, 
                             wr, rd, res, entry, granted, wepoch, ustart, 
                             fifoBad, upBad, i, op, pred, predf, ps, old, nx, 
                             tmpf, tp, succ, nst >>

Rw3(self) == /\ pc[self] = "Rw3"
             /\ IF nextp[self] = 0 /\ nextf[self] = 0
                   THEN /\ pc' = [pc EXCEPT ![self] = "Rw3"]
                   ELSE /\ pc' = [pc EXCEPT ![self] = "Rw4"]
             /\ UNCHANGED << tailp, tailf, prevp, prevf, nextp, nextf, st, 
                             going, il, wr, rd, res, entry, granted, wepoch, 
                             ustart, fifoBad, upBad, i, op, pred, predf, ps, 
                             old, nx, tmpf, tp, succ, nst >>

Rw4(self) == /\ pc[self] = "Rw4"
             /\ nx' = [nx EXCEPT ![self] = nextp[self]]
             /\ pc' = [pc EXCEPT ![self] = "Rw5"]
             /\ UNCHANGED << tailp, tailf, prevp, prevf, nextp, nextf, st, 
                             going, il, wr, rd, res, entry, granted, wepoch, 
                             ustart, fifoBad, upBad, i, op, pred, predf, ps, 
                             old, tmpf, tp, succ, nst >>

Rw5(self) == /\ pc[self] = "Rw5"
             /\ going' = [going EXCEPT ![nx[self]] = 2]
             /\ pc' = [pc EXCEPT ![self] = "Rw6"]
             /\ UNCHANGED << tailp, tailf, prevp, prevf, nextp, nextf, st, il, 
                             wr, rd, res, entry, granted, wepoch, ustart, 
                             fifoBad, upBad, i, op, pred, predf, ps, old, nx, 
                             tmpf, tp, succ, nst >>

Rw6(self) == /\ pc[self] = "Rw6"
             /\ ps' = [ps EXCEPT ![self] = st[nx[self]]]
             /\ IF ps'[self] = UWAIT
                   THEN /\ pc' = [pc EXCEPT ![self] = "Rw7"]
                   ELSE /\ pc' = [pc EXCEPT ![self] = "Rw12"]
             /\ UNCHANGED << tailp, tailf, prevp, prevf, nextp, nextf, st, 
                             going, il, wr, rd, res, entry, granted, wepoch, 
                             ustart, fifoBad, upBad, i, op, pred, predf, old, 
                             nx, tmpf, tp, succ, nst >>

Rw7(self) == /\ pc[self] = "Rw7"
             /\ IF il[self] = 0
                   THEN /\ il' = [il EXCEPT ![self] = 1]
                        /\ pc' = [pc EXCEPT ![self] = "Rw8"]
                   ELSE /\ pc' = [pc EXCEPT ![self] = "Rw7"]
                        /\ il' = il
             /\ UNCHANGED << tailp, tailf, prevp, prevf, nextp, nextf, st, 
                             going, wr, rd, res, entry, granted, wepoch, 
                             ustart, fifoBad, upBad, i, op, pred, predf, ps, 
                             old, nx, tmpf, tp, succ, nst >>

Rw8(self) == /\ pc[self] = "Rw8"
             /\ tp' = [tp EXCEPT ![self] = prevp[nx[self]]]
             /\ tmpf' = [tmpf EXCEPT ![self] = prevf[nx[self]]]
             /\ prevp' = [prevp EXCEPT ![nx[self]] = 0]
             /\ prevf' = [prevf EXCEPT ![nx[self]] = 0]
             /\ pc' = [pc EXCEPT ![self] = "Rw9"]
             /\ UNCHANGED << tailp, tailf, nextp, nextf, st, going, il, wr, rd, 
                             res, entry, granted, wepoch, ustart, fifoBad, 
                             upBad, i, op, pred, predf, ps, old, nx, succ, nst >>

Rw9(self) == /\ pc[self] = "Rw9"
             /\ st' = [st EXCEPT ![nx[self]] = ULOSER]
             /\ pc' = [pc EXCEPT ![self] = "Rw10"]
             /\ UNCHANGED << tailp, tailf, prevp, prevf, nextp, nextf, going, 
                             il, wr, rd, res, entry, granted, wepoch, ustart, 
                             fifoBad, upBad, i, op, pred, predf, ps, old, nx, 
                             tmpf, tp, succ, nst >>

Rw10(self) == /\ pc[self] = "Rw10"
              /\ going' = [going EXCEPT ![nx[self]] = 1]
              /\ IF tmpf[self] = 1
                    THEN /\ pc' = [pc EXCEPT ![self] = "Rw11w"]
                    ELSE /\ pc' = [pc EXCEPT ![self] = "Rw11r"]
              /\ UNCHANGED << tailp, tailf, prevp, prevf, nextp, nextf, st, il, 
                              wr, rd, res, entry, granted, wepoch, ustart, 
                              fifoBad, upBad, i, op, pred, predf, ps, old, nx, 
                              tmpf, tp, succ, nst >>

Rw11w(self) == /\ pc[self] = "Rw11w"
               /\ IF il[self] = 0
                     THEN /\ pc' = [pc EXCEPT ![self] = "D1"]
                     ELSE /\ pc' = [pc EXCEPT ![self] = "Rw11w"]
               /\ UNCHANGED << tailp, tailf, prevp, prevf, nextp, nextf, st, 
                               going, il, wr, rd, res, entry, granted, wepoch, 
                               ustart, fifoBad, upBad, i, op, pred, predf, ps, 
                               old, nx, tmpf, tp, succ, nst >>

Rw11r(self) == /\ pc[self] = "Rw11r"
               /\ il' = [il EXCEPT ![self] = 0]
               /\ pc' = [pc EXCEPT ![self] = "D1"]
               /\ UNCHANGED << tailp, tailf, prevp, prevf, nextp, nextf, st, 
                               going, wr, rd, res, entry, granted, wepoch, 
                               ustart, fifoBad, upBad, i, op, pred, predf, ps, 
                               old, nx, tmpf, tp, succ, nst >>

Rw12(self) == /\ pc[self] = "Rw12"
              /\ prevp' = [prevp EXCEPT ![nx[self]] = 0]
              /\ prevf' = [prevf EXCEPT ![nx[self]] = 0]
              /\ pc' = [pc EXCEPT ![self] = "Rw13"]
              /\ UNCHANGED << tailp, tailf, nextp, nextf, st, going, il, wr, 
                              rd, res, entry, granted, wepoch, ustart, fifoBad, 
                              upBad, i, op, pred, predf, ps, old, nx, tmpf, tp, 
                              succ, nst >>

Rw13(self) == /\ pc[self] = "Rw13"
              /\ going' = [going EXCEPT ![nx[self]] = 1]
              /\ pc' = [pc EXCEPT ![self] = "D1"]
              /\ UNCHANGED << tailp, tailf, prevp, prevf, nextp, nextf, st, il, 
                              wr, rd, res, entry, granted, wepoch, ustart, 
                              fifoBad, upBad, i, op, pred, predf, ps, old, nx, 
                              tmpf, tp, succ, nst >>

Rr1(self) == /\ pc[self] = "Rr1"
             /\ pred' = [pred EXCEPT ![self] = prevp[self]]
             /\ predf' = [predf EXCEPT ![self] = prevf[self]]
             /\ prevf' = [prevf EXCEPT ![self] = 1]
             /\ IF pred'[self] # 0
                   THEN /\ pc' = [pc EXCEPT ![self] = "Rr2"]
                   ELSE /\ pc' = [pc EXCEPT ![self] = "Rr15"]
             /\ UNCHANGED << tailp, tailf, prevp, nextp, nextf, st, going, il, 
                             wr, rd, res, entry, granted, wepoch, ustart, 
                             fifoBad, upBad, i, op, ps, old, nx, tmpf, tp, 
                             succ, nst >>

Rr2(self) == /\ pc[self] = "Rr2"
             /\ IF il[pred[self]] = 0
                   THEN /\ il' = [il EXCEPT ![pred[self]] = 1]
                        /\ pc' = [pc EXCEPT ![self] = "Rr5"]
                   ELSE /\ pc' = [pc EXCEPT ![self] = "Rr3"]
                        /\ il' = il
             /\ UNCHANGED << tailp, tailf, prevp, prevf, nextp, nextf, st, 
                             going, wr, rd, res, entry, granted, wepoch, 
                             ustart, fifoBad, upBad, i, op, pred, predf, ps, 
                             old, nx, tmpf, tp, succ, nst >>

Rr3(self) == /\ pc[self] = "Rr3"
             /\ IF prevp[self] = pred[self] /\ prevf[self] = 1
                   THEN /\ prevf' = [prevf EXCEPT ![self] = 0]
                        /\ tmpf' = [tmpf EXCEPT ![self] = 0]
                        /\ pc' = [pc EXCEPT ![self] = "Rr1"]
                   ELSE /\ IF prevf[self] = 0
                              THEN /\ pc' = [pc EXCEPT ![self] = "Rr4"]
                                   /\ tmpf' = tmpf
                              ELSE /\ tmpf' = [tmpf EXCEPT ![self] = 0]
                                   /\ pc' = [pc EXCEPT ![self] = "Rr1"]
                        /\ prevf' = prevf
             /\ UNCHANGED << tailp, tailf, prevp, nextp, nextf, st, going, il, 
                             wr, rd, res, entry, granted, wepoch, ustart, 
                             fifoBad, upBad, i, op, pred, predf, ps, old, nx, 
                             tp, succ, nst >>

Rr4(self) == /\ pc[self] = "Rr4"
             /\ il' = [il EXCEPT ![pred[self]] = 0]
             /\ tmpf' = [tmpf EXCEPT ![self] = 0]
             /\ pc' = [pc EXCEPT ![self] = "Rr1"]
             /\ UNCHANGED << tailp, tailf, prevp, prevf, nextp, nextf, st, 
                             going, wr, rd, res, entry, granted, wepoch, 
                             ustart, fifoBad, upBad, i, op, pred, predf, ps, 
                             old, nx, tp, succ, nst >>

Rr5(self) == /\ pc[self] = "Rr5"
             /\ prevp' = [prevp EXCEPT ![self] = pred[self]]
             /\ prevf' = [prevf EXCEPT ![self] = 0]
             /\ pc' = [pc EXCEPT ![self] = "Rr6"]
             /\ UNCHANGED << tailp, tailf, nextp, nextf, st, going, il, wr, rd, 
                             res, entry, granted, wepoch, ustart, fifoBad, 
                             upBad, i, op, pred, predf, ps, old, nx, tmpf, tp, 
                             succ, nst >>

Rr6(self) == /\ pc[self] = "Rr6"
             /\ IF il[self] = 0
                   THEN /\ il' = [il EXCEPT ![self] = 1]
                        /\ pc' = [pc EXCEPT ![self] = "Rr7"]
                   ELSE /\ pc' = [pc EXCEPT ![self] = "Rr6"]
                        /\ il' = il
             /\ UNCHANGED << tailp, tailf, prevp, prevf, nextp, nextf, st, 
                             going, wr, rd, res, entry, granted, wepoch, 
                             ustart, fifoBad, upBad, i, op, pred, predf, ps, 
                             old, nx, tmpf, tp, succ, nst >>

Rr7(self) == /\ pc[self] = "Rr7"
             /\ nextp' = [nextp EXCEPT ![pred[self]] = 0]
             /\ nextf' = [nextf EXCEPT ![pred[self]] = 0]
             /\ pc' = [pc EXCEPT ![self] = "Rr8"]
             /\ UNCHANGED << tailp, tailf, prevp, prevf, st, going, il, wr, rd, 
                             res, entry, granted, wepoch, ustart, fifoBad, 
                             upBad, i, op, pred, predf, ps, old, nx, tmpf, tp, 
                             succ, nst >>

Rr8(self) == /\ pc[self] = "Rr8"
             /\ nx' = [nx EXCEPT ![self] = nextp[self]]
             /\ IF nx'[self] = 0
                   THEN /\ pc' = [pc EXCEPT ![self] = "Rr9"]
                   ELSE /\ pc' = [pc EXCEPT ![self] = "Rr11"]
             /\ UNCHANGED << tailp, tailf, prevp, prevf, nextp, nextf, st, 
                             going, il, wr, rd, res, entry, granted, wepoch, 
                             ustart, fifoBad, upBad, i, op, pred, predf, ps, 
                             old, tmpf, tp, succ, nst >>

Rr9(self) == /\ pc[self] = "Rr9"
             /\ IF tailp = self /\ tailf = 0
                   THEN /\ tailp' = pred[self]
                        /\ tailf' = 0
                        /\ pc' = [pc EXCEPT ![self] = "Rr11"]
                   ELSE /\ pc' = [pc EXCEPT ![self] = "Rr10"]
                        /\ UNCHANGED << tailp, tailf >>
             /\ UNCHANGED << prevp, prevf, nextp, nextf, st, going, il, wr, rd, 
                             res, entry, granted, wepoch, ustart, fifoBad, 
                             upBad, i, op, pred, predf, ps, old, nx, tmpf, tp, 
                             succ, nst >>

Rr10(self) == /\ pc[self] = "Rr10"
              /\ IF nextp[self] = 0 /\ nextf[self] = 0
                    THEN /\ pc' = [pc EXCEPT ![self] = "Rr10"]
                    ELSE /\ pc' = [pc EXCEPT ![self] = "Rr11"]
              /\ UNCHANGED << tailp, tailf, prevp, prevf, nextp, nextf, st, 
                              going, il, wr, rd, res, entry, granted, wepoch, 
                              ustart, fifoBad, upBad, i, op, pred, predf, ps, 
                              old, nx, tmpf, tp, succ, nst >>

Rr11(self) == /\ pc[self] = "Rr11"
              /\ nx' = [nx EXCEPT ![self] = nextp[self]]
              /\ IF nx'[self] # 0
                    THEN /\ pc' = [pc EXCEPT ![self] = "Rr12"]
                    ELSE /\ pc' = [pc EXCEPT ![self] = "Rr14"]
              /\ UNCHANGED << tailp, tailf, prevp, prevf, nextp, nextf, st, 
                              going, il, wr, rd, res, entry, granted, wepoch, 
                              ustart, fifoBad, upBad, i, op, pred, predf, ps, 
                              old, tmpf, tp, succ, nst >>

Rr12(self) == /\ pc[self] = "Rr12"
              /\ tp' = [tp EXCEPT ![self] = prevp[nx[self]]]
              /\ tmpf' = [tmpf EXCEPT ![self] = prevf[nx[self]]]
              /\ prevp' = [prevp EXCEPT ![nx[self]] = pred[self]]
              /\ prevf' = [prevf EXCEPT ![nx[self]] = 0]
              /\ pc' = [pc EXCEPT ![self] = "Rr13a"]
              /\ UNCHANGED << tailp, tailf, nextp, nextf, st, going, il, wr, 
                              rd, res, entry, granted, wepoch, ustart, fifoBad, 
                              upBad, i, op, pred, predf, ps, old, nx, succ, 
                              nst >>

Rr13a(self) == /\ pc[self] = "Rr13a"
               /\ tp' = [tp EXCEPT ![self] = nextp[self]]
               /\ pc' = [pc EXCEPT ![self] = "Rr13"]
               /\ UNCHANGED << tailp, tailf, prevp, prevf, nextp, nextf, st, 
                               going, il, wr, rd, res, entry, granted, wepoch, 
                               ustart, fifoBad, upBad, i, op, pred, predf, ps, 
                               old, nx, tmpf, succ, nst >>

Rr13(self) == /\ pc[self] = "Rr13"
              /\ nextp' = [nextp EXCEPT ![pred[self]] = tp[self]]
              /\ nextf' = [nextf EXCEPT ![pred[self]] = 0]
              /\ pc' = [pc EXCEPT ![self] = "Rr14"]
              /\ UNCHANGED << tailp, tailf, prevp, prevf, st, going, il, wr, 
                              rd, res, entry, granted, wepoch, ustart, fifoBad, 
                              upBad, i, op, pred, predf, ps, old, nx, tmpf, tp, 
                              succ, nst >>

Rr14(self) == /\ pc[self] = "Rr14"
              /\ il' = [il EXCEPT ![pred[self]] = 0]
              /\ pc' = [pc EXCEPT ![self] = "Rr23"]
              /\ UNCHANGED << tailp, tailf, prevp, prevf, nextp, nextf, st, 
                              going, wr, rd, res, entry, granted, wepoch, 
                              ustart, fifoBad, upBad, i, op, pred, predf, ps, 
                              old, nx, tmpf, tp, succ, nst >>

Rr15(self) == /\ pc[self] = "Rr15"
              /\ IF il[self] = 0
                    THEN /\ il' = [il EXCEPT ![self] = 1]
                         /\ pc' = [pc EXCEPT ![self] = "Rr16"]
                    ELSE /\ pc' = [pc EXCEPT ![self] = "Rr15"]
                         /\ il' = il
              /\ UNCHANGED << tailp, tailf, prevp, prevf, nextp, nextf, st, 
                              going, wr, rd, res, entry, granted, wepoch, 
                              ustart, fifoBad, upBad, i, op, pred, predf, ps, 
                              old, nx, tmpf, tp, succ, nst >>

Rr16(self) == /\ pc[self] = "Rr16"
              /\ nx' = [nx EXCEPT ![self] = nextp[self]]
              /\ IF nx'[self] = 0
                    THEN /\ pc' = [pc EXCEPT ![self] = "Rr17"]
                    ELSE /\ pc' = [pc EXCEPT ![self] = "Rr20"]
              /\ UNCHANGED << tailp, tailf, prevp, prevf, nextp, nextf, st, 
                              going, il, wr, rd, res, entry, granted, wepoch, 
                              ustart, fifoBad, upBad, i, op, pred, predf, ps, 
                              old, tmpf, tp, succ, nst >>

Rr17(self) == /\ pc[self] = "Rr17"
              /\ IF tailp = self /\ tailf = 0
                    THEN /\ tailp' = 0
                         /\ pc' = [pc EXCEPT ![self] = "Rr23"]
                    ELSE /\ pc' = [pc EXCEPT ![self] = "Rr18"]
                         /\ tailp' = tailp
              /\ UNCHANGED << tailf, prevp, prevf, nextp, nextf, st, going, il, 
                              wr, rd, res, entry, granted, wepoch, ustart, 
                              fifoBad, upBad, i, op, pred, predf, ps, old, nx, 
                              tmpf, tp, succ, nst >>

Rr18(self) == /\ pc[self] = "Rr18"
              /\ IF nextp[self] = 0 /\ nextf[self] = 0
                    THEN /\ pc' = [pc EXCEPT ![self] = "Rr18"]
                    ELSE /\ pc' = [pc EXCEPT ![self] = "Rr19"]
              /\ UNCHANGED << tailp, tailf, prevp, prevf, nextp, nextf, st, 
                              going, il, wr, rd, res, entry, granted, wepoch, 
                              ustart, fifoBad, upBad, i, op, pred, predf, ps, 
                              old, nx, tmpf, tp, succ, nst >>

Rr19(self) == /\ pc[self] = "Rr19"
              /\ nx' = [nx EXCEPT ![self] = nextp[self]]
              /\ pc' = [pc EXCEPT ![self] = "Rr20"]
              /\ UNCHANGED << tailp, tailf, prevp, prevf, nextp, nextf, st, 
                              going, il, wr, rd, res, entry, granted, wepoch, 
                              ustart, fifoBad, upBad, i, op, pred, predf, ps, 
                              old, tmpf, tp, succ, nst >>

Rr20(self) == /\ pc[self] = "Rr20"
              /\ going' = [going EXCEPT ![nx[self]] = 2]
              /\ pc' = [pc EXCEPT ![self] = "Rr21"]
              /\ UNCHANGED << tailp, tailf, prevp, prevf, nextp, nextf, st, il, 
                              wr, rd, res, entry, granted, wepoch, ustart, 
                              fifoBad, upBad, i, op, pred, predf, ps, old, nx, 
                              tmpf, tp, succ, nst >>

Rr21(self) == /\ pc[self] = "Rr21"
              /\ tp' = [tp EXCEPT ![self] = prevp[nx[self]]]
              /\ tmpf' = [tmpf EXCEPT ![self] = prevf[nx[self]]]
              /\ prevp' = [prevp EXCEPT ![nx[self]] = 0]
              /\ prevf' = [prevf EXCEPT ![nx[self]] = 0]
              /\ pc' = [pc EXCEPT ![self] = "Rr22"]
              /\ UNCHANGED << tailp, tailf, nextp, nextf, st, going, il, wr, 
                              rd, res, entry, granted, wepoch, ustart, fifoBad, 
                              upBad, i, op, pred, predf, ps, old, nx, succ, 
                              nst >>

Rr22(self) == /\ pc[self] = "Rr22"
              /\ going' = [going EXCEPT ![nx[self]] = 1]
              /\ pc' = [pc EXCEPT ![self] = "Rr23"]
              /\ UNCHANGED << tailp, tailf, prevp, prevf, nextp, nextf, st, il, 
                              wr, rd, res, entry, granted, wepoch, ustart, 
                              fifoBad, upBad, i, op, pred, predf, ps, old, nx, 
                              tmpf, tp, succ, nst >>

Rr23(self) == /\ pc[self] = "Rr23"
              /\ IF tmpf[self] = 1
                    THEN /\ pc' = [pc EXCEPT ![self] = "Rr23w"]
                    ELSE /\ pc' = [pc EXCEPT ![self] = "Rr23r"]
              /\ UNCHANGED << tailp, tailf, prevp, prevf, nextp, nextf, st, 
                              going, il, wr, rd, res, entry, granted, wepoch, 
                              ustart, fifoBad, upBad, i, op, pred, predf, ps, 
                              old, nx, tmpf, tp, succ, nst >>

Rr23w(self) == /\ pc[self] = "Rr23w"
               /\ IF il[self] = 0
                     THEN /\ pc' = [pc EXCEPT ![self] = "D1"]
                     ELSE /\ pc' = [pc EXCEPT ![self] = "Rr23w"]
               /\ UNCHANGED << tailp, tailf, prevp, prevf, nextp, nextf, st, 
                               going, il, wr, rd, res, entry, granted, wepoch, 
                               ustart, fifoBad, upBad, i, op, pred, predf, ps, 
                               old, nx, tmpf, tp, succ, nst >>

Rr23r(self) == /\ pc[self] = "Rr23r"
               /\ il' = [il EXCEPT ![self] = 0]
               /\ pc' = [pc EXCEPT ![self] = "D1"]
               /\ UNCHANGED << tailp, tailf, prevp, prevf, nextp, nextf, st, 
                               going, wr, rd, res, entry, granted, wepoch, 
                               ustart, fifoBad, upBad, i, op, pred, predf, ps, 
                               old, nx, tmpf, tp, succ, nst >>

D1(self) == /\ pc[self] = "D1"
            /\ IF going[self] = 2
                  THEN /\ pc' = [pc EXCEPT ![self] = "D1"]
                  ELSE /\ pc' = [pc EXCEPT ![self] = "D2"]
            /\ UNCHANGED << tailp, tailf, prevp, prevf, nextp, nextf, st, 
                            going, il, wr, rd, res, entry, granted, wepoch, 
                            ustart, fifoBad, upBad, i, op, pred, predf, ps, 
                            old, nx, tmpf, tp, succ, nst >>

D2(self) == /\ pc[self] = "D2"
            /\ il' = [il EXCEPT ![self] = 0]
            /\ going' = [going EXCEPT ![self] = 0]
            /\ pc' = [pc EXCEPT ![self] = "Fin2"]
            /\ UNCHANGED << tailp, tailf, prevp, prevf, nextp, nextf, st, wr, 
                            rd, res, entry, granted, wepoch, ustart, fifoBad, 
                            upBad, i, op, pred, predf, ps, old, nx, tmpf, tp, 
                            succ, nst >>

Dg0(self) == /\ pc[self] = "Dg0"
             /\ old' = [old EXCEPT ![self] = st[self]]
             /\ IF old'[self] = AR
                   THEN /\ pc' = [pc EXCEPT ![self] = "Fin"]
                        /\ UNCHANGED << wr, rd >>
                   ELSE /\ wr' = wr \ {self}
                        /\ rd' = (rd \cup {self})
                        /\ pc' = [pc EXCEPT ![self] = "Dg1"]
             /\ UNCHANGED << tailp, tailf, prevp, prevf, nextp, nextf, st, 
                             going, il, res, entry, granted, wepoch, ustart, 
                             fifoBad, upBad, i, op, pred, predf, ps, nx, tmpf, 
                             tp, succ, nst >>

Dg1(self) == /\ pc[self] = "Dg1"
             /\ nx' = [nx EXCEPT ![self] = nextp[self]]
             /\ IF nx'[self] = 0
                   THEN /\ pc' = [pc EXCEPT ![self] = "Dg2"]
                   ELSE /\ pc' = [pc EXCEPT ![self] = "Dg7"]
             /\ UNCHANGED << tailp, tailf, prevp, prevf, nextp, nextf, st, 
                             going, il, wr, rd, res, entry, granted, wepoch, 
                             ustart, fifoBad, upBad, i, op, pred, predf, ps, 
                             old, tmpf, tp, succ, nst >>

Dg2(self) == /\ pc[self] = "Dg2"
             /\ st' = [st EXCEPT ![self] = R]
             /\ pc' = [pc EXCEPT ![self] = "Dg3"]
             /\ UNCHANGED << tailp, tailf, prevp, prevf, nextp, nextf, going, 
                             il, wr, rd, res, entry, granted, wepoch, ustart, 
                             fifoBad, upBad, i, op, pred, predf, ps, old, nx, 
                             tmpf, tp, succ, nst >>

Dg3(self) == /\ pc[self] = "Dg3"
             /\ IF tailp = self /\ tailf = 0
                   THEN /\ pc' = [pc EXCEPT ![self] = "Dg4"]
                   ELSE /\ pc' = [pc EXCEPT ![self] = "Dg5"]
             /\ UNCHANGED << tailp, tailf, prevp, prevf, nextp, nextf, st, 
                             going, il, wr, rd, res, entry, granted, wepoch, 
                             ustart, fifoBad, upBad, i, op, pred, predf, ps, 
                             old, nx, tmpf, tp, succ, nst >>

Dg4(self) == /\ pc[self] = "Dg4"
             /\ IF st[self] = R
                   THEN /\ st' = [st EXCEPT ![self] = AR]
                        /\ pc' = [pc EXCEPT ![self] = "Fin"]
                   ELSE /\ pc' = [pc EXCEPT ![self] = "Dg5"]
                        /\ st' = st
             /\ UNCHANGED << tailp, tailf, prevp, prevf, nextp, nextf, going, 
                             il, wr, rd, res, entry, granted, wepoch, ustart, 
                             fifoBad, upBad, i, op, pred, predf, ps, old, nx, 
                             tmpf, tp, succ, nst >>

Dg5(self) == /\ pc[self] = "Dg5"
             /\ IF nextp[self] = 0 /\ nextf[self] = 0
                   THEN /\ pc' = [pc EXCEPT ![self] = "Dg5"]
                   ELSE /\ pc' = [pc EXCEPT ![self] = "Dg6"]
             /\ UNCHANGED << tailp, tailf, prevp, prevf, nextp, nextf, st, 
                             going, il, wr, rd, res, entry, granted, wepoch, 
                             ustart, fifoBad, upBad, i, op, pred, predf, ps, 
                             old, nx, tmpf, tp, succ, nst >>

Dg6(self) == /\ pc[self] = "Dg6"
             /\ nx' = [nx EXCEPT ![self] = nextp[self]]
             /\ pc' = [pc EXCEPT ![self] = "Dg7"]
             /\ UNCHANGED << tailp, tailf, prevp, prevf, nextp, nextf, st, 
                             going, il, wr, rd, res, entry, granted, wepoch, 
                             ustart, fifoBad, upBad, i, op, pred, predf, ps, 
                             old, tmpf, tp, succ, nst >>

Dg7(self) == /\ pc[self] = "Dg7"
             /\ nst' = [nst EXCEPT ![self] = st[nx[self]]]
             /\ IF nst'[self] = R \/ nst'[self] = RU
                   THEN /\ pc' = [pc EXCEPT ![self] = "Dg8"]
                   ELSE /\ pc' = [pc EXCEPT ![self] = "Dg9"]
             /\ UNCHANGED << tailp, tailf, prevp, prevf, nextp, nextf, st, 
                             going, il, wr, rd, res, entry, granted, wepoch, 
                             ustart, fifoBad, upBad, i, op, pred, predf, ps, 
                             old, nx, tmpf, tp, succ >>

Dg8(self) == /\ pc[self] = "Dg8"
             /\ going' = [going EXCEPT ![nx[self]] = 1]
             /\ pc' = [pc EXCEPT ![self] = "Dg11"]
             /\ UNCHANGED << tailp, tailf, prevp, prevf, nextp, nextf, st, il, 
                             wr, rd, res, entry, granted, wepoch, ustart, 
                             fifoBad, upBad, i, op, pred, predf, ps, old, nx, 
                             tmpf, tp, succ, nst >>

Dg9(self) == /\ pc[self] = "Dg9"
             /\ nst' = [nst EXCEPT ![self] = st[nx[self]]]
             /\ IF nst'[self] = UWAIT
                   THEN /\ pc' = [pc EXCEPT ![self] = "Dg10"]
                   ELSE /\ pc' = [pc EXCEPT ![self] = "Dg11"]
             /\ UNCHANGED << tailp, tailf, prevp, prevf, nextp, nextf, st, 
                             going, il, wr, rd, res, entry, granted, wepoch, 
                             ustart, fifoBad, upBad, i, op, pred, predf, ps, 
                             old, nx, tmpf, tp, succ >>

Dg10(self) == /\ pc[self] = "Dg10"
              /\ st' = [st EXCEPT ![nx[self]] = ULOSER]
              /\ pc' = [pc EXCEPT ![self] = "Dg11"]
              /\ UNCHANGED << tailp, tailf, prevp, prevf, nextp, nextf, going, 
                              il, wr, rd, res, entry, granted, wepoch, ustart, 
                              fifoBad, upBad, i, op, pred, predf, ps, old, nx, 
                              tmpf, tp, succ, nst >>

Dg11(self) == /\ pc[self] = "Dg11"
              /\ st' = [st EXCEPT ![self] = AR]
              /\ pc' = [pc EXCEPT ![self] = "Fin"]
              /\ UNCHANGED << tailp, tailf, prevp, prevf, nextp, nextf, going, 
                              il, wr, rd, res, entry, granted, wepoch, ustart, 
                              fifoBad, upBad, i, op, pred, predf, ps, old, nx, 
                              tmpf, tp, succ, nst >>

U0(self) == /\ pc[self] = "U0"
            /\ old' = [old EXCEPT ![self] = st[self]]
            /\ IF old'[self] = W
                  THEN /\ res' = [res EXCEPT ![self] = "true"]
                       /\ pc' = [pc EXCEPT ![self] = "Fin"]
                       /\ UNCHANGED << rd, ustart >>
                  ELSE /\ rd' = rd \ {self}
                       /\ ustart' = [ustart EXCEPT ![self] = wepoch]
                       /\ pc' = [pc EXCEPT ![self] = "U1"]
                       /\ res' = res
            /\ UNCHANGED << tailp, tailf, prevp, prevf, nextp, nextf, st, 
                            going, il, wr, entry, granted, wepoch, fifoBad, 
                            upBad, i, op, pred, predf, ps, nx, tmpf, tp, succ, 
                            nst >>

U1(self) == /\ pc[self] = "U1"
            /\ st' = [st EXCEPT ![self] = UREQ]
            /\ pc' = [pc EXCEPT ![self] = "U2"]
            /\ UNCHANGED << tailp, tailf, prevp, prevf, nextp, nextf, going, 
                            il, wr, rd, res, entry, granted, wepoch, ustart, 
                            fifoBad, upBad, i, op, pred, predf, ps, old, nx, 
                            tmpf, tp, succ, nst >>

U2(self) == /\ pc[self] = "U2"
            /\ IF il[self] = 0
                  THEN /\ il' = [il EXCEPT ![self] = 1]
                       /\ pc' = [pc EXCEPT ![self] = "U3"]
                  ELSE /\ pc' = [pc EXCEPT ![self] = "U2"]
                       /\ il' = il
            /\ UNCHANGED << tailp, tailf, prevp, prevf, nextp, nextf, st, 
                            going, wr, rd, res, entry, granted, wepoch, ustart, 
                            fifoBad, upBad, i, op, pred, predf, ps, old, nx, 
                            tmpf, tp, succ, nst >>

U3(self) == /\ pc[self] = "U3"
            /\ IF tailp = self /\ tailf = 0
                  THEN /\ tailf' = 1
                       /\ pc' = [pc EXCEPT ![self] = "U15"]
                  ELSE /\ pc' = [pc EXCEPT ![self] = "U4"]
                       /\ tailf' = tailf
            /\ UNCHANGED << tailp, prevp, prevf, nextp, nextf, st, going, il, 
                            wr, rd, res, entry, granted, wepoch, ustart, 
                            fifoBad, upBad, i, op, pred, predf, ps, old, nx, 
                            tmpf, tp, succ, nst >>

U4(self) == /\ pc[self] = "U4"
            /\ IF nextp[self] = 0 /\ nextf[self] = 0
                  THEN /\ pc' = [pc EXCEPT ![self] = "U4"]
                  ELSE /\ pc' = [pc EXCEPT ![self] = "U5"]
            /\ UNCHANGED << tailp, tailf, prevp, prevf, nextp, nextf, st, 
                            going, il, wr, rd, res, entry, granted, wepoch, 
                            ustart, fifoBad, upBad, i, op, pred, predf, ps, 
                            old, nx, tmpf, tp, succ, nst >>

U5(self) == /\ pc[self] = "U5"
            /\ nx' = [nx EXCEPT ![self] = nextp[self]]
            /\ nextf' = [nextf EXCEPT ![self] = 1]
            /\ pc' = [pc EXCEPT ![self] = "U6"]
            /\ UNCHANGED << tailp, tailf, prevp, prevf, nextp, st, going, il, 
                            wr, rd, res, entry, granted, wepoch, ustart, 
                            fifoBad, upBad, i, op, pred, predf, ps, old, tmpf, 
                            tp, succ, nst >>

U6(self) == /\ pc[self] = "U6"
            /\ nst' = [nst EXCEPT ![self] = st[nx[self]]]
            /\ IF nst'[self] = R \/ nst'[self] = RU
                  THEN /\ pc' = [pc EXCEPT ![self] = "U7"]
                  ELSE /\ pc' = [pc EXCEPT ![self] = "U8"]
            /\ UNCHANGED << tailp, tailf, prevp, prevf, nextp, nextf, st, 
                            going, il, wr, rd, res, entry, granted, wepoch, 
                            ustart, fifoBad, upBad, i, op, pred, predf, ps, 
                            old, nx, tmpf, tp, succ >>

U7(self) == /\ pc[self] = "U7"
            /\ going' = [going EXCEPT ![nx[self]] = 1]
            /\ pc' = [pc EXCEPT ![self] = "U8"]
            /\ UNCHANGED << tailp, tailf, prevp, prevf, nextp, nextf, st, il, 
                            wr, rd, res, entry, granted, wepoch, ustart, 
                            fifoBad, upBad, i, op, pred, predf, ps, old, nx, 
                            tmpf, tp, succ, nst >>

U8(self) == /\ pc[self] = "U8"
            /\ tp' = [tp EXCEPT ![self] = prevp[nx[self]]]
            /\ tmpf' = [tmpf EXCEPT ![self] = prevf[nx[self]]]
            /\ prevp' = [prevp EXCEPT ![nx[self]] = self]
            /\ prevf' = [prevf EXCEPT ![nx[self]] = 0]
            /\ IF tmpf'[self] = 1
                  THEN /\ pc' = [pc EXCEPT ![self] = "U9w"]
                  ELSE /\ pc' = [pc EXCEPT ![self] = "U9r"]
            /\ UNCHANGED << tailp, tailf, nextp, nextf, st, going, il, wr, rd, 
                            res, entry, granted, wepoch, ustart, fifoBad, 
                            upBad, i, op, pred, predf, ps, old, nx, succ, nst >>

U9w(self) == /\ pc[self] = "U9w"
             /\ IF il[self] = 0
                   THEN /\ pc' = [pc EXCEPT ![self] = "U9x"]
                   ELSE /\ pc' = [pc EXCEPT ![self] = "U9w"]
             /\ UNCHANGED << tailp, tailf, prevp, prevf, nextp, nextf, st, 
                             going, il, wr, rd, res, entry, granted, wepoch, 
                             ustart, fifoBad, upBad, i, op, pred, predf, ps, 
                             old, nx, tmpf, tp, succ, nst >>

U9r(self) == /\ pc[self] = "U9r"
             /\ il' = [il EXCEPT ![self] = 0]
             /\ pc' = [pc EXCEPT ![self] = "U9x"]
             /\ UNCHANGED << tailp, tailf, prevp, prevf, nextp, nextf, st, 
                             going, wr, rd, res, entry, granted, wepoch, 
                             ustart, fifoBad, upBad, i, op, pred, predf, ps, 
                             old, nx, tmpf, tp, succ, nst >>

U9x(self) == /\ pc[self] = "U9x"
             /\ IF nst[self] = R \/ nst[self] = RU \/ nst[self] = AR \/ nst[self] = UREQ
                   THEN /\ pc' = [pc EXCEPT ![self] = "U10"]
                   ELSE /\ pc' = [pc EXCEPT ![self] = "U14"]
             /\ UNCHANGED << tailp, tailf, prevp, prevf, nextp, nextf, st, 
                             going, il, wr, rd, res, entry, granted, wepoch, 
                             ustart, fifoBad, upBad, i, op, pred, predf, ps, 
                             old, nx, tmpf, tp, succ, nst >>

U10(self) == /\ pc[self] = "U10"
             /\ IF nextp[self] = nx[self] /\ nextf[self] = 1
                   THEN /\ pc' = [pc EXCEPT ![self] = "U11"]
                   ELSE /\ pc' = [pc EXCEPT ![self] = "U2"]
             /\ UNCHANGED << tailp, tailf, prevp, prevf, nextp, nextf, st, 
                             going, il, wr, rd, res, entry, granted, wepoch, 
                             ustart, fifoBad, upBad, i, op, pred, predf, ps, 
                             old, nx, tmpf, tp, succ, nst >>

U11(self) == /\ pc[self] = "U11"
             /\ old' = [old EXCEPT ![self] = st[self]]
             /\ IF old'[self] = UWAIT \/ old'[self] = ULOSER
                   THEN /\ pc' = [pc EXCEPT ![self] = "U12"]
                   ELSE /\ pc' = [pc EXCEPT ![self] = "U10"]
             /\ UNCHANGED << tailp, tailf, prevp, prevf, nextp, nextf, st, 
                             going, il, wr, rd, res, entry, granted, wepoch, 
                             ustart, fifoBad, upBad, i, op, pred, predf, ps, 
                             nx, tmpf, tp, succ, nst >>

U12(self) == /\ pc[self] = "U12"
             /\ IF nextp[self] = nx[self] /\ nextf[self] = 1
                   THEN /\ pc' = [pc EXCEPT ![self] = "U13"]
                   ELSE /\ pc' = [pc EXCEPT ![self] = "U17"]
             /\ UNCHANGED << tailp, tailf, prevp, prevf, nextp, nextf, st, 
                             going, il, wr, rd, res, entry, granted, wepoch, 
                             ustart, fifoBad, upBad, i, op, pred, predf, ps, 
                             old, nx, tmpf, tp, succ, nst >>

U13(self) == /\ pc[self] = "U13"
             /\ nextp' = [nextp EXCEPT ![self] = nx[self]]
             /\ nextf' = [nextf EXCEPT ![self] = 0]
             /\ pc' = [pc EXCEPT ![self] = "U17"]
             /\ UNCHANGED << tailp, tailf, prevp, prevf, st, going, il, wr, rd, 
                             res, entry, granted, wepoch, ustart, fifoBad, 
                             upBad, i, op, pred, predf, ps, old, nx, tmpf, tp, 
                             succ, nst >>

U14(self) == /\ pc[self] = "U14"
             /\ nextp' = [nextp EXCEPT ![self] = nx[self]]
             /\ nextf' = [nextf EXCEPT ![self] = 0]
             /\ pc' = [pc EXCEPT ![self] = "U16"]
             /\ UNCHANGED << tailp, tailf, prevp, prevf, st, going, il, wr, rd, 
                             res, entry, granted, wepoch, ustart, fifoBad, 
                             upBad, i, op, pred, predf, ps, old, nx, tmpf, tp, 
                             succ, nst >>

U15(self) == /\ pc[self] = "U15"
             /\ il' = [il EXCEPT ![self] = 0]
             /\ pc' = [pc EXCEPT ![self] = "U16"]
             /\ UNCHANGED << tailp, tailf, prevp, prevf, nextp, nextf, st, 
                             going, wr, rd, res, entry, granted, wepoch, 
                             ustart, fifoBad, upBad, i, op, pred, predf, ps, 
                             old, nx, tmpf, tp, succ, nst >>

U16(self) == /\ pc[self] = "U16"
             /\ IF st[self] = UREQ
                   THEN /\ st' = [st EXCEPT ![self] = UWAIT]
                   ELSE /\ TRUE
                        /\ st' = st
             /\ pc' = [pc EXCEPT ![self] = "U17"]
             /\ UNCHANGED << tailp, tailf, prevp, prevf, nextp, nextf, going, 
                             il, wr, rd, res, entry, granted, wepoch, ustart, 
                             fifoBad, upBad, i, op, pred, predf, ps, old, nx, 
                             tmpf, tp, succ, nst >>

U17(self) == /\ pc[self] = "U17"
             /\ IF tailp = self /\ tailf = 1
                   THEN /\ tailf' = 0
                   ELSE /\ TRUE
                        /\ tailf' = tailf
             /\ pc' = [pc EXCEPT ![self] = "U18"]
             /\ UNCHANGED << tailp, prevp, prevf, nextp, nextf, st, going, il, 
                             wr, rd, res, entry, granted, wepoch, ustart, 
                             fifoBad, upBad, i, op, pred, predf, ps, old, nx, 
                             tmpf, tp, succ, nst >>

U18(self) == /\ pc[self] = "U18"
             /\ pred' = [pred EXCEPT ![self] = prevp[self]]
             /\ predf' = [predf EXCEPT ![self] = prevf[self]]
             /\ prevf' = [prevf EXCEPT ![self] = 1]
             /\ IF pred'[self] # 0
                   THEN /\ pc' = [pc EXCEPT ![self] = "U19"]
                   ELSE /\ pc' = [pc EXCEPT ![self] = "U30"]
             /\ UNCHANGED << tailp, tailf, prevp, nextp, nextf, st, going, il, 
                             wr, rd, res, entry, granted, wepoch, ustart, 
                             fifoBad, upBad, i, op, ps, old, nx, tmpf, tp, 
                             succ, nst >>

U19(self) == /\ pc[self] = "U19"
             /\ IF il[pred[self]] = 0
                   THEN /\ il' = [il EXCEPT ![pred[self]] = 1]
                        /\ succ' = [succ EXCEPT ![self] = TRUE]
                   ELSE /\ succ' = [succ EXCEPT ![self] = FALSE]
                        /\ il' = il
             /\ pc' = [pc EXCEPT ![self] = "U20"]
             /\ UNCHANGED << tailp, tailf, prevp, prevf, nextp, nextf, st, 
                             going, wr, rd, res, entry, granted, wepoch, 
                             ustart, fifoBad, upBad, i, op, pred, predf, ps, 
                             old, nx, tmpf, tp, nst >>

U20(self) == /\ pc[self] = "U20"
             /\ IF st[pred[self]] = UREQ
                   THEN /\ st' = [st EXCEPT ![pred[self]] = UWAIT]
                   ELSE /\ TRUE
                        /\ st' = st
             /\ IF succ[self]
                   THEN /\ pc' = [pc EXCEPT ![self] = "U26"]
                   ELSE /\ pc' = [pc EXCEPT ![self] = "U21"]
             /\ UNCHANGED << tailp, tailf, prevp, prevf, nextp, nextf, going, 
                             il, wr, rd, res, entry, granted, wepoch, ustart, 
                             fifoBad, upBad, i, op, pred, predf, ps, old, nx, 
                             tmpf, tp, succ, nst >>

U21(self) == /\ pc[self] = "U21"
             /\ IF prevp[self] = pred[self] /\ prevf[self] = 1
                   THEN /\ prevf' = [prevf EXCEPT ![self] = 0]
                        /\ pc' = [pc EXCEPT ![self] = "U22"]
                   ELSE /\ IF prevf[self] = 1
                              THEN /\ pc' = [pc EXCEPT ![self] = "U22"]
                              ELSE /\ pc' = [pc EXCEPT ![self] = "U24"]
                        /\ prevf' = prevf
             /\ UNCHANGED << tailp, tailf, prevp, nextp, nextf, st, going, il, 
                             wr, rd, res, entry, granted, wepoch, ustart, 
                             fifoBad, upBad, i, op, pred, predf, ps, old, nx, 
                             tmpf, tp, succ, nst >>

U22(self) == /\ pc[self] = "U22"
             /\ IF prevp[self] = pred[self] /\ prevf[self] = 0
                   THEN /\ pc' = [pc EXCEPT ![self] = "U22"]
                   ELSE /\ pc' = [pc EXCEPT ![self] = "U23"]
             /\ UNCHANGED << tailp, tailf, prevp, prevf, nextp, nextf, st, 
                             going, il, wr, rd, res, entry, granted, wepoch, 
                             ustart, fifoBad, upBad, i, op, pred, predf, ps, 
                             old, nx, tmpf, tp, succ, nst >>

U23(self) == /\ pc[self] = "U23"
             /\ pred' = [pred EXCEPT ![self] = prevp[self]]
             /\ pc' = [pc EXCEPT ![self] = "U29x"]
             /\ UNCHANGED << tailp, tailf, prevp, prevf, nextp, nextf, st, 
                             going, il, wr, rd, res, entry, granted, wepoch, 
                             ustart, fifoBad, upBad, i, op, predf, ps, old, nx, 
                             tmpf, tp, succ, nst >>

U24(self) == /\ pc[self] = "U24"
             /\ IF prevp[self] = pred[self] /\ prevf[self] = 1
                   THEN /\ pc' = [pc EXCEPT ![self] = "U24"]
                   ELSE /\ pc' = [pc EXCEPT ![self] = "U25"]
             /\ UNCHANGED << tailp, tailf, prevp, prevf, nextp, nextf, st, 
                             going, il, wr, rd, res, entry, granted, wepoch, 
                             ustart, fifoBad, upBad, i, op, pred, predf, ps, 
                             old, nx, tmpf, tp, succ, nst >>

U25(self) == /\ pc[self] = "U25"
             /\ il' = [il EXCEPT ![pred[self]] = 0]
             /\ pc' = [pc EXCEPT ![self] = "U29x"]
             /\ UNCHANGED << tailp, tailf, prevp, prevf, nextp, nextf, st, 
                             going, wr, rd, res, entry, granted, wepoch, 
                             ustart, fifoBad, upBad, i, op, pred, predf, ps, 
                             old, nx, tmpf, tp, succ, nst >>

U26(self) == /\ pc[self] = "U26"
             /\ prevp' = [prevp EXCEPT ![self] = pred[self]]
             /\ prevf' = [prevf EXCEPT ![self] = 0]
             /\ pc' = [pc EXCEPT ![self] = "U27"]
             /\ UNCHANGED << tailp, tailf, nextp, nextf, st, going, il, wr, rd, 
                             res, entry, granted, wepoch, ustart, fifoBad, 
                             upBad, i, op, pred, predf, ps, old, nx, tmpf, tp, 
                             succ, nst >>

U27(self) == /\ pc[self] = "U27"
             /\ il' = [il EXCEPT ![pred[self]] = 0]
             /\ pc' = [pc EXCEPT ![self] = "U28"]
             /\ UNCHANGED << tailp, tailf, prevp, prevf, nextp, nextf, st, 
                             going, wr, rd, res, entry, granted, wepoch, 
                             ustart, fifoBad, upBad, i, op, pred, predf, ps, 
                             old, nx, tmpf, tp, succ, nst >>

U28(self) == /\ pc[self] = "U28"
             /\ IF prevp[self] = pred[self] /\ prevf[self] = 0
                   THEN /\ pc' = [pc EXCEPT ![self] = "U28"]
                   ELSE /\ pc' = [pc EXCEPT ![self] = "U29"]
             /\ UNCHANGED << tailp, tailf, prevp, prevf, nextp, nextf, st, 
                             going, il, wr, rd, res, entry, granted, wepoch, 
                             ustart, fifoBad, upBad, i, op, pred, predf, ps, 
                             old, nx, tmpf, tp, succ, nst >>

U29(self) == /\ pc[self] = "U29"
             /\ pred' = [pred EXCEPT ![self] = prevp[self]]
             /\ pc' = [pc EXCEPT ![self] = "U29x"]
             /\ UNCHANGED << tailp, tailf, prevp, prevf, nextp, nextf, st, 
                             going, il, wr, rd, res, entry, granted, wepoch, 
                             ustart, fifoBad, upBad, i, op, predf, ps, old, nx, 
                             tmpf, tp, succ, nst >>

U29x(self) == /\ pc[self] = "U29x"
              /\ IF pred[self] # 0
                    THEN /\ pc' = [pc EXCEPT ![self] = "U17"]
                    ELSE /\ pc' = [pc EXCEPT ![self] = "U31"]
              /\ UNCHANGED << tailp, tailf, prevp, prevf, nextp, nextf, st, 
                              going, il, wr, rd, res, entry, granted, wepoch, 
                              ustart, fifoBad, upBad, i, op, pred, predf, ps, 
                              old, nx, tmpf, tp, succ, nst >>

U30(self) == /\ pc[self] = "U30"
             /\ prevp' = [prevp EXCEPT ![self] = 0]
             /\ prevf' = [prevf EXCEPT ![self] = 0]
             /\ pc' = [pc EXCEPT ![self] = "U31"]
             /\ UNCHANGED << tailp, tailf, nextp, nextf, st, going, il, wr, rd, 
                             res, entry, granted, wepoch, ustart, fifoBad, 
                             upBad, i, op, pred, predf, ps, old, nx, tmpf, tp, 
                             succ, nst >>

U31(self) == /\ pc[self] = "U31"
             /\ IF il[self] = 0
                   THEN /\ pc' = [pc EXCEPT ![self] = "U32"]
                   ELSE /\ pc' = [pc EXCEPT ![self] = "U31"]
             /\ UNCHANGED << tailp, tailf, prevp, prevf, nextp, nextf, st, 
                             going, il, wr, rd, res, entry, granted, wepoch, 
                             ustart, fifoBad, upBad, i, op, pred, predf, ps, 
                             old, nx, tmpf, tp, succ, nst >>

U32(self) == /\ pc[self] = "U32"
             /\ IF going[self] = 2
                   THEN /\ pc' = [pc EXCEPT ![self] = "U32"]
                   ELSE /\ pc' = [pc EXCEPT ![self] = "U33"]
             /\ UNCHANGED << tailp, tailf, prevp, prevf, nextp, nextf, st, 
                             going, il, wr, rd, res, entry, granted, wepoch, 
                             ustart, fifoBad, upBad, i, op, pred, predf, ps, 
                             old, nx, tmpf, tp, succ, nst >>

U33(self) == /\ pc[self] = "U33"
             /\ res' = [res EXCEPT ![self] = IF st[self] # ULOSER THEN "true" ELSE "false"]
             /\ pc' = [pc EXCEPT ![self] = "U34"]
             /\ UNCHANGED << tailp, tailf, prevp, prevf, nextp, nextf, st, 
                             going, il, wr, rd, entry, granted, wepoch, ustart, 
                             fifoBad, upBad, i, op, pred, predf, ps, old, nx, 
                             tmpf, tp, succ, nst >>

U34(self) == /\ pc[self] = "U34"
             /\ st' = [st EXCEPT ![self] = W]
             /\ wr' = (wr \cup {self})
             /\ upBad' = (upBad \/ (res[self] = "true" /\ wepoch # ustart[self]))
             /\ wepoch' = wepoch + 1
             /\ pc' = [pc EXCEPT ![self] = "U35"]
             /\ UNCHANGED << tailp, tailf, prevp, prevf, nextp, nextf, going, 
                             il, rd, res, entry, granted, ustart, fifoBad, i, 
                             op, pred, predf, ps, old, nx, tmpf, tp, succ, nst >>

U35(self) == /\ pc[self] = "U35"
             /\ going' = [going EXCEPT ![self] = 1]
             /\ pc' = [pc EXCEPT ![self] = "Fin"]
             /\ UNCHANGED << tailp, tailf, prevp, prevf, nextp, nextf, st, il, 
                             wr, rd, res, entry, granted, wepoch, ustart, 
                             fifoBad, upBad, i, op, pred, predf, ps, old, nx, 
                             tmpf, tp, succ, nst >>

Fin(self) == /\ pc[self] = "Fin"
             /\ TRUE
             /\ pc' = [pc EXCEPT ![self] = "Fin2"]
             /\ UNCHANGED << tailp, tailf, prevp, prevf, nextp, nextf, st, 
                             going, il, wr, rd, res, entry, granted, wepoch, 
                             ustart, fifoBad, upBad, i, op, pred, predf, ps, 
                             old, nx, tmpf, tp, succ, nst >>

Fin2(self) == /\ pc[self] = "Fin2"
              /\ i' = [i EXCEPT ![self] = i[self] + 1]
              /\ pc' = [pc EXCEPT ![self] = "Loop"]
              /\ UNCHANGED << tailp, tailf, prevp, prevf, nextp, nextf, st, 
                              going, il, wr, rd, res, entry, granted, wepoch, 
                              ustart, fifoBad, upBad, op, pred, predf, ps, old, 
                              nx, tmpf, tp, succ, nst >>

t(self) == Loop(self) \/ A1(self) \/ A2w(self) \/ A3w(self) \/ A2r(self)
              \/ A3r(self) \/ A4r(self) \/ A5r(self) \/ A6r(self)
              \/ A7r(self) \/ A8r(self) \/ A9r(self) \/ A10r(self)
              \/ A11r(self) \/ A12r(self) \/ T0(self) \/ T1(self)
              \/ R0(self) \/ Rw1(self) \/ Rw2(self) \/ Rw3(self)
              \/ Rw4(self) \/ Rw5(self) \/ Rw6(self) \/ Rw7(self)
              \/ Rw8(self) \/ Rw9(self) \/ Rw10(self) \/ Rw11w(self)
              \/ Rw11r(self) \/ Rw12(self) \/ Rw13(self) \/ Rr1(self)
              \/ Rr2(self) \/ Rr3(self) \/ Rr4(self) \/ Rr5(self)
              \/ Rr6(self) \/ Rr7(self) \/ Rr8(self) \/ Rr9(self)
              \/ Rr10(self) \/ Rr11(self) \/ Rr12(self) \/ Rr13a(self)
              \/ Rr13(self) \/ Rr14(self) \/ Rr15(self) \/ Rr16(self)
              \/ Rr17(self) \/ Rr18(self) \/ Rr19(self) \/ Rr20(self)
              \/ Rr21(self) \/ Rr22(self) \/ Rr23(self) \/ Rr23w(self)
              \/ Rr23r(self) \/ D1(self) \/ D2(self) \/ Dg0(self)
              \/ Dg1(self) \/ Dg2(self) \/ Dg3(self) \/ Dg4(self)
              \/ Dg5(self) \/ Dg6(self) \/ Dg7(self) \/ Dg8(self)
              \/ Dg9(self) \/ Dg10(self) \/ Dg11(self) \/ U0(self)
              \/ U1(self) \/ U2(self) \/ U3(self) \/ U4(self) \/ U5(self)
              \/ U6(self) \/ U7(self) \/ U8(self) \/ U9w(self) \/ U9r(self)
              \/ U9x(self) \/ U10(self) \/ U11(self) \/ U12(self)
              \/ U13(self) \/ U14(self) \/ U15(self) \/ U16(self)
              \/ U17(self) \/ U18(self) \/ U19(self) \/ U20(self)
              \/ U21(self) \/ U22(self) \/ U23(self) \/ U24(self)
              \/ U25(self) \/ U26(self) \/ U27(self) \/ U28(self)
              \/ U29(self) \/ U29x(self) \/ U30(self) \/ U31(self)
              \/ U32(self) \/ U33(self) \/ U34(self) \/ U35(self)
              \/ Fin(self) \/ Fin2(self)

(* Allow infinite stuttering to prevent deadlock on termination. *)
Terminating == /\ \A self \in ProcSet: pc[self] = "Done"
               /\ UNCHANGED vars

Next == (\E self \in Nodes: t(self))
           \/ Terminating

Spec == Init /\ [][Next]_vars

Termination == <>(\A self \in ProcSet: pc[self] = "Done")

\* END TRANSLATION
Mutex == /\ Cardinality(wr) <= 1 /\ (wr # {} => rd = {})
Fifo == ~fifoBad
UpgradeTruth == ~upBad
====
