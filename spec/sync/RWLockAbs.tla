----------------------------- MODULE RWLockAbs -----------------------------
(***************************************************************************)
(* Abstract specification of property C08: what every oneTBB mutex          *)
(* (spin_mutex, queuing_mutex, mutex, spin_rw_mutex, queuing_rw_mutex,      *)
(* rw_mutex, speculative variants) promises, as a state machine over        *)
(* observable events.  The protocol specs (SpinMutex, SpinRW, QueuingMutex, *)
(* QueuingRW, RWMutex) refine it; recorded executions of the real locks are *)
(* validated against it by TraceRWLock.                                     *)
(*                                                                          *)
(*   writer   the thread holding the lock exclusively, 0 if none            *)
(*   readers  threads holding it shared                                     *)
(*   upg      threads inside upgrade_to_writer (between call and return)    *)
(*   upgRel   those of upg that already gave up their read lock (the        *)
(*            "released and re-acquired" path: upgrade must then say false) *)
(*   dng      threads inside downgrade_to_reader not yet linearized         *)
(*   queue    blocking acquire requests in queue-entry order (queuing locks)*)
(*   ver      number of writer sections begun; a plain counter the writers  *)
(*            bump and every holder reads - visibility of critical sections *)
(***************************************************************************)
EXTENDS Naturals, Sequences, FiniteSets
CONSTANT Threads
VARIABLES writer, readers, upg, upgRel, dng, queue, ver
avars == <<writer, readers, upg, upgRel, dng, queue, ver>>

AInit == /\ writer = 0 /\ readers = {} /\ upg = {} /\ upgRel = {} /\ dng = {}
         /\ queue = <<>> /\ ver = 0

Conflicts(m1, m2) == m1 = "W" \/ m2 = "W"
InQueue(t) == \E i \in 1..Len(queue) : queue[i].t = t
PosOf(t) == CHOOSE i \in 1..Len(queue) : queue[i].t = t
\* a queued request never overtakes an earlier queued conflicting request
NoOvertake(t, m) == InQueue(t) => \A i \in 1..(PosOf(t) - 1) : ~Conflicts(queue[i].m, m)
Dequeue(t) == IF InQueue(t) THEN SelectSeq(queue, LAMBDA e : e.t # t) ELSE queue

\* queue entry of a blocking acquire (the tail exchange of a queuing lock)
Enq(t, m) == /\ ~InQueue(t)
             /\ queue' = Append(queue, [t |-> t, m |-> m])
             /\ UNCHANGED <<writer, readers, upg, upgRel, dng, ver>>

\* acquisition (blocking or successful try); d = the counter value the new holder observed
AcqW(t, d) == /\ writer = 0 /\ readers = {} /\ t \notin upg
              /\ NoOvertake(t, "W")
              /\ d = ver
              /\ writer' = t /\ ver' = ver + 1 /\ queue' = Dequeue(t)
              /\ UNCHANGED <<readers, upg, upgRel, dng>>
AcqR(t, d) == /\ writer = 0 /\ t \notin readers /\ t \notin upg
              /\ NoOvertake(t, "R")
              /\ d = ver
              /\ readers' = readers \cup {t} /\ queue' = Dequeue(t)
              /\ UNCHANGED <<writer, upg, upgRel, dng, ver>>
\* a failed try-acquire changes nothing (it only must return: "never blocks" is the Stuck oracle)
TryFail(t) == /\ t # writer /\ t \notin readers /\ UNCHANGED avars

Rel(t) == /\ \/ /\ writer = t /\ writer' = 0 /\ UNCHANGED readers
             \/ /\ t \in readers /\ writer # t /\ readers' = readers \ {t} /\ UNCHANGED writer
          /\ t \notin upg /\ t \notin dng
          /\ UNCHANGED <<upg, upgRel, dng, queue, ver>>

UpBegin(t) == /\ t \in readers /\ t \notin upg /\ upg' = upg \cup {t}
              /\ UNCHANGED <<writer, readers, upgRel, dng, queue, ver>>
\* internal: the upgrader gives up its read lock (it will have to answer false)
UpRelease(t) == /\ t \in upg /\ t \notin upgRel /\ t \in readers
                /\ readers' = readers \ {t} /\ upgRel' = upgRel \cup {t}
                /\ UNCHANGED <<writer, upg, dng, queue, ver>>
\* upgrade returned ok: TRUE only if the read lock was held throughout, so no writer could run in between
UpEnd(t, ok, d) ==
    /\ t \in upg /\ writer = 0 /\ d = ver
    /\ IF ok THEN t \notin upgRel /\ readers = {t}
             ELSE readers \ {t} = {}          \* FALSE is always allowed (4.x): released or not, it now holds exclusively
    /\ writer' = t /\ readers' = {} /\ upg' = upg \ {t} /\ upgRel' = upgRel \ {t} /\ ver' = ver + 1
    /\ UNCHANGED <<dng, queue>>

DnBegin(t) == /\ writer = t /\ t \notin dng /\ dng' = dng \cup {t}
              /\ UNCHANGED <<writer, readers, upg, upgRel, queue, ver>>
\* internal: the atomic writer -> reader switch; no writer can slip in
DnLin(t) == /\ t \in dng /\ writer = t
            /\ writer' = 0 /\ readers' = readers \cup {t}
            /\ UNCHANGED <<upg, upgRel, dng, queue, ver>>
DnEnd(t) == /\ t \in dng /\ t \in readers /\ writer # t /\ dng' = dng \ {t}
            /\ UNCHANGED <<writer, readers, upg, upgRel, queue, ver>>

ANext == \E t \in Threads :
            \/ \E m \in {"W", "R"} : Enq(t, m)
            \/ \E d \in {ver} : AcqW(t, d) \/ AcqR(t, d)
            \/ TryFail(t) \/ Rel(t) \/ UpBegin(t) \/ UpRelease(t)
            \/ \E ok \in BOOLEAN : UpEnd(t, ok, ver)
            \/ DnBegin(t) \/ DnLin(t) \/ DnEnd(t)
ASpec == AInit /\ [][ANext]_avars

\* the safety core of C08
Exclusion == /\ (writer # 0 => readers = {})
             /\ writer \in Threads \cup {0}
=============================================================================
