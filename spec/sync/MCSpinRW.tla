---- MODULE MCSpinRW ----
EXTENDS SpinRW
\* two readers that both upgrade + a writer (the concurrent-upgrade scenario of C08)
ProgUp == (1 :> <<"lock_shared","upgrade","rel">>) @@ (2 :> <<"lock_shared","upgrade","rel">>) @@ (3 :> <<"lock","rel">>)
\* try operations and downgrade
ProgTry == (1 :> <<"try_lock","downgrade","rel">>) @@ (2 :> <<"try_lock_shared","upgrade","rel">>) @@ (3 :> <<"lock","downgrade","rel">>)
\* thorough: 3 ops each incl. re-acquisition
ProgBig == (1 :> <<"lock_shared","upgrade","downgrade","rel">>) @@ (2 :> <<"try_lock_shared","upgrade","rel","lock","rel">>) @@ (3 :> <<"lock","rel","lock_shared","rel">>)
====
