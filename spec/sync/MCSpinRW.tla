---- MODULE MCSpinRW ----
EXTENDS SpinRW
\* two readers that both upgrade + a writer (the concurrent-upgrade scenario of C08)
ProgUp == (1 :> <<"lock_shared","upgrade","rel">>) @@ (2 :> <<"lock_shared","upgrade","rel">>) @@ (3 :> <<"lock","rel">>)
\* try operations and downgrade
ProgTry == (1 :> <<"try_lock","downgrade","rel">>) @@ (2 :> <<"try_lock_shared","upgrade","rel">>) @@ (3 :> <<"lock","downgrade","rel">>)
\* thorough: 3 ops each incl. re-acquisition
\* try_lock_shared racing a writer's acquisition (two try readers + one writer) and racing an upgrade of the only reader
ProgTryA == (1 :> <<"try_lock_shared","rel">>) @@ (2 :> <<"try_lock_shared","rel">>) @@ (3 :> <<"lock","rel">>)
ProgTryB == (1 :> <<"lock_shared","upgrade","rel">>) @@ (2 :> <<"try_lock_shared","rel">>) @@ (3 :> <<"try_lock_shared","rel">>)
ProgBig == (1 :> <<"lock_shared","upgrade","downgrade","rel">>) @@ (2 :> <<"try_lock_shared","upgrade","rel","lock","rel">>) @@ (3 :> <<"lock","rel","lock_shared","rel">>)
====
