---- MODULE MCSpinMutex ----
EXTENDS SpinMutex
Prog3 == (1 :> <<"lock","rel","try_lock","rel">>) @@ (2 :> <<"try_lock","rel","lock","rel">>) @@ (3 :> <<"lock","rel">>)
Prog4 == (1 :> <<"lock","rel","lock","rel">>) @@ (2 :> <<"try_lock","rel","lock","rel">>) @@ (3 :> <<"lock","rel","try_lock","rel">>) @@ (4 :> <<"lock","rel">>)
====
