----------------------------- MODULE QueuingMutex -----------------------------
(* tbb::queuing_mutex::scoped_lock (include/oneapi/tbb/queuing_mutex.h).  Node t belongs to thread t; pointers  *)
(* are node ids (0 = null).  One label per atomic access to q_tail / m_next / m_going.                          *)
(* Ghost: held, order (queue-entry order of the requests not yet released) - FIFO clause of C08.                *)
EXTENDS Naturals, Sequences, FiniteSets, TLC
CONSTANTS Threads, Prog
(* --algorithm queuingmutex {
  variables tail = 0, next = [t \in Threads |-> 0], going = [t \in Threads |-> 0],
            held = [t \in Threads |-> "N"], res = [t \in Threads |-> "na"], order = <<>>, fifoBad = FALSE;
  process (thr \in Threads)
    variables i = 1, op = "", pred = 0, nx = 0;
  {
  Loop: while (i <= Len(Prog[self])) {
      op := Prog[self][i];
      if (op = "lock") { goto A_next }
      else if (op = "try_lock") { goto T_next }
      else { if (held[self] = "W") { goto R_load } else { goto Fin } };
    \* ---- acquire
    A_next: next[self] := 0;                                         \* m_next.store(nullptr, relaxed)
    A_going: going[self] := 0;                                       \* m_going.store(0, relaxed)
    A_xchg: pred := tail; tail := self; order := Append(order, self);\* pred = q_tail.exchange(this)   <- queue entry
      if (pred = 0) { held[self] := "W"; fifoBad := fifoBad \/ Head(order) # self; goto Fin } else { goto A_link };
    A_link: next[pred] := self;                                      \* pred->m_next.store(this, release)
    A_spin: if (going[self] = 0) { goto A_spin }                     \* spin_wait_while_eq(m_going, 0)
            else { held[self] := "W"; fifoBad := fifoBad \/ Head(order) # self; goto Fin };
    \* ---- try_acquire
    T_next: next[self] := 0;
    T_going: going[self] := 0;
    T_cas: if (tail = 0) { tail := self; order := Append(order, self); held[self] := "W"; res[self] := "ok";
                           fifoBad := fifoBad \/ Head(order) # self }
           else { res[self] := "fail" };
           goto Fin;
    \* ---- release
    R_load: nx := next[self];                                        \* m_next.load(relaxed) == nullptr ?
      if (nx = 0) { goto R_cas } else { goto R_load2 };
    R_cas: if (tail = self) { tail := 0; held[self] := "N"; order := Tail(order); goto Fin }   \* q_tail.CAS(this, nullptr)
           else { goto R_spin };
    R_spin: if (next[self] = 0) { goto R_spin } else { goto R_load2 }; \* spin_wait_while_eq(m_next, nullptr)
    R_load2: nx := next[self];                                       \* m_next.load(acquire)
    R_go: going[nx] := 1; held[self] := "N"; order := Tail(order);   \* ->m_going.store(1, release)
    Fin: i := i + 1;
    }
  }
} *)
\* BEGIN TRANSLATION
VARIABLES pc, tail, next, going, held, res, order, fifoBad, i, op, pred, nx

vars == << pc, tail, next, going, held, res, order, fifoBad, i, op, pred, nx
        >>

ProcSet == (Threads)

Init == (* Global variables *)
        /\ tail = 0
        /\ next = [t \in Threads |-> 0]
        /\ going = [t \in Threads |-> 0]
        /\ held = [t \in Threads |-> "N"]
        /\ res = [t \in Threads |-> "na"]
        /\ order = <<>>
        /\ fifoBad = FALSE
        (* Process thr *)
        /\ i = [self \in Threads |-> 1]
        /\ op = [self \in Threads |-> ""]
        /\ pred = [self \in Threads |-> 0]
        /\ nx = [self \in Threads |-> 0]
        /\ pc = [self \in ProcSet |-> "Loop"]

Loop(self) == /\ pc[self] = "Loop"
              /\ IF i[self] <= Len(Prog[self])
                    THEN /\ op' = [op EXCEPT ![self] = Prog[self][i[self]]]
                         /\ IF op'[self] = "lock"
                               THEN /\ pc' = [pc EXCEPT ![self] = "A_next"]
                               ELSE /\ IF op'[self] = "try_lock"
                                          THEN /\ pc' = [pc EXCEPT ![self] = "T_next"]
                                          ELSE /\ IF held[self] = "W"
                                                     THEN /\ pc' = [pc EXCEPT ![self] = "R_load"]
                                                     ELSE /\ pc' = [pc EXCEPT ![self] = "Fin"]
                    ELSE /\ pc' = [pc EXCEPT ![self] = "Done"]
                         /\ op' = op
              /\ UNCHANGED << tail, next, going, held, res, order, fifoBad, i, 
                              pred, nx >>

A_next(self) == /\ pc[self] = "A_next"
                /\ next' = [next EXCEPT ![self] = 0]
                /\ pc' = [pc EXCEPT ![self] = "A_going"]
                /\ UNCHANGED << tail, going, held, res, order, fifoBad, i, op, 
                                pred, nx >>

A_going(self) == /\ pc[self] = "A_going"
                 /\ going' = [going EXCEPT ![self] = 0]
                 /\ pc' = [pc EXCEPT ![self] = "A_xchg"]
                 /\ UNCHANGED << tail, next, held, res, order, fifoBad, i, op, 
                                 pred, nx >>

A_xchg(self) == /\ pc[self] = "A_xchg"
                /\ pred' = [pred EXCEPT ![self] = tail]
                /\ tail' = self
                /\ order' = Append(order, self)
                /\ IF pred'[self] = 0
                      THEN /\ held' = [held EXCEPT ![self] = "W"]
                           /\ fifoBad' = (fifoBad \/ Head(order') # self)
                           /\ pc' = [pc EXCEPT ![self] = "Fin"]
                      ELSE /\ pc' = [pc EXCEPT ![self] = "A_link"]
                           /\ UNCHANGED << held, fifoBad >>
                /\ UNCHANGED << next, going, res, i, op, nx >>

A_link(self) == /\ pc[self] = "A_link"
                /\ next' = [next EXCEPT ![pred[self]] = self]
                /\ pc' = [pc EXCEPT ![self] = "A_spin"]
                /\ UNCHANGED << tail, going, held, res, order, fifoBad, i, op, 
                                pred, nx >>

A_spin(self) == /\ pc[self] = "A_spin"
                /\ IF going[self] = 0
                      THEN /\ pc' = [pc EXCEPT ![self] = "A_spin"]
                           /\ UNCHANGED << held, fifoBad >>
                      ELSE /\ held' = [held EXCEPT ![self] = "W"]
                           /\ fifoBad' = (fifoBad \/ Head(order) # self)
                           /\ pc' = [pc EXCEPT ![self] = "Fin"]
                /\ UNCHANGED << tail, next, going, res, order, i, op, pred, nx >>

T_next(self) == /\ pc[self] = "T_next"
                /\ next' = [next EXCEPT ![self] = 0]
                /\ pc' = [pc EXCEPT ![self] = "T_going"]
                /\ UNCHANGED << tail, going, held, res, order, fifoBad, i, op, 
                                pred, nx >>

T_going(self) == /\ pc[self] = "T_going"
                 /\ going' = [going EXCEPT ![self] = 0]
                 /\ pc' = [pc EXCEPT ![self] = "T_cas"]
                 /\ UNCHANGED << tail, next, held, res, order, fifoBad, i, op, 
                                 pred, nx >>

T_cas(self) == /\ pc[self] = "T_cas"
               /\ IF tail = 0
                     THEN /\ tail' = self
                          /\ order' = Append(order, self)
                          /\ held' = [held EXCEPT ![self] = "W"]
                          /\ res' = [res EXCEPT ![self] = "ok"]
                          /\ fifoBad' = (fifoBad \/ Head(order') # self)
                     ELSE /\ res' = [res EXCEPT ![self] = "fail"]
                          /\ UNCHANGED << tail, held, order, fifoBad >>
               /\ pc' = [pc EXCEPT ![self] = "Fin"]
               /\ UNCHANGED << next, going, i, op, pred, nx >>

R_load(self) == /\ pc[self] = "R_load"
                /\ nx' = [nx EXCEPT ![self] = next[self]]
                /\ IF nx'[self] = 0
                      THEN /\ pc' = [pc EXCEPT ![self] = "R_cas"]
                      ELSE /\ pc' = [pc EXCEPT ![self] = "R_load2"]
                /\ UNCHANGED << tail, next, going, held, res, order, fifoBad, 
                                i, op, pred >>

R_cas(self) == /\ pc[self] = "R_cas"
               /\ IF tail = self
                     THEN /\ tail' = 0
                          /\ held' = [held EXCEPT ![self] = "N"]
                          /\ order' = Tail(order)
                          /\ pc' = [pc EXCEPT ![self] = "Fin"]
                     ELSE /\ pc' = [pc EXCEPT ![self] = "R_spin"]
                          /\ UNCHANGED << tail, held, order >>
               /\ UNCHANGED << next, going, res, fifoBad, i, op, pred, nx >>

R_spin(self) == /\ pc[self] = "R_spin"
                /\ IF next[self] = 0
                      THEN /\ pc' = [pc EXCEPT ![self] = "R_spin"]
                      ELSE /\ pc' = [pc EXCEPT ![self] = "R_load2"]
                /\ UNCHANGED << tail, next, going, held, res, order, fifoBad, 
                                i, op, pred, nx >>

R_load2(self) == /\ pc[self] = "R_load2"
                 /\ nx' = [nx EXCEPT ![self] = next[self]]
                 /\ pc' = [pc EXCEPT ![self] = "R_go"]
                 /\ UNCHANGED << tail, next, going, held, res, order, fifoBad, 
                                 i, op, pred >>

R_go(self) == /\ pc[self] = "R_go"
              /\ going' = [going EXCEPT ![nx[self]] = 1]
              /\ held' = [held EXCEPT ![self] = "N"]
              /\ order' = Tail(order)
              /\ pc' = [pc EXCEPT ![self] = "Fin"]
              /\ UNCHANGED << tail, next, res, fifoBad, i, op, pred, nx >>

Fin(self) == /\ pc[self] = "Fin"
             /\ i' = [i EXCEPT ![self] = i[self] + 1]
             /\ pc' = [pc EXCEPT ![self] = "Loop"]
             /\ UNCHANGED << tail, next, going, held, res, order, fifoBad, op, 
                             pred, nx >>

thr(self) == Loop(self) \/ A_next(self) \/ A_going(self) \/ A_xchg(self)
                \/ A_link(self) \/ A_spin(self) \/ T_next(self)
                \/ T_going(self) \/ T_cas(self) \/ R_load(self)
                \/ R_cas(self) \/ R_spin(self) \/ R_load2(self)
                \/ R_go(self) \/ Fin(self)

(* Allow infinite stuttering to prevent deadlock on termination. *)
Terminating == /\ \A self \in ProcSet: pc[self] = "Done"
               /\ UNCHANGED vars

Next == (\E self \in Threads: thr(self))
           \/ Terminating

Spec == Init /\ [][Next]_vars

Termination == <>(\A self \in ProcSet: pc[self] = "Done")

\* END TRANSLATION
Holders == {t \in Threads : held[t] = "W"}
Mutex == Cardinality(Holders) <= 1
\* blocking requests are served in queue-entry order
FIFO == ~fifoBad
AllDone == \A t \in Threads : pc[t] = "Done"
Quiescent == AllDone => tail = 0
=============================================================================
