SPECIFICATION Spec
CONSTANT Threads = {1,2,3}
CONSTANT Prog <- ProgUp
INVARIANT Mutex
INVARIANT WordOK
INVARIANT Quiescent
CHECK_DEADLOCK FALSE
