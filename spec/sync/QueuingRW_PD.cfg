SPECIFICATION Spec
CONSTANT N = 3
CONSTANT Prog <- PD
INVARIANT Mutex
INVARIANT Fifo
INVARIANT UpgradeTruth
