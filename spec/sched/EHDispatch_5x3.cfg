SPECIFICATION Spec
CONSTANT Tasks = {1,2,3,4,5}
CONSTANT Workers = {11,12,13}
INVARIANT OneOfThrown
INVARIANT NoLiveAtExit
INVARIANT ExactlyOnce
INVARIANT Reusable
