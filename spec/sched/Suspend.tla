---- MODULE Suspend ----
\* tbb::task::suspend / resume hand-shake: suspend_point_type::m_stack_state (active/suspended/notified),
\* finilize_resume on the new stack, try_notify_resume in r1::resume, resume task pushed to the resume stream,
\* any thread taking the resume task and switching to the suspended stack. (scheduler_common.h:359-434, task.cpp:47-197)
EXTENDS Integers, Sequences, FiniteSets, TLC
CONSTANTS Resumers, DOUBLE_RESUME      \* DOUBLE_RESUME: user error probe (must break the property if TRUE)
(* --algorithm suspend {
  variables st = "A",              \* m_stack_state of the suspended task's stack
            spPublished = FALSE,   \* the callback handed the suspend point to the resumers
            stream = 0,            \* number of resume tasks in my_resume_task_stream for this point
            pushes = 0, continued = 0, resumeCalled = FALSE, leftStack = FALSE;
  \* the thread that executes the task which suspends; afterwards it keeps dispatching (can take the resume task)
  process (S = "S")
    variables old = "";
  {
    s0: spPublished := TRUE;                       \* suspend_callback(user_callback, get_suspend_point())  -- on the old stack
    s1: leftStack := TRUE;                         \* internal_suspend: co-routine switch to another stack
    s2: old := st; st := "S";                      \* finilize_resume on the NEW stack: prev->m_stack_state.exchange(suspended)
        if (old = "N") { goto s3 } else { goto disp };
    s3: old := st; st := "N";                      \* r1::resume(prev): try_notify_resume = exchange(notified) == suspended
        if (old = "S") { goto s4 } else { goto disp };
    s4: stream := stream + 1; pushes := pushes + 1;   \* push resume task + advertise
    disp: while (TRUE) {                           \* dispatch loop: may execute the resume task
            await stream > 0; stream := stream - 1;
      d1:   st := "A"; continued := continued + 1;     \* switch to the suspended stack: finilize_resume there: store(active)
          }
  }
  process (r \in Resumers)
    variables o = "";
  {
    r0: await spPublished;
    r1: resumeCalled := TRUE; o := st; st := "N";  \* r1::resume: m_stack_state.exchange(notified)
        if (o = "S") { goto r2 } else { goto rDone };
    r2: stream := stream + 1; pushes := pushes + 1;
    rDone: skip;
  }
  \* another dispatching thread that may also pick up the resume task
  process (W = "W") {
    w0: while (TRUE) { await stream > 0; stream := stream - 1;
    w1:   st := "A"; continued := continued + 1 }
  }
} *)
\* BEGIN TRANSLATION
VARIABLES pc, st, spPublished, stream, pushes, continued, resumeCalled, 
          leftStack, old, o

vars == << pc, st, spPublished, stream, pushes, continued, resumeCalled, 
           leftStack, old, o >>

ProcSet == {"S"} \cup (Resumers) \cup {"W"}

Init == (* Global variables *)
        /\ st = "A"
        /\ spPublished = FALSE
        /\ stream = 0
        /\ pushes = 0
        /\ continued = 0
        /\ resumeCalled = FALSE
        /\ leftStack = FALSE
        (* Process S *)
        /\ old = ""
        (* Process r *)
        /\ o = [self \in Resumers |-> ""]
        /\ pc = [self \in ProcSet |-> CASE self = "S" -> "s0"
                                        [] self \in Resumers -> "r0"
                                        [] self = "W" -> "w0"]

s0 == /\ pc["S"] = "s0"
      /\ spPublished' = TRUE
      /\ pc' = [pc EXCEPT !["S"] = "s1"]
      /\ UNCHANGED << st, stream, pushes, continued, resumeCalled, leftStack, 
                      old, o >>

s1 == /\ pc["S"] = "s1"
      /\ leftStack' = TRUE
      /\ pc' = [pc EXCEPT !["S"] = "s2"]
      /\ UNCHANGED << st, spPublished, stream, pushes, continued, resumeCalled, 
                      old, o >>

s2 == /\ pc["S"] = "s2"
      /\ old' = st
      /\ st' = "S"
      /\ IF old' = "N"
            THEN /\ pc' = [pc EXCEPT !["S"] = "s3"]
            ELSE /\ pc' = [pc EXCEPT !["S"] = "disp"]
      /\ UNCHANGED << spPublished, stream, pushes, continued, resumeCalled, 
                      leftStack, o >>

s3 == /\ pc["S"] = "s3"
      /\ old' = st
      /\ st' = "N"
      /\ IF old' = "S"
            THEN /\ pc' = [pc EXCEPT !["S"] = "s4"]
            ELSE /\ pc' = [pc EXCEPT !["S"] = "disp"]
      /\ UNCHANGED << spPublished, stream, pushes, continued, resumeCalled, 
                      leftStack, o >>

s4 == /\ pc["S"] = "s4"
      /\ stream' = stream + 1
      /\ pushes' = pushes + 1
      /\ pc' = [pc EXCEPT !["S"] = "disp"]
      /\ UNCHANGED << st, spPublished, continued, resumeCalled, leftStack, old, 
                      o >>

disp == /\ pc["S"] = "disp"
        /\ stream > 0
        /\ stream' = stream - 1
        /\ pc' = [pc EXCEPT !["S"] = "d1"]
        /\ UNCHANGED << st, spPublished, pushes, continued, resumeCalled, 
                        leftStack, old, o >>

d1 == /\ pc["S"] = "d1"
      /\ st' = "A"
      /\ continued' = continued + 1
      /\ pc' = [pc EXCEPT !["S"] = "disp"]
      /\ UNCHANGED << spPublished, stream, pushes, resumeCalled, leftStack, 
                      old, o >>

S == s0 \/ s1 \/ s2 \/ s3 \/ s4 \/ disp \/ d1

r0(self) == /\ pc[self] = "r0"
            /\ spPublished
            /\ pc' = [pc EXCEPT ![self] = "r1"]
            /\ UNCHANGED << st, spPublished, stream, pushes, continued, 
                            resumeCalled, leftStack, old, o >>

r1(self) == /\ pc[self] = "r1"
            /\ resumeCalled' = TRUE
            /\ o' = [o EXCEPT ![self] = st]
            /\ st' = "N"
            /\ IF o'[self] = "S"
                  THEN /\ pc' = [pc EXCEPT ![self] = "r2"]
                  ELSE /\ pc' = [pc EXCEPT ![self] = "rDone"]
            /\ UNCHANGED << spPublished, stream, pushes, continued, leftStack, 
                            old >>

r2(self) == /\ pc[self] = "r2"
            /\ stream' = stream + 1
            /\ pushes' = pushes + 1
            /\ pc' = [pc EXCEPT ![self] = "rDone"]
            /\ UNCHANGED << st, spPublished, continued, resumeCalled, 
                            leftStack, old, o >>

rDone(self) == /\ pc[self] = "rDone"
               /\ TRUE
               /\ pc' = [pc EXCEPT ![self] = "Done"]
               /\ UNCHANGED << st, spPublished, stream, pushes, continued, 
                               resumeCalled, leftStack, old, o >>

r(self) == r0(self) \/ r1(self) \/ r2(self) \/ rDone(self)

w0 == /\ pc["W"] = "w0"
      /\ stream > 0
      /\ stream' = stream - 1
      /\ pc' = [pc EXCEPT !["W"] = "w1"]
      /\ UNCHANGED << st, spPublished, pushes, continued, resumeCalled, 
                      leftStack, old, o >>

w1 == /\ pc["W"] = "w1"
      /\ st' = "A"
      /\ continued' = continued + 1
      /\ pc' = [pc EXCEPT !["W"] = "w0"]
      /\ UNCHANGED << spPublished, stream, pushes, resumeCalled, leftStack, 
                      old, o >>

W == w0 \/ w1

Next == S \/ W
           \/ (\E self \in Resumers: r(self))

Spec == Init /\ [][Next]_vars

\* END TRANSLATION
FairSpec == Spec /\ WF_vars(Next)
AtMostOnce == continued <= 1 /\ pushes <= 1
OnlyAfterResume == continued > 0 => resumeCalled
OnlyAfterLeaving == continued > 0 => leftStack
Eventually == <>(continued = 1)
====
