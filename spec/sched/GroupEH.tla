------------------------------- MODULE GroupEH -------------------------------
(***************************************************************************)
(* Abstract specification of property C03 over observable events of one     *)
(* library call that waits for a group of user callbacks (parallel_for,     *)
(* parallel_reduce, parallel_for_each, parallel_invoke, parallel_pipeline,  *)
(* task_group::wait, task_arena::execute, flow graph wait_for_all).         *)
(*   active  a call is in progress                                          *)
(*   live    user callback invocations that began and have not ended        *)
(*   thrown  exceptions thrown by callbacks of the call in progress         *)
(*   objs    library-created objects (copies / splits of the user's Body    *)
(*           and Range) currently alive;  dead: those already destroyed     *)
(* The call returns normally only if nothing was thrown; otherwise it       *)
(* throws exactly one of the thrown exceptions; in both cases no callback   *)
(* is running and none starts afterwards; the group is reusable (a second   *)
(* call); every library-created object is destroyed exactly once.           *)
(* Escaped / Terminate / Stuck / Crash events are consumed by no action.    *)
(***************************************************************************)
EXTENDS Integers, FiniteSets
VARIABLES active, live, thrown, objs, dead
evars == <<active, live, thrown, objs, dead>>
EInit == active = FALSE /\ live = {} /\ thrown = {} /\ objs = {} /\ dead = {}
Call == ~active /\ live = {} /\ active' = TRUE /\ thrown' = {} /\ UNCHANGED <<live, objs, dead>>
BodyBegin(i) == active /\ i \notin live /\ live' = live \cup {i} /\ UNCHANGED <<active, thrown, objs, dead>>
BodyEnd(i) == i \in live /\ live' = live \ {i} /\ UNCHANGED <<active, thrown, objs, dead>>
BodyThrow(i) == i \in live /\ live' = live \ {i} /\ thrown' = thrown \cup {i} /\ UNCHANGED <<active, objs, dead>>
Return == active /\ live = {} /\ thrown = {} /\ active' = FALSE /\ UNCHANGED <<live, thrown, objs, dead>>
Rethrow(x) == active /\ live = {} /\ x \in thrown /\ active' = FALSE /\ UNCHANGED <<live, thrown, objs, dead>>
Ctor(o) == o \notin objs /\ o \notin dead /\ objs' = objs \cup {o} /\ UNCHANGED <<active, live, thrown, dead>>
Dtor(o) == o \in objs /\ objs' = objs \ {o} /\ dead' = dead \cup {o} /\ UNCHANGED <<active, live, thrown>>
Quiesce == ~active /\ live = {} /\ objs = {} /\ UNCHANGED evars
=============================================================================
