SPECIFICATION Spec
CONSTANT Pushers = {1, 2}
CONSTANT Poppers = {3, 4}
CONSTANT NLanes = 2
CONSTANT PushN <- PN1
CONSTANT Specifics = {}
CONSTANT SpecN = 0
CONSTANT Tag <- TagN
CONSTANT Accessor = "front"
CONSTANT PopN = 1
INVARIANT NoDup
INVARIANT NoStrand
INVARIANT NoLoss
INVARIANT OnlyPushed
INVARIANT RightTag
CHECK_DEADLOCK FALSE
