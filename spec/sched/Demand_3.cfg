SPECIFICATION Spec
CONSTANT Updaters = {"a","b","c"}
CONSTANT Delta <- D3
CONSTANT Limit0 = 2
CONSTANT NewLimits <- L2
INVARIANT NoLostDelta
INVARIANT EstimateExact
INVARIANT NoOrphanDelta
