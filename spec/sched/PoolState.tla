---- MODULE PoolState ----
\* arena::my_pool_state (atomic_flag SET/UNSET/busy), advertise_new_work<work_enqueued>, out_of_work,
\* worker demand counter (arena::update_request total), enqueued-task stream (population abstracted to a count).
EXTENDS Integers, Sequences, FiniteSets, TLC
CONSTANTS Enq, Wrk, NTasks,     \* NTasks[e] = tasks enqueued by enqueuer e
          UNIQUE_BUSY,         \* fact probed from the running code: the busy marker of a clear transaction is unique per transaction
                               \* (the address of a local of try_clear_if); FALSE = one shared constant
          CLEAR_CHECKED,       \* fact probed from the running code (probe_publish): TRUE = the final step of a clear transaction is a CAS on the transaction's own busy
                               \* marker (it fails if a publisher aborted the transaction); FALSE = it stores UNSET unconditionally
          PUBLISH_GUARDED      \* fact probed from the running code (probe_publish): FALSE = a publisher (enqueue, task::resume) always runs test_and_set, which
                               \* aborts a clear transaction in flight (busy -> SET); TRUE = it acts only on an arena that looks empty (is_empty())
(* --algorithm poolstate {
  variables fifo = 0, flag = <<"U","-">>, demand = 0, executed = 0,
            inArena = [w \in Wrk |-> FALSE];
  define { Busy(w) == IF UNIQUE_BUSY THEN <<"B", w>> ELSE <<"B", "-">>  U == <<"U","-">>  S == <<"S","-">> }
  process (e \in Enq)
    variables n = 0, s = <<"U","-">>;
  {
  E0: while (n < NTasks[self]) {
    E1: fifo := fifo + 1;                               \* my_fifo_task_stream.push (lane mutex + set_one_bit RMW)
    E2: skip;                                           \* atomic_fence_seq_cst()
    E2g: if (PUBLISH_GUARDED) { s := flag; if (s # U) { goto E9 } };     \* if (a.is_empty()) ... : a busy marker counts as "not empty"
    E3: s := flag;                                      \* test_and_set(): load(acquire)
        if (s = S) { goto E9 } else if (s = U) { goto E5 } else { goto E4 };
    E4: if (flag = s) { flag := S; goto E9 }          \* CAS(busy -> SET): interrupted a clear transaction -> return false
        else { s := flag; if (s # U) { goto E9 } else { goto E5 } };
    E5: if (flag = U) { flag := S; goto E6 } else { goto E9 };   \* CAS(UNSET -> SET): true => workers needed
    E6: demand := demand + 1;                           \* request_workers(+max) under the market mutex
    E9: n := n + 1;
    }
  }
  process (w \in Wrk)
    variables st = <<"U","-">>, has = FALSE;
  {
  W0: while (TRUE) {
        await demand > 0 /\ ~inArena[self]; inArena[self] := TRUE;      \* dispatched by the thread dispatcher while demand>0
    W1: if (fifo > 0) { fifo := fifo - 1; executed := executed + 1; goto W1 } else { goto W2 };   \* get_stream_task + execute
    \* out_of_work(): my_pool_state.try_clear_if(!has_tasks())
    W2: st := flag;
        if (st = S) { goto W3 } else { goto W8 };
    W3: if (flag = S) { flag := Busy(self); goto W4 } else { goto W8 };
    W4: has := (fifo > 0);                              \* has_tasks(): relaxed loads of the population words
        if (~has) { goto W5 } else { goto W6 };
    W5: if (~CLEAR_CHECKED \/ flag = Busy(self)) { flag := U; goto W7 } else { goto W8 };
    W6: if (flag = Busy(self)) { flag := S }; goto W8;
    W7: demand := demand - 1;                           \* request_workers(-max)
    \* a worker keeps looping while the arena is not empty and it is not recalled; it leaves when recalled (demand = 0) or when there is nothing to do
    \* (is_worker_should_leave looks at the recall request and at the worker's own task pool only, not at the FIFO stream)
    W8: if (demand > 0 /\ fifo > 0) { goto W1 } else { inArena[self] := FALSE };
      }
  }
} *)
\* BEGIN TRANSLATION
VARIABLES pc, fifo, flag, demand, executed, inArena

(* define statement *)
Busy(w) == IF UNIQUE_BUSY THEN <<"B", w>> ELSE <<"B", "-">>  U == <<"U","-">>  S == <<"S","-">>

VARIABLES n, s, st, has

vars == << pc, fifo, flag, demand, executed, inArena, n, s, st, has >>

ProcSet == (Enq) \cup (Wrk)

Init == (* Global variables *)
        /\ fifo = 0
        /\ flag = <<"U","-">>
        /\ demand = 0
        /\ executed = 0
        /\ inArena = [w \in Wrk |-> FALSE]
        (* Process e *)
        /\ n = [self \in Enq |-> 0]
        /\ s = [self \in Enq |-> <<"U","-">>]
        (* Process w *)
        /\ st = [self \in Wrk |-> <<"U","-">>]
        /\ has = [self \in Wrk |-> FALSE]
        /\ pc = [self \in ProcSet |-> CASE self \in Enq -> "E0"
                                        [] self \in Wrk -> "W0"]

E0(self) == /\ pc[self] = "E0"
            /\ IF n[self] < NTasks[self]
                  THEN /\ pc' = [pc EXCEPT ![self] = "E1"]
                  ELSE /\ pc' = [pc EXCEPT ![self] = "Done"]
            /\ UNCHANGED << fifo, flag, demand, executed, inArena, n, s, st, 
                            has >>

E1(self) == /\ pc[self] = "E1"
            /\ fifo' = fifo + 1
            /\ pc' = [pc EXCEPT ![self] = "E2"]
            /\ UNCHANGED << flag, demand, executed, inArena, n, s, st, has >>

E2(self) == /\ pc[self] = "E2"
            /\ TRUE
            /\ pc' = [pc EXCEPT ![self] = "E2g"]
            /\ UNCHANGED << fifo, flag, demand, executed, inArena, n, s, st, 
                            has >>

E2g(self) == /\ pc[self] = "E2g"
             /\ IF PUBLISH_GUARDED
                   THEN /\ s' = [s EXCEPT ![self] = flag]
                        /\ IF s'[self] # U
                              THEN /\ pc' = [pc EXCEPT ![self] = "E9"]
                              ELSE /\ pc' = [pc EXCEPT ![self] = "E3"]
                   ELSE /\ pc' = [pc EXCEPT ![self] = "E3"]
                        /\ s' = s
             /\ UNCHANGED << fifo, flag, demand, executed, inArena, n, st, has >>

E3(self) == /\ pc[self] = "E3"
            /\ s' = [s EXCEPT ![self] = flag]
            /\ IF s'[self] = S
                  THEN /\ pc' = [pc EXCEPT ![self] = "E9"]
                  ELSE /\ IF s'[self] = U
                             THEN /\ pc' = [pc EXCEPT ![self] = "E5"]
                             ELSE /\ pc' = [pc EXCEPT ![self] = "E4"]
            /\ UNCHANGED << fifo, flag, demand, executed, inArena, n, st, has >>

E4(self) == /\ pc[self] = "E4"
            /\ IF flag = s[self]
                  THEN /\ flag' = S
                       /\ pc' = [pc EXCEPT ![self] = "E9"]
                       /\ s' = s
                  ELSE /\ s' = [s EXCEPT ![self] = flag]
                       /\ IF s'[self] # U
                             THEN /\ pc' = [pc EXCEPT ![self] = "E9"]
                             ELSE /\ pc' = [pc EXCEPT ![self] = "E5"]
                       /\ flag' = flag
            /\ UNCHANGED << fifo, demand, executed, inArena, n, st, has >>

E5(self) == /\ pc[self] = "E5"
            /\ IF flag = U
                  THEN /\ flag' = S
                       /\ pc' = [pc EXCEPT ![self] = "E6"]
                  ELSE /\ pc' = [pc EXCEPT ![self] = "E9"]
                       /\ flag' = flag
            /\ UNCHANGED << fifo, demand, executed, inArena, n, s, st, has >>

E6(self) == /\ pc[self] = "E6"
            /\ demand' = demand + 1
            /\ pc' = [pc EXCEPT ![self] = "E9"]
            /\ UNCHANGED << fifo, flag, executed, inArena, n, s, st, has >>

E9(self) == /\ pc[self] = "E9"
            /\ n' = [n EXCEPT ![self] = n[self] + 1]
            /\ pc' = [pc EXCEPT ![self] = "E0"]
            /\ UNCHANGED << fifo, flag, demand, executed, inArena, s, st, has >>

e(self) == E0(self) \/ E1(self) \/ E2(self) \/ E2g(self) \/ E3(self)
              \/ E4(self) \/ E5(self) \/ E6(self) \/ E9(self)

W0(self) == /\ pc[self] = "W0"
            /\ demand > 0 /\ ~inArena[self]
            /\ inArena' = [inArena EXCEPT ![self] = TRUE]
            /\ pc' = [pc EXCEPT ![self] = "W1"]
            /\ UNCHANGED << fifo, flag, demand, executed, n, s, st, has >>

W1(self) == /\ pc[self] = "W1"
            /\ IF fifo > 0
                  THEN /\ fifo' = fifo - 1
                       /\ executed' = executed + 1
                       /\ pc' = [pc EXCEPT ![self] = "W1"]
                  ELSE /\ pc' = [pc EXCEPT ![self] = "W2"]
                       /\ UNCHANGED << fifo, executed >>
            /\ UNCHANGED << flag, demand, inArena, n, s, st, has >>

W2(self) == /\ pc[self] = "W2"
            /\ st' = [st EXCEPT ![self] = flag]
            /\ IF st'[self] = S
                  THEN /\ pc' = [pc EXCEPT ![self] = "W3"]
                  ELSE /\ pc' = [pc EXCEPT ![self] = "W8"]
            /\ UNCHANGED << fifo, flag, demand, executed, inArena, n, s, has >>

W3(self) == /\ pc[self] = "W3"
            /\ IF flag = S
                  THEN /\ flag' = Busy(self)
                       /\ pc' = [pc EXCEPT ![self] = "W4"]
                  ELSE /\ pc' = [pc EXCEPT ![self] = "W8"]
                       /\ flag' = flag
            /\ UNCHANGED << fifo, demand, executed, inArena, n, s, st, has >>

W4(self) == /\ pc[self] = "W4"
            /\ has' = [has EXCEPT ![self] = (fifo > 0)]
            /\ IF ~has'[self]
                  THEN /\ pc' = [pc EXCEPT ![self] = "W5"]
                  ELSE /\ pc' = [pc EXCEPT ![self] = "W6"]
            /\ UNCHANGED << fifo, flag, demand, executed, inArena, n, s, st >>

W5(self) == /\ pc[self] = "W5"
            /\ IF ~CLEAR_CHECKED \/ flag = Busy(self)
                  THEN /\ flag' = U
                       /\ pc' = [pc EXCEPT ![self] = "W7"]
                  ELSE /\ pc' = [pc EXCEPT ![self] = "W8"]
                       /\ flag' = flag
            /\ UNCHANGED << fifo, demand, executed, inArena, n, s, st, has >>

W6(self) == /\ pc[self] = "W6"
            /\ IF flag = Busy(self)
                  THEN /\ flag' = S
                  ELSE /\ TRUE
                       /\ flag' = flag
            /\ pc' = [pc EXCEPT ![self] = "W8"]
            /\ UNCHANGED << fifo, demand, executed, inArena, n, s, st, has >>

W7(self) == /\ pc[self] = "W7"
            /\ demand' = demand - 1
            /\ pc' = [pc EXCEPT ![self] = "W8"]
            /\ UNCHANGED << fifo, flag, executed, inArena, n, s, st, has >>

W8(self) == /\ pc[self] = "W8"
            /\ IF demand > 0 /\ fifo > 0
                  THEN /\ pc' = [pc EXCEPT ![self] = "W1"]
                       /\ UNCHANGED inArena
                  ELSE /\ inArena' = [inArena EXCEPT ![self] = FALSE]
                       /\ pc' = [pc EXCEPT ![self] = "W0"]
            /\ UNCHANGED << fifo, flag, demand, executed, n, s, st, has >>

w(self) == W0(self) \/ W1(self) \/ W2(self) \/ W3(self) \/ W4(self)
              \/ W5(self) \/ W6(self) \/ W7(self) \/ W8(self)

Next == (\E self \in Enq: e(self))
           \/ (\E self \in Wrk: w(self))

Spec == Init /\ [][Next]_vars

\* END TRANSLATION
EnqDone == \A x \in Enq : pc[x] = "Done"
\* lost task: all enqueuers finished, a task is still queued, no worker is inside and none will be dispatched
NoLostTask == ~(EnqDone /\ fifo > 0 /\ demand <= 0 /\ \A x \in Wrk : ~inArena[x])
DemandSane == demand >= 0 /\ demand <= 1
AllRun == <>(executed = 2)
====
