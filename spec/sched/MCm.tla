---- MODULE MCm ----
EXTENDS Market
LevelDef == (1 :> 0) @@ (2 :> 1) @@ (3 :> 1)
MDef == (1 :> 2) @@ (2 :> 3) @@ (3 :> 0)
====
