SPECIFICATION TraceSpec
CONSTANT Clients = {1,2,3}
CONSTANT Level <- LevelDefA
CONSTANT M <- MDefA
CONSTANT MaxSoft = 6
CONSTANT MaxDepth = 0
INVARIANT NotAccepted
INVARIANT SumIsMin
INVARIANT NoMoreThanAsked
INVARIANT PriorityOrder
INVARIANT RequestsSane
CHECK_DEADLOCK FALSE
