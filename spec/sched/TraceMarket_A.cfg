SPECIFICATION TraceSpec
CONSTANT Clients = {1,2,3}
CONSTANT Level <- LevelDefA
CONSTANT M <- MDefA
CONSTANT MaxSoft = 6
CONSTANT MaxDepth = 0
INVARIANT SumIsMin
INVARIANT NoMoreThanAsked
INVARIANT PriorityOrder
INVARIANT RequestsSane
\* NotAccepted is listed LAST: TLC reports the first violated invariant of a state, and a property invariant violated in the final state of a
\* recorded execution must not be masked by the acceptance marker
INVARIANT NotAccepted
CHECK_DEADLOCK FALSE
