---- MODULE MCp ----
EXTENDS PoolState
NT == [x \in {"e1","e2"} |-> 1]
====
