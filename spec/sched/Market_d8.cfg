SPECIFICATION Spec
CONSTANT Clients = {1,2,3}
CONSTANT Level <- LevelDef
CONSTANT M <- MDef
CONSTANT MaxSoft = 4
CONSTANT MaxDepth = 8
INVARIANT DemandConsistent
INVARIANT SumIsMin
INVARIANT NoMoreThanAsked
INVARIANT PriorityOrder
CHECK_DEADLOCK FALSE
