SPECIFICATION Spec
CONSTANT ORDER = "state"
INVARIANT OnlyAfterResume
INVARIANT AtMostOnce
CHECK_DEADLOCK FALSE
