SPECIFICATION Spec
CONSTANT Pushers = {1, 2}
CONSTANT Poppers = {4}
CONSTANT Specifics = {3}
CONSTANT NLanes = 2
CONSTANT PushN <- PN21
CONSTANT PopN = 1
CONSTANT SpecN = 2
CONSTANT Tag <- TagC
CONSTANT Accessor = "back"
INVARIANT NoDup
INVARIANT NoStrand
INVARIANT NoLoss
INVARIANT OnlyPushed
INVARIANT RightTag
CHECK_DEADLOCK FALSE
