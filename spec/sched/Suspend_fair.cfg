SPECIFICATION FairSpec
CONSTANT Resumers = {"r1"}
CONSTANT DOUBLE_RESUME = FALSE
INVARIANT AtMostOnce
INVARIANT OnlyAfterResume
INVARIANT OnlyAfterLeaving
PROPERTY Eventually
CHECK_DEADLOCK FALSE
