-------------------------------- MODULE ArenaAbs --------------------------------
(* Abstract specification of property C16 (concurrency bound, slot uniqueness, reserved slots, observers, worker budget)  *)
(* over events sampled inside user bodies.                                                                               *)
(*   cfg      arena -> <<max_concurrency, reserved slots>> as given to the task_arena constructor                         *)
(*   depth    <<thread, arena>> -> nesting depth of bodies of that arena the thread is executing                          *)
(*   slot     <<thread, arena>> -> current_thread_index it reported                                                      *)
(*   wk       thread -> TRUE if it is a worker thread (created by the library)                                            *)
(*   obs      <<thread, arena>> -> observer entry calls minus exit calls                                                 *)
(*   limit    active global_control max_allowed_parallelism (0 = none)                                                   *)
(* In(t,a,i,w): t starts executing a body inside arena a and sees current_thread_index i.  Required: i is below the arena's *)
(* max_concurrency (one more for the single extra worker of a one-thread arena), no other thread inside a reports i, a     *)
(* worker never sits in a reserved slot, the threads inside a number at most max_concurrency (plus that extra worker), and  *)
(* under a limit L at most max(L-1, 1) workers execute user work at once (the 1 is the mandatory worker for enqueued work  *)
(* when L-1 = 0).  Observer exits match entries on the same thread.                                                       *)
EXTENDS Integers, FiniteSets
CONSTANTS Threads, Arenas
VARIABLES cfg, depth, slot, wk, obs, limit
avars == <<cfg, depth, slot, wk, obs, limit>>
Pairs == Threads \X Arenas
AInit == /\ cfg = [a \in Arenas |-> <<0, 0>>] /\ depth = [p \in Pairs |-> 0] /\ slot = [p \in Pairs |-> -1]
         /\ wk = [t \in Threads |-> FALSE] /\ obs = [p \in Pairs |-> 0] /\ limit = 0
Config(a, maxc, res) == cfg' = [cfg EXCEPT ![a] = <<maxc, res>>] /\ UNCHANGED <<depth, slot, wk, obs, limit>>
SetLimit(L) == limit' = L /\ UNCHANGED <<cfg, depth, slot, wk, obs>>
InsideA(a) == {t \in Threads : depth[<<t, a>>] > 0}
WorkersBusy == {t \in Threads : wk[t] /\ \E a \in Arenas : depth[<<t, a>>] > 0}
ExtraWorker(a, w) == IF cfg[a][1] = 1 /\ w THEN 1 ELSE 0
In(t, a, i, w) ==
    /\ i >= 0 /\ i < cfg[a][1] + ExtraWorker(a, w)                                   \* index below the bound
    /\ (w => i >= cfg[a][2])                                                         \* workers never occupy reserved slots
    /\ \A u \in InsideA(a) \ {t} : slot[<<u, a>>] # i                                \* pairwise distinct indices
    /\ (depth[<<t, a>>] > 0 => slot[<<t, a>>] = i)                                   \* a thread keeps its slot while it is inside
    /\ LET ins == InsideA(a) \cup {t}
           wins == {u \in ins : IF u = t THEN w ELSE wk[u]}
       IN Cardinality(ins) <= cfg[a][1] + (IF cfg[a][1] = 1 /\ wins # {} THEN 1 ELSE 0)   \* concurrency bound
    /\ (limit > 0 /\ w => Cardinality(WorkersBusy \cup {t}) <= (IF limit - 1 > 0 THEN limit - 1 ELSE 1))   \* worker budget
    /\ depth' = [depth EXCEPT ![<<t, a>>] = @ + 1] /\ slot' = [slot EXCEPT ![<<t, a>>] = i] /\ wk' = [wk EXCEPT ![t] = w]
    /\ UNCHANGED <<cfg, obs, limit>>
Out(t, a) == depth[<<t, a>>] > 0 /\ depth' = [depth EXCEPT ![<<t, a>>] = @ - 1] /\ UNCHANGED <<cfg, slot, wk, obs, limit>>
ObsEntry(t, a) == obs' = [obs EXCEPT ![<<t, a>>] = @ + 1] /\ UNCHANGED <<cfg, depth, slot, wk, limit>>
ObsExit(t, a) == obs[<<t, a>>] > 0 /\ obs' = [obs EXCEPT ![<<t, a>>] = @ - 1] /\ UNCHANGED <<cfg, depth, slot, wk, limit>>
\* every thread has left every arena: each observer entry had its exit, nobody is inside
Quiesce == (\A p \in Pairs : obs[p] = 0 /\ depth[p] = 0) /\ UNCHANGED avars
=============================================================================
