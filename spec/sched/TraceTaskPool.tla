----------------------------- MODULE TraceTaskPool -----------------------------
(* Property-level validation of the arena_slot replay (C01, task-pool part): every spawned task id is returned by exactly one   *)
(* get_task / steal_task.  Events: Spawn id | Got t id | End | Stuck | Reset                                                    *)
EXTENDS Integers, Sequences, FiniteSets, TLC, Json, IOUtils
TraceLog == ndJsonDeserialize(IOEnv.TRACE)
VARIABLES spawned, taken, l
vars == <<spawned, taken, l>>
Ev == TraceLog[l]
Is(e) == l <= Len(TraceLog) /\ TraceLog[l].e = e /\ l' = l + 1
TInit == spawned = {} /\ taken = {} /\ l = 1
TNext == \/ Is("Spawn") /\ Ev.id \notin spawned /\ spawned' = spawned \cup {Ev.id} /\ UNCHANGED taken
         \/ Is("Got") /\ Ev.id \in spawned /\ Ev.id \notin taken /\ taken' = taken \cup {Ev.id} /\ UNCHANGED spawned     \* never handed out twice
         \/ Is("End") /\ taken = spawned /\ UNCHANGED <<spawned, taken>>                                               \* never lost
         \/ Is("Reset") /\ spawned' = {} /\ taken' = {}
TraceSpec == TInit /\ [][TNext]_vars
NotAccepted == l <= Len(TraceLog)
=============================================================================
