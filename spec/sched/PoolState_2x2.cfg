SPECIFICATION Spec
CONSTANT Enq = {"e1","e2"}
CONSTANT Wrk = {"w1","w2"}
CONSTANT NTasks <- NT
INVARIANT NoLostTask
CHECK_DEADLOCK FALSE
