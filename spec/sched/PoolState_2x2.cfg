SPECIFICATION Spec
CONSTANT Enq = {"e1","e2"}
CONSTANT Wrk = {"w1","w2"}
CONSTANT NTasks <- NT
CONSTANT UNIQUE_BUSY = TRUE
INVARIANT NoLostTask
CHECK_DEADLOCK FALSE
CONSTANT PUBLISH_GUARDED = FALSE
CONSTANT CLEAR_CHECKED = TRUE
