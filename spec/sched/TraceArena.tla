------------------------------- MODULE TraceArena -------------------------------
(* Validation of recorded arena executions against ArenaAbs.                                                           *)
(* Events: Cfg a maxc res | Limit L | In t a i w | Out t a | OE t a | OX t a | Quiesce | Reset ; Stuck/Crash unexplainable. *)
EXTENDS Integers, Sequences, FiniteSets, TLC, Json, IOUtils
TraceLog == ndJsonDeserialize(IOEnv.TRACE)
Threads == 0..9
Arenas == 1..3
VARIABLES cfg, depth, slot, wk, obs, limit, l
A == INSTANCE ArenaAbs
vars == <<cfg, depth, slot, wk, obs, limit, l>>
Ev == TraceLog[l]
Is(e) == l <= Len(TraceLog) /\ TraceLog[l].e = e /\ l' = l + 1
TInit == A!AInit /\ l = 1
TNext == \/ Is("Cfg") /\ A!Config(Ev.a, Ev.maxc, Ev.res)
         \/ Is("Limit") /\ A!SetLimit(Ev.L)
         \/ Is("In") /\ A!In(Ev.t, Ev.a, Ev.i, Ev.w = 1)
         \/ Is("Out") /\ A!Out(Ev.t, Ev.a)
         \/ Is("OE") /\ A!ObsEntry(Ev.t, Ev.a)
         \/ Is("OX") /\ A!ObsExit(Ev.t, Ev.a)
         \/ Is("Quiesce") /\ A!Quiesce
         \/ Is("Scenario") /\ UNCHANGED <<cfg, depth, slot, wk, obs, limit>>
         \/ Is("Reset") /\ cfg' = [a \in Arenas |-> <<0, 0>>] /\ depth' = [p \in A!Pairs |-> 0] /\ slot' = [p \in A!Pairs |-> -1]
                        /\ wk' = [t \in Threads |-> FALSE] /\ obs' = [p \in A!Pairs |-> 0] /\ limit' = 0
TraceSpec == TInit /\ [][TNext]_vars
NotAccepted == l <= Len(TraceLog)
=============================================================================
