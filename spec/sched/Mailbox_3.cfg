SPECIFICATION Spec
CONSTANT NP = 3
INVARIANT TaskOnce
INVARIANT FreeOnce
INVARIANT NoUAF
INVARIANT Final
CHECK_DEADLOCK FALSE
