SPECIFICATION Spec
CONSTANT NP = 2
INVARIANT TaskOnce
INVARIANT FreeOnce
INVARIANT NoUAF
INVARIANT Final
CHECK_DEADLOCK FALSE
