---- MODULE ExecSlot ----
\* task_arena::execute when the arena has no free slot (src/tbb/arena.cpp, task_arena_impl::execute 762-815, delegated_task::finalize 748-754,
\* ~nested_arena_context 682-706): the caller enqueues a delegated task that runs its functor and then waits on the arena's exit monitor until EITHER somebody
\* inside the arena has executed that task OR a slot became free and it can enter itself (then it waits for the task inside, usually executing it itself).
\*   loop: prepare_wait; if (task finished) { cancel_wait; break }  if (occupy a slot) { cancel_wait; enter; wait(task); leave: release slot, notify_one; break }
\*         commit_wait;  while (task not finished)
\*   a caller that leaves the loop without having entered passes the wake-up on: notify_one ("in case it was woken by a leaving thread but did not need to enter")
\*   finalize (executor of the delegated task): wait_ctx.release(); monitor.notify(this task's waiter); completed = true
\* The monitor is the abstract one (Monitor.tla establishes it for the real concurrent_monitor): prepare registers the caller; a notification removes the chosen
\* registered callers and makes their commit_wait return; commit_wait returns at once if the caller was removed since its prepare.
\* Properties (C02, "waiting for a free slot in task_arena::execute"): no reachable state in which some caller can never return (TLC deadlock check: every
\* state without a successor is the final state) and, under weak fairness, every caller returns; a slot is never occupied twice; a functor runs exactly once.
\* BATON / LEAVE_NOTIFIES / FIN_NOTIFIES switch the three notifications off to show that each is needed (configs *_no*; the notification in finalize is
\* what wakes a caller whose task was run by a thread that stays inside - configs *stay*).
EXTENDS Integers, Sequences, FiniteSets, TLC
CONSTANTS Callers, K, WAITS, BATON, LEAVE_NOTIFIES, FIN_NOTIFIES,
          Stayers        \* callers whose functor never returns once inside (it keeps executing delegated tasks): the others must still get through
(* --algorithm execslot {
  variables free = K, dt = [c \in Callers |-> "none"],        \* delegated task of caller c: none / queued / running / done
            inset = {}, signaled = [c \in Callers |-> FALSE],  \* exit monitor: registered callers; wake-up delivered
            ran = [c \in Callers |-> 0], inside = {};
  macro notify_one() { if (inset # {}) { with (w \in inset) { inset := inset \ {w}; signaled[w] := TRUE } } }
  process (c \in Callers)
    variables ok = FALSE, entered = FALSE, victim = 0;
  {
    x0: if (free > 0) { free := free - 1; ok := TRUE; inside := inside \cup {self} } else { ok := FALSE };      \* occupy_free_slot
        if (ok) { goto s1 } else { goto w1 };
    \* ---- got a slot at once: run the functor inside; a functor that waits may execute delegated tasks of blocked callers
    s1: ran[self] := ran[self] + 1;
    s1w: if (WAITS /\ \E v \in Callers : dt[v] = "queued") { with (v \in {v \in Callers : dt[v] = "queued"}) { dt[v] := "running"; victim := v }; goto s1f } else if (self \in Stayers) { goto s1w } else { goto s2 };
    s1f: ran[victim] := ran[victim] + 1; dt[victim] := "done";                                           \* the delegate runs; finalize: wait_ctx.release()
    s1n: if (FIN_NOTIFIES /\ victim \in inset) { inset := inset \ {victim}; signaled[victim] := TRUE };     \* monitor.notify(ctx == this task)
         goto s1w;
    s2: free := free + 1; inside := inside \ {self};                                                      \* my_arena_slot->release()
    s3: if (LEAVE_NOTIFIES) { notify_one() }; goto Done;                                                  \* my_exit_monitors.notify_one()
    \* ---- no slot: delegate and wait
    w1: dt[self] := "queued";                                                                             \* enqueue_task(delegated_task)
    w2: inset := inset \cup {self}; signaled[self] := FALSE;                                              \* prepare_wait
    w3: if (dt[self] = "done") { inset := inset \ {self}; goto wEnd };                                    \* !wo.continue_execution(): cancel_wait; break
    w4: if (free > 0) { free := free - 1; entered := TRUE; inside := inside \cup {self}; inset := inset \ {self}; goto w5 };    \* occupy + cancel_wait
    w8: await self \notin inset;                                                                          \* commit_wait: sleeps unless a notification removed it already
    w9: if (dt[self] # "done") { goto w2 } else { goto wEnd };
    \* entered after all: wait for the delegated task inside the arena (executing it, or any other queued one, itself)
    w5: if (dt[self] = "done") { goto w6 }
        else if (\E v \in Callers : dt[v] = "queued") { with (v \in {v \in Callers : dt[v] = "queued"}) { dt[v] := "running"; victim := v }; goto w5f }
        else { goto w5 };                                                                                 \* (somebody else is running it: spin in the dispatch loop)
    w5f: ran[victim] := ran[victim] + 1; dt[victim] := "done";
    w5n: if (FIN_NOTIFIES /\ victim \in inset) { inset := inset \ {victim}; signaled[victim] := TRUE };
         goto w5;
    w6: free := free + 1; inside := inside \ {self};
    w7: if (LEAVE_NOTIFIES) { notify_one() }; goto Done;
    wEnd: if (BATON /\ ~entered) { notify_one() };                                                        \* pass the wake-up on
  }
} *)
\* BEGIN TRANSLATION
VARIABLES pc, free, dt, inset, signaled, ran, inside, ok, entered, victim

vars == << pc, free, dt, inset, signaled, ran, inside, ok, entered, victim >>

ProcSet == (Callers)

Init == (* Global variables *)
        /\ free = K
        /\ dt = [c \in Callers |-> "none"]
        /\ inset = {}
        /\ signaled = [c \in Callers |-> FALSE]
        /\ ran = [c \in Callers |-> 0]
        /\ inside = {}
        (* Process c *)
        /\ ok = [self \in Callers |-> FALSE]
        /\ entered = [self \in Callers |-> FALSE]
        /\ victim = [self \in Callers |-> 0]
        /\ pc = [self \in ProcSet |-> "x0"]

x0(self) == /\ pc[self] = "x0"
            /\ IF free > 0
                  THEN /\ free' = free - 1
                       /\ ok' = [ok EXCEPT ![self] = TRUE]
                       /\ inside' = (inside \cup {self})
                  ELSE /\ ok' = [ok EXCEPT ![self] = FALSE]
                       /\ UNCHANGED << free, inside >>
            /\ IF ok'[self]
                  THEN /\ pc' = [pc EXCEPT ![self] = "s1"]
                  ELSE /\ pc' = [pc EXCEPT ![self] = "w1"]
            /\ UNCHANGED << dt, inset, signaled, ran, entered, victim >>

s1(self) == /\ pc[self] = "s1"
            /\ ran' = [ran EXCEPT ![self] = ran[self] + 1]
            /\ pc' = [pc EXCEPT ![self] = "s1w"]
            /\ UNCHANGED << free, dt, inset, signaled, inside, ok, entered, 
                            victim >>

s1w(self) == /\ pc[self] = "s1w"
             /\ IF WAITS /\ \E v \in Callers : dt[v] = "queued"
                   THEN /\ \E v \in {v \in Callers : dt[v] = "queued"}:
                             /\ dt' = [dt EXCEPT ![v] = "running"]
                             /\ victim' = [victim EXCEPT ![self] = v]
                        /\ pc' = [pc EXCEPT ![self] = "s1f"]
                   ELSE /\ IF self \in Stayers
                              THEN /\ pc' = [pc EXCEPT ![self] = "s1w"]
                              ELSE /\ pc' = [pc EXCEPT ![self] = "s2"]
                        /\ UNCHANGED << dt, victim >>
             /\ UNCHANGED << free, inset, signaled, ran, inside, ok, entered >>

s1f(self) == /\ pc[self] = "s1f"
             /\ ran' = [ran EXCEPT ![victim[self]] = ran[victim[self]] + 1]
             /\ dt' = [dt EXCEPT ![victim[self]] = "done"]
             /\ pc' = [pc EXCEPT ![self] = "s1n"]
             /\ UNCHANGED << free, inset, signaled, inside, ok, entered, 
                             victim >>

s1n(self) == /\ pc[self] = "s1n"
             /\ IF FIN_NOTIFIES /\ victim[self] \in inset
                   THEN /\ inset' = inset \ {victim[self]}
                        /\ signaled' = [signaled EXCEPT ![victim[self]] = TRUE]
                   ELSE /\ TRUE
                        /\ UNCHANGED << inset, signaled >>
             /\ pc' = [pc EXCEPT ![self] = "s1w"]
             /\ UNCHANGED << free, dt, ran, inside, ok, entered, victim >>

s2(self) == /\ pc[self] = "s2"
            /\ free' = free + 1
            /\ inside' = inside \ {self}
            /\ pc' = [pc EXCEPT ![self] = "s3"]
            /\ UNCHANGED << dt, inset, signaled, ran, ok, entered, victim >>

s3(self) == /\ pc[self] = "s3"
            /\ IF LEAVE_NOTIFIES
                  THEN /\ IF inset # {}
                             THEN /\ \E w \in inset:
                                       /\ inset' = inset \ {w}
                                       /\ signaled' = [signaled EXCEPT ![w] = TRUE]
                             ELSE /\ TRUE
                                  /\ UNCHANGED << inset, signaled >>
                  ELSE /\ TRUE
                       /\ UNCHANGED << inset, signaled >>
            /\ pc' = [pc EXCEPT ![self] = "Done"]
            /\ UNCHANGED << free, dt, ran, inside, ok, entered, victim >>

w1(self) == /\ pc[self] = "w1"
            /\ dt' = [dt EXCEPT ![self] = "queued"]
            /\ pc' = [pc EXCEPT ![self] = "w2"]
            /\ UNCHANGED << free, inset, signaled, ran, inside, ok, entered, 
                            victim >>

w2(self) == /\ pc[self] = "w2"
            /\ inset' = (inset \cup {self})
            /\ signaled' = [signaled EXCEPT ![self] = FALSE]
            /\ pc' = [pc EXCEPT ![self] = "w3"]
            /\ UNCHANGED << free, dt, ran, inside, ok, entered, victim >>

w3(self) == /\ pc[self] = "w3"
            /\ IF dt[self] = "done"
                  THEN /\ inset' = inset \ {self}
                       /\ pc' = [pc EXCEPT ![self] = "wEnd"]
                  ELSE /\ pc' = [pc EXCEPT ![self] = "w4"]
                       /\ inset' = inset
            /\ UNCHANGED << free, dt, signaled, ran, inside, ok, entered, 
                            victim >>

w4(self) == /\ pc[self] = "w4"
            /\ IF free > 0
                  THEN /\ free' = free - 1
                       /\ entered' = [entered EXCEPT ![self] = TRUE]
                       /\ inside' = (inside \cup {self})
                       /\ inset' = inset \ {self}
                       /\ pc' = [pc EXCEPT ![self] = "w5"]
                  ELSE /\ pc' = [pc EXCEPT ![self] = "w8"]
                       /\ UNCHANGED << free, inset, inside, entered >>
            /\ UNCHANGED << dt, signaled, ran, ok, victim >>

w8(self) == /\ pc[self] = "w8"
            /\ self \notin inset
            /\ pc' = [pc EXCEPT ![self] = "w9"]
            /\ UNCHANGED << free, dt, inset, signaled, ran, inside, ok, 
                            entered, victim >>

w9(self) == /\ pc[self] = "w9"
            /\ IF dt[self] # "done"
                  THEN /\ pc' = [pc EXCEPT ![self] = "w2"]
                  ELSE /\ pc' = [pc EXCEPT ![self] = "wEnd"]
            /\ UNCHANGED << free, dt, inset, signaled, ran, inside, ok, 
                            entered, victim >>

w5(self) == /\ pc[self] = "w5"
            /\ IF dt[self] = "done"
                  THEN /\ pc' = [pc EXCEPT ![self] = "w6"]
                       /\ UNCHANGED << dt, victim >>
                  ELSE /\ IF \E v \in Callers : dt[v] = "queued"
                             THEN /\ \E v \in {v \in Callers : dt[v] = "queued"}:
                                       /\ dt' = [dt EXCEPT ![v] = "running"]
                                       /\ victim' = [victim EXCEPT ![self] = v]
                                  /\ pc' = [pc EXCEPT ![self] = "w5f"]
                             ELSE /\ pc' = [pc EXCEPT ![self] = "w5"]
                                  /\ UNCHANGED << dt, victim >>
            /\ UNCHANGED << free, inset, signaled, ran, inside, ok, entered >>

w5f(self) == /\ pc[self] = "w5f"
             /\ ran' = [ran EXCEPT ![victim[self]] = ran[victim[self]] + 1]
             /\ dt' = [dt EXCEPT ![victim[self]] = "done"]
             /\ pc' = [pc EXCEPT ![self] = "w5n"]
             /\ UNCHANGED << free, inset, signaled, inside, ok, entered, 
                             victim >>

w5n(self) == /\ pc[self] = "w5n"
             /\ IF FIN_NOTIFIES /\ victim[self] \in inset
                   THEN /\ inset' = inset \ {victim[self]}
                        /\ signaled' = [signaled EXCEPT ![victim[self]] = TRUE]
                   ELSE /\ TRUE
                        /\ UNCHANGED << inset, signaled >>
             /\ pc' = [pc EXCEPT ![self] = "w5"]
             /\ UNCHANGED << free, dt, ran, inside, ok, entered, victim >>

w6(self) == /\ pc[self] = "w6"
            /\ free' = free + 1
            /\ inside' = inside \ {self}
            /\ pc' = [pc EXCEPT ![self] = "w7"]
            /\ UNCHANGED << dt, inset, signaled, ran, ok, entered, victim >>

w7(self) == /\ pc[self] = "w7"
            /\ IF LEAVE_NOTIFIES
                  THEN /\ IF inset # {}
                             THEN /\ \E w \in inset:
                                       /\ inset' = inset \ {w}
                                       /\ signaled' = [signaled EXCEPT ![w] = TRUE]
                             ELSE /\ TRUE
                                  /\ UNCHANGED << inset, signaled >>
                  ELSE /\ TRUE
                       /\ UNCHANGED << inset, signaled >>
            /\ pc' = [pc EXCEPT ![self] = "Done"]
            /\ UNCHANGED << free, dt, ran, inside, ok, entered, victim >>

wEnd(self) == /\ pc[self] = "wEnd"
              /\ IF BATON /\ ~entered[self]
                    THEN /\ IF inset # {}
                               THEN /\ \E w \in inset:
                                         /\ inset' = inset \ {w}
                                         /\ signaled' = [signaled EXCEPT ![w] = TRUE]
                               ELSE /\ TRUE
                                    /\ UNCHANGED << inset, signaled >>
                    ELSE /\ TRUE
                         /\ UNCHANGED << inset, signaled >>
              /\ pc' = [pc EXCEPT ![self] = "Done"]
              /\ UNCHANGED << free, dt, ran, inside, ok, entered, victim >>

c(self) == x0(self) \/ s1(self) \/ s1w(self) \/ s1f(self) \/ s1n(self)
              \/ s2(self) \/ s3(self) \/ w1(self) \/ w2(self) \/ w3(self)
              \/ w4(self) \/ w8(self) \/ w9(self) \/ w5(self) \/ w5f(self)
              \/ w5n(self) \/ w6(self) \/ w7(self) \/ wEnd(self)

(* Allow infinite stuttering to prevent deadlock on termination. *)
Terminating == /\ \A self \in ProcSet: pc[self] = "Done"
               /\ UNCHANGED vars

Next == (\E self \in Callers: c(self))
           \/ Terminating

Spec == Init /\ [][Next]_vars

Termination == <>(\A self \in ProcSet: pc[self] = "Done")

\* END TRANSLATION
SlotsOK == free >= 0 /\ Cardinality(inside) + free = K
Once == \A x \in Callers : ran[x] <= 1
AllReturned == \A x \in Callers \ Stayers : pc[x] = "Done"
Final == (\A x \in Callers : pc[x] = "Done") => (\A x \in Callers : ran[x] = 1) /\ free = K
\* no caller sleeps while nobody is left who could wake it: a state with no successor must be the final state
NoStarvation == <>AllReturned
FairSpec == Spec /\ \A x \in Callers : WF_vars(c(x))
====
