SPECIFICATION FairSpec
CONSTANT Callers = {1, 2, 3}
CONSTANT K = 1
CONSTANT WAITS = TRUE
CONSTANT BATON = TRUE
CONSTANT LEAVE_NOTIFIES = TRUE
CONSTANT FIN_NOTIFIES = TRUE
INVARIANT SlotsOK
INVARIANT Once
INVARIANT Final
PROPERTY NoStarvation
CONSTANT Stayers = {}
