----------------------------- MODULE TraceMailbox -----------------------------
(* Property-level validation of the mailbox replay (C01, affinity mail): every mailed task is claimed by exactly one side, every proxy is freed exactly once  *)
(* (by the side that found it empty) and never touched after it was freed.   Events: Spawn id | Got t id | Freed p n | End | Reset ; Uaf / Stuck unexplainable     *)
EXTENDS Integers, Sequences, FiniteSets, TLC, Json, IOUtils
TraceLog == ndJsonDeserialize(IOEnv.TRACE)
VARIABLES spawned, taken, freed, l
vars == <<spawned, taken, freed, l>>
Ev == TraceLog[l]
Is(e) == l <= Len(TraceLog) /\ TraceLog[l].e = e /\ l' = l + 1
TInit == spawned = {} /\ taken = {} /\ freed = {} /\ l = 1
TNext == \/ Is("Spawn") /\ Ev.id \notin spawned /\ spawned' = spawned \cup {Ev.id} /\ UNCHANGED <<taken, freed>>
         \/ Is("Got") /\ Ev.id \in spawned /\ Ev.id \notin taken /\ taken' = taken \cup {Ev.id} /\ UNCHANGED <<spawned, freed>>       \* the task is claimed once
         \/ Is("Freed") /\ Ev.n = 1 /\ Ev.p \notin freed /\ freed' = freed \cup {Ev.p} /\ UNCHANGED <<spawned, taken>>                \* the proxy is freed once
         \/ Is("End") /\ taken = spawned /\ freed = spawned /\ UNCHANGED <<spawned, taken, freed>>                                   \* nothing lost, nothing leaked
         \/ Is("Reset") /\ spawned' = {} /\ taken' = {} /\ freed' = {}
TraceSpec == TInit /\ [][TNext]_vars
NotAccepted == l <= Len(TraceLog)
=============================================================================
