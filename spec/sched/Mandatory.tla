---- MODULE Mandatory ----
\* arena::my_mandatory_concurrency / my_pool_state and the demand an arena reports to the permit manager
\* (arena::advertise_new_work<work_enqueued | work_spawned>, arena::out_of_work, arena::update_request).
\* The two flags are atomic_flag objects (their busy-marker protocol is the subject of PoolState.tla; here test_and_set and
\* try_clear_if are single steps).  What is modelled is the ACCOUNTING: every +1 mandatory request reported when the flag
\* is set must be taken back when the flag is cleared, whatever the state of the task pools at that moment - otherwise
\* the arena keeps a "mandatory" worker for ever (C16: under max_allowed_parallelism = 1 a worker executes ordinary work).
EXTENDS Integers, Sequences, FiniteSets, TLC
CONSTANTS Enq, Spw, Idl,       \* enqueuing threads, spawning threads, idle threads (each calls out_of_work a few times)
          NOps,                \* operations per thread
          REPORT_EITHER        \* fact probed from the running code (h_wake probe_mandatory): TRUE = out_of_work reports its deltas if EITHER flag
                               \* was cleared; FALSE = only if the pool state was cleared
(* --algorithm mandatory {
  variables fifo = 0, pool = 0,                 \* enqueued tasks in the stream; spawned tasks in task pools
            mflag = FALSE, pflag = FALSE,       \* my_mandatory_concurrency, my_pool_state
            mreq = 0, wreq = 0,                 \* what the permit manager has been told: mandatory requests, worker requests (in units of "all workers")
            log = <<>>;
  process (e \in Enq) variables n = 0, mn = FALSE, wn = FALSE;
  {
  E0: while (n < NOps) {
    E1: fifo := fifo + 1;                                       \* task_stream::push
    E2: mn := ~mflag; mflag := TRUE;                            \* my_mandatory_concurrency.test_and_set()
    E3: wn := ~pflag; pflag := TRUE;                            \* my_pool_state.test_and_set()
    E4: if (mn \/ wn) { mreq := mreq + (IF mn THEN 1 ELSE 0); wreq := wreq + (IF wn THEN 1 ELSE 0) };    \* request_workers(+mandatory, +workers)
        n := n + 1;
    }
  }
  process (s \in Spw) variables n = 0, wn = FALSE;
  {
  S0: while (n < NOps) {
    S1: pool := pool + 1;                                       \* spawn into the own task pool
    S2: wn := ~pflag; pflag := TRUE;                            \* advertise_new_work<work_spawned>
    S3: if (wn) { wreq := wreq + 1 };
    S4: await pool > 0; pool := pool - 1;                       \* the owner (or a thief) takes a spawned task some time later
        n := n + 1;
    }
  }
  process (i \in Idl) variables n = 0, dm = FALSE, rw = FALSE;
  {
  I0: while (n < NOps) {
    I1: if (fifo > 0) { fifo := fifo - 1; goto I1 };            \* get_stream_task: an idle thread drains the enqueued tasks first
    I2: dm := mflag /\ fifo = 0; if (dm) { mflag := FALSE };    \* my_mandatory_concurrency.try_clear_if(!has_enqueued_tasks())
    I3: rw := pflag /\ fifo = 0 /\ pool = 0; if (rw) { pflag := FALSE };   \* my_pool_state.try_clear_if(!has_tasks())
    I4: if (IF REPORT_EITHER THEN dm \/ rw ELSE rw) {
            mreq := mreq - (IF dm THEN 1 ELSE 0); wreq := wreq - (IF rw THEN 1 ELSE 0) };
        n := n + 1;
    }
  }
} *)
\* BEGIN TRANSLATION (chksum(pcal) = "c3eaaa19" /\ chksum(tla) = "d2a35d03")
\* Process variable n of process e at line 18 col 33 changed to n_
\* Process variable wn of process e at line 18 col 52 changed to wn_
\* Process variable n of process s at line 28 col 33 changed to n_s
VARIABLES pc, fifo, pool, mflag, pflag, mreq, wreq, log, n_, mn, wn_, n_s, wn, 
          n, dm, rw

vars == << pc, fifo, pool, mflag, pflag, mreq, wreq, log, n_, mn, wn_, n_s, 
           wn, n, dm, rw >>

ProcSet == (Enq) \cup (Spw) \cup (Idl)

Init == (* Global variables *)
        /\ fifo = 0
        /\ pool = 0
        /\ mflag = FALSE
        /\ pflag = FALSE
        /\ mreq = 0
        /\ wreq = 0
        /\ log = <<>>
        (* Process e *)
        /\ n_ = [self \in Enq |-> 0]
        /\ mn = [self \in Enq |-> FALSE]
        /\ wn_ = [self \in Enq |-> FALSE]
        (* Process s *)
        /\ n_s = [self \in Spw |-> 0]
        /\ wn = [self \in Spw |-> FALSE]
        (* Process i *)
        /\ n = [self \in Idl |-> 0]
        /\ dm = [self \in Idl |-> FALSE]
        /\ rw = [self \in Idl |-> FALSE]
        /\ pc = [self \in ProcSet |-> CASE self \in Enq -> "E0"
                                        [] self \in Spw -> "S0"
                                        [] self \in Idl -> "I0"]

E0(self) == /\ pc[self] = "E0"
            /\ IF n_[self] < NOps
                  THEN /\ pc' = [pc EXCEPT ![self] = "E1"]
                  ELSE /\ pc' = [pc EXCEPT ![self] = "Done"]
            /\ UNCHANGED << fifo, pool, mflag, pflag, mreq, wreq, log, n_, mn, 
                            wn_, n_s, wn, n, dm, rw >>

E1(self) == /\ pc[self] = "E1"
            /\ fifo' = fifo + 1
            /\ pc' = [pc EXCEPT ![self] = "E2"]
            /\ UNCHANGED << pool, mflag, pflag, mreq, wreq, log, n_, mn, wn_, 
                            n_s, wn, n, dm, rw >>

E2(self) == /\ pc[self] = "E2"
            /\ mn' = [mn EXCEPT ![self] = ~mflag]
            /\ mflag' = TRUE
            /\ pc' = [pc EXCEPT ![self] = "E3"]
            /\ UNCHANGED << fifo, pool, pflag, mreq, wreq, log, n_, wn_, n_s, 
                            wn, n, dm, rw >>

E3(self) == /\ pc[self] = "E3"
            /\ wn_' = [wn_ EXCEPT ![self] = ~pflag]
            /\ pflag' = TRUE
            /\ pc' = [pc EXCEPT ![self] = "E4"]
            /\ UNCHANGED << fifo, pool, mflag, mreq, wreq, log, n_, mn, n_s, 
                            wn, n, dm, rw >>

E4(self) == /\ pc[self] = "E4"
            /\ IF mn[self] \/ wn_[self]
                  THEN /\ mreq' = mreq + (IF mn[self] THEN 1 ELSE 0)
                       /\ wreq' = wreq + (IF wn_[self] THEN 1 ELSE 0)
                  ELSE /\ TRUE
                       /\ UNCHANGED << mreq, wreq >>
            /\ n_' = [n_ EXCEPT ![self] = n_[self] + 1]
            /\ pc' = [pc EXCEPT ![self] = "E0"]
            /\ UNCHANGED << fifo, pool, mflag, pflag, log, mn, wn_, n_s, wn, n, 
                            dm, rw >>

e(self) == E0(self) \/ E1(self) \/ E2(self) \/ E3(self) \/ E4(self)

S0(self) == /\ pc[self] = "S0"
            /\ IF n_s[self] < NOps
                  THEN /\ pc' = [pc EXCEPT ![self] = "S1"]
                  ELSE /\ pc' = [pc EXCEPT ![self] = "Done"]
            /\ UNCHANGED << fifo, pool, mflag, pflag, mreq, wreq, log, n_, mn, 
                            wn_, n_s, wn, n, dm, rw >>

S1(self) == /\ pc[self] = "S1"
            /\ pool' = pool + 1
            /\ pc' = [pc EXCEPT ![self] = "S2"]
            /\ UNCHANGED << fifo, mflag, pflag, mreq, wreq, log, n_, mn, wn_, 
                            n_s, wn, n, dm, rw >>

S2(self) == /\ pc[self] = "S2"
            /\ wn' = [wn EXCEPT ![self] = ~pflag]
            /\ pflag' = TRUE
            /\ pc' = [pc EXCEPT ![self] = "S3"]
            /\ UNCHANGED << fifo, pool, mflag, mreq, wreq, log, n_, mn, wn_, 
                            n_s, n, dm, rw >>

S3(self) == /\ pc[self] = "S3"
            /\ IF wn[self]
                  THEN /\ wreq' = wreq + 1
                  ELSE /\ TRUE
                       /\ wreq' = wreq
            /\ pc' = [pc EXCEPT ![self] = "S4"]
            /\ UNCHANGED << fifo, pool, mflag, pflag, mreq, log, n_, mn, wn_, 
                            n_s, wn, n, dm, rw >>

S4(self) == /\ pc[self] = "S4"
            /\ pool > 0
            /\ pool' = pool - 1
            /\ n_s' = [n_s EXCEPT ![self] = n_s[self] + 1]
            /\ pc' = [pc EXCEPT ![self] = "S0"]
            /\ UNCHANGED << fifo, mflag, pflag, mreq, wreq, log, n_, mn, wn_, 
                            wn, n, dm, rw >>

s(self) == S0(self) \/ S1(self) \/ S2(self) \/ S3(self) \/ S4(self)

I0(self) == /\ pc[self] = "I0"
            /\ IF n[self] < NOps
                  THEN /\ pc' = [pc EXCEPT ![self] = "I1"]
                  ELSE /\ pc' = [pc EXCEPT ![self] = "Done"]
            /\ UNCHANGED << fifo, pool, mflag, pflag, mreq, wreq, log, n_, mn, 
                            wn_, n_s, wn, n, dm, rw >>

I1(self) == /\ pc[self] = "I1"
            /\ IF fifo > 0
                  THEN /\ fifo' = fifo - 1
                       /\ pc' = [pc EXCEPT ![self] = "I1"]
                  ELSE /\ pc' = [pc EXCEPT ![self] = "I2"]
                       /\ fifo' = fifo
            /\ UNCHANGED << pool, mflag, pflag, mreq, wreq, log, n_, mn, wn_, 
                            n_s, wn, n, dm, rw >>

I2(self) == /\ pc[self] = "I2"
            /\ dm' = [dm EXCEPT ![self] = mflag /\ fifo = 0]
            /\ IF dm'[self]
                  THEN /\ mflag' = FALSE
                  ELSE /\ TRUE
                       /\ mflag' = mflag
            /\ pc' = [pc EXCEPT ![self] = "I3"]
            /\ UNCHANGED << fifo, pool, pflag, mreq, wreq, log, n_, mn, wn_, 
                            n_s, wn, n, rw >>

I3(self) == /\ pc[self] = "I3"
            /\ rw' = [rw EXCEPT ![self] = pflag /\ fifo = 0 /\ pool = 0]
            /\ IF rw'[self]
                  THEN /\ pflag' = FALSE
                  ELSE /\ TRUE
                       /\ pflag' = pflag
            /\ pc' = [pc EXCEPT ![self] = "I4"]
            /\ UNCHANGED << fifo, pool, mflag, mreq, wreq, log, n_, mn, wn_, 
                            n_s, wn, n, dm >>

I4(self) == /\ pc[self] = "I4"
            /\ IF IF REPORT_EITHER THEN dm[self] \/ rw[self] ELSE rw[self]
                  THEN /\ mreq' = mreq - (IF dm[self] THEN 1 ELSE 0)
                       /\ wreq' = wreq - (IF rw[self] THEN 1 ELSE 0)
                  ELSE /\ TRUE
                       /\ UNCHANGED << mreq, wreq >>
            /\ n' = [n EXCEPT ![self] = n[self] + 1]
            /\ pc' = [pc EXCEPT ![self] = "I0"]
            /\ UNCHANGED << fifo, pool, mflag, pflag, log, n_, mn, wn_, n_s, 
                            wn, dm, rw >>

i(self) == I0(self) \/ I1(self) \/ I2(self) \/ I3(self) \/ I4(self)

(* Allow infinite stuttering to prevent deadlock on termination. *)
Terminating == /\ \A self \in ProcSet: pc[self] = "Done"
               /\ UNCHANGED vars

Next == (\E self \in Enq: e(self))
           \/ (\E self \in Spw: s(self))
           \/ (\E self \in Idl: i(self))
           \/ Terminating

Spec == Init /\ [][Next]_vars

Termination == <>(\A self \in ProcSet: pc[self] = "Done")

\* END TRANSLATION

\* ---- properties
AllDone == \A tt \in ProcSet : pc[tt] = "Done"
\* whenever nobody is inside advertise_new_work / out_of_work, the reported requests agree with the flags
Quiet == /\ \A te \in Enq : pc[te] \in {"E0", "E1", "Done"}
         /\ \A ts \in Spw : pc[ts] \in {"S0", "S1", "S4", "Done"}
         /\ \A ti \in Idl : pc[ti] \in {"I0", "I1", "Done"}
MandatoryAccounted == Quiet => (mreq = IF mflag THEN 1 ELSE 0)
WorkersAccounted == Quiet => (wreq = IF pflag THEN 1 ELSE 0)
\* (transiently the reported numbers may run ahead of or behind the flags - a clear can be reported before the set it undoes - so only quiescent states are judged)
====
