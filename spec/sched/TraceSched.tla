------------------------------- MODULE TraceSched -------------------------------
(* Events: Submit u g s | Begin u scope | End u | WaitRet g seen | Suspend u | Resume u | Continue u | Quiesce | Stuck | Crash | Escaped | Reset *)
EXTENDS Integers, Sequences, FiniteSets, TLC, Json, IOUtils
TraceLog == ndJsonDeserialize(IOEnv.TRACE)
Units == 1..64
Groups == 1..16
VARIABLES sub, begun, ended, iso, susp, l
A == INSTANCE SchedAbs
vars == <<sub, begun, ended, iso, susp, l>>
Ev == TraceLog[l]
Is(e) == l <= Len(TraceLog) /\ TraceLog[l].e = e /\ l' = l + 1
TInit == A!SInit /\ l = 1
TNext == \/ Is("Scenario") /\ UNCHANGED <<sub, begun, ended, iso, susp>>
         \/ Is("Submit") /\ A!Submit(Ev.u, Ev.g, Ev.s)
         \/ Is("Begin") /\ A!Begin(Ev.u, Ev.scope)
         \/ Is("End") /\ A!End(Ev.u)
         \/ Is("WaitRet") /\ A!WaitReturn(Ev.g, Ev.seen)
         \/ Is("Suspend") /\ A!Suspend(Ev.u)
         \/ Is("Resume") /\ A!Resume(Ev.u)
         \/ Is("Continue") /\ A!Continue(Ev.u)
         \/ Is("Quiesce") /\ A!Quiesce
         \/ Is("Reset") /\ sub' = [u \in Units |-> 0] /\ begun' = {} /\ ended' = {} /\ iso' = [u \in Units |-> 0] /\ susp' = [u \in Units |-> "none"]
TraceSpec == TInit /\ [][TNext]_vars
NotAccepted == l <= Len(TraceLog)
=============================================================================
