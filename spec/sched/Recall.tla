---- MODULE Recall ----
\* Owner recall of resumable tasks (src/tbb/scheduler_common.h suspend_point_type::recall_owner, task.cpp do_post_resume_action / resume,
\* task_dispatcher.h get_self_recall_task): the default (native) stack X of thread M can be run by another thread W for a while; when W leaves X it
\* recalls the owner: it marks X `notified` and raises m_is_owner_recalled; M, which runs on a co-routine and polls that flag, switches back onto X
\* (X becomes `active`, the flag is lowered) and goes on; later the task on X suspends again and a resumer resumes it.
\*   st        m_stack_state of X: "A" active, "S" suspended, "N" notified
\*   recalled  m_is_owner_recalled of X
\* ORDER is a fact probed from the running code: which of the two stores of recall_owner() comes first ("state" or "flag").
\* Property (C20): the continuation of a suspension happens only after tbb::task::resume was called for it - with the flag published first, M can complete
\* the whole switch before the state store lands, the late store marks a RUNNING stack as notified and the next suspension is "resumed" at once.
EXTENDS Integers, TLC
CONSTANTS ORDER
(* --algorithm recall {
  variables st = "S", recalled = FALSE,            \* W has left X: finilize_resume on the stack W switched to has set X suspended
            published = FALSE, resumeCalled = FALSE, early = FALSE, continued = 0;
  process (W = "W") {                              \* do_post_resume_action(notify): X.recall_owner()
    w1: if (ORDER = "state") { st := "N" } else { recalled := TRUE };
    w2: if (ORDER = "state") { recalled := TRUE } else { st := "N" };
  }
  process (M = "M")
    variables old = "";
  {
    m0: await recalled;                            \* get_self_recall_task / coroutine_waiter: the owner sees the flag
    m1: st := "A";                                 \* switched back onto X: finilize_resume: m_stack_state.store(active)
    m2: recalled := FALSE;                         \* resume(): the thread is in its original dispatcher again
    m3: published := TRUE;                         \* the task on X suspends again: the callback hands out the suspend point
    m4: old := st; st := "S";                      \* M leaves X; on the new stack finilize_resume: X.m_stack_state.exchange(suspended)
        if (old = "N") { if (~resumeCalled) { early := TRUE }; goto m5 } else { goto mEnd };      \* "somebody already tried to resume X": resume it now
    m5: continued := continued + 1;
    mEnd: skip;
  }
  process (R = "R")
    variables o = "";
  {
    r0: await published;
    r1: resumeCalled := TRUE; o := st; st := "N";  \* r1::resume: try_notify_resume: exchange(notified)
        if (o = "S") { continued := continued + 1 };    \* the stack was already suspended: the resume task is pushed
  }
} *)
\* BEGIN TRANSLATION
VARIABLES pc, st, recalled, published, resumeCalled, early, continued, old, o

vars == << pc, st, recalled, published, resumeCalled, early, continued, old, 
           o >>

ProcSet == {"W"} \cup {"M"} \cup {"R"}

Init == (* Global variables *)
        /\ st = "S"
        /\ recalled = FALSE
        /\ published = FALSE
        /\ resumeCalled = FALSE
        /\ early = FALSE
        /\ continued = 0
        (* Process M *)
        /\ old = ""
        (* Process R *)
        /\ o = ""
        /\ pc = [self \in ProcSet |-> CASE self = "W" -> "w1"
                                        [] self = "M" -> "m0"
                                        [] self = "R" -> "r0"]

w1 == /\ pc["W"] = "w1"
      /\ IF ORDER = "state"
            THEN /\ st' = "N"
                 /\ UNCHANGED recalled
            ELSE /\ recalled' = TRUE
                 /\ st' = st
      /\ pc' = [pc EXCEPT !["W"] = "w2"]
      /\ UNCHANGED << published, resumeCalled, early, continued, old, o >>

w2 == /\ pc["W"] = "w2"
      /\ IF ORDER = "state"
            THEN /\ recalled' = TRUE
                 /\ st' = st
            ELSE /\ st' = "N"
                 /\ UNCHANGED recalled
      /\ pc' = [pc EXCEPT !["W"] = "Done"]
      /\ UNCHANGED << published, resumeCalled, early, continued, old, o >>

W == w1 \/ w2

m0 == /\ pc["M"] = "m0"
      /\ recalled
      /\ pc' = [pc EXCEPT !["M"] = "m1"]
      /\ UNCHANGED << st, recalled, published, resumeCalled, early, continued, 
                      old, o >>

m1 == /\ pc["M"] = "m1"
      /\ st' = "A"
      /\ pc' = [pc EXCEPT !["M"] = "m2"]
      /\ UNCHANGED << recalled, published, resumeCalled, early, continued, old, 
                      o >>

m2 == /\ pc["M"] = "m2"
      /\ recalled' = FALSE
      /\ pc' = [pc EXCEPT !["M"] = "m3"]
      /\ UNCHANGED << st, published, resumeCalled, early, continued, old, o >>

m3 == /\ pc["M"] = "m3"
      /\ published' = TRUE
      /\ pc' = [pc EXCEPT !["M"] = "m4"]
      /\ UNCHANGED << st, recalled, resumeCalled, early, continued, old, o >>

m4 == /\ pc["M"] = "m4"
      /\ old' = st
      /\ st' = "S"
      /\ IF old' = "N"
            THEN /\ IF ~resumeCalled
                       THEN /\ early' = TRUE
                       ELSE /\ TRUE
                            /\ early' = early
                 /\ pc' = [pc EXCEPT !["M"] = "m5"]
            ELSE /\ pc' = [pc EXCEPT !["M"] = "mEnd"]
                 /\ early' = early
      /\ UNCHANGED << recalled, published, resumeCalled, continued, o >>

m5 == /\ pc["M"] = "m5"
      /\ continued' = continued + 1
      /\ pc' = [pc EXCEPT !["M"] = "mEnd"]
      /\ UNCHANGED << st, recalled, published, resumeCalled, early, old, o >>

mEnd == /\ pc["M"] = "mEnd"
        /\ TRUE
        /\ pc' = [pc EXCEPT !["M"] = "Done"]
        /\ UNCHANGED << st, recalled, published, resumeCalled, early, 
                        continued, old, o >>

M == m0 \/ m1 \/ m2 \/ m3 \/ m4 \/ m5 \/ mEnd

r0 == /\ pc["R"] = "r0"
      /\ published
      /\ pc' = [pc EXCEPT !["R"] = "r1"]
      /\ UNCHANGED << st, recalled, published, resumeCalled, early, continued, 
                      old, o >>

r1 == /\ pc["R"] = "r1"
      /\ resumeCalled' = TRUE
      /\ o' = st
      /\ st' = "N"
      /\ IF o' = "S"
            THEN /\ continued' = continued + 1
            ELSE /\ TRUE
                 /\ UNCHANGED continued
      /\ pc' = [pc EXCEPT !["R"] = "Done"]
      /\ UNCHANGED << recalled, published, early, old >>

R == r0 \/ r1

(* Allow infinite stuttering to prevent deadlock on termination. *)
Terminating == /\ \A self \in ProcSet: pc[self] = "Done"
               /\ UNCHANGED vars

Next == W \/ M \/ R
           \/ Terminating

Spec == Init /\ [][Next]_vars

Termination == <>(\A self \in ProcSet: pc[self] = "Done")

\* END TRANSLATION
OnlyAfterResume == ~early
AtMostOnce == continued <= 1
====
