SPECIFICATION Spec
CONSTANT Enq = {"e1"}
CONSTANT Spw = {"s1"}
CONSTANT Idl = {"i1", "i2"}
CONSTANT NOps = 2
CONSTANT REPORT_EITHER = TRUE
INVARIANT MandatoryAccounted
INVARIANT WorkersAccounted
CHECK_DEADLOCK FALSE
