---- MODULE MCTaskPool ----
EXTENDS TaskPool
OP == <<1, 2, -1, 3, -1, -1>>
OP2 == <<1, -1, 2, 3, -1, -1, -1>>
OP3 == <<1, 2, 3, -1, -1>>
====
