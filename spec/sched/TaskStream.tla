---- MODULE TaskStream ----
\* task_stream (src/tbb/task_stream.h): the container of enqueued ("fairness oriented") tasks of an arena: N lanes, each a deque under a try-locked mutex,
\* and the population bit mask that tells which lanes may hold tasks.  One label per shared access (population, the lanes' mutex flags); the deque itself is
\* only touched under its lane's mutex and changes inside the step that follows the successful exchange.
\*   push:  choose the next lane; try_lock (load, exchange); push_back; fetch_or(bit); unlock (exchange)
\*   pop:   while (!empty() && !popped) { choose the previous lane; bit set?; try_lock; pop_front; if the lane is now empty fetch_and(~bit); unlock }
\* Properties (C01 / C02): a task is handed out at most once; no task is stranded - a lane that holds a task and is not locked has its population bit set,
\* so at quiescence every pushed task was popped or is still advertised.
EXTENDS Integers, Sequences, FiniteSets, TLC
CONSTANTS Pushers, Poppers, NLanes, PushN, PopN     \* PushN[p]: number of tasks pusher p pushes (task ids p*10+k); PopN: pop() calls per popper
Lanes == 0..NLanes-1
(* --algorithm taskstream {
  variables pop = {}, mtx = [l \in Lanes |-> FALSE], q = [l \in Lanes |-> <<>>],
            got = [t \in Pushers \cup Poppers |-> <<>>];
  process (pu \in Pushers)
    variables k = 1, prev = 0, lane = 0, f = FALSE;
  {
  PU0: while (k <= PushN[self]) {
    PUs: prev := (prev + 1) % NLanes; lane := prev;          \* subsequent_lane_selector (thread-local)
    PU1: f := mtx[lane];                                     \* try_lock: load
         if (f) { goto PUs };
    PU2: f := mtx[lane]; mtx[lane] := TRUE;                  \* try_lock: exchange(true)
         if (f) { goto PUs };
    PU3: q[lane] := Append(q[lane], self * 10 + k); pop := pop \cup {lane};     \* push_back (plain, under the lock); set_one_bit: fetch_or
    PU4: mtx[lane] := FALSE;                                 \* unlock: exchange(false)
         k := k + 1;
    }
  }
  process (po \in Poppers)
    variables n = 1, prev = 0, lane = 0, f = FALSE, r = 0, p = {};
  {
  PO0: while (n <= PopN) {
         r := 0;
    PO1: p := pop;                                           \* empty(): population.load
         if (p = {}) { goto PORet };
    POs: prev := (prev + NLanes - 1) % NLanes; lane := prev; \* preceding_lane_selector
    PO2: p := pop;                                           \* try_pop: is_bit_set(population.load)
         if (lane \notin p) { goto PO1 };
    PO3: f := mtx[lane];                                     \* try_lock: load
         if (f) { goto PO1 };
    PO4: f := mtx[lane]; mtx[lane] := TRUE;                  \* try_lock: exchange(true)
         if (f) { goto PO1 };
    PO5: if (Len(q[lane]) > 0) {                             \* under the lock: pop_front, and clear the bit if the lane became empty
           r := Head(q[lane]); q[lane] := Tail(q[lane]);
           if (Len(q[lane]) = 0) { goto PO6 } else { goto PO7 } }
         else { goto PO7 };
    PO6: pop := pop \ {lane};                                \* clear_one_bit: fetch_and
    PO7: mtx[lane] := FALSE;                                 \* unlock: exchange(false)
         if (r = 0) { goto PO1 };
    PORet: got[self] := Append(got[self], r); n := n + 1;
    }
  }
} *)
\* BEGIN TRANSLATION
\* Process variable prev of process pu at line 16 col 22 changed to prev_
\* Process variable lane of process pu at line 16 col 32 changed to lane_
\* Process variable f of process pu at line 16 col 42 changed to f_
VARIABLES pc, pop, mtx, q, got, k, prev_, lane_, f_, n, prev, lane, f, r, p

vars == << pc, pop, mtx, q, got, k, prev_, lane_, f_, n, prev, lane, f, r, p
        >>

ProcSet == (Pushers) \cup (Poppers)

Init == (* Global variables *)
        /\ pop = {}
        /\ mtx = [l \in Lanes |-> FALSE]
        /\ q = [l \in Lanes |-> <<>>]
        /\ got = [t \in Pushers \cup Poppers |-> <<>>]
        (* Process pu *)
        /\ k = [self \in Pushers |-> 1]
        /\ prev_ = [self \in Pushers |-> 0]
        /\ lane_ = [self \in Pushers |-> 0]
        /\ f_ = [self \in Pushers |-> FALSE]
        (* Process po *)
        /\ n = [self \in Poppers |-> 1]
        /\ prev = [self \in Poppers |-> 0]
        /\ lane = [self \in Poppers |-> 0]
        /\ f = [self \in Poppers |-> FALSE]
        /\ r = [self \in Poppers |-> 0]
        /\ p = [self \in Poppers |-> {}]
        /\ pc = [self \in ProcSet |-> CASE self \in Pushers -> "PU0"
                                        [] self \in Poppers -> "PO0"]

PU0(self) == /\ pc[self] = "PU0"
             /\ IF k[self] <= PushN[self]
                   THEN /\ pc' = [pc EXCEPT ![self] = "PUs"]
                   ELSE /\ pc' = [pc EXCEPT ![self] = "Done"]
             /\ UNCHANGED << pop, mtx, q, got, k, prev_, lane_, f_, n, prev, 
                             lane, f, r, p >>

PUs(self) == /\ pc[self] = "PUs"
             /\ prev_' = [prev_ EXCEPT ![self] = (prev_[self] + 1) % NLanes]
             /\ lane_' = [lane_ EXCEPT ![self] = prev_'[self]]
             /\ pc' = [pc EXCEPT ![self] = "PU1"]
             /\ UNCHANGED << pop, mtx, q, got, k, f_, n, prev, lane, f, r, p >>

PU1(self) == /\ pc[self] = "PU1"
             /\ f_' = [f_ EXCEPT ![self] = mtx[lane_[self]]]
             /\ IF f_'[self]
                   THEN /\ pc' = [pc EXCEPT ![self] = "PUs"]
                   ELSE /\ pc' = [pc EXCEPT ![self] = "PU2"]
             /\ UNCHANGED << pop, mtx, q, got, k, prev_, lane_, n, prev, lane, 
                             f, r, p >>

PU2(self) == /\ pc[self] = "PU2"
             /\ f_' = [f_ EXCEPT ![self] = mtx[lane_[self]]]
             /\ mtx' = [mtx EXCEPT ![lane_[self]] = TRUE]
             /\ IF f_'[self]
                   THEN /\ pc' = [pc EXCEPT ![self] = "PUs"]
                   ELSE /\ pc' = [pc EXCEPT ![self] = "PU3"]
             /\ UNCHANGED << pop, q, got, k, prev_, lane_, n, prev, lane, f, r, 
                             p >>

PU3(self) == /\ pc[self] = "PU3"
             /\ q' = [q EXCEPT ![lane_[self]] = Append(q[lane_[self]], self * 10 + k[self])]
             /\ pop' = (pop \cup {lane_[self]})
             /\ pc' = [pc EXCEPT ![self] = "PU4"]
             /\ UNCHANGED << mtx, got, k, prev_, lane_, f_, n, prev, lane, f, 
                             r, p >>

PU4(self) == /\ pc[self] = "PU4"
             /\ mtx' = [mtx EXCEPT ![lane_[self]] = FALSE]
             /\ k' = [k EXCEPT ![self] = k[self] + 1]
             /\ pc' = [pc EXCEPT ![self] = "PU0"]
             /\ UNCHANGED << pop, q, got, prev_, lane_, f_, n, prev, lane, f, 
                             r, p >>

pu(self) == PU0(self) \/ PUs(self) \/ PU1(self) \/ PU2(self) \/ PU3(self)
               \/ PU4(self)

PO0(self) == /\ pc[self] = "PO0"
             /\ IF n[self] <= PopN
                   THEN /\ r' = [r EXCEPT ![self] = 0]
                        /\ pc' = [pc EXCEPT ![self] = "PO1"]
                   ELSE /\ pc' = [pc EXCEPT ![self] = "Done"]
                        /\ r' = r
             /\ UNCHANGED << pop, mtx, q, got, k, prev_, lane_, f_, n, prev, 
                             lane, f, p >>

PO1(self) == /\ pc[self] = "PO1"
             /\ p' = [p EXCEPT ![self] = pop]
             /\ IF p'[self] = {}
                   THEN /\ pc' = [pc EXCEPT ![self] = "PORet"]
                   ELSE /\ pc' = [pc EXCEPT ![self] = "POs"]
             /\ UNCHANGED << pop, mtx, q, got, k, prev_, lane_, f_, n, prev, 
                             lane, f, r >>

POs(self) == /\ pc[self] = "POs"
             /\ prev' = [prev EXCEPT ![self] = (prev[self] + NLanes - 1) % NLanes]
             /\ lane' = [lane EXCEPT ![self] = prev'[self]]
             /\ pc' = [pc EXCEPT ![self] = "PO2"]
             /\ UNCHANGED << pop, mtx, q, got, k, prev_, lane_, f_, n, f, r, p >>

PO2(self) == /\ pc[self] = "PO2"
             /\ p' = [p EXCEPT ![self] = pop]
             /\ IF lane[self] \notin p'[self]
                   THEN /\ pc' = [pc EXCEPT ![self] = "PO1"]
                   ELSE /\ pc' = [pc EXCEPT ![self] = "PO3"]
             /\ UNCHANGED << pop, mtx, q, got, k, prev_, lane_, f_, n, prev, 
                             lane, f, r >>

PO3(self) == /\ pc[self] = "PO3"
             /\ f' = [f EXCEPT ![self] = mtx[lane[self]]]
             /\ IF f'[self]
                   THEN /\ pc' = [pc EXCEPT ![self] = "PO1"]
                   ELSE /\ pc' = [pc EXCEPT ![self] = "PO4"]
             /\ UNCHANGED << pop, mtx, q, got, k, prev_, lane_, f_, n, prev, 
                             lane, r, p >>

PO4(self) == /\ pc[self] = "PO4"
             /\ f' = [f EXCEPT ![self] = mtx[lane[self]]]
             /\ mtx' = [mtx EXCEPT ![lane[self]] = TRUE]
             /\ IF f'[self]
                   THEN /\ pc' = [pc EXCEPT ![self] = "PO1"]
                   ELSE /\ pc' = [pc EXCEPT ![self] = "PO5"]
             /\ UNCHANGED << pop, q, got, k, prev_, lane_, f_, n, prev, lane, 
                             r, p >>

PO5(self) == /\ pc[self] = "PO5"
             /\ IF Len(q[lane[self]]) > 0
                   THEN /\ r' = [r EXCEPT ![self] = Head(q[lane[self]])]
                        /\ q' = [q EXCEPT ![lane[self]] = Tail(q[lane[self]])]
                        /\ IF Len(q'[lane[self]]) = 0
                              THEN /\ pc' = [pc EXCEPT ![self] = "PO6"]
                              ELSE /\ pc' = [pc EXCEPT ![self] = "PO7"]
                   ELSE /\ pc' = [pc EXCEPT ![self] = "PO7"]
                        /\ UNCHANGED << q, r >>
             /\ UNCHANGED << pop, mtx, got, k, prev_, lane_, f_, n, prev, lane, 
                             f, p >>

PO6(self) == /\ pc[self] = "PO6"
             /\ pop' = pop \ {lane[self]}
             /\ pc' = [pc EXCEPT ![self] = "PO7"]
             /\ UNCHANGED << mtx, q, got, k, prev_, lane_, f_, n, prev, lane, 
                             f, r, p >>

PO7(self) == /\ pc[self] = "PO7"
             /\ mtx' = [mtx EXCEPT ![lane[self]] = FALSE]
             /\ IF r[self] = 0
                   THEN /\ pc' = [pc EXCEPT ![self] = "PO1"]
                   ELSE /\ pc' = [pc EXCEPT ![self] = "PORet"]
             /\ UNCHANGED << pop, q, got, k, prev_, lane_, f_, n, prev, lane, 
                             f, r, p >>

PORet(self) == /\ pc[self] = "PORet"
               /\ got' = [got EXCEPT ![self] = Append(got[self], r[self])]
               /\ n' = [n EXCEPT ![self] = n[self] + 1]
               /\ pc' = [pc EXCEPT ![self] = "PO0"]
               /\ UNCHANGED << pop, mtx, q, k, prev_, lane_, f_, prev, lane, f, 
                               r, p >>

po(self) == PO0(self) \/ PO1(self) \/ POs(self) \/ PO2(self) \/ PO3(self)
               \/ PO4(self) \/ PO5(self) \/ PO6(self) \/ PO7(self)
               \/ PORet(self)

(* Allow infinite stuttering to prevent deadlock on termination. *)
Terminating == /\ \A self \in ProcSet: pc[self] = "Done"
               /\ UNCHANGED vars

Next == (\E self \in Pushers: pu(self))
           \/ (\E self \in Poppers: po(self))
           \/ Terminating

Spec == Init /\ [][Next]_vars

Termination == <>(\A self \in ProcSet: pc[self] = "Done")

\* END TRANSLATION
Pushed == {pp * 10 + kk : pp \in Pushers, kk \in 1..3} \cap UNION {{pp * 10 + kk : kk \in 1..PushN[pp]} : pp \in Pushers}
Taken == UNION {{got[t][i] : i \in DOMAIN got[t]} : t \in Poppers} \ {0}
NoDup == \A t1, t2 \in Poppers : \A i \in DOMAIN got[t1], j \in DOMAIN got[t2] : (got[t1][i] # 0 /\ got[t1][i] = got[t2][j]) => (t1 = t2 /\ i = j)
InLane(x) == \E l \in Lanes : \E i \in DOMAIN q[l] : q[l][i] = x
\* a lane that holds a task and is not locked is advertised
NoStrand == \A l \in Lanes : (Len(q[l]) > 0 /\ ~mtx[l]) => l \in pop
AllDone == \A t \in Pushers \cup Poppers : pc[t] = "Done"
NoLoss == AllDone => \A x \in Pushed : (x \in Taken) \/ (InLane(x) /\ \E l \in pop : \E i \in DOMAIN q[l] : q[l][i] = x)
OnlyPushed == Taken \subseteq Pushed
====
