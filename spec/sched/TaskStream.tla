---- MODULE TaskStream ----
\* task_stream (src/tbb/task_stream.h): the container of enqueued ("fairness oriented") tasks of an arena: N lanes, each a deque under a try-locked mutex,
\* and the population bit mask that tells which lanes may hold tasks.  One label per shared access (population, the lanes' mutex flags); the deque itself is
\* only touched under its lane's mutex and changes inside the step that follows the successful exchange.
\*   push:  choose the next lane; try_lock (load, exchange); push_back; fetch_or(bit); unlock (exchange)
\*   pop:   while (!empty() && !popped) { choose the previous lane; bit set?; try_lock; pop_front; if the lane is now empty fetch_and(~bit); unlock }
\*          (Accessor = "back": the critical-task stream takes from the back and skips the null place-holders pop_specific leaves behind)
\*   pop_specific(hint, isolation): lanes backwards from the hint: bit set?; try_lock; search the lane from the back for a task with this isolation tag
\*          (the last element is removed, an inner one is replaced by null); if the lane is now empty fetch_and(~bit); unlock; until found, empty() or back at the hint
\* Properties (C01 / C02): a task is handed out at most once; no task is stranded - a lane that holds a task and is not locked has its population bit set,
\* so at quiescence every pushed task was popped or is still advertised.
EXTENDS Integers, Sequences, FiniteSets, TLC
CONSTANTS Pushers, Poppers, NLanes, PushN, PopN,    \* PushN[p]: number of tasks pusher p pushes (task ids p*10+k); PopN: pop() calls per popper
          Specifics, SpecN, Tag, Accessor            \* Specifics: threads calling pop_specific SpecN times with isolation Tag[self]; Tag[p] for a pusher: the tag of its tasks
Lanes == 0..NLanes-1
(* --algorithm taskstream {
  variables pop = {}, mtx = [l \in Lanes |-> FALSE], q = [l \in Lanes |-> <<>>],
            got = [t \in Pushers \cup Poppers \cup Specifics |-> <<>>];
  define {
    TagOf(x) == Tag[x \div 10]
    \* look_specific: index of the last element of s that is a task with tag g, or 0
    LastWith(s, g) == IF \E i \in DOMAIN s : s[i] # 0 /\ TagOf(s[i]) = g THEN CHOOSE i \in DOMAIN s : s[i] # 0 /\ TagOf(s[i]) = g /\ \A j \in DOMAIN s : (j > i => (s[j] = 0 \/ TagOf(s[j]) # g)) ELSE 0
    \* back_nonnull get_item: drop trailing nulls, take the last task (or nothing if only nulls were there)
    RECURSIVE StripNulls(_)
    StripNulls(s) == IF s # <<>> /\ s[Len(s)] = 0 THEN StripNulls(SubSeq(s, 1, Len(s) - 1)) ELSE s
  }
  process (pu \in Pushers)
    variables k = 1, prev = 0, lane = 0, f = FALSE;
  {
  PU0: while (k <= PushN[self]) {
    PUs: prev := (prev + 1) % NLanes; lane := prev;          \* subsequent_lane_selector (thread-local)
    PU1: f := mtx[lane];                                     \* try_lock: load
         if (f) { goto PUs };
    PU2: f := mtx[lane]; mtx[lane] := TRUE;                  \* try_lock: exchange(true)
         if (f) { goto PUs };
    PU3: q[lane] := Append(q[lane], self * 10 + k); pop := pop \cup {lane};     \* push_back (plain, under the lock); set_one_bit: fetch_or
    PU4: mtx[lane] := FALSE;                                 \* unlock: exchange(false)
         k := k + 1;
    }
  }
  process (po \in Poppers)
    variables n = 1, prev = 0, lane = 0, f = FALSE, r = 0, p = {};
  {
  PO0: while (n <= PopN) {
         r := 0;
    PO1: p := pop;                                           \* loop condition !empty() && !popped: the population is loaded even after a successful try_pop
         if (p = {} \/ r # 0) { goto PORet };
    POs: prev := (prev + NLanes - 1) % NLanes; lane := prev; \* preceding_lane_selector
    PO2: p := pop;                                           \* try_pop: is_bit_set(population.load)
         if (lane \notin p) { goto PO1 };
    PO3: f := mtx[lane];                                     \* try_lock: load
         if (f) { goto PO1 };
    PO4: f := mtx[lane]; mtx[lane] := TRUE;                  \* try_lock: exchange(true)
         if (f) { goto PO1 };
    PO5: if (Len(q[lane]) > 0) {                             \* under the lock: take an item, and clear the bit if the lane became empty
           if (Accessor = "front") { r := Head(q[lane]); q[lane] := Tail(q[lane]) }
           else { with (st = StripNulls(q[lane])) { if (st = <<>>) { r := 0; q[lane] := <<>> } else { r := st[Len(st)]; q[lane] := SubSeq(st, 1, Len(st) - 1) } } };
           if (Len(q[lane]) = 0) { goto PO6 } else { goto PO7 } }
         else { goto PO7 };
    PO6: pop := pop \ {lane};                                \* clear_one_bit: fetch_and
    PO7: mtx[lane] := FALSE;                                 \* unlock: exchange(false)
         goto PO1;
    PORet: got[self] := Append(got[self], r); n := n + 1;
    }
  }
  process (sp \in Specifics)
    variables sn = 1, last = 0, idx = 0, sf = FALSE, sr = 0, spp = {}, at = 0;
  {
  SP0: while (sn <= SpecN) {
         sr := 0; idx := last;
    SP1: spp := pop;                                         \* is_bit_set(population.load, idx)
         if (idx \notin spp) { goto SPn };
    SP2: sf := mtx[idx];                                     \* try_lock: load
         if (sf) { goto SPn };
    SP3: sf := mtx[idx]; mtx[idx] := TRUE;                   \* try_lock: exchange(true)
         if (sf) { goto SPn };
    SP4: if (Len(q[idx]) > 0) {                              \* under the lock: look_specific, and clear the bit if the lane became empty
           at := LastWith(q[idx], Tag[self]);
           if (at # 0) { sr := q[idx][at];
                         if (at = Len(q[idx])) { q[idx] := SubSeq(q[idx], 1, at - 1) } else { q[idx][at] := 0 } };
           if (Len(q[idx]) = 0) { goto SP5 } else { goto SP6 } }
         else { goto SP6 };
    SP5: pop := pop \ {idx};                                 \* clear_one_bit: fetch_and
    SP6: mtx[idx] := FALSE;                                  \* unlock: exchange(false)
         if (sr # 0) { goto SPRet };
    SPn: idx := (idx + NLanes - 1) % NLanes;
    SPe: spp := pop;                                         \* while (!empty() && idx != last_used_lane)
         if (spp # {} /\ idx # last) { goto SP1 };
    SPRet: last := idx; got[self] := Append(got[self], sr); sn := sn + 1;
    }
  }
} *)
\* BEGIN TRANSLATION
\* Process variable prev of process pu at line 28 col 22 changed to prev_
\* Process variable lane of process pu at line 28 col 32 changed to lane_
\* Process variable f of process pu at line 28 col 42 changed to f_
VARIABLES pc, pop, mtx, q, got

(* define statement *)
TagOf(x) == Tag[x \div 10]

LastWith(s, g) == IF \E i \in DOMAIN s : s[i] # 0 /\ TagOf(s[i]) = g THEN CHOOSE i \in DOMAIN s : s[i] # 0 /\ TagOf(s[i]) = g /\ \A j \in DOMAIN s : (j > i => (s[j] = 0 \/ TagOf(s[j]) # g)) ELSE 0

RECURSIVE StripNulls(_)
StripNulls(s) == IF s # <<>> /\ s[Len(s)] = 0 THEN StripNulls(SubSeq(s, 1, Len(s) - 1)) ELSE s

VARIABLES k, prev_, lane_, f_, n, prev, lane, f, r, p, sn, last, idx, sf, sr, 
          spp, at

vars == << pc, pop, mtx, q, got, k, prev_, lane_, f_, n, prev, lane, f, r, p, 
           sn, last, idx, sf, sr, spp, at >>

ProcSet == (Pushers) \cup (Poppers) \cup (Specifics)

Init == (* Global variables *)
        /\ pop = {}
        /\ mtx = [l \in Lanes |-> FALSE]
        /\ q = [l \in Lanes |-> <<>>]
        /\ got = [t \in Pushers \cup Poppers \cup Specifics |-> <<>>]
        (* Process pu *)
        /\ k = [self \in Pushers |-> 1]
        /\ prev_ = [self \in Pushers |-> 0]
        /\ lane_ = [self \in Pushers |-> 0]
        /\ f_ = [self \in Pushers |-> FALSE]
        (* Process po *)
        /\ n = [self \in Poppers |-> 1]
        /\ prev = [self \in Poppers |-> 0]
        /\ lane = [self \in Poppers |-> 0]
        /\ f = [self \in Poppers |-> FALSE]
        /\ r = [self \in Poppers |-> 0]
        /\ p = [self \in Poppers |-> {}]
        (* Process sp *)
        /\ sn = [self \in Specifics |-> 1]
        /\ last = [self \in Specifics |-> 0]
        /\ idx = [self \in Specifics |-> 0]
        /\ sf = [self \in Specifics |-> FALSE]
        /\ sr = [self \in Specifics |-> 0]
        /\ spp = [self \in Specifics |-> {}]
        /\ at = [self \in Specifics |-> 0]
        /\ pc = [self \in ProcSet |-> CASE self \in Pushers -> "PU0"
                                        [] self \in Poppers -> "PO0"
                                        [] self \in Specifics -> "SP0"]

PU0(self) == /\ pc[self] = "PU0"
             /\ IF k[self] <= PushN[self]
                   THEN /\ pc' = [pc EXCEPT ![self] = "PUs"]
                   ELSE /\ pc' = [pc EXCEPT ![self] = "Done"]
             /\ UNCHANGED << pop, mtx, q, got, k, prev_, lane_, f_, n, prev, 
                             lane, f, r, p, sn, last, idx, sf, sr, spp, at >>

PUs(self) == /\ pc[self] = "PUs"
             /\ prev_' = [prev_ EXCEPT ![self] = (prev_[self] + 1) % NLanes]
             /\ lane_' = [lane_ EXCEPT ![self] = prev_'[self]]
             /\ pc' = [pc EXCEPT ![self] = "PU1"]
             /\ UNCHANGED << pop, mtx, q, got, k, f_, n, prev, lane, f, r, p, 
                             sn, last, idx, sf, sr, spp, at >>

PU1(self) == /\ pc[self] = "PU1"
             /\ f_' = [f_ EXCEPT ![self] = mtx[lane_[self]]]
             /\ IF f_'[self]
                   THEN /\ pc' = [pc EXCEPT ![self] = "PUs"]
                   ELSE /\ pc' = [pc EXCEPT ![self] = "PU2"]
             /\ UNCHANGED << pop, mtx, q, got, k, prev_, lane_, n, prev, lane, 
                             f, r, p, sn, last, idx, sf, sr, spp, at >>

PU2(self) == /\ pc[self] = "PU2"
             /\ f_' = [f_ EXCEPT ![self] = mtx[lane_[self]]]
             /\ mtx' = [mtx EXCEPT ![lane_[self]] = TRUE]
             /\ IF f_'[self]
                   THEN /\ pc' = [pc EXCEPT ![self] = "PUs"]
                   ELSE /\ pc' = [pc EXCEPT ![self] = "PU3"]
             /\ UNCHANGED << pop, q, got, k, prev_, lane_, n, prev, lane, f, r, 
                             p, sn, last, idx, sf, sr, spp, at >>

PU3(self) == /\ pc[self] = "PU3"
             /\ q' = [q EXCEPT ![lane_[self]] = Append(q[lane_[self]], self * 10 + k[self])]
             /\ pop' = (pop \cup {lane_[self]})
             /\ pc' = [pc EXCEPT ![self] = "PU4"]
             /\ UNCHANGED << mtx, got, k, prev_, lane_, f_, n, prev, lane, f, 
                             r, p, sn, last, idx, sf, sr, spp, at >>

PU4(self) == /\ pc[self] = "PU4"
             /\ mtx' = [mtx EXCEPT ![lane_[self]] = FALSE]
             /\ k' = [k EXCEPT ![self] = k[self] + 1]
             /\ pc' = [pc EXCEPT ![self] = "PU0"]
             /\ UNCHANGED << pop, q, got, prev_, lane_, f_, n, prev, lane, f, 
                             r, p, sn, last, idx, sf, sr, spp, at >>

pu(self) == PU0(self) \/ PUs(self) \/ PU1(self) \/ PU2(self) \/ PU3(self)
               \/ PU4(self)

PO0(self) == /\ pc[self] = "PO0"
             /\ IF n[self] <= PopN
                   THEN /\ r' = [r EXCEPT ![self] = 0]
                        /\ pc' = [pc EXCEPT ![self] = "PO1"]
                   ELSE /\ pc' = [pc EXCEPT ![self] = "Done"]
                        /\ r' = r
             /\ UNCHANGED << pop, mtx, q, got, k, prev_, lane_, f_, n, prev, 
                             lane, f, p, sn, last, idx, sf, sr, spp, at >>

PO1(self) == /\ pc[self] = "PO1"
             /\ p' = [p EXCEPT ![self] = pop]
             /\ IF p'[self] = {} \/ r[self] # 0
                   THEN /\ pc' = [pc EXCEPT ![self] = "PORet"]
                   ELSE /\ pc' = [pc EXCEPT ![self] = "POs"]
             /\ UNCHANGED << pop, mtx, q, got, k, prev_, lane_, f_, n, prev, 
                             lane, f, r, sn, last, idx, sf, sr, spp, at >>

POs(self) == /\ pc[self] = "POs"
             /\ prev' = [prev EXCEPT ![self] = (prev[self] + NLanes - 1) % NLanes]
             /\ lane' = [lane EXCEPT ![self] = prev'[self]]
             /\ pc' = [pc EXCEPT ![self] = "PO2"]
             /\ UNCHANGED << pop, mtx, q, got, k, prev_, lane_, f_, n, f, r, p, 
                             sn, last, idx, sf, sr, spp, at >>

PO2(self) == /\ pc[self] = "PO2"
             /\ p' = [p EXCEPT ![self] = pop]
             /\ IF lane[self] \notin p'[self]
                   THEN /\ pc' = [pc EXCEPT ![self] = "PO1"]
                   ELSE /\ pc' = [pc EXCEPT ![self] = "PO3"]
             /\ UNCHANGED << pop, mtx, q, got, k, prev_, lane_, f_, n, prev, 
                             lane, f, r, sn, last, idx, sf, sr, spp, at >>

PO3(self) == /\ pc[self] = "PO3"
             /\ f' = [f EXCEPT ![self] = mtx[lane[self]]]
             /\ IF f'[self]
                   THEN /\ pc' = [pc EXCEPT ![self] = "PO1"]
                   ELSE /\ pc' = [pc EXCEPT ![self] = "PO4"]
             /\ UNCHANGED << pop, mtx, q, got, k, prev_, lane_, f_, n, prev, 
                             lane, r, p, sn, last, idx, sf, sr, spp, at >>

PO4(self) == /\ pc[self] = "PO4"
             /\ f' = [f EXCEPT ![self] = mtx[lane[self]]]
             /\ mtx' = [mtx EXCEPT ![lane[self]] = TRUE]
             /\ IF f'[self]
                   THEN /\ pc' = [pc EXCEPT ![self] = "PO1"]
                   ELSE /\ pc' = [pc EXCEPT ![self] = "PO5"]
             /\ UNCHANGED << pop, q, got, k, prev_, lane_, f_, n, prev, lane, 
                             r, p, sn, last, idx, sf, sr, spp, at >>

PO5(self) == /\ pc[self] = "PO5"
             /\ IF Len(q[lane[self]]) > 0
                   THEN /\ IF Accessor = "front"
                              THEN /\ r' = [r EXCEPT ![self] = Head(q[lane[self]])]
                                   /\ q' = [q EXCEPT ![lane[self]] = Tail(q[lane[self]])]
                              ELSE /\ LET st == StripNulls(q[lane[self]]) IN
                                        IF st = <<>>
                                           THEN /\ r' = [r EXCEPT ![self] = 0]
                                                /\ q' = [q EXCEPT ![lane[self]] = <<>>]
                                           ELSE /\ r' = [r EXCEPT ![self] = st[Len(st)]]
                                                /\ q' = [q EXCEPT ![lane[self]] = SubSeq(st, 1, Len(st) - 1)]
                        /\ IF Len(q'[lane[self]]) = 0
                              THEN /\ pc' = [pc EXCEPT ![self] = "PO6"]
                              ELSE /\ pc' = [pc EXCEPT ![self] = "PO7"]
                   ELSE /\ pc' = [pc EXCEPT ![self] = "PO7"]
                        /\ UNCHANGED << q, r >>
             /\ UNCHANGED << pop, mtx, got, k, prev_, lane_, f_, n, prev, lane, 
                             f, p, sn, last, idx, sf, sr, spp, at >>

PO6(self) == /\ pc[self] = "PO6"
             /\ pop' = pop \ {lane[self]}
             /\ pc' = [pc EXCEPT ![self] = "PO7"]
             /\ UNCHANGED << mtx, q, got, k, prev_, lane_, f_, n, prev, lane, 
                             f, r, p, sn, last, idx, sf, sr, spp, at >>

PO7(self) == /\ pc[self] = "PO7"
             /\ mtx' = [mtx EXCEPT ![lane[self]] = FALSE]
             /\ pc' = [pc EXCEPT ![self] = "PO1"]
             /\ UNCHANGED << pop, q, got, k, prev_, lane_, f_, n, prev, lane, 
                             f, r, p, sn, last, idx, sf, sr, spp, at >>

PORet(self) == /\ pc[self] = "PORet"
               /\ got' = [got EXCEPT ![self] = Append(got[self], r[self])]
               /\ n' = [n EXCEPT ![self] = n[self] + 1]
               /\ pc' = [pc EXCEPT ![self] = "PO0"]
               /\ UNCHANGED << pop, mtx, q, k, prev_, lane_, f_, prev, lane, f, 
                               r, p, sn, last, idx, sf, sr, spp, at >>

po(self) == PO0(self) \/ PO1(self) \/ POs(self) \/ PO2(self) \/ PO3(self)
               \/ PO4(self) \/ PO5(self) \/ PO6(self) \/ PO7(self)
               \/ PORet(self)

SP0(self) == /\ pc[self] = "SP0"
             /\ IF sn[self] <= SpecN
                   THEN /\ sr' = [sr EXCEPT ![self] = 0]
                        /\ idx' = [idx EXCEPT ![self] = last[self]]
                        /\ pc' = [pc EXCEPT ![self] = "SP1"]
                   ELSE /\ pc' = [pc EXCEPT ![self] = "Done"]
                        /\ UNCHANGED << idx, sr >>
             /\ UNCHANGED << pop, mtx, q, got, k, prev_, lane_, f_, n, prev, 
                             lane, f, r, p, sn, last, sf, spp, at >>

SP1(self) == /\ pc[self] = "SP1"
             /\ spp' = [spp EXCEPT ![self] = pop]
             /\ IF idx[self] \notin spp'[self]
                   THEN /\ pc' = [pc EXCEPT ![self] = "SPn"]
                   ELSE /\ pc' = [pc EXCEPT ![self] = "SP2"]
             /\ UNCHANGED << pop, mtx, q, got, k, prev_, lane_, f_, n, prev, 
                             lane, f, r, p, sn, last, idx, sf, sr, at >>

SP2(self) == /\ pc[self] = "SP2"
             /\ sf' = [sf EXCEPT ![self] = mtx[idx[self]]]
             /\ IF sf'[self]
                   THEN /\ pc' = [pc EXCEPT ![self] = "SPn"]
                   ELSE /\ pc' = [pc EXCEPT ![self] = "SP3"]
             /\ UNCHANGED << pop, mtx, q, got, k, prev_, lane_, f_, n, prev, 
                             lane, f, r, p, sn, last, idx, sr, spp, at >>

SP3(self) == /\ pc[self] = "SP3"
             /\ sf' = [sf EXCEPT ![self] = mtx[idx[self]]]
             /\ mtx' = [mtx EXCEPT ![idx[self]] = TRUE]
             /\ IF sf'[self]
                   THEN /\ pc' = [pc EXCEPT ![self] = "SPn"]
                   ELSE /\ pc' = [pc EXCEPT ![self] = "SP4"]
             /\ UNCHANGED << pop, q, got, k, prev_, lane_, f_, n, prev, lane, 
                             f, r, p, sn, last, idx, sr, spp, at >>

SP4(self) == /\ pc[self] = "SP4"
             /\ IF Len(q[idx[self]]) > 0
                   THEN /\ at' = [at EXCEPT ![self] = LastWith(q[idx[self]], Tag[self])]
                        /\ IF at'[self] # 0
                              THEN /\ sr' = [sr EXCEPT ![self] = q[idx[self]][at'[self]]]
                                   /\ IF at'[self] = Len(q[idx[self]])
                                         THEN /\ q' = [q EXCEPT ![idx[self]] = SubSeq(q[idx[self]], 1, at'[self] - 1)]
                                         ELSE /\ q' = [q EXCEPT ![idx[self]][at'[self]] = 0]
                              ELSE /\ TRUE
                                   /\ UNCHANGED << q, sr >>
                        /\ IF Len(q'[idx[self]]) = 0
                              THEN /\ pc' = [pc EXCEPT ![self] = "SP5"]
                              ELSE /\ pc' = [pc EXCEPT ![self] = "SP6"]
                   ELSE /\ pc' = [pc EXCEPT ![self] = "SP6"]
                        /\ UNCHANGED << q, sr, at >>
             /\ UNCHANGED << pop, mtx, got, k, prev_, lane_, f_, n, prev, lane, 
                             f, r, p, sn, last, idx, sf, spp >>

SP5(self) == /\ pc[self] = "SP5"
             /\ pop' = pop \ {idx[self]}
             /\ pc' = [pc EXCEPT ![self] = "SP6"]
             /\ UNCHANGED << mtx, q, got, k, prev_, lane_, f_, n, prev, lane, 
                             f, r, p, sn, last, idx, sf, sr, spp, at >>

SP6(self) == /\ pc[self] = "SP6"
             /\ mtx' = [mtx EXCEPT ![idx[self]] = FALSE]
             /\ IF sr[self] # 0
                   THEN /\ pc' = [pc EXCEPT ![self] = "SPRet"]
                   ELSE /\ pc' = [pc EXCEPT ![self] = "SPn"]
             /\ UNCHANGED << pop, q, got, k, prev_, lane_, f_, n, prev, lane, 
                             f, r, p, sn, last, idx, sf, sr, spp, at >>

SPn(self) == /\ pc[self] = "SPn"
             /\ idx' = [idx EXCEPT ![self] = (idx[self] + NLanes - 1) % NLanes]
             /\ pc' = [pc EXCEPT ![self] = "SPe"]
             /\ UNCHANGED << pop, mtx, q, got, k, prev_, lane_, f_, n, prev, 
                             lane, f, r, p, sn, last, sf, sr, spp, at >>

SPe(self) == /\ pc[self] = "SPe"
             /\ spp' = [spp EXCEPT ![self] = pop]
             /\ IF spp'[self] # {} /\ idx[self] # last[self]
                   THEN /\ pc' = [pc EXCEPT ![self] = "SP1"]
                   ELSE /\ pc' = [pc EXCEPT ![self] = "SPRet"]
             /\ UNCHANGED << pop, mtx, q, got, k, prev_, lane_, f_, n, prev, 
                             lane, f, r, p, sn, last, idx, sf, sr, at >>

SPRet(self) == /\ pc[self] = "SPRet"
               /\ last' = [last EXCEPT ![self] = idx[self]]
               /\ got' = [got EXCEPT ![self] = Append(got[self], sr[self])]
               /\ sn' = [sn EXCEPT ![self] = sn[self] + 1]
               /\ pc' = [pc EXCEPT ![self] = "SP0"]
               /\ UNCHANGED << pop, mtx, q, k, prev_, lane_, f_, n, prev, lane, 
                               f, r, p, idx, sf, sr, spp, at >>

sp(self) == SP0(self) \/ SP1(self) \/ SP2(self) \/ SP3(self) \/ SP4(self)
               \/ SP5(self) \/ SP6(self) \/ SPn(self) \/ SPe(self)
               \/ SPRet(self)

(* Allow infinite stuttering to prevent deadlock on termination. *)
Terminating == /\ \A self \in ProcSet: pc[self] = "Done"
               /\ UNCHANGED vars

Next == (\E self \in Pushers: pu(self))
           \/ (\E self \in Poppers: po(self))
           \/ (\E self \in Specifics: sp(self))
           \/ Terminating

Spec == Init /\ [][Next]_vars

Termination == <>(\A self \in ProcSet: pc[self] = "Done")

\* END TRANSLATION
Pushed == {pp * 10 + kk : pp \in Pushers, kk \in 1..3} \cap UNION {{pp * 10 + kk : kk \in 1..PushN[pp]} : pp \in Pushers}
Takers == Poppers \cup Specifics
Taken == UNION {{got[t][i] : i \in DOMAIN got[t]} : t \in Takers} \ {0}
NoDup == \A t1, t2 \in Takers : \A i \in DOMAIN got[t1], j \in DOMAIN got[t2] : (got[t1][i] # 0 /\ got[t1][i] = got[t2][j]) => (t1 = t2 /\ i = j)
InLane(x) == \E l \in Lanes : \E i \in DOMAIN q[l] : q[l][i] = x
\* a lane that holds a task and is not locked is advertised
\* (a lane that holds only null place-holders need not be advertised)
NoStrand == \A l \in Lanes : ((\E i \in DOMAIN q[l] : q[l][i] # 0) /\ ~mtx[l]) => l \in pop
AllDone == \A t \in Pushers \cup Poppers \cup Specifics : pc[t] = "Done"
\* pop_specific hands out only tasks of the caller's isolation
RightTag == \A t \in Specifics : \A i \in DOMAIN got[t] : got[t][i] # 0 => TagOf(got[t][i]) = Tag[t]
NoLoss == AllDone => \A x \in Pushed : (x \in Taken) \/ (InLane(x) /\ \E l \in pop : \E i \in DOMAIN q[l] : q[l][i] = x)
OnlyPushed == Taken \subseteq Pushed
====
