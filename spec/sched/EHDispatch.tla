----------------------------- MODULE EHDispatch -----------------------------
(***************************************************************************)
(* Protocol model (critical-section granularity) of how the dispatcher       *)
(* turns a throwing task into one exception at the wait:                     *)
(*   src/tbb/task_dispatcher.h  (catch in local_wait_for_all: the thrower    *)
(*       calls cancel_group_execution(); only the winner stores the          *)
(*       exception in the context; a task of a cancelled group is            *)
(*       dispatched through cancel() instead of execute())                   *)
(*   include/oneapi/tbb/task_group.h  (wait: after the wait_context reached  *)
(*       zero, a stored exception is rethrown and the context is reset)      *)
(* Throws (chosen by TLC) is the set of tasks whose body throws; TLC          *)
(* enumerates every subset and every                                         *)
(* interleaving of two executing threads and the waiter.  Refines GroupEH.   *)
(***************************************************************************)
EXTENDS Naturals, FiniteSets, TLC
CONSTANTS Tasks, Workers
(* --algorithm ehdispatch {
  variables Throws \in SUBSET Tasks,          \* which bodies throw: every subset is explored
            pool = Tasks, refs = Cardinality(Tasks), cancelled = FALSE, stored = 0,
            live = {}, ran = {}, skipped = {}, result = "pending", surfaced = 0;
  process (w \in Workers)
    variables t = 0;
  {
    w1: while (pool # {}) {
          with (x \in pool) { t := x; pool := pool \ {x} };                 \* pop / steal (C01 is the exactly-once part)
      w2: if (cancelled) { skipped := skipped \cup {t}; goto w5 }            \* context cancelled: task::cancel()
          else { live := live \cup {t} };
      w3: live := live \ {t}; ran := ran \cup {t};                            \* body finished or threw
          if (t \notin Throws) { goto w5 };
      w4: if (~cancelled) { cancelled := TRUE; stored := t };                 \* cancel_group_execution(): the winner stores its exception
      w5: refs := refs - 1;                                                   \* release the wait_context
        }
  }
  process (waiter = 99)
  {
    m1: await refs = 0;                                                       \* wait_context reaches zero
    m2: if (stored # 0) { result := "throw"; surfaced := stored; stored := 0; cancelled := FALSE }   \* rethrow + reset
        else { result := "return"; cancelled := FALSE };
  }
} *)
\* BEGIN TRANSLATION
VARIABLES pc, Throws, pool, refs, cancelled, stored, live, ran, skipped, 
          result, surfaced, t

vars == << pc, Throws, pool, refs, cancelled, stored, live, ran, skipped, 
           result, surfaced, t >>

ProcSet == (Workers) \cup {99}

Init == (* Global variables *)
        /\ Throws \in SUBSET Tasks
        /\ pool = Tasks
        /\ refs = Cardinality(Tasks)
        /\ cancelled = FALSE
        /\ stored = 0
        /\ live = {}
        /\ ran = {}
        /\ skipped = {}
        /\ result = "pending"
        /\ surfaced = 0
        (* Process w *)
        /\ t = [self \in Workers |-> 0]
        /\ pc = [self \in ProcSet |-> CASE self \in Workers -> "w1"
                                        [] self = 99 -> "m1"]

w1(self) == /\ pc[self] = "w1"
            /\ IF pool # {}
                  THEN /\ \E x \in pool:
                            /\ t' = [t EXCEPT ![self] = x]
                            /\ pool' = pool \ {x}
                       /\ pc' = [pc EXCEPT ![self] = "w2"]
                  ELSE /\ pc' = [pc EXCEPT ![self] = "Done"]
                       /\ UNCHANGED << pool, t >>
            /\ UNCHANGED << Throws, refs, cancelled, stored, live, ran, 
                            skipped, result, surfaced >>

w2(self) == /\ pc[self] = "w2"
            /\ IF cancelled
                  THEN /\ skipped' = (skipped \cup {t[self]})
                       /\ pc' = [pc EXCEPT ![self] = "w5"]
                       /\ live' = live
                  ELSE /\ live' = (live \cup {t[self]})
                       /\ pc' = [pc EXCEPT ![self] = "w3"]
                       /\ UNCHANGED skipped
            /\ UNCHANGED << Throws, pool, refs, cancelled, stored, ran, result, 
                            surfaced, t >>

w3(self) == /\ pc[self] = "w3"
            /\ live' = live \ {t[self]}
            /\ ran' = (ran \cup {t[self]})
            /\ IF t[self] \notin Throws
                  THEN /\ pc' = [pc EXCEPT ![self] = "w5"]
                  ELSE /\ pc' = [pc EXCEPT ![self] = "w4"]
            /\ UNCHANGED << Throws, pool, refs, cancelled, stored, skipped, 
                            result, surfaced, t >>

w4(self) == /\ pc[self] = "w4"
            /\ IF ~cancelled
                  THEN /\ cancelled' = TRUE
                       /\ stored' = t[self]
                  ELSE /\ TRUE
                       /\ UNCHANGED << cancelled, stored >>
            /\ pc' = [pc EXCEPT ![self] = "w5"]
            /\ UNCHANGED << Throws, pool, refs, live, ran, skipped, result, 
                            surfaced, t >>

w5(self) == /\ pc[self] = "w5"
            /\ refs' = refs - 1
            /\ pc' = [pc EXCEPT ![self] = "w1"]
            /\ UNCHANGED << Throws, pool, cancelled, stored, live, ran, 
                            skipped, result, surfaced, t >>

w(self) == w1(self) \/ w2(self) \/ w3(self) \/ w4(self) \/ w5(self)

m1 == /\ pc[99] = "m1"
      /\ refs = 0
      /\ pc' = [pc EXCEPT ![99] = "m2"]
      /\ UNCHANGED << Throws, pool, refs, cancelled, stored, live, ran, 
                      skipped, result, surfaced, t >>

m2 == /\ pc[99] = "m2"
      /\ IF stored # 0
            THEN /\ result' = "throw"
                 /\ surfaced' = stored
                 /\ stored' = 0
                 /\ cancelled' = FALSE
            ELSE /\ result' = "return"
                 /\ cancelled' = FALSE
                 /\ UNCHANGED << stored, surfaced >>
      /\ pc' = [pc EXCEPT ![99] = "Done"]
      /\ UNCHANGED << Throws, pool, refs, live, ran, skipped, t >>

waiter == m1 \/ m2

(* Allow infinite stuttering to prevent deadlock on termination. *)
Terminating == /\ \A self \in ProcSet: pc[self] = "Done"
               /\ UNCHANGED vars

Next == waiter
           \/ (\E self \in Workers: w(self))
           \/ Terminating

Spec == Init /\ [][Next]_vars

Termination == <>(\A self \in ProcSet: pc[self] = "Done")

\* END TRANSLATION
Done == pc[99] = "Done"
\* exactly one exception surfaces iff at least one body threw, and it is one that was thrown
OneOfThrown == Done => IF ran \cap Throws = {} THEN result = "return" ELSE (result = "throw" /\ surfaced \in ran \cap Throws)
\* the call neither returns nor throws while a body is running or can still start
NoLiveAtExit == Done => (live = {} /\ pool = {})
\* every task is executed or (only if cancelled) skipped, exactly once
ExactlyOnce == Done => (ran \cup skipped = Tasks /\ ran \cap skipped = {})
\* reusable afterwards
Reusable == Done => (~cancelled /\ stored = 0)
=============================================================================
