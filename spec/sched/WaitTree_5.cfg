SPECIFICATION Spec
CONSTANT Threads = {"m","a","b"}
CONSTANT Tasks = {1,2,3,4,5}
CONSTANT Children <- Ch
CONSTANT RootTasks <- RT
INVARIANT WaitCovers
INVARIANT NonNeg
CHECK_DEADLOCK FALSE
