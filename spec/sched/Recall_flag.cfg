SPECIFICATION Spec
CONSTANT ORDER = "flag"
INVARIANT OnlyAfterResume
INVARIANT AtMostOnce
CHECK_DEADLOCK FALSE
