---- MODULE TaskPoolIso ----
\* TaskPool extended with task isolation (arena_slot::get_task / get_task_impl / steal_task with an isolation tag, src/tbb/arena_slot.cpp):
\* a task whose tag differs from the caller's is skipped (tasks_omitted), the owner afterwards re-publishes the skipped range [H0, T0) or punches a
\* hole at the position it took, the thief punches a hole and rolls head back.  OwnerProg: id > 0 spawn task id (tag Iso[id]); -1 get_task without
\* isolation; -(1+g) get_task with isolation tag g.  ThiefIso[t]: the tag a thief steals with (0 = none).
EXTENDS Integers, Sequences, FiniteSets, TLC
CONSTANTS Thieves, OwnerProg, NSteal, Cap, H0init, Owner, Iso, ThiefIso
\* lock word: "E" empty, "L" locked, "P" published

(* --algorithm taskpool {
  variables head = H0init, tail = H0init, lock = "E",
            pool = [cc \in 0..Cap-1 |-> 0],
            got = [ww \in {Owner} \cup Thieves |-> <<>>];   \* ghost: tasks returned to each thread
  process (owner = Owner)
    variables i = 1, T = 0, T0 = 0, H = 0, H0 = 0, x = "", res = 0, empty = FALSE, T1 = 0, k = 0, iso = 0, omitted = FALSE;
  {
  OLoop: while (i <= Len(OwnerProg)) {
      if (OwnerProg[i] > 0) { goto S1 } else { goto G0 };
    \* ---------------- spawn(task id = OwnerProg[i]) ----------------
    S1: T := tail;                                  \* prepare_task_pool: tail.load
        if (T + 1 <= Cap) { goto S_tail } else { goto A1 };
    \* acquire_task_pool
    A1: x := lock;                                  \* is_task_pool_published
        if (x = "E") { goto S_h } else { goto A2 };
    A2: x := lock;                                  \* load in loop
        if (x # "L") { goto A3 } else { goto A2 };
    A3: if (lock = "P") { lock := "L"; goto S_h } else { goto A2 };
    S_h: H := head;                                 \* head.load under lock; then compaction (plain accesses)
        T1 := 0; k := H;
        RL: while (k < T) { if (pool[k] # 0) { pool[T1] := pool[k]; T1 := T1 + 1 }; k := k + 1 };
    S_cl: skip;                                     \* fill_with_canary_pattern(T1, tail): the argument is a load of tail (the function is empty in release builds)
    S_c1: head := 0;
    S_c2: tail := T1;
    S_c3: x := lock;                                \* release_task_pool: load
        if (x = "E") { T := T1; goto S_tail } else { goto S_c4 };
    S_c4: lock := "P"; T := T1;
    S_tail: pool[T] := OwnerProg[i]; tail := T + 1; \* cell store (plain) + tail.store(release)
    S_pub: x := lock;                               \* is_task_pool_published
        if (x = "E") { goto S_pub2 } else { goto OFin };
    S_pub2: lock := "P"; goto OFin;
    \* ---------------- get_task(isolation) ----------------
    G0: x := lock;                                  \* dispatcher checks is_task_pool_published() first
        iso := -OwnerProg[i] - 1; omitted := FALSE;
        if (x = "E") { res := 0; goto GRet } else { goto G0b };
    G0b: T0 := tail; empty := FALSE; res := 0; H0 := Cap + 1;    \* tail.load
    G1: tail := tail - 1; T := tail;                \* --tail
    G2: H := head;                                  \* head.load(acquire)
        if (H > T) { goto B1 } else { goto G9 };
    B1: x := lock;                                  \* acquire_task_pool: published check
        if (x = "E") { goto G3 } else { goto B2 };
    B2: x := lock; if (x # "L") { goto B3 } else { goto B2 };
    B3: if (lock = "P") { lock := "L"; goto G3 } else { goto B2 };
    G3: H0 := head;                                 \* head.load under lock
        if (H0 > T) { empty := TRUE; goto G4 }
        else if (H0 = T) { empty := TRUE; goto G4 }
        else { goto G7 };
    G4: tail := 0;
    G5: head := 0;
    G6: lock := "E";
        if (H0 > T) { res := 0; goto GEpi } else { goto G9 };     \* the thief has not backed off: nothing to grab (break before get_task_impl)
    G7: x := lock; if (x = "E") { goto G9 } else { goto G8 };   \* release_task_pool
    G8: lock := "P";
    G9: with (v = pool[T]) {                        \* get_task_impl: plain read of the cell
          if (v # 0 /\ (iso = 0 \/ iso = Iso[v])) { res := v; goto GEpi }                     \* a task we may run
          else if (v # 0) { omitted := TRUE; res := 0; if (empty) { goto GEpi } else { goto G1 } }   \* another isolation: skipped
          else { res := 0; if (~omitted) { T0 := T }; if (empty) { goto GEpi } else { goto G1 } } };  \* a hole
    \* epilogue: skipped tasks are made visible again
    GEpi: if (~omitted) { goto GRet }
          else if (empty) {
            if (res # 0) { H0 := H0 + 1 };          \* the task we took sat at position H0
            if (H0 < T0) { goto E1 } else { goto GRet } }
          else { goto E4 };
    E1: head := H0;
    E2: tail := T0;
    E3: lock := "P"; goto GRet;                     \* publish_task_pool
    E4: pool[T] := 0;                               \* a hole where the task was (plain store)
    E5: tail := T0; goto GRet;                      \* tail.store(release)
    GRet: got[Owner] := Append(got[Owner], res);
    OFin: i := i + 1;
    }
  }
  process (thief \in Thieves)
    variables n = 1, vp = "", h = 0, h0 = 0, tl = 0, r = 0, tom = FALSE;
  {
  TLoop: while (n <= NSteal) {
    L0: vp := lock;                                 \* arena::steal_task pre-check
        if (vp = "E") { r := 0; goto TRet } else { goto L1 };
    L1: vp := lock;                                 \* lock_task_pool loop
        if (vp = "E") { r := 0; goto TRet } else if (vp # "L") { goto L2 } else { goto L1 };
    L2: if (lock = vp) { lock := "L"; goto K1 } else { goto L1 };
    K1: h := head; h0 := h; r := 0; tom := FALSE;
    K2: head := head + 1; h := head;                \* ++head
    K3: tl := tail;                                 \* tail.load(acquire)
        if (h > tl) { goto K4 } else { goto K5 };
    K4: head := h0; r := 0; goto U1;
    K5: with (v = pool[h-1]) {
          if (v # 0 /\ (ThiefIso[self] = 0 \/ ThiefIso[self] = Iso[v])) { r := v; if (tom) { goto K6 } else { goto U1 } }
          else if (v # 0) { r := 0; tom := TRUE; goto K2 }                    \* cannot be executed by this thief: skipped
          else { r := 0; if (~tom) { h0 := h }; goto K2 } };                  \* a hole
    K6: pool[h-1] := 0;                             \* some tasks were skipped: punch a hole where the stolen task was (plain store)
    K7: head := h0;                                 \* head.store(H0, release)
    U1: lock := vp;
    TRet: got[self] := Append(got[self], r);
        n := n + 1;
    }
  }
} *)
\* BEGIN TRANSLATION
VARIABLES pc, head, tail, lock, pool, got, i, T, T0, H, H0, x, res, empty, T1, 
          k, iso, omitted, n, vp, h, h0, tl, r, tom

vars == << pc, head, tail, lock, pool, got, i, T, T0, H, H0, x, res, empty, 
           T1, k, iso, omitted, n, vp, h, h0, tl, r, tom >>

ProcSet == {Owner} \cup (Thieves)

Init == (* Global variables *)
        /\ head = H0init
        /\ tail = H0init
        /\ lock = "E"
        /\ pool = [cc \in 0..Cap-1 |-> 0]
        /\ got = [ww \in {Owner} \cup Thieves |-> <<>>]
        (* Process owner *)
        /\ i = 1
        /\ T = 0
        /\ T0 = 0
        /\ H = 0
        /\ H0 = 0
        /\ x = ""
        /\ res = 0
        /\ empty = FALSE
        /\ T1 = 0
        /\ k = 0
        /\ iso = 0
        /\ omitted = FALSE
        (* Process thief *)
        /\ n = [self \in Thieves |-> 1]
        /\ vp = [self \in Thieves |-> ""]
        /\ h = [self \in Thieves |-> 0]
        /\ h0 = [self \in Thieves |-> 0]
        /\ tl = [self \in Thieves |-> 0]
        /\ r = [self \in Thieves |-> 0]
        /\ tom = [self \in Thieves |-> FALSE]
        /\ pc = [self \in ProcSet |-> CASE self = Owner -> "OLoop"
                                        [] self \in Thieves -> "TLoop"]

OLoop == /\ pc[Owner] = "OLoop"
         /\ IF i <= Len(OwnerProg)
               THEN /\ IF OwnerProg[i] > 0
                          THEN /\ pc' = [pc EXCEPT ![Owner] = "S1"]
                          ELSE /\ pc' = [pc EXCEPT ![Owner] = "G0"]
               ELSE /\ pc' = [pc EXCEPT ![Owner] = "Done"]
         /\ UNCHANGED << head, tail, lock, pool, got, i, T, T0, H, H0, x, res, 
                         empty, T1, k, iso, omitted, n, vp, h, h0, tl, r, tom >>

S1 == /\ pc[Owner] = "S1"
      /\ T' = tail
      /\ IF T' + 1 <= Cap
            THEN /\ pc' = [pc EXCEPT ![Owner] = "S_tail"]
            ELSE /\ pc' = [pc EXCEPT ![Owner] = "A1"]
      /\ UNCHANGED << head, tail, lock, pool, got, i, T0, H, H0, x, res, empty, 
                      T1, k, iso, omitted, n, vp, h, h0, tl, r, tom >>

A1 == /\ pc[Owner] = "A1"
      /\ x' = lock
      /\ IF x' = "E"
            THEN /\ pc' = [pc EXCEPT ![Owner] = "S_h"]
            ELSE /\ pc' = [pc EXCEPT ![Owner] = "A2"]
      /\ UNCHANGED << head, tail, lock, pool, got, i, T, T0, H, H0, res, empty, 
                      T1, k, iso, omitted, n, vp, h, h0, tl, r, tom >>

A2 == /\ pc[Owner] = "A2"
      /\ x' = lock
      /\ IF x' # "L"
            THEN /\ pc' = [pc EXCEPT ![Owner] = "A3"]
            ELSE /\ pc' = [pc EXCEPT ![Owner] = "A2"]
      /\ UNCHANGED << head, tail, lock, pool, got, i, T, T0, H, H0, res, empty, 
                      T1, k, iso, omitted, n, vp, h, h0, tl, r, tom >>

A3 == /\ pc[Owner] = "A3"
      /\ IF lock = "P"
            THEN /\ lock' = "L"
                 /\ pc' = [pc EXCEPT ![Owner] = "S_h"]
            ELSE /\ pc' = [pc EXCEPT ![Owner] = "A2"]
                 /\ lock' = lock
      /\ UNCHANGED << head, tail, pool, got, i, T, T0, H, H0, x, res, empty, 
                      T1, k, iso, omitted, n, vp, h, h0, tl, r, tom >>

S_h == /\ pc[Owner] = "S_h"
       /\ H' = head
       /\ T1' = 0
       /\ k' = H'
       /\ pc' = [pc EXCEPT ![Owner] = "RL"]
       /\ UNCHANGED << head, tail, lock, pool, got, i, T, T0, H0, x, res, 
                       empty, iso, omitted, n, vp, h, h0, tl, r, tom >>

RL == /\ pc[Owner] = "RL"
      /\ IF k < T
            THEN /\ IF pool[k] # 0
                       THEN /\ pool' = [pool EXCEPT ![T1] = pool[k]]
                            /\ T1' = T1 + 1
                       ELSE /\ TRUE
                            /\ UNCHANGED << pool, T1 >>
                 /\ k' = k + 1
                 /\ pc' = [pc EXCEPT ![Owner] = "RL"]
            ELSE /\ pc' = [pc EXCEPT ![Owner] = "S_cl"]
                 /\ UNCHANGED << pool, T1, k >>
      /\ UNCHANGED << head, tail, lock, got, i, T, T0, H, H0, x, res, empty, 
                      iso, omitted, n, vp, h, h0, tl, r, tom >>

S_cl == /\ pc[Owner] = "S_cl"
        /\ TRUE
        /\ pc' = [pc EXCEPT ![Owner] = "S_c1"]
        /\ UNCHANGED << head, tail, lock, pool, got, i, T, T0, H, H0, x, res, 
                        empty, T1, k, iso, omitted, n, vp, h, h0, tl, r, tom >>

S_c1 == /\ pc[Owner] = "S_c1"
        /\ head' = 0
        /\ pc' = [pc EXCEPT ![Owner] = "S_c2"]
        /\ UNCHANGED << tail, lock, pool, got, i, T, T0, H, H0, x, res, empty, 
                        T1, k, iso, omitted, n, vp, h, h0, tl, r, tom >>

S_c2 == /\ pc[Owner] = "S_c2"
        /\ tail' = T1
        /\ pc' = [pc EXCEPT ![Owner] = "S_c3"]
        /\ UNCHANGED << head, lock, pool, got, i, T, T0, H, H0, x, res, empty, 
                        T1, k, iso, omitted, n, vp, h, h0, tl, r, tom >>

S_c3 == /\ pc[Owner] = "S_c3"
        /\ x' = lock
        /\ IF x' = "E"
              THEN /\ T' = T1
                   /\ pc' = [pc EXCEPT ![Owner] = "S_tail"]
              ELSE /\ pc' = [pc EXCEPT ![Owner] = "S_c4"]
                   /\ T' = T
        /\ UNCHANGED << head, tail, lock, pool, got, i, T0, H, H0, res, empty, 
                        T1, k, iso, omitted, n, vp, h, h0, tl, r, tom >>

S_c4 == /\ pc[Owner] = "S_c4"
        /\ lock' = "P"
        /\ T' = T1
        /\ pc' = [pc EXCEPT ![Owner] = "S_tail"]
        /\ UNCHANGED << head, tail, pool, got, i, T0, H, H0, x, res, empty, T1, 
                        k, iso, omitted, n, vp, h, h0, tl, r, tom >>

S_tail == /\ pc[Owner] = "S_tail"
          /\ pool' = [pool EXCEPT ![T] = OwnerProg[i]]
          /\ tail' = T + 1
          /\ pc' = [pc EXCEPT ![Owner] = "S_pub"]
          /\ UNCHANGED << head, lock, got, i, T, T0, H, H0, x, res, empty, T1, 
                          k, iso, omitted, n, vp, h, h0, tl, r, tom >>

S_pub == /\ pc[Owner] = "S_pub"
         /\ x' = lock
         /\ IF x' = "E"
               THEN /\ pc' = [pc EXCEPT ![Owner] = "S_pub2"]
               ELSE /\ pc' = [pc EXCEPT ![Owner] = "OFin"]
         /\ UNCHANGED << head, tail, lock, pool, got, i, T, T0, H, H0, res, 
                         empty, T1, k, iso, omitted, n, vp, h, h0, tl, r, tom >>

S_pub2 == /\ pc[Owner] = "S_pub2"
          /\ lock' = "P"
          /\ pc' = [pc EXCEPT ![Owner] = "OFin"]
          /\ UNCHANGED << head, tail, pool, got, i, T, T0, H, H0, x, res, 
                          empty, T1, k, iso, omitted, n, vp, h, h0, tl, r, tom >>

G0 == /\ pc[Owner] = "G0"
      /\ x' = lock
      /\ iso' = -OwnerProg[i] - 1
      /\ omitted' = FALSE
      /\ IF x' = "E"
            THEN /\ res' = 0
                 /\ pc' = [pc EXCEPT ![Owner] = "GRet"]
            ELSE /\ pc' = [pc EXCEPT ![Owner] = "G0b"]
                 /\ res' = res
      /\ UNCHANGED << head, tail, lock, pool, got, i, T, T0, H, H0, empty, T1, 
                      k, n, vp, h, h0, tl, r, tom >>

G0b == /\ pc[Owner] = "G0b"
       /\ T0' = tail
       /\ empty' = FALSE
       /\ res' = 0
       /\ H0' = Cap + 1
       /\ pc' = [pc EXCEPT ![Owner] = "G1"]
       /\ UNCHANGED << head, tail, lock, pool, got, i, T, H, x, T1, k, iso, 
                       omitted, n, vp, h, h0, tl, r, tom >>

G1 == /\ pc[Owner] = "G1"
      /\ tail' = tail - 1
      /\ T' = tail'
      /\ pc' = [pc EXCEPT ![Owner] = "G2"]
      /\ UNCHANGED << head, lock, pool, got, i, T0, H, H0, x, res, empty, T1, 
                      k, iso, omitted, n, vp, h, h0, tl, r, tom >>

G2 == /\ pc[Owner] = "G2"
      /\ H' = head
      /\ IF H' > T
            THEN /\ pc' = [pc EXCEPT ![Owner] = "B1"]
            ELSE /\ pc' = [pc EXCEPT ![Owner] = "G9"]
      /\ UNCHANGED << head, tail, lock, pool, got, i, T, T0, H0, x, res, empty, 
                      T1, k, iso, omitted, n, vp, h, h0, tl, r, tom >>

B1 == /\ pc[Owner] = "B1"
      /\ x' = lock
      /\ IF x' = "E"
            THEN /\ pc' = [pc EXCEPT ![Owner] = "G3"]
            ELSE /\ pc' = [pc EXCEPT ![Owner] = "B2"]
      /\ UNCHANGED << head, tail, lock, pool, got, i, T, T0, H, H0, res, empty, 
                      T1, k, iso, omitted, n, vp, h, h0, tl, r, tom >>

B2 == /\ pc[Owner] = "B2"
      /\ x' = lock
      /\ IF x' # "L"
            THEN /\ pc' = [pc EXCEPT ![Owner] = "B3"]
            ELSE /\ pc' = [pc EXCEPT ![Owner] = "B2"]
      /\ UNCHANGED << head, tail, lock, pool, got, i, T, T0, H, H0, res, empty, 
                      T1, k, iso, omitted, n, vp, h, h0, tl, r, tom >>

B3 == /\ pc[Owner] = "B3"
      /\ IF lock = "P"
            THEN /\ lock' = "L"
                 /\ pc' = [pc EXCEPT ![Owner] = "G3"]
            ELSE /\ pc' = [pc EXCEPT ![Owner] = "B2"]
                 /\ lock' = lock
      /\ UNCHANGED << head, tail, pool, got, i, T, T0, H, H0, x, res, empty, 
                      T1, k, iso, omitted, n, vp, h, h0, tl, r, tom >>

G3 == /\ pc[Owner] = "G3"
      /\ H0' = head
      /\ IF H0' > T
            THEN /\ empty' = TRUE
                 /\ pc' = [pc EXCEPT ![Owner] = "G4"]
            ELSE /\ IF H0' = T
                       THEN /\ empty' = TRUE
                            /\ pc' = [pc EXCEPT ![Owner] = "G4"]
                       ELSE /\ pc' = [pc EXCEPT ![Owner] = "G7"]
                            /\ empty' = empty
      /\ UNCHANGED << head, tail, lock, pool, got, i, T, T0, H, x, res, T1, k, 
                      iso, omitted, n, vp, h, h0, tl, r, tom >>

G4 == /\ pc[Owner] = "G4"
      /\ tail' = 0
      /\ pc' = [pc EXCEPT ![Owner] = "G5"]
      /\ UNCHANGED << head, lock, pool, got, i, T, T0, H, H0, x, res, empty, 
                      T1, k, iso, omitted, n, vp, h, h0, tl, r, tom >>

G5 == /\ pc[Owner] = "G5"
      /\ head' = 0
      /\ pc' = [pc EXCEPT ![Owner] = "G6"]
      /\ UNCHANGED << tail, lock, pool, got, i, T, T0, H, H0, x, res, empty, 
                      T1, k, iso, omitted, n, vp, h, h0, tl, r, tom >>

G6 == /\ pc[Owner] = "G6"
      /\ lock' = "E"
      /\ IF H0 > T
            THEN /\ res' = 0
                 /\ pc' = [pc EXCEPT ![Owner] = "GEpi"]
            ELSE /\ pc' = [pc EXCEPT ![Owner] = "G9"]
                 /\ res' = res
      /\ UNCHANGED << head, tail, pool, got, i, T, T0, H, H0, x, empty, T1, k, 
                      iso, omitted, n, vp, h, h0, tl, r, tom >>

G7 == /\ pc[Owner] = "G7"
      /\ x' = lock
      /\ IF x' = "E"
            THEN /\ pc' = [pc EXCEPT ![Owner] = "G9"]
            ELSE /\ pc' = [pc EXCEPT ![Owner] = "G8"]
      /\ UNCHANGED << head, tail, lock, pool, got, i, T, T0, H, H0, res, empty, 
                      T1, k, iso, omitted, n, vp, h, h0, tl, r, tom >>

G8 == /\ pc[Owner] = "G8"
      /\ lock' = "P"
      /\ pc' = [pc EXCEPT ![Owner] = "G9"]
      /\ UNCHANGED << head, tail, pool, got, i, T, T0, H, H0, x, res, empty, 
                      T1, k, iso, omitted, n, vp, h, h0, tl, r, tom >>

G9 == /\ pc[Owner] = "G9"
      /\ LET v == pool[T] IN
           IF v # 0 /\ (iso = 0 \/ iso = Iso[v])
              THEN /\ res' = v
                   /\ pc' = [pc EXCEPT ![Owner] = "GEpi"]
                   /\ UNCHANGED << T0, omitted >>
              ELSE /\ IF v # 0
                         THEN /\ omitted' = TRUE
                              /\ res' = 0
                              /\ IF empty
                                    THEN /\ pc' = [pc EXCEPT ![Owner] = "GEpi"]
                                    ELSE /\ pc' = [pc EXCEPT ![Owner] = "G1"]
                              /\ T0' = T0
                         ELSE /\ res' = 0
                              /\ IF ~omitted
                                    THEN /\ T0' = T
                                    ELSE /\ TRUE
                                         /\ T0' = T0
                              /\ IF empty
                                    THEN /\ pc' = [pc EXCEPT ![Owner] = "GEpi"]
                                    ELSE /\ pc' = [pc EXCEPT ![Owner] = "G1"]
                              /\ UNCHANGED omitted
      /\ UNCHANGED << head, tail, lock, pool, got, i, T, H, H0, x, empty, T1, 
                      k, iso, n, vp, h, h0, tl, r, tom >>

GEpi == /\ pc[Owner] = "GEpi"
        /\ IF ~omitted
              THEN /\ pc' = [pc EXCEPT ![Owner] = "GRet"]
                   /\ H0' = H0
              ELSE /\ IF empty
                         THEN /\ IF res # 0
                                    THEN /\ H0' = H0 + 1
                                    ELSE /\ TRUE
                                         /\ H0' = H0
                              /\ IF H0' < T0
                                    THEN /\ pc' = [pc EXCEPT ![Owner] = "E1"]
                                    ELSE /\ pc' = [pc EXCEPT ![Owner] = "GRet"]
                         ELSE /\ pc' = [pc EXCEPT ![Owner] = "E4"]
                              /\ H0' = H0
        /\ UNCHANGED << head, tail, lock, pool, got, i, T, T0, H, x, res, 
                        empty, T1, k, iso, omitted, n, vp, h, h0, tl, r, tom >>

E1 == /\ pc[Owner] = "E1"
      /\ head' = H0
      /\ pc' = [pc EXCEPT ![Owner] = "E2"]
      /\ UNCHANGED << tail, lock, pool, got, i, T, T0, H, H0, x, res, empty, 
                      T1, k, iso, omitted, n, vp, h, h0, tl, r, tom >>

E2 == /\ pc[Owner] = "E2"
      /\ tail' = T0
      /\ pc' = [pc EXCEPT ![Owner] = "E3"]
      /\ UNCHANGED << head, lock, pool, got, i, T, T0, H, H0, x, res, empty, 
                      T1, k, iso, omitted, n, vp, h, h0, tl, r, tom >>

E3 == /\ pc[Owner] = "E3"
      /\ lock' = "P"
      /\ pc' = [pc EXCEPT ![Owner] = "GRet"]
      /\ UNCHANGED << head, tail, pool, got, i, T, T0, H, H0, x, res, empty, 
                      T1, k, iso, omitted, n, vp, h, h0, tl, r, tom >>

E4 == /\ pc[Owner] = "E4"
      /\ pool' = [pool EXCEPT ![T] = 0]
      /\ pc' = [pc EXCEPT ![Owner] = "E5"]
      /\ UNCHANGED << head, tail, lock, got, i, T, T0, H, H0, x, res, empty, 
                      T1, k, iso, omitted, n, vp, h, h0, tl, r, tom >>

E5 == /\ pc[Owner] = "E5"
      /\ tail' = T0
      /\ pc' = [pc EXCEPT ![Owner] = "GRet"]
      /\ UNCHANGED << head, lock, pool, got, i, T, T0, H, H0, x, res, empty, 
                      T1, k, iso, omitted, n, vp, h, h0, tl, r, tom >>

GRet == /\ pc[Owner] = "GRet"
        /\ got' = [got EXCEPT ![Owner] = Append(got[Owner], res)]
        /\ pc' = [pc EXCEPT ![Owner] = "OFin"]
        /\ UNCHANGED << head, tail, lock, pool, i, T, T0, H, H0, x, res, empty, 
                        T1, k, iso, omitted, n, vp, h, h0, tl, r, tom >>

OFin == /\ pc[Owner] = "OFin"
        /\ i' = i + 1
        /\ pc' = [pc EXCEPT ![Owner] = "OLoop"]
        /\ UNCHANGED << head, tail, lock, pool, got, T, T0, H, H0, x, res, 
                        empty, T1, k, iso, omitted, n, vp, h, h0, tl, r, tom >>

owner == OLoop \/ S1 \/ A1 \/ A2 \/ A3 \/ S_h \/ RL \/ S_cl \/ S_c1 \/ S_c2
            \/ S_c3 \/ S_c4 \/ S_tail \/ S_pub \/ S_pub2 \/ G0 \/ G0b \/ G1
            \/ G2 \/ B1 \/ B2 \/ B3 \/ G3 \/ G4 \/ G5 \/ G6 \/ G7 \/ G8
            \/ G9 \/ GEpi \/ E1 \/ E2 \/ E3 \/ E4 \/ E5 \/ GRet \/ OFin

TLoop(self) == /\ pc[self] = "TLoop"
               /\ IF n[self] <= NSteal
                     THEN /\ pc' = [pc EXCEPT ![self] = "L0"]
                     ELSE /\ pc' = [pc EXCEPT ![self] = "Done"]
               /\ UNCHANGED << head, tail, lock, pool, got, i, T, T0, H, H0, x, 
                               res, empty, T1, k, iso, omitted, n, vp, h, h0, 
                               tl, r, tom >>

L0(self) == /\ pc[self] = "L0"
            /\ vp' = [vp EXCEPT ![self] = lock]
            /\ IF vp'[self] = "E"
                  THEN /\ r' = [r EXCEPT ![self] = 0]
                       /\ pc' = [pc EXCEPT ![self] = "TRet"]
                  ELSE /\ pc' = [pc EXCEPT ![self] = "L1"]
                       /\ r' = r
            /\ UNCHANGED << head, tail, lock, pool, got, i, T, T0, H, H0, x, 
                            res, empty, T1, k, iso, omitted, n, h, h0, tl, tom >>

L1(self) == /\ pc[self] = "L1"
            /\ vp' = [vp EXCEPT ![self] = lock]
            /\ IF vp'[self] = "E"
                  THEN /\ r' = [r EXCEPT ![self] = 0]
                       /\ pc' = [pc EXCEPT ![self] = "TRet"]
                  ELSE /\ IF vp'[self] # "L"
                             THEN /\ pc' = [pc EXCEPT ![self] = "L2"]
                             ELSE /\ pc' = [pc EXCEPT ![self] = "L1"]
                       /\ r' = r
            /\ UNCHANGED << head, tail, lock, pool, got, i, T, T0, H, H0, x, 
                            res, empty, T1, k, iso, omitted, n, h, h0, tl, tom >>

L2(self) == /\ pc[self] = "L2"
            /\ IF lock = vp[self]
                  THEN /\ lock' = "L"
                       /\ pc' = [pc EXCEPT ![self] = "K1"]
                  ELSE /\ pc' = [pc EXCEPT ![self] = "L1"]
                       /\ lock' = lock
            /\ UNCHANGED << head, tail, pool, got, i, T, T0, H, H0, x, res, 
                            empty, T1, k, iso, omitted, n, vp, h, h0, tl, r, 
                            tom >>

K1(self) == /\ pc[self] = "K1"
            /\ h' = [h EXCEPT ![self] = head]
            /\ h0' = [h0 EXCEPT ![self] = h'[self]]
            /\ r' = [r EXCEPT ![self] = 0]
            /\ tom' = [tom EXCEPT ![self] = FALSE]
            /\ pc' = [pc EXCEPT ![self] = "K2"]
            /\ UNCHANGED << head, tail, lock, pool, got, i, T, T0, H, H0, x, 
                            res, empty, T1, k, iso, omitted, n, vp, tl >>

K2(self) == /\ pc[self] = "K2"
            /\ head' = head + 1
            /\ h' = [h EXCEPT ![self] = head']
            /\ pc' = [pc EXCEPT ![self] = "K3"]
            /\ UNCHANGED << tail, lock, pool, got, i, T, T0, H, H0, x, res, 
                            empty, T1, k, iso, omitted, n, vp, h0, tl, r, tom >>

K3(self) == /\ pc[self] = "K3"
            /\ tl' = [tl EXCEPT ![self] = tail]
            /\ IF h[self] > tl'[self]
                  THEN /\ pc' = [pc EXCEPT ![self] = "K4"]
                  ELSE /\ pc' = [pc EXCEPT ![self] = "K5"]
            /\ UNCHANGED << head, tail, lock, pool, got, i, T, T0, H, H0, x, 
                            res, empty, T1, k, iso, omitted, n, vp, h, h0, r, 
                            tom >>

K4(self) == /\ pc[self] = "K4"
            /\ head' = h0[self]
            /\ r' = [r EXCEPT ![self] = 0]
            /\ pc' = [pc EXCEPT ![self] = "U1"]
            /\ UNCHANGED << tail, lock, pool, got, i, T, T0, H, H0, x, res, 
                            empty, T1, k, iso, omitted, n, vp, h, h0, tl, tom >>

K5(self) == /\ pc[self] = "K5"
            /\ LET v == pool[h[self]-1] IN
                 IF v # 0 /\ (ThiefIso[self] = 0 \/ ThiefIso[self] = Iso[v])
                    THEN /\ r' = [r EXCEPT ![self] = v]
                         /\ IF tom[self]
                               THEN /\ pc' = [pc EXCEPT ![self] = "K6"]
                               ELSE /\ pc' = [pc EXCEPT ![self] = "U1"]
                         /\ UNCHANGED << h0, tom >>
                    ELSE /\ IF v # 0
                               THEN /\ r' = [r EXCEPT ![self] = 0]
                                    /\ tom' = [tom EXCEPT ![self] = TRUE]
                                    /\ pc' = [pc EXCEPT ![self] = "K2"]
                                    /\ h0' = h0
                               ELSE /\ r' = [r EXCEPT ![self] = 0]
                                    /\ IF ~tom[self]
                                          THEN /\ h0' = [h0 EXCEPT ![self] = h[self]]
                                          ELSE /\ TRUE
                                               /\ h0' = h0
                                    /\ pc' = [pc EXCEPT ![self] = "K2"]
                                    /\ tom' = tom
            /\ UNCHANGED << head, tail, lock, pool, got, i, T, T0, H, H0, x, 
                            res, empty, T1, k, iso, omitted, n, vp, h, tl >>

K6(self) == /\ pc[self] = "K6"
            /\ pool' = [pool EXCEPT ![h[self]-1] = 0]
            /\ pc' = [pc EXCEPT ![self] = "K7"]
            /\ UNCHANGED << head, tail, lock, got, i, T, T0, H, H0, x, res, 
                            empty, T1, k, iso, omitted, n, vp, h, h0, tl, r, 
                            tom >>

K7(self) == /\ pc[self] = "K7"
            /\ head' = h0[self]
            /\ pc' = [pc EXCEPT ![self] = "U1"]
            /\ UNCHANGED << tail, lock, pool, got, i, T, T0, H, H0, x, res, 
                            empty, T1, k, iso, omitted, n, vp, h, h0, tl, r, 
                            tom >>

U1(self) == /\ pc[self] = "U1"
            /\ lock' = vp[self]
            /\ pc' = [pc EXCEPT ![self] = "TRet"]
            /\ UNCHANGED << head, tail, pool, got, i, T, T0, H, H0, x, res, 
                            empty, T1, k, iso, omitted, n, vp, h, h0, tl, r, 
                            tom >>

TRet(self) == /\ pc[self] = "TRet"
              /\ got' = [got EXCEPT ![self] = Append(got[self], r[self])]
              /\ n' = [n EXCEPT ![self] = n[self] + 1]
              /\ pc' = [pc EXCEPT ![self] = "TLoop"]
              /\ UNCHANGED << head, tail, lock, pool, i, T, T0, H, H0, x, res, 
                              empty, T1, k, iso, omitted, vp, h, h0, tl, r, 
                              tom >>

thief(self) == TLoop(self) \/ L0(self) \/ L1(self) \/ L2(self) \/ K1(self)
                  \/ K2(self) \/ K3(self) \/ K4(self) \/ K5(self)
                  \/ K6(self) \/ K7(self) \/ U1(self) \/ TRet(self)

(* Allow infinite stuttering to prevent deadlock on termination. *)
Terminating == /\ \A self \in ProcSet: pc[self] = "Done"
               /\ UNCHANGED vars

Next == owner
           \/ (\E self \in Thieves: thief(self))
           \/ Terminating

Spec == Init /\ [][Next]_vars

Termination == <>(\A self \in ProcSet: pc[self] = "Done")

\* END TRANSLATION
Who == {Owner} \cup Thieves
Pairs == UNION {{<<yy,qq>> : qq \in 1..Len(got[yy])} : yy \in Who}
Count(id) == Cardinality({pp \in Pairs : got[pp[1]][pp[2]] = id})
Spawned == {OwnerProg[jj] : jj \in {qq \in 1..Len(OwnerProg) : OwnerProg[qq] > 0}}
NoDup == \A id \in Spawned : Count(id) <= 1
AllDone == \A pp \in DOMAIN pc : pc[pp] = "Done"
NoLoss == AllDone => (\A id \in Spawned : Count(id) = 1 \/ (Count(id) = 0 /\ \E kk \in head..tail-1 : pool[kk] = id))
====
