---- MODULE MCts ----
EXTENDS TaskStream
PN2 == (1 :> 2) @@ (2 :> 1)
PN1 == (1 :> 1) @@ (2 :> 1)
====
