---- MODULE MCts ----
EXTENDS TaskStream
PN2 == (1 :> 2) @@ (2 :> 1)
PN1 == (1 :> 1) @@ (2 :> 1)
TagN == (1 :> 0) @@ (2 :> 0) @@ (3 :> 0) @@ (4 :> 0)
\* critical stream: pusher 1's tasks carry isolation 7, pusher 2's none; thread 3 pops with isolation 7, thread 4 pops anything
TagC == (1 :> 7) @@ (2 :> 0) @@ (3 :> 7) @@ (4 :> 0)
PN21 == (1 :> 2) @@ (2 :> 1)
====
