---- MODULE Market ----
\* Transcription of market::update_allotment / adjust_demand / set_active_num_workers and
\* arena::update_request + pm_client::update_request (src/tbb/market.cpp, arena.cpp, pm_client.h).
EXTENDS Integers, Sequences, FiniteSets, TLC
CONSTANTS Clients,      \* set of client ids (naturals); larger id = registered later
          Level,        \* Level[c] in 0..2, 0 = highest priority
          M,            \* M[c] = arena my_max_num_workers (0 = workerless arena)
          MaxSoft, MaxDepth
VARIABLES mand, treq, minw, maxw, totalDemand, levelDemand, mandNum, soft, allot, top, depth
vars == <<mand, treq, minw, maxw, totalDemand, levelDemand, mandNum, soft, allot, top, depth>>
Levels == 0..2
Min(a,b) == IF a < b THEN a ELSE b
Clamp(v,lo,hi) == IF v > lo THEN (IF v > hi THEN hi ELSE v) ELSE lo

\* clients in the order the loop visits them: level ascending, within a level last registered first
RECURSIVE SortDesc(_)
SortDesc(S) == IF S = {} THEN <<>> ELSE LET mx == CHOOSE x \in S : \A y \in S : y <= x IN <<mx>> \o SortDesc(S \ {mx})
VisitOrder == SortDesc({c \in Clients : Level[c] = 0}) \o SortDesc({c \in Clients : Level[c] = 1}) \o SortDesc({c \in Clients : Level[c] = 2})

\* one pass of update_allotment over the visit order, threading (unassigned, assigned, carry, maxPrio, curLevel, app)
RECURSIVE Pass(_,_,_,_,_,_,_,_,_,_)
Pass(i, ord, mw, mnw, lvlD, softL, maxWorkers, st, al, tp) ==
  \* st = [unassigned, assigned, carry, maxprio, curlevel, app]
  IF i > Len(ord) THEN [al |-> al, tp |-> tp, st |-> st]
  ELSE LET c == ord[i]
           lv == Level[c]
           \* entering a new level: assigned_per_priority = min(demand[lv], unassigned); unassigned -= app.
           \* (levels without clients also execute this, but with the same arithmetic effect only if demand=0)
           st1 == IF lv # st.curlevel
                  THEN LET app == Min(lvlD[lv], st.unassigned)
                       IN [st EXCEPT !.curlevel = lv, !.app = app, !.unassigned = st.unassigned - app]
                  ELSE st
       IN IF mw[c] = 0
          THEN Pass(i+1, ord, mw, mnw, lvlD, softL, maxWorkers, st1, [al EXCEPT ![c] = 0], tp)
          ELSE LET mp == IF st1.maxprio = 3 THEN lv ELSE st1.maxprio
                   tmp == mw[c] * st1.app + st1.carry
                   allotted == IF softL = 0
                               THEN (IF mnw[c] > 0 /\ st1.assigned < maxWorkers THEN 1 ELSE 0)
                               ELSE tmp \div lvlD[lv]
                   carry2 == IF softL = 0 THEN st1.carry ELSE tmp % lvlD[lv]
               IN Pass(i+1, ord, mw, mnw, lvlD, softL, maxWorkers,
                       [st1 EXCEPT !.maxprio = mp, !.assigned = st1.assigned + allotted, !.carry = carry2],
                       [al EXCEPT ![c] = allotted], [tp EXCEPT ![c] = (lv = mp)])
\* NB: in the C++ the per-level bookkeeping also runs for levels that have no clients; lvlD of such a level is 0
\* whenever bookkeeping is consistent, so skipping them is equivalent (checked by DemandConsistent).
Allotment(mw, mnw, td, lvlD, mn, softL) ==
  LET eff == IF mn > 0 /\ softL = 0 THEN 1 ELSE softL
      maxWorkers == Min(td, eff)
      r == Pass(1, VisitOrder, mw, mnw, lvlD, softL, maxWorkers,
                [unassigned |-> maxWorkers, assigned |-> 0, carry |-> 0, maxprio |-> 3, curlevel |-> 99, app |-> 0],
                [c \in Clients |-> 0], [c \in Clients |-> FALSE])
  IN r

Init == /\ mand = [c \in Clients |-> 0] /\ treq = [c \in Clients |-> 0]
        /\ minw = [c \in Clients |-> 0] /\ maxw = [c \in Clients |-> 0]
        /\ totalDemand = 0 /\ levelDemand = [l \in Levels |-> 0] /\ mandNum = 0
        /\ soft \in 0..MaxSoft /\ allot = [c \in Clients |-> 0] /\ top = [c \in Clients |-> FALSE] /\ depth = 0

\* deltas the arena code can issue: +-my_max_num_workers (advertise/out_of_work), +-1 (nested_arena_context, workerless mandatory)
WDeltas(c) == {0, 1, -1, M[c], -M[c]}
Adjust(c, md, wd) ==
  /\ mand[c] + md \in {0, 1}
  /\ treq[c] + wd >= -1 /\ treq[c] + wd <= M[c] + 1
  /\ LET mand2 == mand[c] + md
         minreq == IF mand2 > 0 THEN 1 ELSE 0
         treq2 == treq[c] + wd
         maxreq == Clamp(treq2, 0, IF minreq > 0 /\ M[c] = 0 THEN 1 ELSE M[c])
         delta == maxreq - maxw[c]
         mw2 == [maxw EXCEPT ![c] = maxreq]
         mn2 == [minw EXCEPT ![c] = minreq]
         td2 == totalDemand + delta
         ld2 == [levelDemand EXCEPT ![Level[c]] = @ + delta]
         mnum2 == mandNum + md
         r == Allotment(mw2, mn2, td2, ld2, mnum2, soft)
     IN /\ mand' = [mand EXCEPT ![c] = mand2] /\ treq' = [treq EXCEPT ![c] = treq2]
        /\ minw' = mn2 /\ maxw' = mw2 /\ totalDemand' = td2 /\ levelDemand' = ld2 /\ mandNum' = mnum2
        /\ allot' = r.al /\ top' = r.tp /\ UNCHANGED soft
SetSoft(nl) == /\ nl # soft /\ soft' = nl
               /\ LET r == Allotment(maxw, minw, totalDemand, levelDemand, mandNum, nl) IN allot' = r.al /\ top' = r.tp
               /\ UNCHANGED <<mand, treq, minw, maxw, totalDemand, levelDemand, mandNum>>
Next == /\ depth < MaxDepth /\ depth' = depth + 1
        /\ \/ \E c \in Clients : \E md \in {-1,0,1}, wd \in WDeltas(c) : Adjust(c, md, wd)
           \/ \E nl \in 0..MaxSoft : SetSoft(nl)
Spec == Init /\ [][Next]_vars

RECURSIVE SumF(_,_)
SumF(f, S) == IF S = {} THEN 0 ELSE LET x == CHOOSE y \in S : TRUE IN f[x] + SumF(f, S \ {x})
Eff == IF mandNum > 0 /\ soft = 0 THEN 1 ELSE soft
DemandConsistent == /\ totalDemand = SumF(maxw, Clients)
                    /\ \A l \in Levels : levelDemand[l] = SumF(maxw, {c \in Clients : Level[c] = l})
SumIsMin == IF soft > 0 THEN SumF(allot, Clients) = Min(totalDemand, soft)
            ELSE /\ SumF(allot, Clients) = (IF \E c \in Clients : minw[c] > 0 /\ maxw[c] > 0 THEN 1 ELSE 0)
                 /\ \A c \in Clients : allot[c] > 0 => minw[c] > 0
NoMoreThanAsked == \A c \in Clients : allot[c] >= 0 /\ allot[c] <= maxw[c]
PriorityOrder == \A c1, c2 \in Clients : (Level[c1] < Level[c2] /\ allot[c2] > 0 /\ soft > 0) => allot[c1] = maxw[c1]
====
