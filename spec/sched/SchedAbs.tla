-------------------------------- MODULE SchedAbs --------------------------------
(***************************************************************************)
(* Abstract specification of properties C01 (every submitted unit runs       *)
(* exactly once; a wait covers all of its work), C16 (isolation clause) and  *)
(* C20 (a suspended task resumes exactly once) over observable events.       *)
(*   sub     units submitted so far: unit id -> group it was submitted to    *)
(*   begun / ended   units whose body began / finished                       *)
(*   iso     unit id -> isolation scope it was submitted in (0 = none)       *)
(*   susp    suspend points: id -> "suspended" | "resumed" | "continued"     *)
(* A unit begins only after it was submitted and only once; a wait on a      *)
(* group returns only when every unit submitted to the group (also by bodies *)
(* of the group, before or during the wait) has ended, and the waiter then   *)
(* sees their writes (seen = number of units of the group whose plain write  *)
(* the waiter observed); a thread waiting inside isolation scope s only      *)
(* begins units of scope s; the continuation of a suspend point happens      *)
(* exactly once, only after resume was called, and the enclosing wait does   *)
(* not return while a unit it covers is suspended.                           *)
(***************************************************************************)
EXTENDS Integers, FiniteSets
CONSTANTS Units, Groups
VARIABLES sub, begun, ended, iso, susp
svars == <<sub, begun, ended, iso, susp>>
SInit == sub = [u \in Units |-> 0] /\ begun = {} /\ ended = {} /\ iso = [u \in Units |-> 0] /\ susp = [u \in Units |-> "none"]
Submit(u, g, s) == /\ sub[u] = 0 /\ sub' = [sub EXCEPT ![u] = g] /\ iso' = [iso EXCEPT ![u] = s] /\ UNCHANGED <<begun, ended, susp>>
\* scope = isolation scope the executing thread is waiting in (0 = none)
Begin(u, scope) == /\ sub[u] # 0 /\ u \notin begun                        \* submitted, and never run twice
                   /\ (scope # 0 => iso[u] = scope)                      \* an isolated waiter executes only work of its own scope
                   /\ begun' = begun \cup {u} /\ UNCHANGED <<sub, ended, iso, susp>>
End(u) == /\ u \in begun /\ u \notin ended /\ susp[u] \in {"none", "continued"}
          /\ ended' = ended \cup {u} /\ UNCHANGED <<sub, begun, iso, susp>>
InGroup(g) == {u \in Units : sub[u] = g}
WaitReturn(g, seen) == /\ InGroup(g) \subseteq ended                      \* the wait covers everything submitted to the group
                       /\ seen = Cardinality(InGroup(g))                 \* and the waiter sees all of their writes
                       /\ UNCHANGED svars
\* suspension: the unit u suspends itself, somebody calls resume, the unit continues
Suspend(u) == u \in begun /\ susp[u] = "none" /\ susp' = [susp EXCEPT ![u] = "suspended"] /\ UNCHANGED <<sub, begun, ended, iso>>
Resume(u) == susp[u] = "suspended" /\ susp' = [susp EXCEPT ![u] = "resumed"] /\ UNCHANGED <<sub, begun, ended, iso>>
Continue(u) == susp[u] = "resumed" /\ susp' = [susp EXCEPT ![u] = "continued"] /\ UNCHANGED <<sub, begun, ended, iso>>
Quiesce == /\ {u \in Units : sub[u] # 0} = ended /\ begun = ended           \* nothing lost
           /\ \A u \in Units : susp[u] \in {"none", "continued"}           \* no suspended unit forgotten
           /\ UNCHANGED svars
=============================================================================
