---- MODULE WaitTree ----
\* d1::wait_context (root) + per-thread d1::reference_vertex (include/oneapi/tbb/detail/_task.h:107-218).
\* Threads run tasks of one task_group; running a task may create child tasks (reserve on the creator's own
\* vertex) and finishing a task releases on the vertex it was created with. A waiter may return only when
\* root = 0. Tasks: each task has creator vertex cv[task]. Task tree given by constant Children.
EXTENDS Integers, Sequences, FiniteSets, TLC
CONSTANTS Threads, Tasks, Children, RootTasks   \* Children[t] = sequence of tasks t creates while running
(* --algorithm waittree {
  variables root = 0, vx = [t \in Threads |-> 0],
            state = [k \in Tasks |-> "none"],        \* none / ready / running / done
            cv = [k \in Tasks |-> 0],                \* creating thread (vertex) of the task
            waiterDone = FALSE, created = 0;
  define {
    Outstanding == {k \in Tasks : state[k] \in {"ready","running"}}
  }
  \* the main thread (Threads[1] == "m") creates the root tasks, then waits; it also executes tasks while waiting
  process (th \in Threads)
    variables cur = 0, ci = 1, old = 0, phase = "create", ri = 1, nk = 0;
  {
  Top: while (TRUE) {
      if (self = "m" /\ phase = "create") {
        if (ri <= Len(RootTasks)) { nk := RootTasks[ri]; ri := ri + 1; goto Rsv1 }
        else { phase := "wait"; goto Top }
      } else { goto Pick };
    \* ---- reserve on own vertex: if (fetch_add(1) == 0) parent->reserve()
    Rsv1: old := vx[self]; vx[self] := vx[self] + 1; cv[nk] := self;
          if (old = 0) { goto Rsv2 } else { goto Spawn };
    Rsv2: root := root + 1;
    Spawn: state[nk] := "ready";                       \* task becomes visible only after the ctor's reserve completed
           if (cur = 0) { goto Top } else { goto Body };
    \* ---- take a ready task (owner pop / steal abstracted) or, for the waiter, observe completion
    Pick: either { with (k \in {x \in Tasks : state[x] = "ready"}) { cur := k; state[k] := "running"; ci := 1 }; goto Body }
          or { await self = "m" /\ phase = "wait" /\ root = 0; waiterDone := TRUE; goto Fin };   \* wait_context::continue_execution() false
    Body: if (ci <= Len(Children[cur])) { nk := Children[cur][ci]; ci := ci + 1; goto Rsv1 } else { goto Rel1 };
    \* ---- finalize: release on the vertex the task was created with
    Rel1: old := vx[cv[cur]]; vx[cv[cur]] := vx[cv[cur]] - 1;
          if (old = 1) { goto Rel2 } else { state[cur] := "done"; cur := 0; goto Top };
    Rel2: root := root - 1; state[cur] := "done"; cur := 0; goto Top;
    Fin: await FALSE;
    }
  }
} *)
\* BEGIN TRANSLATION
VARIABLES pc, root, vx, state, cv, waiterDone, created

(* define statement *)
Outstanding == {k \in Tasks : state[k] \in {"ready","running"}}

VARIABLES cur, ci, old, phase, ri, nk

vars == << pc, root, vx, state, cv, waiterDone, created, cur, ci, old, phase, 
           ri, nk >>

ProcSet == (Threads)

Init == (* Global variables *)
        /\ root = 0
        /\ vx = [t \in Threads |-> 0]
        /\ state = [k \in Tasks |-> "none"]
        /\ cv = [k \in Tasks |-> 0]
        /\ waiterDone = FALSE
        /\ created = 0
        (* Process th *)
        /\ cur = [self \in Threads |-> 0]
        /\ ci = [self \in Threads |-> 1]
        /\ old = [self \in Threads |-> 0]
        /\ phase = [self \in Threads |-> "create"]
        /\ ri = [self \in Threads |-> 1]
        /\ nk = [self \in Threads |-> 0]
        /\ pc = [self \in ProcSet |-> "Top"]

Top(self) == /\ pc[self] = "Top"
             /\ IF self = "m" /\ phase[self] = "create"
                   THEN /\ IF ri[self] <= Len(RootTasks)
                              THEN /\ nk' = [nk EXCEPT ![self] = RootTasks[ri[self]]]
                                   /\ ri' = [ri EXCEPT ![self] = ri[self] + 1]
                                   /\ pc' = [pc EXCEPT ![self] = "Rsv1"]
                                   /\ phase' = phase
                              ELSE /\ phase' = [phase EXCEPT ![self] = "wait"]
                                   /\ pc' = [pc EXCEPT ![self] = "Top"]
                                   /\ UNCHANGED << ri, nk >>
                   ELSE /\ pc' = [pc EXCEPT ![self] = "Pick"]
                        /\ UNCHANGED << phase, ri, nk >>
             /\ UNCHANGED << root, vx, state, cv, waiterDone, created, cur, ci, 
                             old >>

Rsv1(self) == /\ pc[self] = "Rsv1"
              /\ old' = [old EXCEPT ![self] = vx[self]]
              /\ vx' = [vx EXCEPT ![self] = vx[self] + 1]
              /\ cv' = [cv EXCEPT ![nk[self]] = self]
              /\ IF old'[self] = 0
                    THEN /\ pc' = [pc EXCEPT ![self] = "Rsv2"]
                    ELSE /\ pc' = [pc EXCEPT ![self] = "Spawn"]
              /\ UNCHANGED << root, state, waiterDone, created, cur, ci, phase, 
                              ri, nk >>

Rsv2(self) == /\ pc[self] = "Rsv2"
              /\ root' = root + 1
              /\ pc' = [pc EXCEPT ![self] = "Spawn"]
              /\ UNCHANGED << vx, state, cv, waiterDone, created, cur, ci, old, 
                              phase, ri, nk >>

Spawn(self) == /\ pc[self] = "Spawn"
               /\ state' = [state EXCEPT ![nk[self]] = "ready"]
               /\ IF cur[self] = 0
                     THEN /\ pc' = [pc EXCEPT ![self] = "Top"]
                     ELSE /\ pc' = [pc EXCEPT ![self] = "Body"]
               /\ UNCHANGED << root, vx, cv, waiterDone, created, cur, ci, old, 
                               phase, ri, nk >>

Pick(self) == /\ pc[self] = "Pick"
              /\ \/ /\ \E k \in {x \in Tasks : state[x] = "ready"}:
                         /\ cur' = [cur EXCEPT ![self] = k]
                         /\ state' = [state EXCEPT ![k] = "running"]
                         /\ ci' = [ci EXCEPT ![self] = 1]
                    /\ pc' = [pc EXCEPT ![self] = "Body"]
                    /\ UNCHANGED waiterDone
                 \/ /\ self = "m" /\ phase[self] = "wait" /\ root = 0
                    /\ waiterDone' = TRUE
                    /\ pc' = [pc EXCEPT ![self] = "Fin"]
                    /\ UNCHANGED <<state, cur, ci>>
              /\ UNCHANGED << root, vx, cv, created, old, phase, ri, nk >>

Body(self) == /\ pc[self] = "Body"
              /\ IF ci[self] <= Len(Children[cur[self]])
                    THEN /\ nk' = [nk EXCEPT ![self] = Children[cur[self]][ci[self]]]
                         /\ ci' = [ci EXCEPT ![self] = ci[self] + 1]
                         /\ pc' = [pc EXCEPT ![self] = "Rsv1"]
                    ELSE /\ pc' = [pc EXCEPT ![self] = "Rel1"]
                         /\ UNCHANGED << ci, nk >>
              /\ UNCHANGED << root, vx, state, cv, waiterDone, created, cur, 
                              old, phase, ri >>

Rel1(self) == /\ pc[self] = "Rel1"
              /\ old' = [old EXCEPT ![self] = vx[cv[cur[self]]]]
              /\ vx' = [vx EXCEPT ![cv[cur[self]]] = vx[cv[cur[self]]] - 1]
              /\ IF old'[self] = 1
                    THEN /\ pc' = [pc EXCEPT ![self] = "Rel2"]
                         /\ UNCHANGED << state, cur >>
                    ELSE /\ state' = [state EXCEPT ![cur[self]] = "done"]
                         /\ cur' = [cur EXCEPT ![self] = 0]
                         /\ pc' = [pc EXCEPT ![self] = "Top"]
              /\ UNCHANGED << root, cv, waiterDone, created, ci, phase, ri, nk >>

Rel2(self) == /\ pc[self] = "Rel2"
              /\ root' = root - 1
              /\ state' = [state EXCEPT ![cur[self]] = "done"]
              /\ cur' = [cur EXCEPT ![self] = 0]
              /\ pc' = [pc EXCEPT ![self] = "Top"]
              /\ UNCHANGED << vx, cv, waiterDone, created, ci, old, phase, ri, 
                              nk >>

Fin(self) == /\ pc[self] = "Fin"
             /\ FALSE
             /\ pc' = [pc EXCEPT ![self] = "Top"]
             /\ UNCHANGED << root, vx, state, cv, waiterDone, created, cur, ci, 
                             old, phase, ri, nk >>

th(self) == Top(self) \/ Rsv1(self) \/ Rsv2(self) \/ Spawn(self)
               \/ Pick(self) \/ Body(self) \/ Rel1(self) \/ Rel2(self)
               \/ Fin(self)

Next == (\E self \in Threads: th(self))

Spec == Init /\ [][Next]_vars

\* END TRANSLATION
\* A wait may complete only when every task submitted (transitively) has finished.
WaitCovers == waiterDone => \A k \in Tasks : state[k] \in {"done"} \/ (state[k] = "none" /\ FALSE)
NonNeg == root >= 0 /\ \A t \in Threads : vx[t] >= 0
====
