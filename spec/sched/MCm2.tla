---- MODULE MCm2 ----
EXTENDS Market
LevelDef == (1 :> 0) @@ (2 :> 1) @@ (3 :> 2) @@ (4 :> 1)
MDef == (1 :> 1) @@ (2 :> 2) @@ (3 :> 3) @@ (4 :> 0)
====
