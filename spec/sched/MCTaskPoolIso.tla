---- MODULE MCTaskPoolIso ----
EXTENDS TaskPoolIso
\* task 1 (tag 1) at the bottom, task 2 (no tag) above it; the owner waits inside isolation scope 1; then drains
OPI == <<1, 2, -2, -1, -1>>
IsoI == (1 :> 1) @@ (2 :> 0) @@ (3 :> 1)
OPJ == <<1, 2, 3, -2, -2, -1, -1>>
TI0 == (1 :> 0) @@ (2 :> 0)
TI1 == (1 :> 0) @@ (2 :> 1)
====
