---- MODULE Mailbox ----
\* task_proxy two-sided claim (mailbox.h:63-83) + mail_outbox push / internal_pop (mailbox.h:115-168).
\* Sender: creates proxies (both location bits set), pushes to the recipient's outbox, and puts the proxy into its own
\* task pool (abstracted as a set visible to the pool side). Recipient: pops its mailbox and extracts with mailbox_bit.
\* Pool side (owner or thief): takes the proxy from the pool and extracts with pool_bit. Loser frees the proxy.
EXTENDS Integers, Sequences, FiniteSets, TLC
CONSTANTS NP        \* number of proxies mailed
Proxies == 1..NP
(* --algorithm mailbox {
  variables tat = [p \in Proxies |-> IF p = 1 THEN "both" ELSE "none"],      \* task_and_tag: "both" (task|3), "pool" (=pool_bit, empty), "mail" (=mailbox_bit, empty)
            nxt = [p \in Proxies |-> 0],           \* next_in_mailbox
            first = 0, last = 0,                   \* my_first; my_last: 0 means &my_first, p means &p.next_in_mailbox
            pool = {}, freed = [p \in Proxies |-> 0], gotTask = [p \in Proxies |-> 0], uaf = FALSE;
  process (S = "S")
    variables i = 1, link = 0;
  {
    \* (the proxy is initialised - task pointer with both location bits - while it is still private, i.e. before the step that starts its push; the steps without
    \* a shared access are merged into the preceding access so that every step of the model is one access of the code: this is what the replay compares)
    s0: while (i <= NP) {
      s1: nxt[i] := 0; link := last; last := i;             \* next_in_mailbox.store(nullptr); my_last.exchange(&t->next_in_mailbox)
      s2: if (link = 0) { first := i } else { nxt[link] := i };   \* link->store(t, release)
          pool := pool \cup {i};                             \* spawn proxy into own pool
          if (i < NP) { tat[i + 1] := "both" };
          i := i + 1;
        }
  }
  process (R = "R")                                  \* recipient: mailbox pop + extract<mailbox_bit>
    variables n = 0, curr = 0, second = 0, t = "";
  {
    r0: while (n < NP + 1) {
      r1: curr := first;                                     \* my_first.load(acquire)
          if (curr = 0) { goto rEnd };
      r2: if (freed[curr] > 0) { uaf := TRUE }; second := nxt[curr];   \* curr->next_in_mailbox.load(acquire)
          if (second # 0) { goto r3 } else { goto r4 };
      r3: first := second; goto r8;                          \* prev_ptr->store(second)
      r4: first := 0;                                        \* prev_ptr->store(nullptr)
      r5: if (last = curr) { last := 0; goto r8 } else { goto r6 };    \* CAS(my_last, &curr->next, &my_first)
      r6: second := nxt[curr]; if (second = 0) { goto r6 } else { goto r7 };   \* wait for the pusher to link
      r7: first := second;
      \* extract_task<mailbox_bit>
      r8: if (freed[curr] > 0) { uaf := TRUE }; t := tat[curr];
          if (t # "mail") { goto r9 } else { goto r10 };
      r9: if (tat[curr] = t) { tat[curr] := "pool"; gotTask[curr] := gotTask[curr] + 1; goto rEnd }   \* CAS(tat, cleaner = pool_bit): we got the task, pool side frees
          else { goto r10 };
      r10: freed[curr] := freed[curr] + 1;                   \* proxy was empty: our job to free it
      rEnd: n := n + 1;
        }
  }
  process (Pl = "P")                                 \* pool side: owner/thief takes proxies from the pool, extract<pool_bit>
    variables m = 0, q = 0, t2 = "";
  {
    p0: while (m < NP) {
          await pool # {}; q := CHOOSE x \in pool : TRUE; pool := pool \ {q};
      p1: if (freed[q] > 0) { uaf := TRUE }; t2 := tat[q];
          if (t2 # "pool") { goto p2 } else { goto p3 };
      p2: if (tat[q] = t2) { tat[q] := "mail"; gotTask[q] := gotTask[q] + 1; goto pEnd } else { goto p3 };
      p3: freed[q] := freed[q] + 1;
      pEnd: m := m + 1;
        }
  }
} *)
\* BEGIN TRANSLATION
VARIABLES pc, tat, nxt, first, last, pool, freed, gotTask, uaf, i, link, n, 
          curr, second, t, m, q, t2

vars == << pc, tat, nxt, first, last, pool, freed, gotTask, uaf, i, link, n, 
           curr, second, t, m, q, t2 >>

ProcSet == {"S"} \cup {"R"} \cup {"P"}

Init == (* Global variables *)
        /\ tat = [p \in Proxies |-> IF p = 1 THEN "both" ELSE "none"]
        /\ nxt = [p \in Proxies |-> 0]
        /\ first = 0
        /\ last = 0
        /\ pool = {}
        /\ freed = [p \in Proxies |-> 0]
        /\ gotTask = [p \in Proxies |-> 0]
        /\ uaf = FALSE
        (* Process S *)
        /\ i = 1
        /\ link = 0
        (* Process R *)
        /\ n = 0
        /\ curr = 0
        /\ second = 0
        /\ t = ""
        (* Process Pl *)
        /\ m = 0
        /\ q = 0
        /\ t2 = ""
        /\ pc = [self \in ProcSet |-> CASE self = "S" -> "s0"
                                        [] self = "R" -> "r0"
                                        [] self = "P" -> "p0"]

s0 == /\ pc["S"] = "s0"
      /\ IF i <= NP
            THEN /\ pc' = [pc EXCEPT !["S"] = "s1"]
            ELSE /\ pc' = [pc EXCEPT !["S"] = "Done"]
      /\ UNCHANGED << tat, nxt, first, last, pool, freed, gotTask, uaf, i, 
                      link, n, curr, second, t, m, q, t2 >>

s1 == /\ pc["S"] = "s1"
      /\ nxt' = [nxt EXCEPT ![i] = 0]
      /\ link' = last
      /\ last' = i
      /\ pc' = [pc EXCEPT !["S"] = "s2"]
      /\ UNCHANGED << tat, first, pool, freed, gotTask, uaf, i, n, curr, 
                      second, t, m, q, t2 >>

s2 == /\ pc["S"] = "s2"
      /\ IF link = 0
            THEN /\ first' = i
                 /\ nxt' = nxt
            ELSE /\ nxt' = [nxt EXCEPT ![link] = i]
                 /\ first' = first
      /\ pool' = (pool \cup {i})
      /\ IF i < NP
            THEN /\ tat' = [tat EXCEPT ![i + 1] = "both"]
            ELSE /\ TRUE
                 /\ tat' = tat
      /\ i' = i + 1
      /\ pc' = [pc EXCEPT !["S"] = "s0"]
      /\ UNCHANGED << last, freed, gotTask, uaf, link, n, curr, second, t, m, 
                      q, t2 >>

S == s0 \/ s1 \/ s2

r0 == /\ pc["R"] = "r0"
      /\ IF n < NP + 1
            THEN /\ pc' = [pc EXCEPT !["R"] = "r1"]
            ELSE /\ pc' = [pc EXCEPT !["R"] = "Done"]
      /\ UNCHANGED << tat, nxt, first, last, pool, freed, gotTask, uaf, i, 
                      link, n, curr, second, t, m, q, t2 >>

r1 == /\ pc["R"] = "r1"
      /\ curr' = first
      /\ IF curr' = 0
            THEN /\ pc' = [pc EXCEPT !["R"] = "rEnd"]
            ELSE /\ pc' = [pc EXCEPT !["R"] = "r2"]
      /\ UNCHANGED << tat, nxt, first, last, pool, freed, gotTask, uaf, i, 
                      link, n, second, t, m, q, t2 >>

r2 == /\ pc["R"] = "r2"
      /\ IF freed[curr] > 0
            THEN /\ uaf' = TRUE
            ELSE /\ TRUE
                 /\ uaf' = uaf
      /\ second' = nxt[curr]
      /\ IF second' # 0
            THEN /\ pc' = [pc EXCEPT !["R"] = "r3"]
            ELSE /\ pc' = [pc EXCEPT !["R"] = "r4"]
      /\ UNCHANGED << tat, nxt, first, last, pool, freed, gotTask, i, link, n, 
                      curr, t, m, q, t2 >>

r3 == /\ pc["R"] = "r3"
      /\ first' = second
      /\ pc' = [pc EXCEPT !["R"] = "r8"]
      /\ UNCHANGED << tat, nxt, last, pool, freed, gotTask, uaf, i, link, n, 
                      curr, second, t, m, q, t2 >>

r4 == /\ pc["R"] = "r4"
      /\ first' = 0
      /\ pc' = [pc EXCEPT !["R"] = "r5"]
      /\ UNCHANGED << tat, nxt, last, pool, freed, gotTask, uaf, i, link, n, 
                      curr, second, t, m, q, t2 >>

r5 == /\ pc["R"] = "r5"
      /\ IF last = curr
            THEN /\ last' = 0
                 /\ pc' = [pc EXCEPT !["R"] = "r8"]
            ELSE /\ pc' = [pc EXCEPT !["R"] = "r6"]
                 /\ last' = last
      /\ UNCHANGED << tat, nxt, first, pool, freed, gotTask, uaf, i, link, n, 
                      curr, second, t, m, q, t2 >>

r6 == /\ pc["R"] = "r6"
      /\ second' = nxt[curr]
      /\ IF second' = 0
            THEN /\ pc' = [pc EXCEPT !["R"] = "r6"]
            ELSE /\ pc' = [pc EXCEPT !["R"] = "r7"]
      /\ UNCHANGED << tat, nxt, first, last, pool, freed, gotTask, uaf, i, 
                      link, n, curr, t, m, q, t2 >>

r7 == /\ pc["R"] = "r7"
      /\ first' = second
      /\ pc' = [pc EXCEPT !["R"] = "r8"]
      /\ UNCHANGED << tat, nxt, last, pool, freed, gotTask, uaf, i, link, n, 
                      curr, second, t, m, q, t2 >>

r8 == /\ pc["R"] = "r8"
      /\ IF freed[curr] > 0
            THEN /\ uaf' = TRUE
            ELSE /\ TRUE
                 /\ uaf' = uaf
      /\ t' = tat[curr]
      /\ IF t' # "mail"
            THEN /\ pc' = [pc EXCEPT !["R"] = "r9"]
            ELSE /\ pc' = [pc EXCEPT !["R"] = "r10"]
      /\ UNCHANGED << tat, nxt, first, last, pool, freed, gotTask, i, link, n, 
                      curr, second, m, q, t2 >>

r9 == /\ pc["R"] = "r9"
      /\ IF tat[curr] = t
            THEN /\ tat' = [tat EXCEPT ![curr] = "pool"]
                 /\ gotTask' = [gotTask EXCEPT ![curr] = gotTask[curr] + 1]
                 /\ pc' = [pc EXCEPT !["R"] = "rEnd"]
            ELSE /\ pc' = [pc EXCEPT !["R"] = "r10"]
                 /\ UNCHANGED << tat, gotTask >>
      /\ UNCHANGED << nxt, first, last, pool, freed, uaf, i, link, n, curr, 
                      second, t, m, q, t2 >>

r10 == /\ pc["R"] = "r10"
       /\ freed' = [freed EXCEPT ![curr] = freed[curr] + 1]
       /\ pc' = [pc EXCEPT !["R"] = "rEnd"]
       /\ UNCHANGED << tat, nxt, first, last, pool, gotTask, uaf, i, link, n, 
                       curr, second, t, m, q, t2 >>

rEnd == /\ pc["R"] = "rEnd"
        /\ n' = n + 1
        /\ pc' = [pc EXCEPT !["R"] = "r0"]
        /\ UNCHANGED << tat, nxt, first, last, pool, freed, gotTask, uaf, i, 
                        link, curr, second, t, m, q, t2 >>

R == r0 \/ r1 \/ r2 \/ r3 \/ r4 \/ r5 \/ r6 \/ r7 \/ r8 \/ r9 \/ r10
        \/ rEnd

p0 == /\ pc["P"] = "p0"
      /\ IF m < NP
            THEN /\ pool # {}
                 /\ q' = (CHOOSE x \in pool : TRUE)
                 /\ pool' = pool \ {q'}
                 /\ pc' = [pc EXCEPT !["P"] = "p1"]
            ELSE /\ pc' = [pc EXCEPT !["P"] = "Done"]
                 /\ UNCHANGED << pool, q >>
      /\ UNCHANGED << tat, nxt, first, last, freed, gotTask, uaf, i, link, n, 
                      curr, second, t, m, t2 >>

p1 == /\ pc["P"] = "p1"
      /\ IF freed[q] > 0
            THEN /\ uaf' = TRUE
            ELSE /\ TRUE
                 /\ uaf' = uaf
      /\ t2' = tat[q]
      /\ IF t2' # "pool"
            THEN /\ pc' = [pc EXCEPT !["P"] = "p2"]
            ELSE /\ pc' = [pc EXCEPT !["P"] = "p3"]
      /\ UNCHANGED << tat, nxt, first, last, pool, freed, gotTask, i, link, n, 
                      curr, second, t, m, q >>

p2 == /\ pc["P"] = "p2"
      /\ IF tat[q] = t2
            THEN /\ tat' = [tat EXCEPT ![q] = "mail"]
                 /\ gotTask' = [gotTask EXCEPT ![q] = gotTask[q] + 1]
                 /\ pc' = [pc EXCEPT !["P"] = "pEnd"]
            ELSE /\ pc' = [pc EXCEPT !["P"] = "p3"]
                 /\ UNCHANGED << tat, gotTask >>
      /\ UNCHANGED << nxt, first, last, pool, freed, uaf, i, link, n, curr, 
                      second, t, m, q, t2 >>

p3 == /\ pc["P"] = "p3"
      /\ freed' = [freed EXCEPT ![q] = freed[q] + 1]
      /\ pc' = [pc EXCEPT !["P"] = "pEnd"]
      /\ UNCHANGED << tat, nxt, first, last, pool, gotTask, uaf, i, link, n, 
                      curr, second, t, m, q, t2 >>

pEnd == /\ pc["P"] = "pEnd"
        /\ m' = m + 1
        /\ pc' = [pc EXCEPT !["P"] = "p0"]
        /\ UNCHANGED << tat, nxt, first, last, pool, freed, gotTask, uaf, i, 
                        link, n, curr, second, t, q, t2 >>

Pl == p0 \/ p1 \/ p2 \/ p3 \/ pEnd

(* Allow infinite stuttering to prevent deadlock on termination. *)
Terminating == /\ \A self \in ProcSet: pc[self] = "Done"
               /\ UNCHANGED vars

Next == S \/ R \/ Pl
           \/ Terminating

Spec == Init /\ [][Next]_vars

Termination == <>(\A self \in ProcSet: pc[self] = "Done")

\* END TRANSLATION
TaskOnce == \A p \in Proxies : gotTask[p] <= 1
FreeOnce == \A p \in Proxies : freed[p] <= 1
NoUAF == ~uaf
AllDone == pc["S"] = "Done" /\ pc["R"] = "Done" /\ pc["P"] = "Done"
\* at the end every task was taken exactly once; a proxy the recipient never saw stays in the mailbox (drained at arena destruction)
Final == AllDone => \A p \in Proxies : gotTask[p] = 1
====
