------------------------------- MODULE TraceMarket -------------------------------
(* Validation of recorded executions of the real r1::market (adjust_demand / set_active_num_workers on real arenas as    *)
(* clients) against the Market specification.                                                                          *)
(*  * verdict: the state of the spec is taken from the log (requests as the arenas computed them, the allotment vector  *)
(*    the market wrote into the arenas) and the property invariants SumIsMin / NoMoreThanAsked / PriorityOrder of Market *)
(*    are evaluated on it after every call;                                                                              *)
(*  * conformance: the allotment the transcription (Market!Allotment) predicts is compared with the logged one; a        *)
(*    difference only increments the ghost counter `drift` (a refactoring that keeps the property must not alarm).       *)
(* Events: Adj c md wd maxw minw allot | Soft nl allot | Init soft | Reset                                             *)
EXTENDS Integers, Sequences, FiniteSets, TLC, Json, IOUtils
TraceLog == ndJsonDeserialize(IOEnv.TRACE)
CONSTANTS Clients, Level, M, MaxSoft, MaxDepth
VARIABLES mand, treq, minw, maxw, totalDemand, levelDemand, mandNum, soft, allot, top, depth, l, drift
MK == INSTANCE Market
vars == <<mand, treq, minw, maxw, totalDemand, levelDemand, mandNum, soft, allot, top, depth, l, drift>>
LevelDefA == (1 :> 0) @@ (2 :> 1) @@ (3 :> 1)
MDefA == (1 :> 2) @@ (2 :> 3) @@ (3 :> 0)
LevelDefB == (1 :> 0) @@ (2 :> 1) @@ (3 :> 2) @@ (4 :> 1)
MDefB == (1 :> 1) @@ (2 :> 2) @@ (3 :> 3) @@ (4 :> 0)
LevelDefC == (1 :> 1) @@ (2 :> 1) @@ (3 :> 1) @@ (4 :> 1)
MDefC == (1 :> 3) @@ (2 :> 1) @@ (3 :> 2) @@ (4 :> 1)
Ev == TraceLog[l]
Is(e) == l <= Len(TraceLog) /\ TraceLog[l].e = e /\ l' = l + 1
Fn(s) == [c \in Clients |-> s[c]]
Zero == [c \in Clients |-> 0]
TInit == /\ mand = Zero /\ treq = Zero /\ minw = Zero /\ maxw = Zero /\ totalDemand = 0 /\ levelDemand = [x \in 0..2 |-> 0] /\ mandNum = 0
         /\ soft = 0 /\ allot = Zero /\ top = [c \in Clients |-> FALSE] /\ depth = 0 /\ l = 1 /\ drift = 0
Observe(mw, mn, al, sl, mnum) ==
    /\ maxw' = mw /\ minw' = mn /\ allot' = al /\ soft' = sl /\ mandNum' = mnum
    /\ totalDemand' = MK!SumF(mw, Clients)
    /\ levelDemand' = [x \in 0..2 |-> MK!SumF(mw, {c \in Clients : Level[c] = x})]
    /\ drift' = drift + (IF MK!Allotment(mw, mn, MK!SumF(mw, Clients), [x \in 0..2 |-> MK!SumF(mw, {c \in Clients : Level[c] = x})], mnum, sl).al = al THEN 0 ELSE 1)
    /\ UNCHANGED <<top, depth>>
TNext == \/ /\ Is("Init") /\ Observe(Zero, Zero, Zero, Ev.soft, 0) /\ mand' = Zero /\ treq' = Zero
         \/ /\ Is("Adj")
            /\ mand' = [mand EXCEPT ![Ev.c] = @ + Ev.md] /\ treq' = [treq EXCEPT ![Ev.c] = @ + Ev.wd]
            /\ Observe(Fn(Ev.maxw), Fn(Ev.minw), Fn(Ev.allot), soft, mandNum + Ev.md)
         \/ /\ Is("Soft") /\ Observe(maxw, minw, Fn(Ev.allot), Ev.nl, mandNum) /\ UNCHANGED <<mand, treq>>
         \/ /\ Is("Reset") /\ Observe(Zero, Zero, Zero, 0, 0) /\ mand' = Zero /\ treq' = Zero
TraceSpec == TInit /\ [][TNext]_vars
NotAccepted == l <= Len(TraceLog)
\* the property (C16, allotment clause), evaluated on the observed state after every call
SumIsMin == MK!SumIsMin
NoMoreThanAsked == MK!NoMoreThanAsked
PriorityOrder == MK!PriorityOrder
\* the arena's own view of its request is what the market used
RequestsSane == \A c \in Clients : /\ minw[c] = (IF mand[c] > 0 THEN 1 ELSE 0)
                                   /\ maxw[c] = MK!Clamp(treq[c], 0, IF minw[c] > 0 /\ M[c] = 0 THEN 1 ELSE M[c])
=============================================================================
