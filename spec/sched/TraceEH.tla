------------------------------- MODULE TraceEH -------------------------------
(* Trace validation of recorded executions against GroupEH.                                                  *)
(* Events: Fault cls k | Call kind | BB i | BE i | Throw id cls | Ret | Exc x | Obj op o | Quiesce | Reset     *)
(*         Escaped | Terminate | Stuck | Crash (rejected)                                                      *)
EXTENDS Integers, Sequences, FiniteSets, TLC, Json, IOUtils
TraceLog == ndJsonDeserialize(IOEnv.TRACE)
VARIABLES active, live, thrown, objs, dead, l
A == INSTANCE GroupEH
vars == <<active, live, thrown, objs, dead, l>>
Ev == TraceLog[l]
Is(e) == l <= Len(TraceLog) /\ TraceLog[l].e = e /\ l' = l + 1
TInit == A!EInit /\ l = 1
TNext == \/ Is("Fault") /\ UNCHANGED <<active, live, thrown, objs, dead>>
         \/ Is("Call") /\ A!Call
         \/ Is("BB") /\ A!BodyBegin(Ev.i)
         \/ Is("BE") /\ A!BodyEnd(Ev.i)
         \/ Is("Throw") /\ A!BodyThrow(Ev.id)
         \/ Is("Ret") /\ A!Return
         \/ Is("Exc") /\ A!Rethrow(Ev.x)
         \/ Is("Obj") /\ (IF Ev.op = "ctor" THEN A!Ctor(Ev.o) ELSE A!Dtor(Ev.o))
         \/ Is("Quiesce") /\ A!Quiesce
         \/ Is("Reset") /\ active' = FALSE /\ live' = {} /\ thrown' = {} /\ objs' = {} /\ dead' = {}
TraceSpec == TInit /\ [][TNext]_vars
NotAccepted == l <= Len(TraceLog)
=============================================================================
