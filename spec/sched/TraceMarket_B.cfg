SPECIFICATION TraceSpec
CONSTANT Clients = {1,2,3,4}
CONSTANT Level <- LevelDefB
CONSTANT M <- MDefB
CONSTANT MaxSoft = 6
CONSTANT MaxDepth = 0
INVARIANT NotAccepted
INVARIANT SumIsMin
INVARIANT NoMoreThanAsked
INVARIANT PriorityOrder
INVARIANT RequestsSane
CHECK_DEADLOCK FALSE
