---- MODULE Demand ----
\* thread_request_serializer (src/tbb/thread_request_serializer.cpp:31-57): the pseudo aggregator of worker-demand deltas.
\*   my_pending_delta packs <number of pending updates, sum of their deltas>; only the updater that saw "nothing pending"
\*   enters the critical section, takes everything that accumulated by an exchange, and forwards the clamped change to the
\*   thread dispatcher (adjust_job_count_estimate); set_active_num_workers changes the soft limit under the same mutex.
\* Property served (C02 / C16): no demand delta is ever lost or applied twice - at quiescence my_total_request is the sum of all
\* deltas and the job-count estimate given to the server equals min(soft limit, total request).
EXTENDS Integers, Sequences, FiniteSets, TLC
CONSTANTS Updaters, Delta, Limit0, NewLimits      \* Delta[u]: sequence of deltas updater u submits; NewLimits: sequence of soft limits set by the controller
Min(a, b) == IF a < b THEN a ELSE b
LimitDelta(delta, limit, newv) == Min(limit, newv) - Min(limit, newv - delta)
(* --algorithm demand {
  variables pcnt = 0, psum = 0,            \* my_pending_delta: (count of updates since the last drain, sum of their deltas)
            total = 0, soft = Limit0, mtx = "free", est = 0;      \* est: job count estimate accumulated at the server
  process (u \in Updaters)
    variables k = 1, prevc = 0, mine = 0;
  {
   u0: while (k <= Len(Delta[self])) {
   u1:   prevc := pcnt; pcnt := pcnt + 1; psum := psum + Delta[self][k];        \* fetch_add(counter_value + delta)
         if (prevc # 0) { goto u6 };                                            \* somebody else is (or will be) draining
   u2:   mine := psum; pcnt := 0; psum := 0;                                    \* exchange(pending_delta_base)
   u3:   await mtx = "free"; mtx := self;
   u4:   total := total + mine; est := est + LimitDelta(mine, soft, total);
   u5:   mtx := "free";
   u6:   k := k + 1;
       }
  }
  process (c = "ctl")
    variables j = 1;
  {
   c0: while (j <= Len(NewLimits)) {
   c1:   await mtx = "free"; mtx := "ctl";
   c2:   est := est + LimitDelta(NewLimits[j] - soft, total, NewLimits[j]); soft := NewLimits[j];
   c3:   mtx := "free"; j := j + 1;
       }
  }
} *)
\* BEGIN TRANSLATION
VARIABLES pc, pcnt, psum, total, soft, mtx, est, k, prevc, mine, j

vars == << pc, pcnt, psum, total, soft, mtx, est, k, prevc, mine, j >>

ProcSet == (Updaters) \cup {"ctl"}

Init == (* Global variables *)
        /\ pcnt = 0
        /\ psum = 0
        /\ total = 0
        /\ soft = Limit0
        /\ mtx = "free"
        /\ est = 0
        (* Process u *)
        /\ k = [self \in Updaters |-> 1]
        /\ prevc = [self \in Updaters |-> 0]
        /\ mine = [self \in Updaters |-> 0]
        (* Process c *)
        /\ j = 1
        /\ pc = [self \in ProcSet |-> CASE self \in Updaters -> "u0"
                                        [] self = "ctl" -> "c0"]

u0(self) == /\ pc[self] = "u0"
            /\ IF k[self] <= Len(Delta[self])
                  THEN /\ pc' = [pc EXCEPT ![self] = "u1"]
                  ELSE /\ pc' = [pc EXCEPT ![self] = "Done"]
            /\ UNCHANGED << pcnt, psum, total, soft, mtx, est, k, prevc, mine, 
                            j >>

u1(self) == /\ pc[self] = "u1"
            /\ prevc' = [prevc EXCEPT ![self] = pcnt]
            /\ pcnt' = pcnt + 1
            /\ psum' = psum + Delta[self][k[self]]
            /\ IF prevc'[self] # 0
                  THEN /\ pc' = [pc EXCEPT ![self] = "u6"]
                  ELSE /\ pc' = [pc EXCEPT ![self] = "u2"]
            /\ UNCHANGED << total, soft, mtx, est, k, mine, j >>

u2(self) == /\ pc[self] = "u2"
            /\ mine' = [mine EXCEPT ![self] = psum]
            /\ pcnt' = 0
            /\ psum' = 0
            /\ pc' = [pc EXCEPT ![self] = "u3"]
            /\ UNCHANGED << total, soft, mtx, est, k, prevc, j >>

u3(self) == /\ pc[self] = "u3"
            /\ mtx = "free"
            /\ mtx' = self
            /\ pc' = [pc EXCEPT ![self] = "u4"]
            /\ UNCHANGED << pcnt, psum, total, soft, est, k, prevc, mine, j >>

u4(self) == /\ pc[self] = "u4"
            /\ total' = total + mine[self]
            /\ est' = est + LimitDelta(mine[self], soft, total')
            /\ pc' = [pc EXCEPT ![self] = "u5"]
            /\ UNCHANGED << pcnt, psum, soft, mtx, k, prevc, mine, j >>

u5(self) == /\ pc[self] = "u5"
            /\ mtx' = "free"
            /\ pc' = [pc EXCEPT ![self] = "u6"]
            /\ UNCHANGED << pcnt, psum, total, soft, est, k, prevc, mine, j >>

u6(self) == /\ pc[self] = "u6"
            /\ k' = [k EXCEPT ![self] = k[self] + 1]
            /\ pc' = [pc EXCEPT ![self] = "u0"]
            /\ UNCHANGED << pcnt, psum, total, soft, mtx, est, prevc, mine, j >>

u(self) == u0(self) \/ u1(self) \/ u2(self) \/ u3(self) \/ u4(self)
              \/ u5(self) \/ u6(self)

c0 == /\ pc["ctl"] = "c0"
      /\ IF j <= Len(NewLimits)
            THEN /\ pc' = [pc EXCEPT !["ctl"] = "c1"]
            ELSE /\ pc' = [pc EXCEPT !["ctl"] = "Done"]
      /\ UNCHANGED << pcnt, psum, total, soft, mtx, est, k, prevc, mine, j >>

c1 == /\ pc["ctl"] = "c1"
      /\ mtx = "free"
      /\ mtx' = "ctl"
      /\ pc' = [pc EXCEPT !["ctl"] = "c2"]
      /\ UNCHANGED << pcnt, psum, total, soft, est, k, prevc, mine, j >>

c2 == /\ pc["ctl"] = "c2"
      /\ est' = est + LimitDelta(NewLimits[j] - soft, total, NewLimits[j])
      /\ soft' = NewLimits[j]
      /\ pc' = [pc EXCEPT !["ctl"] = "c3"]
      /\ UNCHANGED << pcnt, psum, total, mtx, k, prevc, mine, j >>

c3 == /\ pc["ctl"] = "c3"
      /\ mtx' = "free"
      /\ j' = j + 1
      /\ pc' = [pc EXCEPT !["ctl"] = "c0"]
      /\ UNCHANGED << pcnt, psum, total, soft, est, k, prevc, mine >>

c == c0 \/ c1 \/ c2 \/ c3

(* Allow infinite stuttering to prevent deadlock on termination. *)
Terminating == /\ \A self \in ProcSet: pc[self] = "Done"
               /\ UNCHANGED vars

Next == c
           \/ (\E self \in Updaters: u(self))
           \/ Terminating

Spec == Init /\ [][Next]_vars

Termination == <>(\A self \in ProcSet: pc[self] = "Done")

\* END TRANSLATION
SumSeq(s) == LET F[i \in 0..Len(s)] == IF i = 0 THEN 0 ELSE F[i-1] + s[i] IN F[Len(s)]
AllDone == \A p \in Updaters \cup {"ctl"} : pc[p] = "Done"
Submitted == LET F[S \in SUBSET Updaters] == IF S = {} THEN 0 ELSE LET x == CHOOSE x \in S : TRUE IN SumSeq(Delta[x]) + F[S \ {x}] IN F[Updaters]
\* nothing lost, nothing applied twice
NoLostDelta == AllDone => total = Submitted
\* whenever nobody is inside the critical section the server's estimate is the clamped total
EstimateExact == (mtx = "free") => est = Min(soft, total) - Min(Limit0, 0)
\* a pending delta always has a drainer: if something is pending, some updater is between its fetch_add and its exchange
NoOrphanDelta == (pcnt # 0) => \E p \in Updaters : pc[p] = "u2"
====
