SPECIFICATION Spec
CONSTANT Pushers = {1, 2}
CONSTANT Poppers = {3, 4}
CONSTANT NLanes = 2
CONSTANT PushN <- PN2
CONSTANT PopN = 2
INVARIANT NoDup
INVARIANT NoStrand
INVARIANT NoLoss
INVARIANT OnlyPushed
CHECK_DEADLOCK FALSE
