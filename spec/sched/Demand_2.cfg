SPECIFICATION Spec
CONSTANT Updaters = {"a","b"}
CONSTANT Delta <- D2
CONSTANT Limit0 = 1
CONSTANT NewLimits <- L1
INVARIANT NoLostDelta
INVARIANT EstimateExact
INVARIANT NoOrphanDelta
