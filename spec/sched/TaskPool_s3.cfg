SPECIFICATION Spec
CONSTANT Thieves = {1,2}
CONSTANT OwnerProg <- OP3
CONSTANT NSteal = 1
CONSTANT Cap = 64
CONSTANT H0init = 62
CONSTANT Owner = 0
INVARIANT NoDup
INVARIANT NoLoss
CHECK_DEADLOCK FALSE
