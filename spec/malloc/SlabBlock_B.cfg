SPECIFICATION Spec
CONSTANT NObj = 3
CONSTANT Foreign = {"f1","f2"}
CONSTANT OwnerOps = 4
CONSTANT ForeignFrees = 2
CONSTANT Exit = FALSE
INVARIANT OnePlace
INVARIANT NeverTwice
INVARIANT NothingLost
INVARIANT CountExact
INVARIANT OneAdopter
