SPECIFICATION Spec
CONSTANT Threads = {1, 2, 3}
CONSTANT Prog <- ProgB
CONSTANT Blocks = {1, 2}
CONSTANT Init0 <- InitTwo
INVARIANT OneOwner
INVARIANT NoDoubleHold
CHECK_DEADLOCK FALSE
