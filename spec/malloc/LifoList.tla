---- MODULE LifoList ----
\* rml::internal::LifoList (src/tbbmalloc/frontend.cpp:933-968): the per-size-class list of ORPHANED slabs - slabs whose owner thread has exited.  A thread
\* that needs a slab ADOPTS one (pop); thread exit ORPHANS the slabs it still owns (push); the clean-up command GRABS the whole list, privatises every slab's
\* public free list and pushes the non-empty slabs back.  One label per shared access: the lock flag (MallocMutex: atomic_flag test_and_set / clear) and `top`.
\*   push(b):  lock; b.next = top (load); top = b (store); unlock
\*   pop():    if (top.load) { lock; b = top.load; if (b) top.store(b.next); unlock }      (the unlocked load is only an emptiness hint)
\*   grab():   if (top.load) { lock; b = top.load; top.store(null); unlock }
\* Property (C17: a slab has ONE owner, so no object is handed out twice): every slab is at any time either in the list or held by exactly one thread.
EXTENDS Integers, Sequences, FiniteSets, TLC
CONSTANTS Threads, Prog, Blocks, Init0            \* Prog[t]: sequence of "pop" | "grab" | "push" (push gives back everything the thread holds, one by one)
(* --algorithm lifo {
  variables top = Init0[1], nxt = Init0[2], lk = FALSE,
            held = [t \in Threads |-> {}], got = [t \in Threads |-> <<>>];
  process (t \in Threads)
    variables i = 1, f = FALSE, b = 0, h = 0, todo = <<>>;
  {
  L0: while (i <= Len(Prog[self])) {
        if (Prog[self][i] = "push") { todo := got[self]; goto PU0 } else if (Prog[self][i] = "pop") { goto PO0 } else { goto GR0 };
    \* ---- push everything held
    PU0: if (todo = <<>>) { goto Fin } else { b := Head(todo); todo := Tail(todo) };
    PU1: f := lk; lk := TRUE; if (f) { goto PU1 };                         \* lock: test_and_set
    PU2: h := top;                                                          \* block->next = top.load
         nxt[b] := h;
    PU3: top := b; held[self] := held[self] \ {b}; got[self] := SelectSeq(got[self], LAMBDA x : x # b);     \* top.store(block)
    PU4: lk := FALSE; goto PU0;                                             \* unlock: clear
    \* ---- pop
    PO0: h := top;                                                          \* unlocked emptiness hint
         if (h = 0) { goto Fin };
    PO1: f := lk; lk := TRUE; if (f) { goto PO1 };
    PO2: b := top;                                                          \* block = top.load (under the lock)
         if (b = 0) { goto PO4 };
    PO3: top := nxt[b]; held[self] := held[self] \cup {b}; got[self] := Append(got[self], b);               \* top.store(block->next)
    PO4: lk := FALSE; goto Fin;
    \* ---- grab
    GR0: h := top;
         if (h = 0) { goto Fin };
    GR1: f := lk; lk := TRUE; if (f) { goto GR1 };
    GR2: b := top;
    GR3: top := 0;                                                          \* top.store(nullptr): the whole chain now belongs to the caller
         with (chain = LET RECURSIVE Ch(_) Ch(x) == IF x = 0 THEN <<>> ELSE <<x>> \o Ch(nxt[x]) IN Ch(b)) {
           held[self] := held[self] \cup {chain[k] : k \in DOMAIN chain}; got[self] := got[self] \o chain };
    GR4: lk := FALSE;
    Fin: i := i + 1;
    }
  }
} *)
\* BEGIN TRANSLATION
VARIABLES pc, top, nxt, lk, held, got, i, f, b, h, todo

vars == << pc, top, nxt, lk, held, got, i, f, b, h, todo >>

ProcSet == (Threads)

Init == (* Global variables *)
        /\ top = Init0[1]
        /\ nxt = Init0[2]
        /\ lk = FALSE
        /\ held = [t \in Threads |-> {}]
        /\ got = [t \in Threads |-> <<>>]
        (* Process t *)
        /\ i = [self \in Threads |-> 1]
        /\ f = [self \in Threads |-> FALSE]
        /\ b = [self \in Threads |-> 0]
        /\ h = [self \in Threads |-> 0]
        /\ todo = [self \in Threads |-> <<>>]
        /\ pc = [self \in ProcSet |-> "L0"]

L0(self) == /\ pc[self] = "L0"
            /\ IF i[self] <= Len(Prog[self])
                  THEN /\ IF Prog[self][i[self]] = "push"
                             THEN /\ todo' = [todo EXCEPT ![self] = got[self]]
                                  /\ pc' = [pc EXCEPT ![self] = "PU0"]
                             ELSE /\ IF Prog[self][i[self]] = "pop"
                                        THEN /\ pc' = [pc EXCEPT ![self] = "PO0"]
                                        ELSE /\ pc' = [pc EXCEPT ![self] = "GR0"]
                                  /\ todo' = todo
                  ELSE /\ pc' = [pc EXCEPT ![self] = "Done"]
                       /\ todo' = todo
            /\ UNCHANGED << top, nxt, lk, held, got, i, f, b, h >>

PU0(self) == /\ pc[self] = "PU0"
             /\ IF todo[self] = <<>>
                   THEN /\ pc' = [pc EXCEPT ![self] = "Fin"]
                        /\ UNCHANGED << b, todo >>
                   ELSE /\ b' = [b EXCEPT ![self] = Head(todo[self])]
                        /\ todo' = [todo EXCEPT ![self] = Tail(todo[self])]
                        /\ pc' = [pc EXCEPT ![self] = "PU1"]
             /\ UNCHANGED << top, nxt, lk, held, got, i, f, h >>

PU1(self) == /\ pc[self] = "PU1"
             /\ f' = [f EXCEPT ![self] = lk]
             /\ lk' = TRUE
             /\ IF f'[self]
                   THEN /\ pc' = [pc EXCEPT ![self] = "PU1"]
                   ELSE /\ pc' = [pc EXCEPT ![self] = "PU2"]
             /\ UNCHANGED << top, nxt, held, got, i, b, h, todo >>

PU2(self) == /\ pc[self] = "PU2"
             /\ h' = [h EXCEPT ![self] = top]
             /\ nxt' = [nxt EXCEPT ![b[self]] = h'[self]]
             /\ pc' = [pc EXCEPT ![self] = "PU3"]
             /\ UNCHANGED << top, lk, held, got, i, f, b, todo >>

PU3(self) == /\ pc[self] = "PU3"
             /\ top' = b[self]
             /\ held' = [held EXCEPT ![self] = held[self] \ {b[self]}]
             /\ got' = [got EXCEPT ![self] = SelectSeq(got[self], LAMBDA x : x # b[self])]
             /\ pc' = [pc EXCEPT ![self] = "PU4"]
             /\ UNCHANGED << nxt, lk, i, f, b, h, todo >>

PU4(self) == /\ pc[self] = "PU4"
             /\ lk' = FALSE
             /\ pc' = [pc EXCEPT ![self] = "PU0"]
             /\ UNCHANGED << top, nxt, held, got, i, f, b, h, todo >>

PO0(self) == /\ pc[self] = "PO0"
             /\ h' = [h EXCEPT ![self] = top]
             /\ IF h'[self] = 0
                   THEN /\ pc' = [pc EXCEPT ![self] = "Fin"]
                   ELSE /\ pc' = [pc EXCEPT ![self] = "PO1"]
             /\ UNCHANGED << top, nxt, lk, held, got, i, f, b, todo >>

PO1(self) == /\ pc[self] = "PO1"
             /\ f' = [f EXCEPT ![self] = lk]
             /\ lk' = TRUE
             /\ IF f'[self]
                   THEN /\ pc' = [pc EXCEPT ![self] = "PO1"]
                   ELSE /\ pc' = [pc EXCEPT ![self] = "PO2"]
             /\ UNCHANGED << top, nxt, held, got, i, b, h, todo >>

PO2(self) == /\ pc[self] = "PO2"
             /\ b' = [b EXCEPT ![self] = top]
             /\ IF b'[self] = 0
                   THEN /\ pc' = [pc EXCEPT ![self] = "PO4"]
                   ELSE /\ pc' = [pc EXCEPT ![self] = "PO3"]
             /\ UNCHANGED << top, nxt, lk, held, got, i, f, h, todo >>

PO3(self) == /\ pc[self] = "PO3"
             /\ top' = nxt[b[self]]
             /\ held' = [held EXCEPT ![self] = held[self] \cup {b[self]}]
             /\ got' = [got EXCEPT ![self] = Append(got[self], b[self])]
             /\ pc' = [pc EXCEPT ![self] = "PO4"]
             /\ UNCHANGED << nxt, lk, i, f, b, h, todo >>

PO4(self) == /\ pc[self] = "PO4"
             /\ lk' = FALSE
             /\ pc' = [pc EXCEPT ![self] = "Fin"]
             /\ UNCHANGED << top, nxt, held, got, i, f, b, h, todo >>

GR0(self) == /\ pc[self] = "GR0"
             /\ h' = [h EXCEPT ![self] = top]
             /\ IF h'[self] = 0
                   THEN /\ pc' = [pc EXCEPT ![self] = "Fin"]
                   ELSE /\ pc' = [pc EXCEPT ![self] = "GR1"]
             /\ UNCHANGED << top, nxt, lk, held, got, i, f, b, todo >>

GR1(self) == /\ pc[self] = "GR1"
             /\ f' = [f EXCEPT ![self] = lk]
             /\ lk' = TRUE
             /\ IF f'[self]
                   THEN /\ pc' = [pc EXCEPT ![self] = "GR1"]
                   ELSE /\ pc' = [pc EXCEPT ![self] = "GR2"]
             /\ UNCHANGED << top, nxt, held, got, i, b, h, todo >>

GR2(self) == /\ pc[self] = "GR2"
             /\ b' = [b EXCEPT ![self] = top]
             /\ pc' = [pc EXCEPT ![self] = "GR3"]
             /\ UNCHANGED << top, nxt, lk, held, got, i, f, h, todo >>

GR3(self) == /\ pc[self] = "GR3"
             /\ top' = 0
             /\ LET chain == LET RECURSIVE Ch(_) Ch(x) == IF x = 0 THEN <<>> ELSE <<x>> \o Ch(nxt[x]) IN Ch(b[self]) IN
                  /\ held' = [held EXCEPT ![self] = held[self] \cup {chain[k] : k \in DOMAIN chain}]
                  /\ got' = [got EXCEPT ![self] = got[self] \o chain]
             /\ pc' = [pc EXCEPT ![self] = "GR4"]
             /\ UNCHANGED << nxt, lk, i, f, b, h, todo >>

GR4(self) == /\ pc[self] = "GR4"
             /\ lk' = FALSE
             /\ pc' = [pc EXCEPT ![self] = "Fin"]
             /\ UNCHANGED << top, nxt, held, got, i, f, b, h, todo >>

Fin(self) == /\ pc[self] = "Fin"
             /\ i' = [i EXCEPT ![self] = i[self] + 1]
             /\ pc' = [pc EXCEPT ![self] = "L0"]
             /\ UNCHANGED << top, nxt, lk, held, got, f, b, h, todo >>

t(self) == L0(self) \/ PU0(self) \/ PU1(self) \/ PU2(self) \/ PU3(self)
              \/ PU4(self) \/ PO0(self) \/ PO1(self) \/ PO2(self)
              \/ PO3(self) \/ PO4(self) \/ GR0(self) \/ GR1(self)
              \/ GR2(self) \/ GR3(self) \/ GR4(self) \/ Fin(self)

(* Allow infinite stuttering to prevent deadlock on termination. *)
Terminating == /\ \A self \in ProcSet: pc[self] = "Done"
               /\ UNCHANGED vars

Next == (\E self \in Threads: t(self))
           \/ Terminating

Spec == Init /\ [][Next]_vars

Termination == <>(\A self \in ProcSet: pc[self] = "Done")

\* END TRANSLATION
RECURSIVE ChainOf(_, _)
ChainOf(x, fuel) == IF x = 0 \/ fuel = 0 THEN {} ELSE {x} \cup ChainOf(nxt[x], fuel - 1)
InList == ChainOf(top, Cardinality(Blocks) + 1)
\* (while a thread is inside the locked section of push / pop / grab the transfer is in progress; ownership is judged when nobody holds the lock)
OneOwner == ~lk => /\ \A x \in Blocks : Cardinality({th \in Threads : x \in held[th]}) + (IF x \in InList THEN 1 ELSE 0) = 1
NoDoubleHold == \A t1, t2 \in Threads : t1 # t2 => held[t1] \cap held[t2] = {}
====
