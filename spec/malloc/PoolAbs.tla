-------------------------------- MODULE PoolAbs --------------------------------
(* Abstract specification of property C18: tbbmalloc fails cleanly; memory pools stay inside and give back their raw memory.      *)
(*   regions   pool -> set of <<rid, lo, hi>>: raw regions the pool's own raw allocator handed out and that were not returned yet   *)
(*   rawcalls  pool -> number of raw-allocator calls (successful or not);  fixed: pool -> is a fixed pool                            *)
(*   blocks    pool -> set of <<id, lo, hi>>: live blocks of the pool                                                               *)
(*   alive     pools created and not destroyed                                                                                      *)
(* Addresses are order-preserving ranks.  A pool block lies inside a region obtained from THAT pool's callback and overlaps no other  *)
(* live block of the pool; pool_identify names the owner; a fixed pool calls its raw allocator once; a region is returned exactly once *)
(* and only when no live block lies in it; after pool_destroy every region has been returned.  An entry point that cannot get memory  *)
(* (injected raw-allocation failure, unrepresentable size) reports the failure (rep = 1: null / ENOMEM / error code / bad_alloc), all    *)
(* live blocks keep their contents (pt = 1) and a later request succeeds once memory is available again (rec = 1).                      *)
EXTENDS Integers, FiniteSets
CONSTANTS Pools
VARIABLES regions, rawcalls, fixed, blocks, alive
pvars == <<regions, rawcalls, fixed, blocks, alive>>
PInit == /\ regions = [p \in Pools |-> {}] /\ rawcalls = [p \in Pools |-> 0] /\ fixed = [p \in Pools |-> FALSE]
         /\ blocks = [p \in Pools |-> {}] /\ alive = {}
Create(p, fx) == /\ p \notin alive /\ alive' = alive \cup {p} /\ fixed' = [fixed EXCEPT ![p] = fx]
                 /\ regions' = [regions EXCEPT ![p] = {}] /\ rawcalls' = [rawcalls EXCEPT ![p] = 0] /\ blocks' = [blocks EXCEPT ![p] = {}]
RawAlloc(p, rid, lo, hi, ok) == /\ p \in alive
                                /\ (fixed[p] => rawcalls[p] = 0)                                   \* a fixed pool asks for raw memory once
                                /\ rawcalls' = [rawcalls EXCEPT ![p] = @ + 1]
                                /\ regions' = IF ok = 1 THEN [regions EXCEPT ![p] = @ \cup {<<rid, lo, hi>>}] ELSE regions
                                /\ UNCHANGED <<fixed, blocks, alive>>
RawFree(p, rid) == /\ \E r \in regions[p] : r[1] = rid                                           \* a region this pool obtained, not returned before
                   /\ LET r == CHOOSE r \in regions[p] : r[1] = rid IN
                        /\ \A b \in blocks[p] : b[3] <= r[2] \/ r[3] <= b[2]                     \* nothing handed back while still in use
                        /\ regions' = [regions EXCEPT ![p] = @ \ {r}]
                   /\ UNCHANGED <<rawcalls, fixed, blocks, alive>>
PAlloc(p, id, lo, hi) == /\ p \in alive /\ lo < hi
                         /\ \E r \in regions[p] : r[2] <= lo /\ hi <= r[3]                       \* inside memory obtained from this pool's raw allocator
                         /\ \A b \in blocks[p] : hi <= b[2] \/ b[3] <= lo
                         /\ blocks' = [blocks EXCEPT ![p] = @ \cup {<<id, lo, hi>>}] /\ UNCHANGED <<regions, rawcalls, fixed, alive>>
PFree(p, id, pt) == /\ pt = 1 /\ \E b \in blocks[p] : b[1] = id
                    /\ blocks' = [blocks EXCEPT ![p] = {b \in @ : b[1] # id}] /\ UNCHANGED <<regions, rawcalls, fixed, alive>>
Identify(p, id, q) == q = p /\ (\E b \in blocks[p] : b[1] = id) /\ UNCHANGED pvars
Reset(p) == p \in alive /\ blocks' = [blocks EXCEPT ![p] = {}] /\ UNCHANGED <<regions, rawcalls, fixed, alive>>
\* logged after pool_destroy returned: every region went back (exactly once: RawFree removes it, a second return finds nothing)
Destroy(p) == p \in alive /\ regions[p] = {} /\ alive' = alive \ {p} /\ blocks' = [blocks EXCEPT ![p] = {}] /\ UNCHANGED <<regions, rawcalls, fixed>>
\* an allocation entry point ran out of memory / was given an unrepresentable request: it reported failure, every live block is intact
Failed(rep, pt) == rep = 1 /\ pt = 1 /\ UNCHANGED pvars
\* after the injected failures are exhausted a request succeeds again
Recovered(rec) == rec = 1 /\ UNCHANGED pvars
=============================================================================
