---- MODULE TraceLifo ----
\* Verdict for executions of the real orphaned-slab list: Cfg blocks | Take t b (pop / grab returned the slabs b) | Give t b (push of slab b begins) |
\* End list | Stuck | Reset.  A slab is taken only while nobody holds it, given back only by its holder; at the end every slab is in the list or held by one thread.
EXTENDS Integers, Sequences, FiniteSets, TLC, Json, IOUtils
TraceLog == ndJsonDeserialize(IOEnv.TRACE)
VARIABLES holder, nb, l
vars == <<holder, nb, l>>
Ev == TraceLog[l]
Is(e) == l <= Len(TraceLog) /\ TraceLog[l].e = e /\ l' = l + 1
SetOf(s) == {s[i] : i \in DOMAIN s}
TInit == holder = [b \in 1..8 |-> 0] /\ nb = 0 /\ l = 1
TNext == \/ Is("Cfg") /\ nb' = Ev.blocks /\ holder' = [b \in 1..8 |-> 0]
         \/ /\ Is("Take") /\ \A i \in DOMAIN Ev.b : Ev.b[i] \in 1..nb /\ holder[Ev.b[i]] = 0
            /\ Cardinality(SetOf(Ev.b)) = Len(Ev.b)
            /\ holder' = [b \in 1..8 |-> IF b \in SetOf(Ev.b) THEN Ev.t ELSE holder[b]] /\ UNCHANGED nb
         \/ Is("Give") /\ Ev.b \in 1..nb /\ holder[Ev.b] = Ev.t /\ holder' = [holder EXCEPT ![Ev.b] = 0] /\ UNCHANGED nb
         \/ /\ Is("End") /\ Cardinality(SetOf(Ev.list)) = Len(Ev.list)
            /\ \A b \in 1..nb : (b \in SetOf(Ev.list)) = (holder[b] = 0)
            /\ UNCHANGED <<holder, nb>>
         \/ Is("Reset") /\ holder' = [b \in 1..8 |-> 0] /\ nb' = 0
TraceSpec == TInit /\ [][TNext]_vars
NotAccepted == l <= Len(TraceLog)
====
