---- MODULE MCs ----
EXTENDS SlabBlock
====
