------------------------------- MODULE TraceSizeClass -------------------------------
(* The (bin index, object size) the real getIndex / getObjectSize return for every request size, logged in ascending size order, is checked  *)
(* against the properties of SizeClass (verdict) and against its transcription (drift counter only).   Events: SC s i z                      *)
EXTENDS Integers, Sequences, TLC, Json, IOUtils
TraceLog == ndJsonDeserialize(IOEnv.TRACE)
CONSTANTS MaxSize, SlabSize, BlockHdr, FitAlign, NumBins
VARIABLES s, ps, pi, pz, l, drift
SC == INSTANCE SizeClass
vars == <<s, ps, pi, pz, l, drift>>
Ev == TraceLog[l]
TInit == s = 1 /\ ps = 0 /\ pi = 0 /\ pz = 0 /\ l = 1 /\ drift = 0
TNext == /\ l <= Len(TraceLog) /\ Ev.e = "SC" /\ l' = l + 1
         /\ SC!BigEnough(Ev.s, Ev.i, Ev.z) /\ SC!Aligned(Ev.s, Ev.i, Ev.z) /\ SC!InRange(Ev.s, Ev.i, Ev.z)
         /\ (ps > 0 => SC!Monotone(Ev.s, Ev.i, Ev.z, ps, pi, pz))
         /\ ps' = Ev.s /\ pi' = Ev.i /\ pz' = Ev.z /\ s' = s
         /\ drift' = drift + (IF SC!Index(Ev.s) = Ev.i /\ SC!ObjSize(Ev.s) = Ev.z THEN 0 ELSE 1)
TraceSpec == TInit /\ [][TNext]_vars
NotAccepted == l <= Len(TraceLog)
=============================================================================
