SPECIFICATION Spec
CONSTANT MaxSize = 8128
CONSTANT SlabSize = 16384
CONSTANT BlockHdr = 128
CONSTANT FitAlign = 64
CONSTANT NumBins = 31
INVARIANT AllProps
INVARIANT MaxIsF5
CHECK_DEADLOCK FALSE
