SPECIFICATION Spec
CONSTANT Threads = {1, 2, 3}
CONSTANT Prog <- ProgC
CONSTANT Blocks = {1, 2, 3}
CONSTANT Init0 <- InitThree
INVARIANT OneOwner
INVARIANT NoDoubleHold
CHECK_DEADLOCK FALSE
