------------------------------- MODULE TraceHeap -------------------------------
(* Validation of recorded scalable_malloc / calloc / realloc / aligned_* / posix_memalign / free executions against HeapAbs.      *)
(* Events: A id lo hi al ms ze | F id pt | C id pt | RB id pt | RE id res nid lo hi al ms pf | Scenario | Reset ; Crash/Stuck unexplainable *)
EXTENDS Integers, Sequences, FiniteSets, TLC, Json, IOUtils
TraceLog == ndJsonDeserialize(IOEnv.TRACE)
Ids == 1..400
VARIABLES live, limbo, l
H == INSTANCE HeapAbs
vars == <<live, limbo, l>>
Ev == TraceLog[l]
Is(e) == l <= Len(TraceLog) /\ TraceLog[l].e = e /\ l' = l + 1
TInit == H!HInit /\ l = 1
TNext == \/ Is("A") /\ H!Alloc(Ev.id, Ev.lo, Ev.hi, Ev.al, Ev.ms, Ev.ze)
         \/ Is("F") /\ H!Free(Ev.id, Ev.pt)
         \/ Is("C") /\ H!Check(Ev.id, Ev.pt)
         \/ Is("RB") /\ H!ReallocB(Ev.id, Ev.pt)
         \/ Is("RE") /\ H!ReallocE(Ev.id, Ev.res, Ev.nid, Ev.lo, Ev.hi, Ev.al, Ev.ms, Ev.pf)
         \/ Is("Scenario") /\ UNCHANGED <<live, limbo>>
         \/ Is("Reset") /\ live' = [i \in {} |-> <<0, 0>>] /\ limbo' = {}
TraceSpec == TInit /\ [][TNext]_vars
NotAccepted == l <= Len(TraceLog)
=============================================================================
