SPECIFICATION TraceSpec
CONSTANT MaxSize = 8128
CONSTANT SlabSize = 16384
CONSTANT BlockHdr = 128
CONSTANT FitAlign = 64
CONSTANT NumBins = 31
INVARIANT NotAccepted
CHECK_DEADLOCK FALSE
