SPECIFICATION Spec
CONSTANT Threads = {1, 2}
CONSTANT Prog <- ProgA
CONSTANT Blocks = {1, 2}
CONSTANT Init0 <- InitTwo
INVARIANT OneOwner
INVARIANT NoDoubleHold
CHECK_DEADLOCK FALSE
