---- MODULE SlabBlock ----
\* One 16K slab (Block) of tbbmalloc with NObj equal-size objects, its owner thread and foreign threads that free objects of the slab
\* (src/tbbmalloc/frontend.cpp: Block::freeOwnObject / freePublicObject / privatizePublicFreeList, Bin::addPublicFreeListBlock /
\* getPrivatizedFreeListBlock, Block::shareOrphaned / readyToShare / privatizeOrphaned).  One label per shared access (publicFreeList,
\* nextPrivatizable, the bin's mailbox under mailLock); the owner-private fields (freeList, bumpPtr, allocatedCount) change inside the steps.
\*   pub       publicFreeList: a sequence of objects (LIFO), or the marker <<0>> (= UNUSABLE) once the slab was orphaned and shared
\*   np        nextPrivatizable: "bin" (owner's bin), "mbox" (linked into the mailbox), "UNUSABLE" (orphaned)
\*   held      object -> thread that currently holds it as an allocated block (0 = not allocated)
\* Properties (C17): an object is never in two of {allocated, private free list, public free list, untouched bump area}; malloc never hands
\* out an object that is held; allocatedCount is exact whenever the public list is empty and nobody is inside a free; an orphaned slab is
\* adopted by at most one thread and no publicly freed object is lost.
EXTENDS Integers, Sequences, FiniteSets, TLC
CONSTANTS NObj, Foreign, OwnerOps, ForeignFrees, Exit     \* Exit: the owner exits (orphans the slab) at the end and a foreign thread adopts it
Objs == 1..NObj
(* --algorithm slab {
  variables pub = <<>>, np = "bin", mbox = FALSE, mlock = 0,
            freeList = <<>>, bump = NObj,                    \* private: LIFO free list, number of never-allocated objects (bump area = objects 1..bump)
            count = 0,                                       \* allocatedCount
            held = [o \in Objs |-> "none"], owner = "o", adopted = 0, infree = 0, dbl = FALSE;
  define {
    InPub(o) == pub # <<0>> /\ \E i \in 1..Len(pub) : pub[i] = o
    InFree(o) == \E i \in 1..Len(freeList) : freeList[i] = o
    InBump(o) == o <= bump
    Places(o) == (IF held[o] # "none" THEN 1 ELSE 0) + (IF InPub(o) THEN 1 ELSE 0) + (IF InFree(o) THEN 1 ELSE 0) + (IF InBump(o) THEN 1 ELSE 0)
  }
  \* take an object for thread t from the private lists of the slab (t must own the slab)
  macro take(t) {
    if (Len(freeList) > 0) { if (held[Head(freeList)] # "none") { dbl := TRUE }; held[Head(freeList)] := t; freeList := Tail(freeList); count := count + 1 }
    else if (bump > 0) { if (held[bump] # "none") { dbl := TRUE }; held[bump] := t; bump := bump - 1; count := count + 1 }
  }
  process (o = "o")
    variables k = 0, lp = <<>>;
  {
  O0: if (k < OwnerOps) { k := k + 1; either { goto O1 } or { goto O2 } or { goto O3 } } else { goto OX };
  \* malloc from the active slab; the object is kept or handed to a foreign thread (which will free it)
  O1: take("o");
  O1b: with (x \in {y \in Objs : held[y] = "o"} \cup {0}) { if (x # 0) { with (g \in Foreign \cup {"o"}) { held[x] := g } } }; goto O0;
  \* free one of the owner's own objects: freeOwnObject
  O2: with (x \in {y \in Objs : held[y] = "o"} \cup {0}) { if (x # 0) { held[x] := "none"; freeList := <<x>> \o freeList; count := count - 1 } }; goto O0;
  \* getPrivatizedFreeListBlock: only if the mailbox is non-empty
  O3: if (mbox) { goto O4 } else { goto O0 };
  O4: await mlock = 0; mlock := 1;
  O5: mbox := FALSE; np := "bin";                          \* unlink from the mailbox, nextPrivatizable := this bin
  O6: mlock := 0;
  O7: lp := pub; pub := <<>>;                              \* privatizePublicFreeList(reset = true): exchange(nullptr)
  O8: if (lp # <<0>>) { count := count - Len(lp); freeList := lp \o freeList }; lp := <<>>; goto O0;
  \* thread exit: the slab is orphaned (shareOrphaned) and later adopted by a foreign thread
  OX: if (Exit) { goto OX1 } else { goto OEnd };
  OX1: if (np = "bin") { goto OX2 } else { goto OX4 };
  OX2: if (pub = <<>>) { pub := <<0>>; goto OX4 } else { goto OX3 };      \* readyToShare: CAS(nullptr -> UNUSABLE)
  OX3: await np # "bin"; goto OX4;                          \* somebody is inside freePublicObject: wait until it has put the slab into the mailbox
  OX4: np := "UNUSABLE"; owner := "none"; mbox := FALSE;
  OEnd: skip;
  }
  process (f \in Foreign)
    variables n = 0, obj = 0, old = <<>>, lp2 = <<>>;
  {
  F0: if (n < ForeignFrees) { n := n + 1; goto F1 } else { goto FA };
  F1: with (x \in {y \in Objs : held[y] = self} \cup {0}) { obj := x };
  F1a: if (obj # 0) { held[obj] := "none"; infree := infree + 1; goto F1b } else { goto F0 };
  F1b: if (owner = self) {                                \* the slab was adopted by this thread: an ordinary own free
         freeList := <<obj>> \o freeList; count := count - 1; infree := infree - 1; goto F0 }
       else { goto F2 };
  F2: old := pub;                                          \* freePublicObject: load, then CAS loop
  F3: if (pub = old) {
        if (old = <<0>>) { pub := <<obj>> } else { pub := <<obj>> \o old }; goto F4 }
      else { goto F2 };
  F4: if (old = <<>>) { goto F5 } else { goto F9 };        \* the list was empty: this thread links the slab into the owner's mailbox
  F5: if (np # "UNUSABLE") { goto F6 } else { goto F9 };
  F6: await mlock = 0; mlock := 1;
  F7: np := "mbox"; mbox := TRUE;
  F8: mlock := 0;
  F9: infree := infree - 1; goto F0;
  \* adoption of the orphaned slab (privatizeOrphaned) by one foreign thread
  FA: if (Exit /\ owner = "none" /\ np = "UNUSABLE" /\ adopted = 0) { adopted := adopted + 1; owner := self; np := "bin"; goto FA2 } else { goto FEnd };
  FA2: lp2 := pub; pub := <<>>;
  FA3: if (lp2 # <<0>>) { count := count - Len(lp2); freeList := lp2 \o freeList }; lp2 := <<>>;
  FEnd: skip;
  }
} *)
\* BEGIN TRANSLATION
VARIABLES pc, pub, np, mbox, mlock, freeList, bump, count, held, owner, 
          adopted, infree, dbl

(* define statement *)
InPub(o) == pub # <<0>> /\ \E i \in 1..Len(pub) : pub[i] = o
InFree(o) == \E i \in 1..Len(freeList) : freeList[i] = o
InBump(o) == o <= bump
Places(o) == (IF held[o] # "none" THEN 1 ELSE 0) + (IF InPub(o) THEN 1 ELSE 0) + (IF InFree(o) THEN 1 ELSE 0) + (IF InBump(o) THEN 1 ELSE 0)

VARIABLES k, lp, n, obj, old, lp2

vars == << pc, pub, np, mbox, mlock, freeList, bump, count, held, owner, 
           adopted, infree, dbl, k, lp, n, obj, old, lp2 >>

ProcSet == {"o"} \cup (Foreign)

Init == (* Global variables *)
        /\ pub = <<>>
        /\ np = "bin"
        /\ mbox = FALSE
        /\ mlock = 0
        /\ freeList = <<>>
        /\ bump = NObj
        /\ count = 0
        /\ held = [o \in Objs |-> "none"]
        /\ owner = "o"
        /\ adopted = 0
        /\ infree = 0
        /\ dbl = FALSE
        (* Process o *)
        /\ k = 0
        /\ lp = <<>>
        (* Process f *)
        /\ n = [self \in Foreign |-> 0]
        /\ obj = [self \in Foreign |-> 0]
        /\ old = [self \in Foreign |-> <<>>]
        /\ lp2 = [self \in Foreign |-> <<>>]
        /\ pc = [self \in ProcSet |-> CASE self = "o" -> "O0"
                                        [] self \in Foreign -> "F0"]

O0 == /\ pc["o"] = "O0"
      /\ IF k < OwnerOps
            THEN /\ k' = k + 1
                 /\ \/ /\ pc' = [pc EXCEPT !["o"] = "O1"]
                    \/ /\ pc' = [pc EXCEPT !["o"] = "O2"]
                    \/ /\ pc' = [pc EXCEPT !["o"] = "O3"]
            ELSE /\ pc' = [pc EXCEPT !["o"] = "OX"]
                 /\ k' = k
      /\ UNCHANGED << pub, np, mbox, mlock, freeList, bump, count, held, owner, 
                      adopted, infree, dbl, lp, n, obj, old, lp2 >>

O1 == /\ pc["o"] = "O1"
      /\ IF Len(freeList) > 0
            THEN /\ IF held[Head(freeList)] # "none"
                       THEN /\ dbl' = TRUE
                       ELSE /\ TRUE
                            /\ dbl' = dbl
                 /\ held' = [held EXCEPT ![Head(freeList)] = "o"]
                 /\ freeList' = Tail(freeList)
                 /\ count' = count + 1
                 /\ bump' = bump
            ELSE /\ IF bump > 0
                       THEN /\ IF held[bump] # "none"
                                  THEN /\ dbl' = TRUE
                                  ELSE /\ TRUE
                                       /\ dbl' = dbl
                            /\ held' = [held EXCEPT ![bump] = "o"]
                            /\ bump' = bump - 1
                            /\ count' = count + 1
                       ELSE /\ TRUE
                            /\ UNCHANGED << bump, count, held, dbl >>
                 /\ UNCHANGED freeList
      /\ pc' = [pc EXCEPT !["o"] = "O1b"]
      /\ UNCHANGED << pub, np, mbox, mlock, owner, adopted, infree, k, lp, n, 
                      obj, old, lp2 >>

O1b == /\ pc["o"] = "O1b"
       /\ \E x \in {y \in Objs : held[y] = "o"} \cup {0}:
            IF x # 0
               THEN /\ \E g \in Foreign \cup {"o"}:
                         held' = [held EXCEPT ![x] = g]
               ELSE /\ TRUE
                    /\ held' = held
       /\ pc' = [pc EXCEPT !["o"] = "O0"]
       /\ UNCHANGED << pub, np, mbox, mlock, freeList, bump, count, owner, 
                       adopted, infree, dbl, k, lp, n, obj, old, lp2 >>

O2 == /\ pc["o"] = "O2"
      /\ \E x \in {y \in Objs : held[y] = "o"} \cup {0}:
           IF x # 0
              THEN /\ held' = [held EXCEPT ![x] = "none"]
                   /\ freeList' = <<x>> \o freeList
                   /\ count' = count - 1
              ELSE /\ TRUE
                   /\ UNCHANGED << freeList, count, held >>
      /\ pc' = [pc EXCEPT !["o"] = "O0"]
      /\ UNCHANGED << pub, np, mbox, mlock, bump, owner, adopted, infree, dbl, 
                      k, lp, n, obj, old, lp2 >>

O3 == /\ pc["o"] = "O3"
      /\ IF mbox
            THEN /\ pc' = [pc EXCEPT !["o"] = "O4"]
            ELSE /\ pc' = [pc EXCEPT !["o"] = "O0"]
      /\ UNCHANGED << pub, np, mbox, mlock, freeList, bump, count, held, owner, 
                      adopted, infree, dbl, k, lp, n, obj, old, lp2 >>

O4 == /\ pc["o"] = "O4"
      /\ mlock = 0
      /\ mlock' = 1
      /\ pc' = [pc EXCEPT !["o"] = "O5"]
      /\ UNCHANGED << pub, np, mbox, freeList, bump, count, held, owner, 
                      adopted, infree, dbl, k, lp, n, obj, old, lp2 >>

O5 == /\ pc["o"] = "O5"
      /\ mbox' = FALSE
      /\ np' = "bin"
      /\ pc' = [pc EXCEPT !["o"] = "O6"]
      /\ UNCHANGED << pub, mlock, freeList, bump, count, held, owner, adopted, 
                      infree, dbl, k, lp, n, obj, old, lp2 >>

O6 == /\ pc["o"] = "O6"
      /\ mlock' = 0
      /\ pc' = [pc EXCEPT !["o"] = "O7"]
      /\ UNCHANGED << pub, np, mbox, freeList, bump, count, held, owner, 
                      adopted, infree, dbl, k, lp, n, obj, old, lp2 >>

O7 == /\ pc["o"] = "O7"
      /\ lp' = pub
      /\ pub' = <<>>
      /\ pc' = [pc EXCEPT !["o"] = "O8"]
      /\ UNCHANGED << np, mbox, mlock, freeList, bump, count, held, owner, 
                      adopted, infree, dbl, k, n, obj, old, lp2 >>

O8 == /\ pc["o"] = "O8"
      /\ IF lp # <<0>>
            THEN /\ count' = count - Len(lp)
                 /\ freeList' = lp \o freeList
            ELSE /\ TRUE
                 /\ UNCHANGED << freeList, count >>
      /\ lp' = <<>>
      /\ pc' = [pc EXCEPT !["o"] = "O0"]
      /\ UNCHANGED << pub, np, mbox, mlock, bump, held, owner, adopted, infree, 
                      dbl, k, n, obj, old, lp2 >>

OX == /\ pc["o"] = "OX"
      /\ IF Exit
            THEN /\ pc' = [pc EXCEPT !["o"] = "OX1"]
            ELSE /\ pc' = [pc EXCEPT !["o"] = "OEnd"]
      /\ UNCHANGED << pub, np, mbox, mlock, freeList, bump, count, held, owner, 
                      adopted, infree, dbl, k, lp, n, obj, old, lp2 >>

OX1 == /\ pc["o"] = "OX1"
       /\ IF np = "bin"
             THEN /\ pc' = [pc EXCEPT !["o"] = "OX2"]
             ELSE /\ pc' = [pc EXCEPT !["o"] = "OX4"]
       /\ UNCHANGED << pub, np, mbox, mlock, freeList, bump, count, held, 
                       owner, adopted, infree, dbl, k, lp, n, obj, old, lp2 >>

OX2 == /\ pc["o"] = "OX2"
       /\ IF pub = <<>>
             THEN /\ pub' = <<0>>
                  /\ pc' = [pc EXCEPT !["o"] = "OX4"]
             ELSE /\ pc' = [pc EXCEPT !["o"] = "OX3"]
                  /\ pub' = pub
       /\ UNCHANGED << np, mbox, mlock, freeList, bump, count, held, owner, 
                       adopted, infree, dbl, k, lp, n, obj, old, lp2 >>

OX3 == /\ pc["o"] = "OX3"
       /\ np # "bin"
       /\ pc' = [pc EXCEPT !["o"] = "OX4"]
       /\ UNCHANGED << pub, np, mbox, mlock, freeList, bump, count, held, 
                       owner, adopted, infree, dbl, k, lp, n, obj, old, lp2 >>

OX4 == /\ pc["o"] = "OX4"
       /\ np' = "UNUSABLE"
       /\ owner' = "none"
       /\ mbox' = FALSE
       /\ pc' = [pc EXCEPT !["o"] = "OEnd"]
       /\ UNCHANGED << pub, mlock, freeList, bump, count, held, adopted, 
                       infree, dbl, k, lp, n, obj, old, lp2 >>

OEnd == /\ pc["o"] = "OEnd"
        /\ TRUE
        /\ pc' = [pc EXCEPT !["o"] = "Done"]
        /\ UNCHANGED << pub, np, mbox, mlock, freeList, bump, count, held, 
                        owner, adopted, infree, dbl, k, lp, n, obj, old, lp2 >>

o == O0 \/ O1 \/ O1b \/ O2 \/ O3 \/ O4 \/ O5 \/ O6 \/ O7 \/ O8 \/ OX \/ OX1
        \/ OX2 \/ OX3 \/ OX4 \/ OEnd

F0(self) == /\ pc[self] = "F0"
            /\ IF n[self] < ForeignFrees
                  THEN /\ n' = [n EXCEPT ![self] = n[self] + 1]
                       /\ pc' = [pc EXCEPT ![self] = "F1"]
                  ELSE /\ pc' = [pc EXCEPT ![self] = "FA"]
                       /\ n' = n
            /\ UNCHANGED << pub, np, mbox, mlock, freeList, bump, count, held, 
                            owner, adopted, infree, dbl, k, lp, obj, old, lp2 >>

F1(self) == /\ pc[self] = "F1"
            /\ \E x \in {y \in Objs : held[y] = self} \cup {0}:
                 obj' = [obj EXCEPT ![self] = x]
            /\ pc' = [pc EXCEPT ![self] = "F1a"]
            /\ UNCHANGED << pub, np, mbox, mlock, freeList, bump, count, held, 
                            owner, adopted, infree, dbl, k, lp, n, old, lp2 >>

F1a(self) == /\ pc[self] = "F1a"
             /\ IF obj[self] # 0
                   THEN /\ held' = [held EXCEPT ![obj[self]] = "none"]
                        /\ infree' = infree + 1
                        /\ pc' = [pc EXCEPT ![self] = "F1b"]
                   ELSE /\ pc' = [pc EXCEPT ![self] = "F0"]
                        /\ UNCHANGED << held, infree >>
             /\ UNCHANGED << pub, np, mbox, mlock, freeList, bump, count, 
                             owner, adopted, dbl, k, lp, n, obj, old, lp2 >>

F1b(self) == /\ pc[self] = "F1b"
             /\ IF owner = self
                   THEN /\ freeList' = <<obj[self]>> \o freeList
                        /\ count' = count - 1
                        /\ infree' = infree - 1
                        /\ pc' = [pc EXCEPT ![self] = "F0"]
                   ELSE /\ pc' = [pc EXCEPT ![self] = "F2"]
                        /\ UNCHANGED << freeList, count, infree >>
             /\ UNCHANGED << pub, np, mbox, mlock, bump, held, owner, adopted, 
                             dbl, k, lp, n, obj, old, lp2 >>

F2(self) == /\ pc[self] = "F2"
            /\ old' = [old EXCEPT ![self] = pub]
            /\ pc' = [pc EXCEPT ![self] = "F3"]
            /\ UNCHANGED << pub, np, mbox, mlock, freeList, bump, count, held, 
                            owner, adopted, infree, dbl, k, lp, n, obj, lp2 >>

F3(self) == /\ pc[self] = "F3"
            /\ IF pub = old[self]
                  THEN /\ IF old[self] = <<0>>
                             THEN /\ pub' = <<obj[self]>>
                             ELSE /\ pub' = <<obj[self]>> \o old[self]
                       /\ pc' = [pc EXCEPT ![self] = "F4"]
                  ELSE /\ pc' = [pc EXCEPT ![self] = "F2"]
                       /\ pub' = pub
            /\ UNCHANGED << np, mbox, mlock, freeList, bump, count, held, 
                            owner, adopted, infree, dbl, k, lp, n, obj, old, 
                            lp2 >>

F4(self) == /\ pc[self] = "F4"
            /\ IF old[self] = <<>>
                  THEN /\ pc' = [pc EXCEPT ![self] = "F5"]
                  ELSE /\ pc' = [pc EXCEPT ![self] = "F9"]
            /\ UNCHANGED << pub, np, mbox, mlock, freeList, bump, count, held, 
                            owner, adopted, infree, dbl, k, lp, n, obj, old, 
                            lp2 >>

F5(self) == /\ pc[self] = "F5"
            /\ IF np # "UNUSABLE"
                  THEN /\ pc' = [pc EXCEPT ![self] = "F6"]
                  ELSE /\ pc' = [pc EXCEPT ![self] = "F9"]
            /\ UNCHANGED << pub, np, mbox, mlock, freeList, bump, count, held, 
                            owner, adopted, infree, dbl, k, lp, n, obj, old, 
                            lp2 >>

F6(self) == /\ pc[self] = "F6"
            /\ mlock = 0
            /\ mlock' = 1
            /\ pc' = [pc EXCEPT ![self] = "F7"]
            /\ UNCHANGED << pub, np, mbox, freeList, bump, count, held, owner, 
                            adopted, infree, dbl, k, lp, n, obj, old, lp2 >>

F7(self) == /\ pc[self] = "F7"
            /\ np' = "mbox"
            /\ mbox' = TRUE
            /\ pc' = [pc EXCEPT ![self] = "F8"]
            /\ UNCHANGED << pub, mlock, freeList, bump, count, held, owner, 
                            adopted, infree, dbl, k, lp, n, obj, old, lp2 >>

F8(self) == /\ pc[self] = "F8"
            /\ mlock' = 0
            /\ pc' = [pc EXCEPT ![self] = "F9"]
            /\ UNCHANGED << pub, np, mbox, freeList, bump, count, held, owner, 
                            adopted, infree, dbl, k, lp, n, obj, old, lp2 >>

F9(self) == /\ pc[self] = "F9"
            /\ infree' = infree - 1
            /\ pc' = [pc EXCEPT ![self] = "F0"]
            /\ UNCHANGED << pub, np, mbox, mlock, freeList, bump, count, held, 
                            owner, adopted, dbl, k, lp, n, obj, old, lp2 >>

FA(self) == /\ pc[self] = "FA"
            /\ IF Exit /\ owner = "none" /\ np = "UNUSABLE" /\ adopted = 0
                  THEN /\ adopted' = adopted + 1
                       /\ owner' = self
                       /\ np' = "bin"
                       /\ pc' = [pc EXCEPT ![self] = "FA2"]
                  ELSE /\ pc' = [pc EXCEPT ![self] = "FEnd"]
                       /\ UNCHANGED << np, owner, adopted >>
            /\ UNCHANGED << pub, mbox, mlock, freeList, bump, count, held, 
                            infree, dbl, k, lp, n, obj, old, lp2 >>

FA2(self) == /\ pc[self] = "FA2"
             /\ lp2' = [lp2 EXCEPT ![self] = pub]
             /\ pub' = <<>>
             /\ pc' = [pc EXCEPT ![self] = "FA3"]
             /\ UNCHANGED << np, mbox, mlock, freeList, bump, count, held, 
                             owner, adopted, infree, dbl, k, lp, n, obj, old >>

FA3(self) == /\ pc[self] = "FA3"
             /\ IF lp2[self] # <<0>>
                   THEN /\ count' = count - Len(lp2[self])
                        /\ freeList' = lp2[self] \o freeList
                   ELSE /\ TRUE
                        /\ UNCHANGED << freeList, count >>
             /\ lp2' = [lp2 EXCEPT ![self] = <<>>]
             /\ pc' = [pc EXCEPT ![self] = "FEnd"]
             /\ UNCHANGED << pub, np, mbox, mlock, bump, held, owner, adopted, 
                             infree, dbl, k, lp, n, obj, old >>

FEnd(self) == /\ pc[self] = "FEnd"
              /\ TRUE
              /\ pc' = [pc EXCEPT ![self] = "Done"]
              /\ UNCHANGED << pub, np, mbox, mlock, freeList, bump, count, 
                              held, owner, adopted, infree, dbl, k, lp, n, obj, 
                              old, lp2 >>

f(self) == F0(self) \/ F1(self) \/ F1a(self) \/ F1b(self) \/ F2(self)
              \/ F3(self) \/ F4(self) \/ F5(self) \/ F6(self) \/ F7(self)
              \/ F8(self) \/ F9(self) \/ FA(self) \/ FA2(self) \/ FA3(self)
              \/ FEnd(self)

(* Allow infinite stuttering to prevent deadlock on termination. *)
Terminating == /\ \A self \in ProcSet: pc[self] = "Done"
               /\ UNCHANGED vars

Next == o
           \/ (\E self \in Foreign: f(self))
           \/ Terminating

Spec == Init /\ [][Next]_vars

Termination == <>(\A self \in ProcSet: pc[self] = "Done")

\* END TRANSLATION
OnePlace == \A x \in Objs : Places(x) <= 1
NeverTwice == ~dbl
NothingLost == \A x \in Objs : Places(x) + (IF \E p \in ProcSet : (p \in Foreign /\ obj[p] = x /\ pc[p] \in {"F1b", "F2", "F3"}) THEN 1 ELSE 0)
                                          + (IF (\E i \in 1..Len(lp) : lp[i] = x) THEN 1 ELSE 0)
                                          + (IF \E p \in Foreign : lp2[p] # <<0>> /\ \E i \in 1..Len(lp2[p]) : lp2[p][i] = x THEN 1 ELSE 0) >= 1
CountExact == (infree = 0 /\ pub \in {<<>>, <<0>>} /\ lp = <<>> /\ \A p \in Foreign : lp2[p] = <<>>) => count = Cardinality({x \in Objs : held[x] # "none"})
OneAdopter == adopted <= 1
====
