------------------------------- MODULE TracePool -------------------------------
(* Events: PC p fx | RA p rid lo hi ok | RF p rid | PA p id lo hi | PF p id pt | ID p id q | PR p | PD p | Fail rep pt | Rec rec | Scenario | Reset ; Crash/Stuck unexplainable *)
EXTENDS Integers, Sequences, FiniteSets, TLC, Json, IOUtils
TraceLog == ndJsonDeserialize(IOEnv.TRACE)
Pools == 0..3
VARIABLES regions, rawcalls, fixed, blocks, alive, l
P == INSTANCE PoolAbs
vars == <<regions, rawcalls, fixed, blocks, alive, l>>
Ev == TraceLog[l]
Is(e) == l <= Len(TraceLog) /\ TraceLog[l].e = e /\ l' = l + 1
TInit == P!PInit /\ l = 1
TNext == \/ Is("PC") /\ P!Create(Ev.p, Ev.fx = 1)
         \/ Is("RA") /\ P!RawAlloc(Ev.p, Ev.rid, Ev.lo, Ev.hi, Ev.ok)
         \/ Is("RF") /\ P!RawFree(Ev.p, Ev.rid)
         \/ Is("PA") /\ P!PAlloc(Ev.p, Ev.id, Ev.lo, Ev.hi)
         \/ Is("PF") /\ P!PFree(Ev.p, Ev.id, Ev.pt)
         \/ Is("ID") /\ P!Identify(Ev.p, Ev.id, Ev.q)
         \/ Is("PR") /\ P!Reset(Ev.p)
         \/ Is("PD") /\ P!Destroy(Ev.p)
         \/ Is("Fail") /\ P!Failed(Ev.rep, Ev.pt)
         \/ Is("Rec") /\ P!Recovered(Ev.rec)
         \/ Is("Scenario") /\ UNCHANGED <<regions, rawcalls, fixed, blocks, alive>>
         \/ Is("Reset") /\ regions' = [p \in Pools |-> {}] /\ rawcalls' = [p \in Pools |-> 0] /\ fixed' = [p \in Pools |-> FALSE]
                        /\ blocks' = [p \in Pools |-> {}] /\ alive' = {}
TraceSpec == TInit /\ [][TNext]_vars
NotAccepted == l <= Len(TraceLog)
=============================================================================
