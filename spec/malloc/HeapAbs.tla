-------------------------------- MODULE HeapAbs --------------------------------
(* Abstract specification of property C17: blocks handed out by the scalable allocator are disjoint, aligned, big enough and   *)
(* keep their contents.                                                                                                       *)
(*   live    id -> <<lo, hi>> of every block that was returned by an allocation call and whose free call has not begun yet     *)
(*           (addresses are order-preserving ranks of the real addresses: only their order matters)                            *)
(*   limbo   ids of blocks that are the argument of a realloc call in progress (the call may free them or keep them)           *)
(* Alloc: the returned block overlaps no live block (memory is handed out again only after the free call BEGAN - the event is   *)
(* logged before free is called), is aligned as requested (al), has msize >= the requested size (ms), is zero-filled for calloc *)
(* (ze), keeps the first min(old, new) bytes across realloc (pf).  Free / Check: the fill pattern the harness wrote into the      *)
(* block is intact (pt) - the allocator never writes into a live block.  A block may be freed by any thread.                     *)
EXTENDS Integers, FiniteSets
CONSTANTS Ids
VARIABLES live, limbo
hvars == <<live, limbo>>
HInit == live = [i \in {} |-> <<0, 0>>] /\ limbo = {}
Disjoint(lo, hi, S) == \A i \in S : hi <= live[i][1] \/ live[i][2] <= lo
Alloc(id, lo, hi, al, ms, ze) == /\ id \notin DOMAIN live /\ lo < hi /\ al = 1 /\ ms = 1 /\ ze = 1
                                 /\ Disjoint(lo, hi, DOMAIN live \ limbo)          \* (a block whose realloc is in progress may already have been freed inside that call)
                                 /\ live' = [i \in DOMAIN live \cup {id} |-> IF i = id THEN <<lo, hi>> ELSE live[i]] /\ UNCHANGED limbo
Free(id, pt) == /\ id \in DOMAIN live /\ id \notin limbo /\ pt = 1
                /\ live' = [i \in DOMAIN live \ {id} |-> live[i]] /\ UNCHANGED limbo
Check(id, pt) == id \in DOMAIN live /\ pt = 1 /\ UNCHANGED hvars
ReallocB(id, pt) == id \in DOMAIN live /\ id \notin limbo /\ pt = 1 /\ limbo' = limbo \cup {id} /\ UNCHANGED live
\* res = 0: the call failed, the old block is untouched; res = 1: block nid = [lo, hi) replaces it (it may be the old block itself, grown or shrunk in place)
ReallocE(id, res, nid, lo, hi, al, ms, pf) ==
    /\ id \in limbo /\ limbo' = limbo \ {id}
    /\ IF res = 0 THEN live' = live
       ELSE /\ lo < hi /\ al = 1 /\ ms = 1 /\ pf = 1 /\ nid \notin DOMAIN live \ {id}
            /\ Disjoint(lo, hi, DOMAIN live \ (limbo \cup {id}))
            /\ live' = [i \in (DOMAIN live \ {id}) \cup {nid} |-> IF i = nid THEN <<lo, hi>> ELSE live[i]]
=============================================================================
