SPECIFICATION Spec
CONSTANT NObj = 3
CONSTANT Foreign = {"f1","f2"}
CONSTANT OwnerOps = 3
CONSTANT ForeignFrees = 2
CONSTANT Exit = TRUE
INVARIANT OnePlace
INVARIANT NeverTwice
INVARIANT NothingLost
INVARIANT CountExact
INVARIANT OneAdopter
