---- MODULE MClf ----
EXTENDS LifoList
InitTwo == <<2, (1 :> 0) @@ (2 :> 1)>>                 \* list 2 -> 1
InitThree == <<3, (1 :> 0) @@ (2 :> 1) @@ (3 :> 2)>>   \* list 3 -> 2 -> 1
ProgA == (1 :> <<"pop", "push">>) @@ (2 :> <<"grab", "push">>)
ProgB == (1 :> <<"pop", "push">>) @@ (2 :> <<"grab", "push">>) @@ (3 :> <<"pop">>)
ProgC == (1 :> <<"pop", "pop", "push">>) @@ (2 :> <<"grab", "push", "grab">>) @@ (3 :> <<"pop", "push">>)
====
