-------------------------------- MODULE SizeClass --------------------------------
(* Function specification of the small-object size classes of tbbmalloc (src/tbbmalloc/frontend.cpp:773-872):               *)
(* getSmallObjectIndex / getIndexOrObjectSize transcribed; TLC enumerates every request size 1..MaxSize and checks the       *)
(* properties C17 relies on: the object size of the chosen bin is at least the request, bins and object sizes are monotone,    *)
(* every bin has one object size, objects of more than 8 bytes are 16-byte aligned (object sizes are multiples of 16, slab     *)
(* header and slab are multiples of 128), sizes of at most 8 bytes are 8-byte aligned, the bin index stays below the bin count. *)
EXTENDS Integers, FiniteSets, TLC
CONSTANTS MaxSize, SlabSize, BlockHdr, FitAlign, NumBins
Pow2(k) == 2^k
HiBit(n) == CHOOSE k \in 0..14 : Pow2(k) <= n /\ n < Pow2(k + 1)
AlignUp(x, a) == ((x + a - 1) \div a) * a
FitSize(n) == (((SlabSize - BlockHdr) \div n) \div FitAlign) * FitAlign
F1 == FitSize(9)  F2 == FitSize(6)  F3 == FitSize(4)  F4 == FitSize(3)  F5 == FitSize(2)
SmallIndex(s) == LET r == (s - 1) \div 8 IN IF r = 0 THEN 0 ELSE IF r % 2 = 0 THEN r + 1 ELSE r
MinSeg == 8        \* minSmallObjectIndex + numSmallObjectBins
MinFit == MinSeg + 16
Index(s) == IF s <= 64 THEN SmallIndex(s)
            ELSE IF s <= 1024 THEN LET o == HiBit(s - 1) IN MinSeg - 24 - 4 + 4 * o + ((s - 1) \div Pow2(o - 2))
            ELSE IF s <= F1 THEN MinFit ELSE IF s <= F2 THEN MinFit + 1 ELSE IF s <= F3 THEN MinFit + 2 ELSE IF s <= F4 THEN MinFit + 3 ELSE MinFit + 4
ObjSize(s) == IF s <= 64 THEN (SmallIndex(s) + 1) * 8
              ELSE IF s <= 1024 THEN LET o == HiBit(s - 1) IN AlignUp(s, Pow2(o - 2))
              ELSE IF s <= F1 THEN F1 ELSE IF s <= F2 THEN F2 ELSE IF s <= F3 THEN F3 ELSE IF s <= F4 THEN F4 ELSE F5
\* the properties, for one request size given the (index, object size) answer - used on the transcription and on values logged from the real code
BigEnough(s, i, z) == z >= s
Aligned(s, i, z) == IF s <= 8 THEN z % 8 = 0 ELSE z % 16 = 0
InRange(s, i, z) == i >= 0 /\ i < NumBins /\ z <= F5 /\ z <= SlabSize - BlockHdr
Monotone(s, i, z, ps, pi, pz) == (ps < s) => (pi <= i /\ pz <= z /\ (pi = i <=> pz = z))          \* one object size per bin, both non-decreasing
Tight(s, i, z) == z < 2 * s + 16                                                               \* no class wastes more than half (sanity of the transcription)
VARIABLE s
Init == s = 1
Next == s < MaxSize /\ s' = s + 1
Spec == Init /\ [][Next]_s
AllProps == /\ BigEnough(s, Index(s), ObjSize(s)) /\ Aligned(s, Index(s), ObjSize(s)) /\ InRange(s, Index(s), ObjSize(s)) /\ Tight(s, Index(s), ObjSize(s))
            /\ (s > 1 => Monotone(s, Index(s), ObjSize(s), s - 1, Index(s - 1), ObjSize(s - 1)))
MaxIsF5 == MaxSize = F5
=============================================================================
