---- MODULE PipeBuffer ----
\* Function transcription of the token buffer of a serial parallel_pipeline filter (src/tbb/parallel_pipeline.cpp, class input_buffer: try_put_token 187-210,
\* try_to_spawn_task_for_next_token 216-228, grow 250-266).  A serial filter processes one item at a time; an item that arrives while the filter is busy (or,
\* for serial_in_order, before its turn) is parked in a ring indexed by token; when the filter finishes an item it advances low_token and takes the parked item
\* of the next token, if it is there.  The ring doubles when a token does not fit (token - low_token >= array_size), re-placing the parked items.
\*   Put(t)   : an item with (ready) token t arrives.  token = low_token -> not parked: the caller processes it at once.  Otherwise parked at token mod size.
\*   PutNew   : an item without a token arrives (first ordered filter / unordered serial filter): it gets token high_token++.
\*   Next     : the filter finished the item of low_token: ++low_token; the slot of the new low_token is emptied and its item (if valid) is processed next.
\* Properties (C07: a serial filter runs one item at a time, serial_in_order in token order, no item lost or run twice): the items are processed in token
\* order, each exactly once; a parked item is never overwritten; at the end nothing is parked.
EXTENDS Integers, Sequences, FiniteSets, TLC
CONSTANTS MaxParked,                      \* at most MaxParked items are parked at once (bounds the state space of the wide configurations)
          NTok, Window, ReadyTokens          \* NTok items; at most Window tokens are in flight (the pipeline's max_number_of_live_tokens); ReadyTokens: the
                                            \* items arrive with tokens assigned by an earlier ordered filter (TRUE) or get theirs here (FALSE)
Empty == [valid |-> FALSE, tok |-> 0]
RECURSIVE NewSize(_, _)
NewSize(sz, min) == IF sz >= min THEN sz ELSE NewSize(2 * sz, min)
\* grow(minimum_size): new ring of the doubled size (doubled again until it fits); the old_size entries starting at low_token are re-placed by token
Grow(arr, size, low, min) ==
    LET ns == NewSize(2 * size, min)
        moved == [i \in 0..ns-1 |-> LET cands == {k \in 0..size-1 : (low + k) % ns = i} IN
                                     IF cands = {} THEN Empty ELSE LET k == CHOOSE k \in cands : TRUE IN arr[(low + k) % size]]
    IN <<moved, ns>>
VARIABLES arr, size, low, high, busy, arrived, order, lastOp, lastRes
vars == <<arr, size, low, high, busy, arrived, order, lastOp, lastRes>>
Init == /\ arr = [i \in 0..3 |-> Empty] /\ size = 4 /\ low = 0 /\ high = 0 /\ busy = FALSE /\ arrived = {} /\ order = <<>>
        /\ lastOp = <<"init", 0>> /\ lastRes = 0
\* try_put_token with token t: returns 1 = parked, 0 = process now
PutTok(t) ==
    IF t # low
    THEN LET g == IF t - low >= size THEN Grow(arr, size, low, t - low + 1) ELSE <<arr, size>> IN
         /\ arr' = [g[1] EXCEPT ![t % g[2]] = [valid |-> TRUE, tok |-> t]] /\ size' = g[2] /\ lastRes' = 1 /\ UNCHANGED <<busy, order>>
    ELSE /\ UNCHANGED <<arr, size>> /\ lastRes' = 0 /\ busy' = TRUE /\ order' = Append(order, t)
NParked == Cardinality({i \in 0..size-1 : arr[i].valid})
Put(t) == /\ ReadyTokens /\ t \notin arrived /\ (t = low \/ NParked < MaxParked) /\ t < NTok /\ t - low < Window /\ t >= low
          /\ arrived' = arrived \cup {t} /\ high' = IF t + 1 > high THEN t + 1 ELSE high        \* (high_token is not used for ready tokens; kept for the projection)
          /\ PutTok(t) /\ lastOp' = <<"put", t>> /\ UNCHANGED low
PutNew == /\ ~ReadyTokens /\ high < NTok /\ (high = low \/ NParked < MaxParked) /\ high - low < Window
          /\ arrived' = arrived \cup {high} /\ high' = high + 1
          /\ PutTok(high) /\ lastOp' = <<"new", high>> /\ UNCHANGED low
\* a serial filter that is busy with low_token finishes it
Next == /\ busy /\ lastOp' = <<"next", low + 1>>
        /\ low' = low + 1
        /\ LET item == arr[(low + 1) % size] IN
           /\ arr' = [arr EXCEPT ![(low + 1) % size] = Empty]                     \* item.is_valid = false (the stale token left in the slot is never read: normalised away)
           /\ IF item.valid THEN order' = Append(order, item.tok) /\ busy' = TRUE /\ lastRes' = item.tok + 100
              ELSE order' = order /\ busy' = FALSE /\ lastRes' = 0
        /\ UNCHANGED <<size, high, arrived>>
NextStep == (\E t \in 0..NTok-1 : Put(t)) \/ PutNew \/ Next
Spec == Init /\ [][NextStep]_vars
\* ---- properties
InOrder == \A i \in DOMAIN order : order[i] = i - 1                          \* processed in token order, each once
BusyMeansLow == busy => (Len(order) = low + 1)                               \* the item in process is the one of low_token
IdleMeansWaiting == ~busy => Len(order) = low                                \* nothing skipped: the filter waits for exactly low_token
ParkedAreFuture == \A i \in 0..size-1 : arr[i].valid => (arr[i].tok > low /\ arr[i].tok \in arrived /\ arr[i].tok % size = i)
NoLoss == \A t \in arrived : t < Len(order) \/ (t = low /\ ~busy /\ FALSE) \/ (\E i \in 0..size-1 : arr[i].valid /\ arr[i].tok = t)
Done == Len(order) = NTok => \A i \in 0..size-1 : ~arr[i].valid
====
