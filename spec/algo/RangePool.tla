---- MODULE RangePool ----
\* Function transcription of range_vector<blocked_range<int>, 8> (include/oneapi/tbb/partitioner.h:191-254): the depth-limited pool of sub-ranges that the
\* adaptive partitioners (auto / affinity, work_balance) keep while they execute a stolen or split-off range.  A ring of up to 8 ranges with their relative
\* depths; back() (at my_head) is the piece the owner executes next, front() (at my_tail) the piece offered to a thief.
\*   split_to_fill(max_depth): while size < 8 and back() is divisible and shallower than max_depth: move back() to the next slot, leave its RIGHT half in the old
\*                             slot (blocked_range's splitting constructor gives the new object [mid, end) and keeps [begin, mid) in the source), ++depth of both
\*   pop_back(): the owner took back();   pop_front(): front() was handed to a new task
\* Properties (C05, the partitioner's own bookkeeping): the ranges in the pool are non-empty, pairwise disjoint, contiguous from back (lowest indices) to front,
\* and together with what was popped they cover the original range exactly once; depths never exceed max_depth; a range in the pool is never split below the grain.
EXTENDS Integers, Sequences, FiniteSets, TLC
CONSTANTS MaxSize, Grains, MaxDepth, Cap
Empty == [lo |-> 0, hi |-> 0, d |-> 0]
VARIABLES pool, head, tail, size, grain, total, popped, lastOp
vars == <<pool, head, tail, size, grain, total, popped, lastOp>>
Init == /\ total \in 1..MaxSize /\ grain \in Grains
        /\ pool = [i \in 0..Cap-1 |-> IF i = 0 THEN [lo |-> 0, hi |-> total, d |-> 0] ELSE Empty]
        /\ head = 0 /\ tail = 0 /\ size = 1 /\ popped = {} /\ lastOp = <<"init", 0>>
Divisible(r) == grain < r.hi - r.lo                                   \* blocked_range::is_divisible
\* one iteration of split_to_fill's loop
Step1(p, h) == LET prev == h  nh == (h + 1) % Cap  r == p[prev]  mid == r.lo + (r.hi - r.lo) \div 2 IN
               <<[p EXCEPT ![nh] = [lo |-> r.lo, hi |-> mid, d |-> r.d + 1], ![prev] = [lo |-> mid, hi |-> r.hi, d |-> r.d + 1]], nh>>
RECURSIVE Fill(_, _, _, _)
Fill(p, h, s, maxd) == IF s < Cap /\ p[h].d < maxd /\ Divisible(p[h]) THEN LET st == Step1(p, h) IN Fill(st[1], st[2], s + 1, maxd) ELSE <<p, h, s>>
SplitToFill(maxd) == /\ size > 0
                     /\ LET f == Fill(pool, head, size, maxd) IN pool' = f[1] /\ head' = f[2] /\ size' = f[3]
                     /\ lastOp' = <<"fill", maxd>> /\ UNCHANGED <<tail, grain, total, popped>>
PopBack == /\ size > 0 /\ popped' = popped \cup {<<pool[head].lo, pool[head].hi>>}
           /\ pool' = [pool EXCEPT ![head] = Empty] /\ size' = size - 1 /\ head' = (head + Cap - 1) % Cap
           /\ lastOp' = <<"back", 0>> /\ UNCHANGED <<tail, grain, total>>
PopFront == /\ size > 0 /\ popped' = popped \cup {<<pool[tail].lo, pool[tail].hi>>}
            /\ pool' = [pool EXCEPT ![tail] = Empty] /\ size' = size - 1 /\ tail' = (tail + 1) % Cap
            /\ lastOp' = <<"front", 0>> /\ UNCHANGED <<head, grain, total>>
Next == (\E m \in 0..MaxDepth : SplitToFill(m)) \/ PopBack \/ PopFront
Spec == Init /\ [][Next]_vars
\* ---- properties
Live == {(tail + k) % Cap : k \in 0..size-1}
NonEmpty == \A i \in Live : pool[i].lo < pool[i].hi
\* from front (tail) to back (head) the ranges are adjacent and descending: front holds the highest indices
Contiguous == \A k \in 0..size-2 : pool[(tail + k + 1) % Cap].hi = pool[(tail + k) % Cap].lo
Covered(x) == (\E i \in Live : pool[i].lo <= x /\ x < pool[i].hi) \/ (\E r \in popped : r[1] <= x /\ x < r[2])
ExactCover == \A x \in 0..total-1 : Cardinality({i \in Live : pool[i].lo <= x /\ x < pool[i].hi}) + Cardinality({r \in popped : r[1] <= x /\ x < r[2]}) = 1
DepthOK == \A i \in Live : pool[i].d <= MaxDepth
NotBelowGrain == \A i \in Live : pool[i].d > 0 => pool[i].hi - pool[i].lo >= (grain + 1) \div 2
RingOK == size >= 0 /\ size <= Cap /\ (size > 0 => head = (tail + size - 1) % Cap)
====
