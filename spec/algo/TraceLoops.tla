------------------------------ MODULE TraceLoops ------------------------------
(* Events: Loop kind lo hi simple | Chunk lo hi sz | Item id | Done [expected] | Stuck | Crash | Escaped | Reset *)
EXTENDS Integers, Sequences, FiniteSets, TLC, Json, IOUtils
TraceLog == ndJsonDeserialize(IOEnv.TRACE)
VARIABLES space, chunks, items, l
A == INSTANCE RangeCover
vars == <<space, chunks, items, l>>
Ev == TraceLog[l]
Is(e) == l <= Len(TraceLog) /\ TraceLog[l].e = e /\ l' = l + 1
TInit == A!LInit /\ l = 1
TNext == \/ Is("Loop") /\ A!Begin(Ev.kind, Ev.lo, Ev.hi, Ev.simple)
         \/ Is("Chunk") /\ A!Chunk(Ev.lo, Ev.hi, Ev.sz)
         \/ Is("Item") /\ A!Item(Ev.id)
         \/ Is("Done") /\ (IF space.kind = "range" THEN A!RangeDone ELSE A!ItemsDone(Ev.expected)) /\ A!End
         \/ Is("Reset") /\ A!End
TraceSpec == TInit /\ [][TNext]_vars
NotAccepted == l <= Len(TraceLog)
=============================================================================
