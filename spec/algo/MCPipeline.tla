---- MODULE MCPipeline ----
EXTENDS Pipeline
M1 == <<"SI","P","SI">>
M2 == <<"P","SI","SO">>
M3 == <<"SO","P","SI","SI">>
M4 == <<"P","P","SI">>
M5 == <<"SI","SO">>
M6 == <<"SI">>
====
