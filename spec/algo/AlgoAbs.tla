-------------------------------- MODULE AlgoAbs --------------------------------
(* Abstract specification of property C06 over the observable results of parallel_reduce / parallel_deterministic_reduce /   *)
(* parallel_scan / parallel_sort.  Operands are symbolic (element ids), so order, multiplicity and adjacency are visible.     *)
EXTENDS Integers, Sequences, FiniteSets
\* parallel_reduce with a non-commutative operation: the result is the left-to-right fold 0,1,...,n-1
ReduceOK(n, val) == Len(val) = n /\ \A i \in 1..n : val[i] = i - 1
\* a split-off body is joined back only into the body it was split from: both operands are adjacent intervals, left then right
JoinOK(lf, ll, rf, rl) == lf <= ll /\ rf <= rl /\ rf = ll + 1
\* deterministic reduce: the split/join tree (leaf ranges, join shape) and the bit pattern of a floating-point sum do not depend on
\* the schedule or the number of threads (run A: 3 threads under the random schedule, run B: one thread)
DetOK(leavesA, leavesB, treeA, treeB, bitsA, bitsB) == leavesA = leavesB /\ treeA = treeB /\ bitsA = bitsB
\* parallel_scan: the final pass ran exactly once per element with the correct incoming prefix; the result is the full reduction
ScanOK(n, fin, pre, total) == Len(fin) = n /\ Len(pre) = n /\ total = n /\ \A i \in 1..n : fin[i] = 1 /\ pre[i] = 1
\* parallel_sort: the output is a sorted permutation of the input (under the strict weak ordering: keys compared by key(x))
Count(s, x) == Cardinality({i \in 1..Len(s) : s[i] = x})
SortOK(in, out, keydiv) == /\ Len(in) = Len(out)
                           /\ \A i \in 1..(Len(out) - 1) : (out[i] \div keydiv) <= (out[i + 1] \div keydiv)
                           /\ \A x \in {in[i] : i \in 1..Len(in)} \cup {out[i] : i \in 1..Len(out)} : Count(in, x) = Count(out, x)
=============================================================================
