SPECIFICATION Spec
CONSTANT MaxParked = 5
CONSTANT NTok = 19
CONSTANT Window = 18
CONSTANT ReadyTokens = TRUE
INVARIANT InOrder
INVARIANT BusyMeansLow
INVARIANT IdleMeansWaiting
INVARIANT ParkedAreFuture
INVARIANT NoLoss
INVARIANT Done
CHECK_DEADLOCK FALSE
