-------------------------------- MODULE PipeAbs --------------------------------
(* Abstract specification of property C07 over filter-body begin / end events of one parallel_pipeline call.                 *)
(*   modes   filter modes ("P" parallel, "SO" serial_out_of_order, "SI" serial_in_order); limit = max_number_of_live_tokens   *)
(*   seen    per filter, the items in the order their body began;  inbody: items currently inside the filter's body          *)
(*   done    per filter, items whose body ended;  stopped: the input filter signalled end of input                           *)
EXTENDS Integers, Sequences, FiniteSets
VARIABLES modes, limit, seen, inbody, done, stopped
pvars == <<modes, limit, seen, inbody, done, stopped>>
PInit == modes = <<>> /\ limit = 0 /\ seen = <<>> /\ inbody = <<>> /\ done = <<>> /\ stopped = FALSE
NF == Len(modes)
Serial(f) == modes[f] # "P"
Ordered(f) == modes[f] = "SI"
SIF == {f \in 1..NF : Ordered(f)}
FirstSI == CHOOSE f \in SIF : \A g \in SIF : f <= g
Begin(ms, lim) == /\ modes = <<>> /\ modes' = ms /\ limit' = lim /\ seen' = [f \in 1..Len(ms) |-> <<>>]
                  /\ inbody' = [f \in 1..Len(ms) |-> {}] /\ done' = [f \in 1..Len(ms) |-> {}] /\ stopped' = FALSE
InSeq(s, x) == \E i \in 1..Len(s) : s[i] = x
Live == {x \in {seen[1][i] : i \in 1..Len(seen[1])} : x \notin done[NF]}
FB(f, x) == /\ f \in 1..NF /\ ~InSeq(seen[f], x)                                          \* each item passes each filter at most once
            /\ (f > 1 => x \in done[f - 1])                                               \* only after it left the previous filter
            /\ (f = 1 => ~stopped)
            /\ (Serial(f) => inbody[f] = {})                                              \* a serial filter never runs two invocations at once
            /\ (Ordered(f) /\ f # FirstSI => /\ Len(seen[f]) < Len(seen[FirstSI])         \* all in-order filters see one common order:
                                             /\ seen[FirstSI][Len(seen[f]) + 1] = x)      \* that of the first serial_in_order filter
            /\ seen' = [seen EXCEPT ![f] = Append(@, x)] /\ inbody' = [inbody EXCEPT ![f] = @ \cup {x}]
            /\ (f = 1 => Cardinality(Live \cup {x}) <= limit)                              \* never more than the token limit in flight
            /\ UNCHANGED <<modes, limit, done, stopped>>
FE(f, x) == /\ x \in inbody[f] /\ inbody' = [inbody EXCEPT ![f] = @ \ {x}] /\ done' = [done EXCEPT ![f] = @ \cup {x}]
            /\ UNCHANGED <<modes, limit, seen, stopped>>
Stop == stopped' = TRUE /\ UNCHANGED <<modes, limit, seen, inbody, done>>
\* the call returns only after end of input and after every emitted item left the last filter
Return == /\ stopped /\ \A f \in 1..NF : inbody[f] = {} /\ done[f] = {seen[1][i] : i \in 1..Len(seen[1])}
          /\ modes' = <<>> /\ limit' = 0 /\ seen' = <<>> /\ inbody' = <<>> /\ done' = <<>> /\ stopped' = FALSE
=============================================================================
