SPECIFICATION Spec
CONSTANT MaxSize = 14
CONSTANT Grains = {1, 2}
CONSTANT MaxDepth = 3
CONSTANT Cap = 8
INVARIANT NonEmpty
INVARIANT Contiguous
INVARIANT ExactCover
INVARIANT DepthOK
INVARIANT NotBelowGrain
INVARIANT RingOK
CHECK_DEADLOCK FALSE
