-------------------------------- MODULE Reduce --------------------------------
(***************************************************************************)
(* Protocol model (critical-section granularity) of parallel_reduce          *)
(* (include/oneapi/tbb/parallel_reduce.h start_reduce::execute / finalize,   *)
(* reduction_tree_node, partitioner.h fold_tree):                            *)
(*  - a task for a divisible range allocates a tree node with ref_count 2,   *)
(*    spawns the right half as a new task and continues with the left half;  *)
(*  - a right child that starts while its parent's ref_count is still 2      *)
(*    (the left sibling has not finished) splits a new Body into the node's   *)
(*    zombie space, otherwise it keeps accumulating into the left Body;      *)
(*  - a finished task folds the tree upwards: the last of the two children   *)
(*    joins the zombie (right) Body into the left Body and continues.        *)
(* Bodies carry a symbolic free-monoid value (the sequence of element ids),  *)
(* so any reordering, loss or double contribution is visible.                *)
(* The tree is the complete binary tree over Leaves = 2^Depth leaves; TLC    *)
(* explores every order in which the (stolen) tasks start and finish.        *)
(***************************************************************************)
EXTENDS Naturals, Sequences, FiniteSets, TLC
CONSTANT Depth
NLeaves == 2^Depth
\* nodes are numbered heap-style: 1 = root, children of n are 2n and 2n+1; leaves are NLeaves..2*NLeaves-1
IsLeaf(n) == n >= NLeaves
Nodes == 1..(2 * NLeaves - 1)
VARIABLES state,     \* task state per node: "none" (not spawned), "ready", "running", "done"
          body,      \* which Body object a task accumulates into (body id = node id that owns it)
          val,       \* value of each Body: sequence of element ids
          refc,      \* tree node ref_count (internal nodes)
          zombie,    \* has_right_zombie per internal node
          folded     \* root released
vars == <<state, body, val, refc, zombie, folded>>
Init == /\ state = [n \in Nodes |-> IF n = 1 THEN "ready" ELSE "none"]
        /\ body = [n \in Nodes |-> IF n = 1 THEN 1 ELSE 0]
        /\ val = [n \in Nodes |-> <<>>] /\ refc = [n \in Nodes |-> 0] /\ zombie = [n \in Nodes |-> FALSE] /\ folded = FALSE
Parent(n) == n \div 2
IsRight(n) == n > 1 /\ n % 2 = 1
\* a task starts executing (possibly on a thief)
Start(n) == /\ state[n] = "ready"
            /\ IF IsRight(n) /\ refc[Parent(n)] = 2
               THEN /\ body' = [body EXCEPT ![n] = n] /\ zombie' = [zombie EXCEPT ![Parent(n)] = TRUE]     \* split a new Body into the zombie space
               ELSE /\ UNCHANGED <<body, zombie>>
            /\ state' = [state EXCEPT ![n] = "running"] /\ UNCHANGED <<val, refc, folded>>
\* an internal task splits its range: node gets ref_count 2, right child is spawned, the task continues as the left child with the same Body
Divide(n) == /\ state[n] = "running" /\ ~IsLeaf(n)
             /\ refc' = [refc EXCEPT ![n] = 2]
             /\ state' = [state EXCEPT ![n] = "done", ![2 * n] = "running", ![2 * n + 1] = "ready"]
             /\ body' = [body EXCEPT ![2 * n] = body[n], ![2 * n + 1] = body[n]]
             /\ UNCHANGED <<val, zombie, folded>>
\* fold_tree from node n upwards, performed atomically per level by the child that finishes last
RECURSIVE Fold(_, _, _, _)
Fold(n, v, r, z) ==     \* returns <<val, refc, folded>> after folding starting at tree node n (an internal node id) 
    IF r[n] > 1 THEN <<v, [r EXCEPT ![n] = r[n] - 1], FALSE>>
    ELSE LET lb == body[2 * n]  rb == 2 * n + 1
             v2 == IF z[n] THEN [v EXCEPT ![lb] = v[lb] \o v[rb]] ELSE v IN           \* left_body.join(zombie)
         IF n = 1 THEN <<v2, [r EXCEPT ![n] = 0], TRUE>> ELSE Fold(Parent(n), v2, [r EXCEPT ![n] = 0], z)
Finish(n) == /\ state[n] = "running" /\ IsLeaf(n)
             /\ LET v1 == [val EXCEPT ![body[n]] = Append(val[body[n]], n - NLeaves)]      \* body(range): accumulate the element
                    f == Fold(Parent(n), v1, refc, zombie) IN
                /\ val' = f[1] /\ refc' = f[2] /\ folded' = (folded \/ f[3])
             /\ state' = [state EXCEPT ![n] = "done"] /\ UNCHANGED <<body, zombie>>
Next == \E n \in Nodes : Start(n) \/ Divide(n) \/ Finish(n)
Spec == Init /\ [][Next]_vars
\* C06: the result equals the left-to-right fold, whatever the steal / finish order
Expected == [i \in 1..NLeaves |-> i - 1]
ResultOK == folded => val[1] = Expected
\* a split-off Body is joined only into the Body it was split from, after both finished: every Body holds a contiguous interval at all times
Contiguous == \A b \in Nodes : \A i \in 1..(Len(val[b]) - 1) : val[b][i + 1] = val[b][i] + 1
Completes == <>folded
=============================================================================
