------------------------------- MODULE TraceAlgo -------------------------------
(* Events: Reduce n val | Join lf ll rf rl | Det ... | Scan n fin pre total | Sort in out keydiv | SortBig sorted perm | SortSweep n bad firstbad | Stuck | Crash | Escaped | Reset *)
EXTENDS Integers, Sequences, FiniteSets, TLC, Json, IOUtils
TraceLog == ndJsonDeserialize(IOEnv.TRACE)
VARIABLE l
A == INSTANCE AlgoAbs
Ev == TraceLog[l]
Is(e) == l <= Len(TraceLog) /\ TraceLog[l].e = e /\ l' = l + 1
TInit == l = 1
TNext == \/ Is("Reduce") /\ A!ReduceOK(Ev.n, Ev.val)
         \/ Is("Join") /\ A!JoinOK(Ev.lf, Ev.ll, Ev.rf, Ev.rl)
         \/ Is("Det") /\ A!DetOK(Ev.leavesA, Ev.leavesB, Ev.treeA, Ev.treeB, Ev.bitsA, Ev.bitsB)
         \/ Is("Scan") /\ A!ScanOK(Ev.n, Ev.fin, Ev.pre, Ev.total)
         \/ Is("Sort") /\ A!SortOK(Ev.in, Ev.out, Ev.keydiv)
         \/ Is("SortBig") /\ Ev.sorted = 1 /\ Ev.perm = 1
         \/ Is("SortSweep") /\ Ev.bad = 0                      \* every "sorted except one inversion" input of that size came back sorted
         \/ Is("Reset")
TraceSpec == TInit /\ [][TNext]_l
NotAccepted == l <= Len(TraceLog)
=============================================================================
