------------------------------ MODULE RangeCover ------------------------------
(***************************************************************************)
(* Abstract specification of property C05.  A loop call announces its        *)
(* iteration space; every body invocation reports the subrange it was given; *)
(* when the call returns the subranges must be non-empty, pairwise disjoint  *)
(* and cover the space exactly; with simple_partitioner every chunk that     *)
(* resulted from a split has a size in [ceil(g/2), g].                        *)
(* One-dimensional end-points are rank-compressed by the recorder (order-    *)
(* preserving renumbering of all end-points of the execution), so spaces     *)
(* larger than 2^31 are compared, never computed with; the size class of a   *)
(* chunk (0 = within [ceil(g/2), g], 1 = smaller, 2 = larger) is computed by  *)
(* the recorder in 64-bit arithmetic.  Multi-dimensional spaces are small    *)
(* and are checked cell by cell.  For parallel_for_each / parallel_invoke    *)
(* the "cells" are item ids.                                                  *)
(***************************************************************************)
EXTENDS Integers, Sequences, FiniteSets
VARIABLES space, chunks, items
lvars == <<space, chunks, items>>
NoSpace == [kind |-> "none"]
LInit == space = NoSpace /\ chunks = <<>> /\ items = <<>>
\* lo/hi: per-dimension bounds (sequences); simple: 1 for simple_partitioner on a 1-d blocked_range
Begin(kind, lo, hi, simple) == /\ space.kind = "none"
                               /\ space' = [kind |-> kind, lo |-> lo, hi |-> hi, simple |-> simple] /\ chunks' = <<>> /\ items' = <<>>
Chunk(lo, hi, szcls) == /\ space.kind = "range" /\ Len(lo) = Len(space.lo)
                        /\ \A d \in 1..Len(lo) : space.lo[d] <= lo[d] /\ lo[d] < hi[d] /\ hi[d] <= space.hi[d]     \* non-empty, inside
                        /\ chunks' = Append(chunks, [lo |-> lo, hi |-> hi, sz |-> szcls]) /\ UNCHANGED <<space, items>>
Item(id) == space.kind = "items" /\ items' = Append(items, id) /\ UNCHANGED <<space, chunks>>
Cells(lo, hi) == IF Len(lo) = 1 THEN {<<a>> : a \in lo[1]..(hi[1] - 1)}
                 ELSE IF Len(lo) = 2 THEN {<<a, b>> : a \in lo[1]..(hi[1] - 1), b \in lo[2]..(hi[2] - 1)}
                 ELSE {<<a, b, c>> : a \in lo[1]..(hi[1] - 1), b \in lo[2]..(hi[2] - 1), c \in lo[3]..(hi[3] - 1)}
Overlap(x, y) == \A d \in 1..Len(x.lo) : x.lo[d] < y.hi[d] /\ y.lo[d] < x.hi[d]
RangeDone ==
    /\ space.kind = "range"
    /\ \A i, j \in 1..Len(chunks) : i # j => ~Overlap(chunks[i], chunks[j])                                   \* pairwise disjoint
    /\ UNION {Cells(chunks[i].lo, chunks[i].hi) : i \in 1..Len(chunks)} = Cells(space.lo, space.hi)           \* exact cover (ranks are dense)
    /\ (space.simple = 1 /\ Len(chunks) > 1) => \A i \in 1..Len(chunks) : chunks[i].sz = 0                   \* documented chunk-size bounds
\* expected: the multiset of item ids that must be processed exactly once each (incl. feeder-added ones)
ItemsDone(expected) ==
    /\ space.kind = "items"
    /\ Len(items) = Len(expected)
    /\ \A x \in {expected[i] : i \in 1..Len(expected)} : Cardinality({i \in 1..Len(items) : items[i] = x}) = Cardinality({i \in 1..Len(expected) : expected[i] = x})
End == space' = NoSpace /\ chunks' = <<>> /\ items' = <<>>
=============================================================================
