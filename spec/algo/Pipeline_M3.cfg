SPECIFICATION Spec
CONSTANT Modes <- M3
CONSTANT MaxTokens = 3
CONSTANT NItems = 4
CONSTANT TaskIds = {1,2,3,4}
INVARIANT SerialExclusive
INVARIANT TokenBound
INVARIANT NoDup
INVARIANT InOrder
INVARIANT RingOK
INVARIANT Complete
