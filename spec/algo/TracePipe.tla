------------------------------- MODULE TracePipe -------------------------------
(* Events: Pipe modes tokens | FB f x | FE f x | Stop | Ret | Stuck | Crash | Escaped | Reset *)
EXTENDS Integers, Sequences, FiniteSets, TLC, Json, IOUtils
TraceLog == ndJsonDeserialize(IOEnv.TRACE)
VARIABLES modes, limit, seen, inbody, done, stopped, l
A == INSTANCE PipeAbs
vars == <<modes, limit, seen, inbody, done, stopped, l>>
Ev == TraceLog[l]
Is(e) == l <= Len(TraceLog) /\ TraceLog[l].e = e /\ l' = l + 1
TInit == A!PInit /\ l = 1
TNext == \/ Is("Pipe") /\ A!Begin(Ev.modes, Ev.tokens)
         \/ Is("FB") /\ A!FB(Ev.f, Ev.x)
         \/ Is("FE") /\ A!FE(Ev.f, Ev.x)
         \/ Is("Stop") /\ A!Stop
         \/ Is("Ret") /\ A!Return
         \/ Is("Reset") /\ modes' = <<>> /\ limit' = 0 /\ seen' = <<>> /\ inbody' = <<>> /\ done' = <<>> /\ stopped' = FALSE
TraceSpec == TInit /\ [][TNext]_vars
NotAccepted == l <= Len(TraceLog)
=============================================================================
