SPECIFICATION TraceSpec
INVARIANT NotAccepted
CHECK_DEADLOCK FALSE
