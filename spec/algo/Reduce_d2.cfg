SPECIFICATION Spec
CONSTANT Depth = 2
INVARIANT ResultOK
INVARIANT Contiguous
CHECK_DEADLOCK FALSE
