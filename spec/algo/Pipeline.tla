---- MODULE Pipeline ----
\* parallel_pipeline (src/tbb/parallel_pipeline.cpp): stage_task::execute_filter, input_buffer
\* try_put_token / try_to_spawn_task_for_next_token / get_ordered_token / grow, token accounting.
\* Granularity: one action per critical section / atomic RMW; filter bodies have Begin and End steps.
EXTENDS Integers, Sequences, FiniteSets, TLC
CONSTANTS Modes,        \* sequence over {"P","SO","SI"}
          MaxTokens, NItems, TaskIds
NF == Len(Modes)
Serial(f) == Modes[f] # "P"
Ordered(f) == Modes[f] = "SI"
VARIABLES tokens,       \* pipeline::input_tokens
          eoi,          \* end_of_input
          produced,     \* number of items handed out by the input filter
          low, high, parked, asize,      \* per filter input_buffer
          task,         \* TaskIds -> record or NoTask
          log,          \* per filter: sequence of items in the order their body began (ghost)
          inbody,       \* per filter: set of items currently inside the body (ghost)
          exited        \* items that left the last filter (ghost)
vars == <<tokens, eoi, produced, low, high, parked, asize, task, log, inbody, exited>>
NoTask == [st |-> "free"]
Filters == 1..NF
Init == /\ tokens = MaxTokens /\ eoi = FALSE /\ produced = 0
        /\ low = [f \in Filters |-> 0] /\ high = [f \in Filters |-> 0]
        /\ parked = [f \in Filters |-> {}]          \* set of records [tok, item, tokr, mytok]
        /\ asize = [f \in Filters |-> 4]            \* initial_buffer_size
        /\ task = [i \in TaskIds |-> IF i = CHOOSE x \in TaskIds : \A y \in TaskIds : x <= y
                                     THEN [st |-> "ready", f |-> 1, item |-> 0, tok |-> 0, tokr |-> FALSE, atstart |-> TRUE]
                                     ELSE NoTask]
        /\ log = [f \in Filters |-> <<>>] /\ inbody = [f \in Filters |-> {}] /\ exited = {}
FreeId == CHOOSE i \in TaskIds : task[i].st = "free"
HasFree == \E i \in TaskIds : task[i].st = "free"
InputTask == [st |-> "ready", f |-> 1, item |-> 0, tok |-> 0, tokr |-> FALSE, atstart |-> TRUE]

\* --- input stage, serial first filter: the body runs first, then token bookkeeping
BeginInputSerial(i) ==
  /\ task[i].st = "ready" /\ task[i].atstart /\ Serial(1)
  /\ IF produced < NItems
     THEN /\ produced' = produced + 1
          /\ task' = [task EXCEPT ![i].st = "body", ![i].item = produced + 1]
          /\ log' = [log EXCEPT ![1] = Append(@, produced + 1)]
          /\ inbody' = [inbody EXCEPT ![1] = @ \cup {produced + 1}]
          /\ UNCHANGED eoi
     ELSE /\ eoi' = TRUE /\ task' = [task EXCEPT ![i] = NoTask]     \* filter returned null: end of input, task finalized
          /\ UNCHANGED <<produced, log, inbody>>
  /\ UNCHANGED <<tokens, low, high, parked, asize, exited>>
\* --- input stage, parallel first filter: check eoi, spawn the next input task, then run the body
BeginInputParallel(i) ==
  /\ task[i].st = "ready" /\ task[i].atstart /\ ~Serial(1)
  /\ IF eoi THEN /\ task' = [task EXCEPT ![i] = NoTask] /\ UNCHANGED <<tokens, produced, log, inbody, eoi>>
     ELSE /\ HasFree \/ tokens <= 1
          /\ tokens' = tokens - 1                                   \* try_spawn_stage_task: fetch_sub
          /\ LET t1 == IF tokens > 1 THEN [task EXCEPT ![FreeId] = InputTask] ELSE task
             IN IF produced < NItems
                THEN /\ produced' = produced + 1
                     /\ task' = [t1 EXCEPT ![i].st = "body", ![i].item = produced + 1]
                     /\ log' = [log EXCEPT ![1] = Append(@, produced + 1)]
                     /\ inbody' = [inbody EXCEPT ![1] = @ \cup {produced + 1}] /\ UNCHANGED eoi
                ELSE /\ eoi' = TRUE /\ task' = [t1 EXCEPT ![i] = NoTask] /\ UNCHANGED <<produced, log, inbody>>
  /\ UNCHANGED <<low, high, parked, asize, exited>>
\* --- a non-input stage begins its body
BeginBody(i) ==
  /\ task[i].st = "ready" /\ ~task[i].atstart
  /\ LET f == task[i].f IN
       /\ task' = [task EXCEPT ![i].st = "body"]
       /\ log' = [log EXCEPT ![f] = Append(@, task[i].item)]
       /\ inbody' = [inbody EXCEPT ![f] = @ \cup {task[i].item}]
  /\ UNCHANGED <<tokens, eoi, produced, low, high, parked, asize, exited>>
\* --- body ends; everything execute_filter does afterwards, up to the next blocking point, in CS-sized steps
\* step 1: leave body; for the serial input filter take the ordered token and spawn next input task
EndBody(i) ==
  /\ task[i].st = "body"
  /\ LET f == task[i].f
         t0 == task[i] IN
     /\ inbody' = [inbody EXCEPT ![f] = @ \ {t0.item}]
     /\ IF t0.atstart /\ Serial(1)
        THEN \* get_ordered_token (no lock needed: input is serial) then try_spawn_stage_task
             /\ LET tk == IF Ordered(1) THEN high[1] ELSE t0.tok
                    tr == IF Ordered(1) THEN TRUE ELSE t0.tokr IN
                /\ high' = IF Ordered(1) THEN [high EXCEPT ![1] = @ + 1] ELSE high
                /\ IF NF = 1
                   THEN /\ task' = [task EXCEPT ![i] = InputTask] /\ exited' = exited \cup {t0.item}   \* only filter: reset(), recycle
                        /\ UNCHANGED <<tokens, low, parked, asize>>
                   ELSE /\ (HasFree \/ tokens <= 1)
                        /\ tokens' = tokens - 1
                        /\ task' = [ (IF tokens > 1 THEN [task EXCEPT ![FreeId] = InputTask] ELSE task)
                                     EXCEPT ![i] = [t0 EXCEPT !.st = "post", !.tok = tk, !.tokr = tr, !.atstart = FALSE] ]
                        /\ UNCHANGED <<low, parked, asize, exited>>
        ELSE IF t0.atstart   \* parallel input filter: nothing more to do here
             THEN /\ task' = [task EXCEPT ![i] = [t0 EXCEPT !.st = "post", !.atstart = FALSE]]
                  /\ UNCHANGED <<tokens, low, high, parked, asize, exited>>
             ELSE IF Serial(f)
                  THEN \* try_to_spawn_task_for_next_token: ++low_token, wake parked item for the new low token
                       /\ LET nl == low[f] + 1
                              w == {p \in parked[f] : p.tok = nl} IN
                          /\ low' = [low EXCEPT ![f] = nl]
                          /\ (w = {} \/ HasFree)
                          /\ parked' = [parked EXCEPT ![f] = @ \ w]
                          /\ task' = [ (IF w = {} THEN task
                                        ELSE LET p == CHOOSE q \in w : TRUE IN
                                             [task EXCEPT ![FreeId] = [st |-> "ready", f |-> f, item |-> p.item, tok |-> p.mytok, tokr |-> p.tokr, atstart |-> FALSE]])
                                       EXCEPT ![i] = [t0 EXCEPT !.st = "post"] ]
                       /\ UNCHANGED <<tokens, high, asize, exited>>
                  ELSE /\ task' = [task EXCEPT ![i] = [t0 EXCEPT !.st = "post"]]
                       /\ UNCHANGED <<tokens, low, high, parked, asize, exited>>
  /\ UNCHANGED <<eoi, produced, log>>
\* step 2: move to the next filter: try_put_token (park or pass) or leave the pipe (token return / recycle)
Advance(i) ==
  /\ task[i].st = "post"
  /\ LET t0 == task[i]
         nf == t0.f + 1 IN
     IF nf <= NF
     THEN IF Serial(nf)
          THEN \* try_put_token under array_mutex
               LET needTok == Ordered(nf) /\ ~t0.tokr
                   mytok == IF needTok THEN high[nf] ELSE t0.tok
                   tokr2 == IF Ordered(nf) THEN TRUE ELSE t0.tokr
                   tkn == IF Ordered(nf) THEN mytok ELSE high[nf]
                   bump == needTok \/ ~Ordered(nf) IN
               /\ high' = IF bump THEN [high EXCEPT ![nf] = @ + 1] ELSE high
               /\ IF tkn # low[nf]
                  THEN /\ parked' = [parked EXCEPT ![nf] = @ \cup {[tok |-> tkn, item |-> t0.item, tokr |-> tokr2, mytok |-> mytok]}]
                       /\ asize' = [asize EXCEPT ![nf] = IF tkn - low[nf] >= @ THEN 2 * @ ELSE @]     \* grow (one doubling suffices in these bounds)
                       /\ task' = [task EXCEPT ![i] = NoTask]
                  ELSE /\ task' = [task EXCEPT ![i] = [t0 EXCEPT !.st = "ready", !.f = nf, !.tok = mytok, !.tokr = tokr2]]
                       /\ UNCHANGED <<parked, asize>>
               /\ UNCHANGED <<tokens, exited, low>>
          ELSE /\ task' = [task EXCEPT ![i] = [t0 EXCEPT !.st = "ready", !.f = nf]]
               /\ UNCHANGED <<tokens, exited, low, high, parked, asize>>
     ELSE \* end of pipe: fetch_add(1); recycle as input task only if no token was available and input not ended
          /\ exited' = exited \cup {t0.item}
          /\ tokens' = tokens + 1
          /\ task' = [task EXCEPT ![i] = IF tokens > 0 \/ eoi THEN NoTask ELSE InputTask]
          /\ UNCHANGED <<low, high, parked, asize>>
  /\ UNCHANGED <<eoi, produced, log, inbody>>
Terminated == (\A i \in TaskIds : task[i].st = "free") /\ UNCHANGED vars
Next == Terminated \/ \E i \in TaskIds : BeginInputSerial(i) \/ BeginInputParallel(i) \/ BeginBody(i) \/ EndBody(i) \/ Advance(i)
Spec == Init /\ [][Next]_vars

Items == 1..NItems
Live == {x \in 1..produced : x \notin exited}
SerialExclusive == \A f \in Filters : Serial(f) => Cardinality(inbody[f]) <= 1
TokenBound == Cardinality(Live) <= MaxTokens
NoDup == \A f \in Filters : \A a, b \in 1..Len(log[f]) : a # b => log[f][a] # log[f][b]
SIFilters == {f \in Filters : Ordered(f)}
FirstSI == IF SIFilters = {} THEN 0 ELSE CHOOSE f \in SIFilters : \A g \in SIFilters : f <= g
IsPrefix(s, t) == Len(s) <= Len(t) /\ \A k \in 1..Len(s) : s[k] = t[k]
InOrder == \A f \in SIFilters : IsPrefix(log[f], log[FirstSI])
RingOK == \A f \in Filters : \A p \in parked[f] : p.tok > low[f] /\ p.tok - low[f] < asize[f]
             /\ \A q \in parked[f] : (p # q) => (p.tok % asize[f]) # (q.tok % asize[f])
Idle == \A i \in TaskIds : task[i].st = "free"
Complete == Idle => /\ eoi /\ exited = Items /\ \A f \in Filters : Len(log[f]) = NItems /\ parked[f] = {}
\* no stuck state: if not idle, something is enabled (checked via deadlock check)
====
