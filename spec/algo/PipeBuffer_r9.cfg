SPECIFICATION Spec
CONSTANT MaxParked = 99
CONSTANT NTok = 11
CONSTANT Window = 10
CONSTANT ReadyTokens = TRUE
INVARIANT InOrder
INVARIANT BusyMeansLow
INVARIANT IdleMeansWaiting
INVARIANT ParkedAreFuture
INVARIANT NoLoss
INVARIANT Done
CHECK_DEADLOCK FALSE
