SPECIFICATION Spec
CONSTANT MaxSize = 14
CONSTANT Grains = {1, 2, 3, 4, 7}
CONSTANT MaxDiv = 5
INVARIANT NonEmpty
INVARIANT Disjoint
INVARIANT Cover
INVARIANT SimpleBounds
CHECK_DEADLOCK FALSE
