---- MODULE TraceRangePool ----
\* Verdict for single operations of the real range_vector (each event is one call on a pool whose ring was set to a reachable state of RangePool):
\*   Op op arg grain pre post      pre / post: the live ranges from front() to back() as <<lo, hi, depth>>
EXTENDS Integers, Sequences, FiniteSets, TLC, Json, IOUtils
TraceLog == ndJsonDeserialize(IOEnv.TRACE)
VARIABLES l
Ev == TraceLog[l]
Lo(r) == r[1]  Hi(r) == r[2]  Dp(r) == r[3]
Adjacent(s) == \A i \in 1..(Len(s) - 1) : Lo(s[i]) = Hi(s[i + 1])
NonEmpty(s) == \A i \in DOMAIN s : Lo(s[i]) < Hi(s[i])
\* The verdict is about iterations, not about the shape of the pool (which end is split, depth bookkeeping, when the loop stops - those are compared with the
\* transcription as drift): after split_to_fill the pieces are non-empty, pairwise disjoint, each lies inside one range of the pool before, together they cover exactly
\* what the pool covered, and a range was cut only if it was divisible (longer than the grain).  The pops remove exactly one range from the addressed end.
Idx(s) == UNION {Lo(s[i])..(Hi(s[i]) - 1) : i \in DOMAIN s}
Disjoint(s) == \A i, j \in DOMAIN s : i # j => (Hi(s[i]) <= Lo(s[j]) \/ Hi(s[j]) <= Lo(s[i]))
Inside(r, q) == Lo(q) <= Lo(r) /\ Hi(r) <= Hi(q)
Good(e) == LET pre == e.pre  post == e.post  n == Len(e.pre) IN
    /\ NonEmpty(post) /\ Disjoint(post)
    /\ IF e.op = "back" THEN post = SubSeq(pre, 1, n - 1)
       ELSE IF e.op = "front" THEN post = SubSeq(pre, 2, n)
       ELSE /\ Idx(post) = Idx(pre) /\ Len(post) <= 8
            /\ \A i \in DOMAIN post : \E j \in DOMAIN pre : Inside(post[i], pre[j])
            /\ \A j \in DOMAIN pre : (\E i \in DOMAIN post : Inside(post[i], pre[j]) /\ (Lo(post[i]) # Lo(pre[j]) \/ Hi(post[i]) # Hi(pre[j])))
                                       => e.grain < Hi(pre[j]) - Lo(pre[j])
TInit == l = 1
TNext == l <= Len(TraceLog) /\ ((Ev.e = "Op" /\ Good(Ev)) \/ Ev.e = "Reset") /\ l' = l + 1
TraceSpec == TInit /\ [][TNext]_l
NotAccepted == l <= Len(TraceLog)
====
