---- MODULE TraceRangePool ----
\* Verdict for single operations of the real range_vector (each event is one call on a pool whose ring was set to a reachable state of RangePool):
\*   Op op arg grain pre post      pre / post: the live ranges from front() to back() as <<lo, hi, depth>>
\* split_to_fill must not lose, duplicate or reorder iterations: the pieces after the call are non-empty, adjacent (front = highest indices), cover exactly what
\* the pool covered before, leave every range but back() untouched, never exceed the depth limit (unless the range was already deeper) and never split a range
\* that is not divisible; the pops remove exactly the addressed end.
EXTENDS Integers, Sequences, FiniteSets, TLC, Json, IOUtils
TraceLog == ndJsonDeserialize(IOEnv.TRACE)
VARIABLES l
Ev == TraceLog[l]
Lo(r) == r[1]  Hi(r) == r[2]  Dp(r) == r[3]
Adjacent(s) == \A i \in 1..(Len(s) - 1) : Lo(s[i]) = Hi(s[i + 1])
NonEmpty(s) == \A i \in DOMAIN s : Lo(s[i]) < Hi(s[i])
Good(e) == LET pre == e.pre  post == e.post  n == Len(e.pre) IN
    /\ NonEmpty(post) /\ Adjacent(post)
    /\ IF e.op = "back" THEN post = SubSeq(pre, 1, n - 1)
       ELSE IF e.op = "front" THEN post = SubSeq(pre, 2, n)
       ELSE /\ Len(post) >= n /\ Len(post) <= 8
            /\ SubSeq(post, 1, n - 1) = SubSeq(pre, 1, n - 1)                                   \* everything but back() untouched
            /\ Hi(post[n]) = Hi(pre[n]) /\ Lo(post[Len(post)]) = Lo(pre[n])                       \* the pieces of back() cover back() (adjacency does the rest)
            /\ \A i \in n..Len(post) : Dp(post[i]) <= (IF Dp(pre[n]) > e.arg THEN Dp(pre[n]) ELSE e.arg) /\ Dp(post[i]) >= Dp(pre[n])
            /\ (Len(post) > n => (e.grain < Hi(pre[n]) - Lo(pre[n]) /\ Dp(pre[n]) < e.arg))        \* split only a divisible, shallow enough back()
            /\ (Len(post) = n => post[n] = pre[n])
            \* the loop stops only when the pool is full, or back() is at the depth limit, or back() is no longer divisible
            /\ (Len(post) = 8 \/ Dp(post[Len(post)]) >= e.arg \/ ~(e.grain < Hi(post[Len(post)]) - Lo(post[Len(post)])))
TInit == l = 1
TNext == l <= Len(TraceLog) /\ ((Ev.e = "Op" /\ Good(Ev)) \/ Ev.e = "Reset") /\ l' = l + 1
TraceSpec == TInit /\ [][TNext]_l
NotAccepted == l <= Len(TraceLog)
====
