---- MODULE TracePipeBuf ----
\* Verdict for single operations of the real input_buffer (each event is one call on a buffer whose state was set to a reachable state of PipeBuffer):
\*   Op op t low0 parked0 res low1 size1 slots1     op: "put" (token t ready) | "new" (token assigned here, t = the high_token before) | "next"
\*   parked0: tokens parked before the call; slots1: for every index of the ring after the call the parked token or -1; res: put/new 1 = parked, 0 = process now;
\*   next: 100 + token of the item handed out, 0 = none.
\* Nothing parked is lost or duplicated; an item is handed out exactly when its token is the next one.
EXTENDS Integers, Sequences, FiniteSets, TLC, Json, IOUtils
TraceLog == ndJsonDeserialize(IOEnv.TRACE)
VARIABLES l
Ev == TraceLog[l]
SetOf(s) == {s[i] : i \in DOMAIN s}
\* The verdict is about items, not about the shape of the ring (which slot, which size - compared with the transcription as drift): the call answers correctly, and when
\* the filter then runs on (every missing token arriving exactly when its turn comes) the parked items are handed out once each, in token order (drain).
Expected(e) == IF e.op = "next" THEN SetOf(e.parked0) \ {e.low0 + 1}
               ELSE IF e.t = e.low0 THEN SetOf(e.parked0) ELSE SetOf(e.parked0) \cup {e.t}
Ascending(s) == \A i \in 1..(Len(s) - 1) : s[i] < s[i + 1]
Good(e) == /\ Ascending(e.drain) /\ SetOf(e.drain) = Expected(e)
           /\ IF e.op = "next"
              THEN /\ e.low1 = e.low0 + 1
                   /\ IF (e.low0 + 1) \in SetOf(e.parked0) THEN e.res = 100 + e.low0 + 1 ELSE e.res = 0
              ELSE /\ e.low1 = e.low0
                   /\ IF e.t = e.low0 THEN e.res = 0 ELSE e.res = 1
TInit == l = 1
TNext == l <= Len(TraceLog) /\ ((Ev.e = "Op" /\ Good(Ev)) \/ Ev.e = "Reset") /\ l' = l + 1
TraceSpec == TInit /\ [][TNext]_l
NotAccepted == l <= Len(TraceLog)
====
