---- MODULE TracePipeBuf ----
\* Verdict for single operations of the real input_buffer (each event is one call on a buffer whose state was set to a reachable state of PipeBuffer):
\*   Op op t low0 parked0 res low1 size1 slots1     op: "put" (token t ready) | "new" (token assigned here, t = the high_token before) | "next"
\*   parked0: tokens parked before the call; slots1: for every index of the ring after the call the parked token or -1; res: put/new 1 = parked, 0 = process now;
\*   next: 100 + token of the item handed out, 0 = none.
\* Nothing parked is lost, moved to a wrong index or duplicated; an item is handed out exactly when its token is the next one.
EXTENDS Integers, Sequences, FiniteSets, TLC, Json, IOUtils
TraceLog == ndJsonDeserialize(IOEnv.TRACE)
VARIABLES l
Ev == TraceLog[l]
SetOf(s) == {s[i] : i \in DOMAIN s}
ParkedAfter(e) == {e.slots1[i] : i \in DOMAIN e.slots1} \ {-1}
WellPlaced(e) == /\ Len(e.slots1) = e.size1
                 /\ \A i \in DOMAIN e.slots1 : e.slots1[i] # -1 => (e.slots1[i] % e.size1 = i - 1)
                 /\ \A i, j \in DOMAIN e.slots1 : (i # j /\ e.slots1[i] # -1) => e.slots1[i] # e.slots1[j]
Good(e) == /\ WellPlaced(e)
           /\ \A tk \in ParkedAfter(e) : tk > e.low1 /\ tk - e.low1 < e.size1        \* every parked token lies inside the ring's window (or two tokens would share a slot)
           /\ IF e.op = "next"
              THEN /\ e.low1 = e.low0 + 1
                   /\ IF (e.low0 + 1) \in SetOf(e.parked0) THEN e.res = 100 + e.low0 + 1 /\ ParkedAfter(e) = SetOf(e.parked0) \ {e.low0 + 1}
                      ELSE e.res = 0 /\ ParkedAfter(e) = SetOf(e.parked0)
              ELSE /\ e.low1 = e.low0
                   /\ IF e.t = e.low0 THEN e.res = 0 /\ ParkedAfter(e) = SetOf(e.parked0)
                      ELSE e.res = 1 /\ ParkedAfter(e) = SetOf(e.parked0) \cup {e.t}
TInit == l = 1
TNext == l <= Len(TraceLog) /\ ((Ev.e = "Op" /\ Good(Ev)) \/ Ev.e = "Reset") /\ l' = l + 1
TraceSpec == TInit /\ [][TNext]_l
NotAccepted == l <= Len(TraceLog)
====
