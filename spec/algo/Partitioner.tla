------------------------------ MODULE Partitioner ------------------------------
(***************************************************************************)
(* Function-level specification of what the four partitioners may do to a   *)
(* blocked_range (include/oneapi/tbb/blocked_range.h do_split, partitioner.h *)
(* simple_partition_type::execute / proportional_mode::get_split):           *)
(*   - a range is divisible iff its size exceeds the grain size;             *)
(*   - split():  middle = begin + size / 2 ;                                 *)
(*   - proportional split with the partitioner's proportion left:right =     *)
(*     ceil(n/2):floor(n/2) for a divisor n >= 2:                            *)
(*         right_part = floor(size * right / (left + right) + 0.5)           *)
(*     (the code evaluates this in float; for sizes < 2^24 it is exact);     *)
(*   - simple_partitioner splits as long as the range is divisible; the      *)
(*     adaptive partitioners (auto / static / affinity) may stop splitting   *)
(*     at any point (their depth / divisor / steal-feedback logic decides    *)
(*     when - every decision sequence is included here).                     *)
(* TLC enumerates every split tree for every (size, grain) of the config.    *)
(***************************************************************************)
EXTENDS Naturals, FiniteSets, TLC
CONSTANTS MaxSize, Grains, MaxDiv
VARIABLES size, grain, simple, pool, done, everSplit
vars == <<size, grain, simple, pool, done, everSplit>>
Init == /\ size \in 0..MaxSize /\ grain \in Grains /\ simple \in BOOLEAN
        /\ pool = (IF size = 0 THEN {} ELSE {<<0, size>>}) /\ done = {} /\ everSplit = FALSE
Sz(r) == r[2] - r[1]
Divisible(r) == grain < Sz(r)
Split(r) == LET mid == r[1] + Sz(r) \div 2 IN
            /\ Divisible(r)
            /\ pool' = (pool \ {r}) \cup {<<r[1], mid>>, <<mid, r[2]>>} /\ everSplit' = TRUE
            /\ UNCHANGED <<size, grain, simple, done>>
PSplit(r, n) == LET right == n \div 2  left == n - right
                    rp == (2 * Sz(r) * right + (left + right)) \div (2 * (left + right)) IN
            /\ ~simple /\ Divisible(r)
            /\ pool' = (pool \ {r}) \cup {<<r[1], r[2] - rp>>, <<r[2] - rp, r[2]>>} /\ everSplit' = TRUE
            /\ UNCHANGED <<size, grain, simple, done>>
Exec(r) == /\ (simple => ~Divisible(r))             \* simple_partitioner executes only indivisible ranges
           /\ pool' = pool \ {r} /\ done' = done \cup {r}
           /\ UNCHANGED <<size, grain, simple, everSplit>>
Next == \E r \in pool : Split(r) \/ Exec(r) \/ \E n \in 2..MaxDiv : PSplit(r, n)
Spec == Init /\ [][Next]_vars
\* ---- C05 at the design level
NonEmpty == \A r \in pool \cup done : r[1] < r[2]
Disjoint == \A a, b \in pool \cup done : a # b => (a[2] <= b[1] \/ b[2] <= a[1])
Cover == UNION {r[1]..(r[2] - 1) : r \in pool \cup done} = 0..(size - 1)
\* an indivisible range is never split: structural (Split / PSplit require Divisible)
SimpleBounds == (simple /\ everSplit) => \A r \in done : (grain + 1) \div 2 <= Sz(r) /\ Sz(r) <= grain
=============================================================================
