SPECIFICATION Spec
CONSTANT MaxSize = 24
CONSTANT Grains = {1, 2, 3, 5}
CONSTANT MaxDepth = 5
CONSTANT Cap = 8
INVARIANT NonEmpty
INVARIANT Contiguous
INVARIANT ExactCover
INVARIANT DepthOK
INVARIANT NotBelowGrain
INVARIANT RingOK
CHECK_DEADLOCK FALSE
