SPECIFICATION Spec
CONSTANT Depth = 3
INVARIANT ResultOK
INVARIANT Contiguous
CHECK_DEADLOCK FALSE
