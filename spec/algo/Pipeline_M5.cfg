SPECIFICATION Spec
CONSTANT Modes <- M5
CONSTANT MaxTokens = 1
CONSTANT NItems = 3
CONSTANT TaskIds = {1,2,3,4}
INVARIANT SerialExclusive
INVARIANT TokenBound
INVARIANT NoDup
INVARIANT InOrder
INVARIANT RingOK
INVARIANT Complete
