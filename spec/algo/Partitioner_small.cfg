SPECIFICATION Spec
CONSTANT MaxSize = 12
CONSTANT Grains = {1, 2, 3, 5}
CONSTANT MaxDiv = 4
INVARIANT NonEmpty
INVARIANT Disjoint
INVARIANT Cover
INVARIANT SimpleBounds
CHECK_DEADLOCK FALSE
