-------------------------------- MODULE BufAbs --------------------------------
(* What the ring of a buffering flow-graph node must behave like, whatever its layout (property C15: queue_node forwards in arrival order, a     *)
(* sequencer forwards item k only at position k, nothing is lost when a reservation is released, nothing is consumed twice):                      *)
(*   q        the buffered items, oldest first (0 = an empty sequencer position)                                                               *)
(*   base     absolute position of the front (number of items removed at the front so far)                                                     *)
(*   resv     the front item is reserved                                                                                                       *)
(* Results are compared with what the real item_buffer returned when it was driven along the behaviours of ItemBuffer.tla.                        *)
EXTENDS Integers, Sequences
VARIABLES q, base, resv
bvars == <<q, base, resv>>
BInit == q = <<>> /\ base = 0 /\ resv = FALSE
Push(v) == q' = Append(q, v) /\ UNCHANGED <<base, resv>>
PopF(r) == /\ ~resv
           /\ IF Len(q) > 0 /\ Head(q) # 0 THEN r = Head(q) /\ q' = Tail(q) /\ base' = base + 1 ELSE r = 0 /\ UNCHANGED <<q, base>>
           /\ UNCHANGED resv
PopB(r) == /\ IF Len(q) > 0 /\ q[Len(q)] # 0 /\ ~(resv /\ Len(q) = 1) THEN r = q[Len(q)] /\ q' = SubSeq(q, 1, Len(q) - 1) ELSE r = 0 /\ UNCHANGED q
           /\ UNCHANGED <<base, resv>>
Rsv(r) == IF ~resv /\ Len(q) > 0 /\ Head(q) # 0 THEN r = Head(q) /\ resv' = TRUE /\ UNCHANGED <<q, base>> ELSE r = 0 /\ UNCHANGED bvars
Rel == resv /\ resv' = FALSE /\ UNCHANGED <<q, base>>                      \* the item stays
Con(r) == resv /\ r = Head(q) /\ q' = Tail(q) /\ base' = base + 1 /\ resv' = FALSE        \* consumed exactly once
\* sequencer: the item with sequence number tag (value 100 + tag) is accepted iff the position was not passed yet and is still empty; r = tag accepted, -1 - tag refused
Place(tag, r) == /\ IF tag < base \/ (tag - base < Len(q) /\ q[tag - base + 1] # 0)
                       THEN r = -1 - tag /\ q' = IF tag >= base /\ tag - base >= Len(q) THEN q \o [i \in 1..(tag - base + 1 - Len(q)) |-> 0] ELSE q
                       ELSE r = tag /\ q' = [i \in 1..(IF tag - base + 1 > Len(q) THEN tag - base + 1 ELSE Len(q)) |-> IF i = tag - base + 1 THEN 100 + tag ELSE IF i <= Len(q) THEN q[i] ELSE 0]
                 /\ UNCHANGED <<base, resv>>
=============================================================================
