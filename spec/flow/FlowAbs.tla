-------------------------------- MODULE FlowAbs --------------------------------
(* Abstract specification of properties C14 (conservation, concurrency limits, wait_for_all = idle) and C15 (ordering,    *)
(* joining, limiting contracts) of the flow graph, over message ids observed at node bodies and at external calls.        *)
(*   kind[n]    "fn" (a node with a user body: function / multifunction / continue / input / async / sink), or a          *)
(*              transparent forwarding node: "queue" "buffer" "prio" "seq" "limiter" "bcast" "ow" "wo" "join" ...        *)
(*   conc[n]    concurrency limit of a body node (0 = unlimited)                                                         *)
(*   preds[n]   predecessors (edges)                                                                                     *)
(*   ext[n]     messages an external try_put into n accepted; pend[n]: try_put invoked, result not yet known (the body may *)
(*              already run before the call returns)                                                                     *)
(*   begun / done / run [n]   messages whose body invocation on n began / ended / is running                             *)
(*   putdone[n] messages whose accepting try_put into n had returned, in return order (for FIFO)                          *)
(*   before[m]  messages already put-done when the put of m was invoked (real-time precedence)                            *)
(*   nextseq[n], decs[n], thr[n], port queues for joins                                                                  *)
(* Offered(n): what n is obliged to process = accepted external puts + the outputs of its predecessors (a body node's      *)
(* output carries the id of its input; a transparent node passes on what it was offered).                                  *)
EXTENDS Integers, FiniteSets, Sequences
CONSTANTS Nodes, Msgs
VARIABLES kind, conc, preds, ext, pend, putseq, begun, done, run, putdone, before, nextseq, decs, thr, seqno, key, tuples, cancelled, snap, rsv, consumed, recv
fvars == <<kind, conc, preds, ext, pend, putseq, begun, done, run, putdone, before, nextseq, decs, thr, seqno, key, tuples, cancelled, snap, rsv, consumed, recv>>
xvars == <<snap, rsv, consumed, recv>>      \* state of the ordering / reservation / value clauses added for C15
FInit == /\ kind = [n \in Nodes |-> "none"] /\ conc = [n \in Nodes |-> 0] /\ preds = [n \in Nodes |-> {}] /\ ext = [n \in Nodes |-> {}] /\ pend = [n \in Nodes |-> {}] /\ putseq = [n \in Nodes |-> <<>>]
         /\ begun = [n \in Nodes |-> {}] /\ done = [n \in Nodes |-> {}] /\ run = [n \in Nodes |-> {}] /\ putdone = [n \in Nodes |-> <<>>]
         /\ before = [m \in Msgs |-> {}] /\ nextseq = [n \in Nodes |-> 0] /\ decs = [n \in Nodes |-> 0] /\ thr = [n \in Nodes |-> 0]
         /\ seqno = [m \in Msgs |-> -1] /\ key = [m \in Msgs |-> 0] /\ tuples = [n \in Nodes |-> 0] /\ cancelled = FALSE
         /\ snap = [n \in Nodes |-> {}] /\ rsv = [n \in Nodes |-> 0] /\ consumed = [n \in Nodes |-> {}] /\ recv = [n \in Nodes |-> <<>>]
Keep(vs) == UNCHANGED vs
DeclNode(n, k, c, t) == /\ kind' = [kind EXCEPT ![n] = k] /\ conc' = [conc EXCEPT ![n] = c] /\ thr' = [thr EXCEPT ![n] = t]
                        /\ UNCHANGED <<preds, ext, pend, putseq, begun, done, run, putdone, before, nextseq, decs, seqno, key, tuples, cancelled, snap, rsv, consumed, recv>>
DeclEdge(a, b) == /\ preds' = [preds EXCEPT ![b] = @ \cup {a}]
                  /\ UNCHANGED <<kind, conc, ext, pend, putseq, begun, done, run, putdone, before, nextseq, decs, thr, seqno, key, tuples, cancelled, snap, rsv, consumed, recv>>
DeclMsg(m, s, k) == /\ seqno' = [seqno EXCEPT ![m] = s] /\ key' = [key EXCEPT ![m] = k]
                    /\ UNCHANGED <<kind, conc, preds, ext, pend, putseq, begun, done, run, putdone, before, nextseq, decs, thr, tuples, cancelled, snap, rsv, consumed, recv>>
RECURSIVE Offered(_)
Offered(n) == ext[n] \cup pend[n] \cup UNION {IF kind[p] = "fn" THEN done[p] ELSE Offered(p) : p \in preds[n]}
SeqToSet(s) == {s[i] : i \in DOMAIN s}
\* an external try_put of m into n is invoked / returns ok (1 accepted, 0 rejected: the caller keeps the message)
PutB(n, m) == /\ before' = [before EXCEPT ![m] = SeqToSet(putdone[n])] /\ pend' = [pend EXCEPT ![n] = @ \cup {m}] /\ putseq' = [putseq EXCEPT ![n] = Append(@, m)]
              /\ UNCHANGED <<kind, conc, preds, ext, begun, done, run, putdone, nextseq, decs, thr, seqno, key, tuples, cancelled, snap, rsv, consumed, recv>>
PutE(n, m, ok) == /\ pend' = [pend EXCEPT ![n] = @ \ {m}]
                  /\ IF ok = 1 THEN ext' = [ext EXCEPT ![n] = @ \cup {m}] /\ putdone' = [putdone EXCEPT ![n] = Append(@, m)]
                             ELSE /\ UNCHANGED <<ext, putdone>>
                                  /\ \A x \in Nodes : m \notin begun[x]           \* a message reported as rejected was not processed anyway
                  /\ UNCHANGED <<kind, conc, preds, putseq, begun, done, run, before, nextseq, decs, thr, seqno, key, tuples, cancelled, snap, rsv, consumed, recv>>
\* ordering contracts of the transparent predecessors of a body node, checked when the body begins on m
OrderOK(n, m) == \A p \in preds[n] :
    /\ (kind[p] = "seq" => seqno[m] = nextseq[p])                                            \* sequencer: exactly 0,1,2,... in order
    /\ (kind[p] = "queue" => before[m] \cap ext[p] \subseteq begun[n])                       \* queue: nothing that was put before m's put began may still be behind m
    /\ (kind[p] = "limiter" => Cardinality(begun[n]) - decs[p] < thr[p])                      \* limiter: un-decremented forwarded messages stay within the threshold
    /\ (kind[p] = "prio" => \A x \in snap[n] \ (begun[n] \cup {m}) : key[x] <= key[m])         \* priority queue: nothing that was buffered when the sink asked for its next item beats m
    /\ (kind[p] = "split" => key[m] = thr[n])                                                \* split / indexer: element i goes to port i (thr[n] = port number of sink n)
BB(n, m) == /\ kind[n] = "fn"
            /\ m \notin begun[n]                                                               \* processed at most once
            /\ m \in Offered(n)                                                                \* only what was really sent to the node
            /\ (conc[n] > 0 => Cardinality(run[n]) < conc[n])                                  \* concurrency limit
            /\ ~cancelled                                                                      \* no body starts after cancellation / an exception
            /\ OrderOK(n, m)
            /\ begun' = [begun EXCEPT ![n] = @ \cup {m}] /\ run' = [run EXCEPT ![n] = @ \cup {m}]
            /\ nextseq' = [p \in Nodes |-> IF p \in preds[n] /\ kind[p] = "seq" THEN nextseq[p] + 1 ELSE nextseq[p]]
            /\ UNCHANGED <<kind, conc, preds, ext, pend, putseq, done, putdone, before, decs, thr, seqno, key, tuples, cancelled, snap, rsv, consumed, recv>>
BE(n, m) == /\ m \in run[n] /\ run' = [run EXCEPT ![n] = @ \ {m}] /\ done' = [done EXCEPT ![n] = @ \cup {m}]
            /\ snap' = [snap EXCEPT ![n] = UNION {ext[p] : p \in {q \in preds[n] : kind[q] = "prio"}} \ begun[n]]   \* what the priority queue holds when the (serial) sink becomes free
            /\ UNCHANGED <<rsv, consumed, recv>>
            /\ UNCHANGED <<kind, conc, preds, ext, pend, putseq, begun, putdone, before, nextseq, decs, thr, seqno, key, tuples, cancelled>>
\* a decrement message is about to be sent to limiter n
DecB(n, k) == decs' = [decs EXCEPT ![n] = @ + k] /\ UNCHANGED <<kind, conc, preds, ext, pend, putseq, begun, done, run, putdone, before, nextseq, thr, seqno, key, tuples, cancelled, snap, rsv, consumed, recv>>
\* join node n (ports fed by single producers p0 / p1 through external puts into the port pseudo-nodes a / b) emitted the tuple (x, y)
\* (a tuple can be observed before the try_put that delivered its last component has returned: the order of a port is the order in which its single
\* producer INVOKED the puts, putseq; rejected puts do not occur on these ports)
TupQ(n, a, b, x, y) == /\ tuples[n] < Len(putseq[a]) /\ tuples[n] < Len(putseq[b])
                       /\ x = putseq[a][tuples[n] + 1] /\ y = putseq[b][tuples[n] + 1]              \* queueing: i-th tuple = i-th message of every port
                       /\ tuples' = [tuples EXCEPT ![n] = @ + 1]
                       /\ UNCHANGED <<kind, conc, preds, ext, pend, putseq, begun, done, run, putdone, before, nextseq, decs, thr, seqno, key, cancelled, snap, rsv, consumed, recv>>
TupK(n, a, b, x, y) == /\ x \in ext[a] \cup pend[a] /\ y \in ext[b] \cup pend[b] /\ key[x] = key[y]                            \* key matching: same key, every message used once
                       /\ x \notin begun[n] /\ y \notin begun[n]
                       /\ begun' = [begun EXCEPT ![n] = @ \cup {x, y}] /\ tuples' = [tuples EXCEPT ![n] = @ + 1]
                       /\ UNCHANGED <<kind, conc, preds, ext, pend, putseq, done, run, putdone, before, nextseq, decs, thr, seqno, key, cancelled, snap, rsv, consumed, recv>>
\* ---- buffering nodes used directly (try_reserve / try_release / try_consume / try_get on a queue or buffer node): an item is never lost when its
\* reservation is released, never consumed twice, never handed to two holders
Avail(n) == (ext[n] \cup pend[n]) \ consumed[n]        \* (an item is physically in the buffer before the put that brought it has returned)
Reserve(n, m, ok) == /\ IF ok = 1 THEN m \in Avail(n) /\ rsv[n] = 0 /\ rsv' = [rsv EXCEPT ![n] = m]
                                ELSE UNCHANGED rsv
                     /\ UNCHANGED <<kind, conc, preds, ext, pend, putseq, begun, done, run, putdone, before, nextseq, decs, thr, seqno, key, tuples, cancelled, snap, consumed, recv>>
Release(n, m) == /\ rsv[n] = m /\ m # 0 /\ rsv' = [rsv EXCEPT ![n] = 0]
                 /\ UNCHANGED <<kind, conc, preds, ext, pend, putseq, begun, done, run, putdone, before, nextseq, decs, thr, seqno, key, tuples, cancelled, snap, consumed, recv>>
Consume(n, m) == /\ rsv[n] = m /\ m # 0 /\ rsv' = [rsv EXCEPT ![n] = 0] /\ consumed' = [consumed EXCEPT ![n] = @ \cup {m}]
                 /\ UNCHANGED <<kind, conc, preds, ext, pend, putseq, begun, done, run, putdone, before, nextseq, decs, thr, seqno, key, tuples, cancelled, snap, recv>>
Get(n, m) == /\ m \in Avail(n) /\ m # rsv[n] /\ consumed' = [consumed EXCEPT ![n] = @ \cup {m}]
             /\ UNCHANGED <<kind, conc, preds, ext, pend, putseq, begun, done, run, putdone, before, nextseq, decs, thr, seqno, key, tuples, cancelled, snap, rsv, recv>>
\* at quiescence a drain by try_get found cnt items: exactly what was put and not consumed
Drained(n, cnt) == pend[n] = {} /\ cnt = Cardinality(Avail(n)) /\ rsv[n] = 0 /\ UNCHANGED fvars
\* ---- overwrite_node / write_once_node n delivered value v to its successor (pseudo node) sc; single producer, so "latest" / "first" are well defined
Deliver(sc, v) == /\ recv' = [recv EXCEPT ![sc] = Append(@, v)]
                  /\ UNCHANGED <<kind, conc, preds, ext, pend, putseq, begun, done, run, putdone, before, nextseq, decs, thr, seqno, key, tuples, cancelled, snap, rsv, consumed>>
\* at quiescence: every successor (attached at any time) of an overwrite node holds the latest value last; of a write-once node exactly the first value, once
OwCheck(n, sc) == /\ Len(putdone[n]) > 0 /\ Len(recv[sc]) > 0
                  /\ IF kind[n] = "ow" THEN recv[sc][Len(recv[sc])] = putdone[n][Len(putdone[n])]
                                    ELSE recv[sc] = <<putdone[n][1]>>
                  /\ UNCHANGED fvars
Cancel == cancelled' = TRUE /\ UNCHANGED <<kind, conc, preds, ext, pend, putseq, begun, done, run, putdone, before, nextseq, decs, thr, seqno, key, tuples, snap, rsv, consumed, recv>>
ResetCancel == cancelled' = FALSE /\ UNCHANGED <<kind, conc, preds, ext, pend, putseq, begun, done, run, putdone, before, nextseq, decs, thr, seqno, key, tuples, snap, rsv, consumed, recv>>
\* wait_for_all returned: no body running, `live` (the harness's own count of running bodies) is 0, and - in a graph whose receivers all
\* queue / buffer (lossless = 1) and that was not cancelled - everything offered to a body node has been processed
WaitRet(live, lossless) == /\ live = 0 /\ \A n \in Nodes : run[n] = {}
                           /\ (lossless = 1 /\ ~cancelled => \A n \in Nodes : kind[n] = "fn" => begun[n] = Offered(n))
                           /\ UNCHANGED fvars
\* number of complete tuples a join must have produced at quiescence
TuplesOK(n, a, b, cnt) == cnt = tuples[n] /\ UNCHANGED fvars
=============================================================================
