SPECIFICATION Spec
CONSTANT MaxOps = 11
CONSTANT MaxTag = 0
CONSTANT InitCap = 4
INVARIANT TypeOK
INVARIANT NoAlias
INVARIANT OutsideEmpty
INVARIANT QueueOrder
INVARIANT ReservedIsHead
INVARIANT OnlyHeadReserved
CHECK_DEADLOCK FALSE
