SPECIFICATION SpecSeq
CONSTANT MaxOps = 6
CONSTANT MaxTag = 11
CONSTANT InitCap = 4
INVARIANT TypeOK
INVARIANT NoAlias
INVARIANT OutsideEmpty
INVARIANT SeqSlot
CHECK_DEADLOCK FALSE
