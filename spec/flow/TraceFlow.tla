------------------------------- MODULE TraceFlow -------------------------------
(* Events: Node n kind conc thr | Edge a b | Msg m s k | PutB n m | PutE n m ok | BB n m | BE n m | DecB n | TupQ/TupK n a b x y | Cancel | Uncancel |  *)
(*         WaitRet live lossless | Tuples n a b cnt | Scenario | Reset ; Stuck/Crash/Terminate unexplainable                                                *)
EXTENDS Integers, Sequences, FiniteSets, TLC, Json, IOUtils
TraceLog == ndJsonDeserialize(IOEnv.TRACE)
Nodes == 1..9
Msgs == 1..60
VARIABLES kind, conc, preds, ext, pend, begun, done, run, putdone, before, nextseq, decs, thr, seqno, key, tuples, cancelled, l
A == INSTANCE FlowAbs
vars == <<kind, conc, preds, ext, pend, begun, done, run, putdone, before, nextseq, decs, thr, seqno, key, tuples, cancelled, l>>
Ev == TraceLog[l]
Is(e) == l <= Len(TraceLog) /\ TraceLog[l].e = e /\ l' = l + 1
TInit == A!FInit /\ l = 1
TNext == \/ Is("Node") /\ A!DeclNode(Ev.n, Ev.kind, Ev.conc, Ev.thr)
         \/ Is("Edge") /\ A!DeclEdge(Ev.a, Ev.b)
         \/ Is("Msg") /\ A!DeclMsg(Ev.m, Ev.s, Ev.k)
         \/ Is("PutB") /\ A!PutB(Ev.n, Ev.m)
         \/ Is("PutE") /\ A!PutE(Ev.n, Ev.m, Ev.ok)
         \/ Is("BB") /\ A!BB(Ev.n, Ev.m)
         \/ Is("BE") /\ A!BE(Ev.n, Ev.m)
         \/ Is("DecB") /\ A!DecB(Ev.n)
         \/ Is("TupQ") /\ A!TupQ(Ev.n, Ev.a, Ev.b, Ev.x, Ev.y)
         \/ Is("TupK") /\ A!TupK(Ev.n, Ev.a, Ev.b, Ev.x, Ev.y)
         \/ Is("Cancel") /\ A!Cancel
         \/ Is("Uncancel") /\ A!ResetCancel
         \/ Is("WaitRet") /\ A!WaitRet(Ev.live, Ev.lossless)
         \/ Is("Tuples") /\ A!TuplesOK(Ev.n, Ev.a, Ev.b, Ev.cnt)
         \/ Is("Scenario") /\ UNCHANGED <<kind, conc, preds, ext, pend, begun, done, run, putdone, before, nextseq, decs, thr, seqno, key, tuples, cancelled>>
         \/ Is("Reset") /\ kind' = [n \in Nodes |-> "none"] /\ conc' = [n \in Nodes |-> 0] /\ preds' = [n \in Nodes |-> {}] /\ ext' = [n \in Nodes |-> {}] /\ pend' = [n \in Nodes |-> {}]
                        /\ begun' = [n \in Nodes |-> {}] /\ done' = [n \in Nodes |-> {}] /\ run' = [n \in Nodes |-> {}] /\ putdone' = [n \in Nodes |-> <<>>]
                        /\ before' = [m \in Msgs |-> {}] /\ nextseq' = [n \in Nodes |-> 0] /\ decs' = [n \in Nodes |-> 0] /\ thr' = [n \in Nodes |-> 0]
                        /\ seqno' = [m \in Msgs |-> -1] /\ key' = [m \in Msgs |-> 0] /\ tuples' = [n \in Nodes |-> 0] /\ cancelled' = FALSE
TraceSpec == TInit /\ [][TNext]_vars
NotAccepted == l <= Len(TraceLog)
=============================================================================
