------------------------------- MODULE TraceFlow -------------------------------
(* Events: Node n kind conc thr | Edge a b | Msg m s k | PutB n m | PutE n m ok | BB n m | BE n m | DecB n [k] | TupQ/TupK n a b x y | Cancel | Uncancel |  *)
(*         Rsv n m ok | Rel n m | Con n m | Get n m | Drained n cnt | Dlv sc v | OwCheck n sc |                                                               *)
(*         WaitRet live lossless | Tuples n a b cnt | Scenario | Reset ; Stuck/Crash/Terminate unexplainable                                                *)
EXTENDS Integers, Sequences, FiniteSets, TLC, Json, IOUtils
TraceLog == ndJsonDeserialize(IOEnv.TRACE)
Nodes == 1..9
Msgs == 1..60
VARIABLES kind, conc, preds, ext, pend, putseq, begun, done, run, putdone, before, nextseq, decs, thr, seqno, key, tuples, cancelled, snap, rsv, consumed, recv, l
A == INSTANCE FlowAbs
vars == <<kind, conc, preds, ext, pend, putseq, begun, done, run, putdone, before, nextseq, decs, thr, seqno, key, tuples, cancelled, snap, rsv, consumed, recv, l>>
Ev == TraceLog[l]
Is(e) == l <= Len(TraceLog) /\ TraceLog[l].e = e /\ l' = l + 1
TInit == A!FInit /\ l = 1
TNext == \/ Is("Node") /\ A!DeclNode(Ev.n, Ev.kind, Ev.conc, Ev.thr)
         \/ Is("Edge") /\ A!DeclEdge(Ev.a, Ev.b)
         \/ Is("Msg") /\ A!DeclMsg(Ev.m, Ev.s, Ev.k)
         \/ Is("PutB") /\ A!PutB(Ev.n, Ev.m)
         \/ Is("PutE") /\ A!PutE(Ev.n, Ev.m, Ev.ok)
         \/ Is("BB") /\ A!BB(Ev.n, Ev.m)
         \/ Is("BE") /\ A!BE(Ev.n, Ev.m)
         \/ Is("DecB") /\ A!DecB(Ev.n, IF "k" \in DOMAIN Ev THEN Ev.k ELSE 1)
         \/ Is("TupQ") /\ A!TupQ(Ev.n, Ev.a, Ev.b, Ev.x, Ev.y)
         \/ Is("TupK") /\ A!TupK(Ev.n, Ev.a, Ev.b, Ev.x, Ev.y)
         \/ Is("Rsv") /\ A!Reserve(Ev.n, Ev.m, Ev.ok)
         \/ Is("Rel") /\ A!Release(Ev.n, Ev.m)
         \/ Is("Con") /\ A!Consume(Ev.n, Ev.m)
         \/ Is("Get") /\ A!Get(Ev.n, Ev.m)
         \/ Is("Drained") /\ A!Drained(Ev.n, Ev.cnt)
         \/ Is("Dlv") /\ A!Deliver(Ev.sc, Ev.v)
         \/ Is("OwCheck") /\ A!OwCheck(Ev.n, Ev.sc)
         \/ Is("Cancel") /\ A!Cancel
         \/ Is("Uncancel") /\ A!ResetCancel
         \/ Is("WaitRet") /\ A!WaitRet(Ev.live, Ev.lossless)
         \/ Is("Tuples") /\ A!TuplesOK(Ev.n, Ev.a, Ev.b, Ev.cnt)
         \/ Is("Scenario") /\ UNCHANGED <<kind, conc, preds, ext, pend, putseq, begun, done, run, putdone, before, nextseq, decs, thr, seqno, key, tuples, cancelled, snap, rsv, consumed, recv>>
         \/ Is("Reset") /\ kind' = [n \in Nodes |-> "none"] /\ conc' = [n \in Nodes |-> 0] /\ preds' = [n \in Nodes |-> {}] /\ ext' = [n \in Nodes |-> {}] /\ pend' = [n \in Nodes |-> {}] /\ putseq' = [n \in Nodes |-> <<>>]
                        /\ begun' = [n \in Nodes |-> {}] /\ done' = [n \in Nodes |-> {}] /\ run' = [n \in Nodes |-> {}] /\ putdone' = [n \in Nodes |-> <<>>]
                        /\ before' = [m \in Msgs |-> {}] /\ nextseq' = [n \in Nodes |-> 0] /\ decs' = [n \in Nodes |-> 0] /\ thr' = [n \in Nodes |-> 0]
                        /\ seqno' = [m \in Msgs |-> -1] /\ key' = [m \in Msgs |-> 0] /\ tuples' = [n \in Nodes |-> 0] /\ cancelled' = FALSE
                        /\ snap' = [n \in Nodes |-> {}] /\ rsv' = [n \in Nodes |-> 0] /\ consumed' = [n \in Nodes |-> {}] /\ recv' = [n \in Nodes |-> <<>>]
TraceSpec == TInit /\ [][TNext]_vars
NotAccepted == l <= Len(TraceLog)
=============================================================================
