---- MODULE Limiter ----
\* flow::limiter_node (flow_graph.h:2140-2410): my_threshold/my_count/my_tries/my_future_decrement under my_mutex,
\* predecessor = a queue_node that supports reserve/consume/release, successor = a sink that accepts everything and
\* later sends decrement messages (one slot each, or up to MaxDelta slots at once through an integral decrementer). Each critical section is one action; forward_task spans three sections.
EXTENDS Integers, Sequences, FiniteSets, TLC
CONSTANTS Threshold, NMsgs, Fwd,    \* Fwd: set of concurrent forwarder ids (graph tasks running forward_task)
          MaxDelta                  \* an integral decrementer may give back up to MaxDelta slots in one message (continue_msg: 1)
VARIABLES count, tries, future, q, qreserved, inflight, delivered, decremented, pendingDec, fpc, fval, fres, puts
vars == <<count, tries, future, q, qreserved, inflight, delivered, decremented, pendingDec, fpc, fval, fres, puts>>
Init == /\ count = 0 /\ tries = 0 /\ future = 0
        /\ q = <<>> /\ qreserved = FALSE          \* predecessor queue_node buffer and its single reservation
        /\ inflight = 0                          \* messages accepted by the successor but not yet counted (between try_put_task and ++my_count)
        /\ delivered = <<>> /\ decremented = 0 /\ pendingDec = 0
        /\ fpc = [f \in Fwd |-> "idle"] /\ fval = [f \in Fwd |-> 0] /\ fres = [f \in Fwd |-> FALSE] /\ puts = 0
\* external producer puts a message into the queue_node; a forward task gets spawned (abstracted: any idle forwarder may start)
Put == /\ puts < NMsgs /\ puts' = puts + 1 /\ q' = Append(q, puts + 1)
       /\ UNCHANGED <<count, tries, future, qreserved, inflight, delivered, decremented, pendingDec, fpc, fval, fres>>
Check == count + tries < Threshold /\ (Len(q) > 0)        \* check_conditions(): predecessor and successor present
\* forward_task section 1: if check_conditions() ++tries else return
F1(f) == /\ fpc[f] = "idle"
         /\ IF count + tries < Threshold /\ (Len(q) > 0 \/ qreserved)
            THEN tries' = tries + 1 /\ fpc' = [fpc EXCEPT ![f] = "reserve"]
            ELSE UNCHANGED <<tries, fpc>>
         /\ UNCHANGED <<count, future, q, qreserved, inflight, delivered, decremented, pendingDec, fval, fres, puts>>
\* try_reserve on the predecessor (queue_node: only the front item, only if not already reserved)
F2(f) == /\ fpc[f] = "reserve"
         /\ IF Len(q) > 0 /\ ~qreserved
            THEN qreserved' = TRUE /\ fval' = [fval EXCEPT ![f] = Head(q)] /\ fres' = [fres EXCEPT ![f] = TRUE] /\ fpc' = [fpc EXCEPT ![f] = "put"]
            ELSE fres' = [fres EXCEPT ![f] = FALSE] /\ fpc' = [fpc EXCEPT ![f] = "fail"] /\ UNCHANGED <<qreserved, fval>>
         /\ UNCHANGED <<count, tries, future, q, inflight, delivered, decremented, pendingDec, puts>>
\* try_put_task to successors (always accepted here): the successor may already send its decrement before we count
F3(f) == /\ fpc[f] = "put"
         /\ delivered' = Append(delivered, fval[f]) /\ inflight' = inflight + 1 /\ pendingDec' = pendingDec + 1
         /\ fpc' = [fpc EXCEPT ![f] = "count"]
         /\ UNCHANGED <<count, tries, future, q, qreserved, decremented, fval, fres, puts>>
\* success section: ++count, apply future decrements, --tries, consume the reservation
F4(f) == /\ fpc[f] = "count"
         /\ LET c1 == count + 1
                c2 == IF future > 0 THEN (IF c1 > future THEN c1 - future ELSE 0) ELSE c1
                fu2 == IF future > 0 THEN (IF c1 > future THEN 0 ELSE future - c1) ELSE 0
            IN count' = c2 /\ future' = fu2
         /\ tries' = tries - 1 /\ inflight' = inflight - 1
         /\ q' = Tail(q) /\ qreserved' = FALSE
         /\ fpc' = [fpc EXCEPT ![f] = "idle"] /\ fres' = [fres EXCEPT ![f] = FALSE]
         /\ UNCHANGED <<delivered, decremented, pendingDec, fval, puts>>
\* failure section: --tries, release reservation if any
F5(f) == /\ fpc[f] = "fail"
         /\ tries' = tries - 1 /\ fpc' = [fpc EXCEPT ![f] = "idle"]
         /\ UNCHANGED <<count, future, q, qreserved, inflight, delivered, decremented, pendingDec, fval, fres, puts>>
\* the successor (or anyone) sends decrement(d) for d messages it has received: decrement_counter(d).  A delta above the threshold is clamped; a delta above
\* my_count zeroes the counter and books the rest against the puts that are still in flight (my_future_decrement), if there are any
Min(a, b) == IF a < b THEN a ELSE b
Dec == \E d \in 1..MaxDelta :
       /\ pendingDec >= d /\ pendingDec' = pendingDec - d /\ decremented' = decremented + d
       /\ LET dd == Min(d, Threshold) IN
          IF dd > count
          THEN /\ future' = IF tries > 0 THEN future + (dd - count) ELSE future
               /\ count' = 0
          ELSE count' = count - dd /\ UNCHANGED future
       /\ UNCHANGED <<tries, q, qreserved, inflight, delivered, fpc, fval, fres, puts>>
Next == Put \/ Dec \/ \E f \in Fwd : F1(f) \/ F2(f) \/ F3(f) \/ F4(f) \/ F5(f)
Spec == Init /\ [][Next]_vars
\* property C15: un-decremented forwarded messages never exceed the threshold
Outstanding == Len(delivered) - decremented
ThresholdHolds == Outstanding <= Threshold
CountSane == count >= 0 /\ count <= Threshold /\ tries >= 0 /\ future >= 0
NoDupDelivery == \A a, b \in 1..Len(delivered) : a # b => delivered[a] # delivered[b]
FifoDelivery == \A a \in 1..Len(delivered) : delivered[a] = a
\* bookkeeping exactness at quiescence: count equals outstanding when nothing is in flight
Exact == (tries = 0 /\ inflight = 0) => (count + future >= 0 /\ count - future <= Outstanding)
====
