SPECIFICATION Spec
CONSTANT Threshold = 1
CONSTANT NMsgs = 3
CONSTANT MaxDelta = 1
CONSTANT Fwd = {"f1","f2"}
INVARIANT ThresholdHolds
INVARIANT CountSane
INVARIANT NoDupDelivery
INVARIANT FifoDelivery
CHECK_DEADLOCK FALSE
