-------------------------------- MODULE ItemBuffer --------------------------------
(* Function-level specification of flow::item_buffer / reservable_item_buffer (detail/_flow_graph_item_buffer_impl.h) and of the   *)
(* sequencer's placement (flow_graph.h: sequencer_node::internal_push): a power-of-two ring addressed by absolute positions         *)
(* my_head .. my_tail, a per-slot state (no_item / has_item / reserved_item), growth by doubling until the needed size fits, with    *)
(* re-placement of every valid slot at its position modulo the new size.  One action per operation (all operations of the real       *)
(* class run inside the node's aggregator, i.e. sequentially); TLC enumerates every operation sequence up to MaxOps and checks that   *)
(* the ring always represents the abstract contents: nothing lost or duplicated by wrap-around or growth, FIFO at the front, the      *)
(* reserved item stays where it is, a sequencer slot is filled at most once and tags below head are refused.                           *)
(* Every transition of this graph is replayed on the real class (one implementation test per transition), comparing head, tail,        *)
(* capacity and every slot.                                                                                                          *)
EXTENDS Integers, Sequences, FiniteSets, TLC
CONSTANTS MaxOps, MaxTag, InitCap
VARIABLES head, tail, cap, slot,   \* slot: ring index 0..cap-1 -> <<state, item>>, state in {"no", "has", "res"}
          reserved, nops, next,    \* reserved flag of the reservable front end; number of operations so far; next item value to push
          lastop, lastres          \* ghost: the operation just performed and its result (labels of the replay schedule)
vars == <<head, tail, cap, slot, reserved, nops, next, lastop, lastres>>
Empty == <<"no", 0>>
Ring(c) == [i \in 0..c-1 |-> Empty]
Init == head = 0 /\ tail = 0 /\ cap = InitCap /\ slot = Ring(InitCap) /\ reserved = FALSE /\ nops = 0 /\ next = 1 /\ lastop = "init" /\ lastres = 0
El(i) == slot[i % cap]
Valid(i) == i < tail /\ i >= head /\ El(i)[1] # "no"
\* grow_my_array(min): double until >= min, re-place the valid slots of head..tail-1
NewCap(min) == LET F[c \in 1..1024] == IF c >= min THEN c ELSE F[2 * c] IN F[2 * cap]
Grown(min) == LET nc == NewCap(min) IN
              [i \in 0..nc-1 |-> LET srcs == {p \in head..tail-1 : p % nc = i /\ Valid(p)} IN IF srcs = {} THEN Empty ELSE El(CHOOSE p \in srcs : TRUE)]
Step(op, r) == nops < MaxOps /\ nops' = nops + 1 /\ lastop' = op /\ lastres' = r
\* push_back(v)
PushBack == /\ Step("push", next) /\ next' = next + 1 /\ UNCHANGED <<head, reserved>>
            /\ IF tail - head >= cap
                  THEN /\ cap' = NewCap(tail - head + 1)
                       /\ slot' = [Grown(tail - head + 1) EXCEPT ![tail % NewCap(tail - head + 1)] = <<"has", next>>]
                  ELSE /\ cap' = cap /\ slot' = [slot EXCEPT ![tail % cap] = <<"has", next>>]
            /\ tail' = tail + 1
\* pop_front(v): false if the head slot is not valid (a reserved head IS valid: the reservable front end must not be popped while reserved)
PopFront == /\ ~reserved
            /\ IF Valid(head) THEN /\ Step("popf", El(head)[2]) /\ slot' = [slot EXCEPT ![head % cap] = Empty] /\ head' = head + 1
                              ELSE /\ Step("popf", 0) /\ UNCHANGED <<slot, head>>
            /\ UNCHANGED <<tail, cap, reserved, next>>
PopBack == /\ (reserved => tail - 1 # head)
           /\ IF Valid(tail - 1) THEN /\ Step("popb", El(tail - 1)[2]) /\ slot' = [slot EXCEPT ![(tail - 1) % cap] = Empty] /\ tail' = tail - 1
                                 ELSE /\ Step("popb", 0) /\ UNCHANGED <<slot, tail>>
           /\ UNCHANGED <<head, cap, reserved, next>>
ReserveFront == /\ IF ~reserved /\ Valid(head) THEN /\ Step("rsv", El(head)[2]) /\ reserved' = TRUE /\ slot' = [slot EXCEPT ![head % cap] = <<"res", El(head)[2]>>]
                                               ELSE /\ Step("rsv", 0) /\ UNCHANGED <<reserved, slot>>
                /\ UNCHANGED <<head, tail, cap, next>>
ReleaseFront == /\ reserved /\ Step("rel", 0) /\ reserved' = FALSE /\ slot' = [slot EXCEPT ![head % cap] = <<"has", El(head)[2]>>] /\ UNCHANGED <<head, tail, cap, next>>
ConsumeFront == /\ reserved /\ Step("con", El(head)[2]) /\ reserved' = FALSE /\ slot' = [slot EXCEPT ![head % cap] = Empty] /\ head' = head + 1 /\ UNCHANGED <<tail, cap, next>>
\* sequencer placement of an item with sequence number tag (the item value is 100 + tag)
Place(tag) == /\ ~reserved
              /\ IF tag < head THEN /\ Step("place", -1 - tag) /\ UNCHANGED <<tail, cap, slot>>
                 ELSE LET nt == IF tag + 1 > tail THEN tag + 1 ELSE tail
                          grow == nt - head > cap
                          c2 == IF grow THEN NewCap(nt - head) ELSE cap
                          s2 == IF grow THEN Grown(nt - head) ELSE slot
                      IN /\ cap' = c2 /\ tail' = nt
                         /\ IF tag < tail /\ tag >= head /\ El(tag)[1] # "no"
                               THEN /\ Step("place", -1 - tag) /\ slot' = s2                              \* slot already filled: refused
                               ELSE /\ Step("place", tag) /\ slot' = [s2 EXCEPT ![tag % c2] = <<"has", 100 + tag>>]
              /\ UNCHANGED <<head, reserved, next>>
Next == PushBack \/ PopFront \/ PopBack \/ ReserveFront \/ ReleaseFront \/ ConsumeFront
NextSeq == (\E tag \in 0..MaxTag : Place(tag)) \/ PopFront
Spec == Init /\ [][Next]_vars
SpecSeq == Init /\ [][NextSeq]_vars
\* ---- properties
Contents == [p \in head..tail-1 |-> El(p)]
TypeOK == /\ head <= tail /\ tail - head <= cap /\ cap \in {1, 2, 4, 8, 16, 32, 64}
NoAlias == \A p, q \in head..tail-1 : (p # q /\ Valid(p) /\ Valid(q)) => p % cap # q % cap              \* two live positions never share a ring cell
OutsideEmpty == \A i \in 0..cap-1 : (\A p \in head..tail-1 : p % cap # i) => slot[i] = Empty            \* cells outside head..tail hold nothing
QueueOrder == \A p, q \in head..tail-1 : (p < q /\ Valid(p) /\ Valid(q) /\ El(p)[2] < 100 /\ El(q)[2] < 100) => El(p)[2] < El(q)[2]   \* pushed items stay in push order
ReservedIsHead == reserved => (Valid(head) /\ El(head)[1] = "res")
OnlyHeadReserved == \A p \in head..tail-1 : El(p)[1] = "res" => (p = head /\ reserved)
SeqSlot == \A p \in head..tail-1 : (Valid(p) /\ El(p)[2] >= 100) => El(p)[2] = 100 + p               \* a sequencer item sits at the position of its tag
=============================================================================
