SPECIFICATION Spec
CONSTANT Threshold = 2
CONSTANT NMsgs = 4
CONSTANT MaxDelta = 1
CONSTANT Fwd = {"f1","f2","f3"}
INVARIANT ThresholdHolds
INVARIANT CountSane
INVARIANT NoDupDelivery
INVARIANT FifoDelivery
CHECK_DEADLOCK FALSE
