------------------------------- MODULE TraceBuf -------------------------------
(* Events: Path (a new buffer) | Op op res got ok | Reset.   `got` = what the real item_buffer returned.                      *)
EXTENDS Integers, Sequences, TLC, Json, IOUtils
TraceLog == ndJsonDeserialize(IOEnv.TRACE)
VARIABLES q, base, resv, l
B == INSTANCE BufAbs
vars == <<q, base, resv, l>>
Ev == TraceLog[l]
Is(e) == l <= Len(TraceLog) /\ TraceLog[l].e = e /\ l' = l + 1
TInit == B!BInit /\ l = 1
OpIs(o) == Is("Op") /\ Ev.op = o
TNext == \/ (Is("Path") \/ Is("Reset")) /\ q' = <<>> /\ base' = 0 /\ resv' = FALSE
         \/ OpIs("push") /\ B!Push(Ev.got)
         \/ OpIs("popf") /\ B!PopF(Ev.got)
         \/ OpIs("popb") /\ B!PopB(Ev.got)
         \/ OpIs("rsv") /\ B!Rsv(Ev.got)
         \/ OpIs("rel") /\ B!Rel
         \/ OpIs("con") /\ B!Con(Ev.got)
         \/ OpIs("place") /\ B!Place(IF Ev.res >= 0 THEN Ev.res ELSE -1 - Ev.res, Ev.got)
TraceSpec == TInit /\ [][TNext]_vars
NotAccepted == l <= Len(TraceLog)
=============================================================================
