SPECIFICATION Spec
CONSTANT Threshold = 2
CONSTANT NMsgs = 6
CONSTANT MaxDelta = 2
CONSTANT Fwd = {"f1","f2"}
INVARIANT ThresholdHolds
INVARIANT CountSane
INVARIANT NoDupDelivery
INVARIANT FifoDelivery
CHECK_DEADLOCK FALSE
