SPECIFICATION Spec
CONSTANT Threshold = 3
CONSTANT NMsgs = 7
CONSTANT MaxDelta = 3
CONSTANT Fwd = {"f1","f2"}
INVARIANT ThresholdHolds
INVARIANT CountSane
INVARIANT NoDupDelivery
INVARIANT FifoDelivery
CHECK_DEADLOCK FALSE
