// C02 harness: blocking library calls on logical threads under seeded random / PCT cooperative schedules at atomic-access granularity, with
// total futex emulation and a stuck detector ("nothing can run any more").  Events Prod/Inv/Res/Enq/Begin/Stuck/Quiesce are validated by TLC
// against WakeAbs (TraceWake.tla): a Stuck state in which some blocked thread's condition is satisfied, or an enqueued unit is pending, is a
// lost wake-up.
//   h_wake <trace> <scenario> <nseeds> <seed0> <tso:0|1>
// scenarios: mon_all mon_one mon_pred mon_abort | bq | mtx rwm | tgwait exec1 suspF
#include "oneapi/tbb/concurrent_queue.h"
#include "oneapi/tbb/mutex.h"
#include "oneapi/tbb/rw_mutex.h"
#include "oneapi/tbb/task_group.h"
#include "oneapi/tbb/task_arena.h"
#include "oneapi/tbb/task.h"
#include "tbb/concurrent_monitor.h"
#include "oneapi/tbb/global_control.h"
#include "sched_common.h"
#include <sys/mman.h>
VS_DEFINE_GLOBALS
using namespace vs;
namespace r1 = tbb::detail::r1;
static const int BIG = 100;
static void prod(int r, int n) { TR.emit("{\"e\":\"Prod\",\"r\":%d,\"n\":%d}", r, n); }
static void inv(int t, int r, int need) { TR.emit("{\"e\":\"Inv\",\"t\":%d,\"r\":%d,\"need\":%d}", t, r, need); }
static void res(int t, int r, int c) { TR.emit("{\"e\":\"Res\",\"t\":%d,\"r\":%d,\"c\":%d}", t, r, c); }

static void hold_until_blocked_fwd(int w);
struct Scen { int n; std::function<void()> setup; std::function<void(int)> body; std::function<void()> teardown; };

// ---------------------------------------------------------------- raw concurrent_monitor
static r1::concurrent_monitor* MON; static std::atomic<int> g_flag[8]; static std::atomic<int> g_tokens;
static Scen mon_all(int ns, int nn) {       // notifiers: flag := 1 (relaxed); notify_all.   sleepers: wait until flag
    return {ns + nn, [] { MON = new r1::concurrent_monitor; vh::rawstore(g_flag[0], 0); track(&MON->my_epoch); track(&g_flag[0]); },
        [ns](int id) {
            if (id < ns) { inv(id, 1, 1); while (!g_flag[0].load(std::memory_order_relaxed)) MON->wait([&] { return g_flag[0].load(std::memory_order_relaxed) != 0; }, r1::concurrent_monitor::thread_context(std::uintptr_t(id))); res(id, 1, 0); }
            else { prod(1, 1); g_flag[0].store(1, std::memory_order_relaxed); MON->notify_all(); }
        }, [] { delete MON; }};
}
static Scen mon_one(int ns) {               // ns notifiers each add a token and notify_one; ns sleepers each take one token
    return {2 * ns, [] { MON = new r1::concurrent_monitor; vh::rawstore(g_tokens, 0); track(&MON->my_epoch); track(&g_tokens); },
        [ns](int id) {
            if (id < ns) { inv(id, 1, 1);
                for (;;) { int v = g_tokens.load(std::memory_order_relaxed); if (v > 0) { if (g_tokens.compare_exchange_strong(v, v - 1)) break; else continue; }
                    MON->wait([&] { return g_tokens.load(std::memory_order_relaxed) > 0; }, r1::concurrent_monitor::thread_context(std::uintptr_t(id))); }
                res(id, 1, 1); }
            else { prod(1, 1); g_tokens.fetch_add(1, std::memory_order_relaxed); MON->notify_one(); }
        }, [] { delete MON; }};
}
static Scen mon_pred(int ns) {              // ticket-style: notifier i sets flag[i] and notifies the waiters whose context is i (bounded-queue pattern)
    return {2 * ns, [ns] { MON = new r1::concurrent_monitor; for (int i = 0; i < ns; i++) vh::rawstore(g_flag[i], 0); track(&MON->my_epoch); },
        [ns](int id) {
            if (id < ns) { inv(id, 1 + id, 1); while (!g_flag[id].load(std::memory_order_relaxed)) MON->wait([&] { return g_flag[id].load(std::memory_order_relaxed) != 0; }, r1::concurrent_monitor::thread_context(std::uintptr_t(id))); res(id, 1 + id, 0); }
            else { int i = id - ns; prod(1 + i, 1); g_flag[i].store(1, std::memory_order_relaxed); MON->notify([i](std::uintptr_t c) { return c == std::uintptr_t(i); }); }
        }, [] { delete MON; }};
}
static Scen mon_abort(int ns) {             // sleepers wait for something that never happens; abort_all must wake every thread that is asleep when it is called
    return {ns + 1, [] { MON = new r1::concurrent_monitor; track(&MON->my_epoch); },
        [ns](int id) {
            if (id < ns) { inv(id, 1, 1); try { MON->wait([] { return false; }, r1::concurrent_monitor::thread_context(std::uintptr_t(id))); } catch (tbb::user_abort&) {} res(id, 1, 0); }
            else { while (cosched::num_blocked() < ns) cosched::yield_point(); prod(1, 1); MON->abort_all(); }
        }, [] { delete MON; }};
}
// ---------------------------------------------------------------- concurrent_bounded_queue: resource 1 = items, 2 = free places
static tbb::concurrent_bounded_queue<int>* BQ;
static Scen bq(int cap, int np, int nc, int per) {   // np pushers x per items, nc poppers; np*per must equal the number of pops
    return {np + nc, [cap] { BQ = new tbb::concurrent_bounded_queue<int>; BQ->set_capacity(cap); prod(2, cap); },
        [np, nc, per](int id) {
            if (id < np) for (int k = 0; k < per; k++) { inv(id, 2, 1); BQ->push(id * 10 + k); res(id, 2, 1); prod(1, 1); }
            else { int pops = np * per / nc; for (int k = 0; k < pops; k++) { int v; inv(id, 1, 1); BQ->pop(v); res(id, 1, 1); prod(2, 1); } }
        }, [] { delete BQ; }};
}
// ---------------------------------------------------------------- tbb::mutex / tbb::rw_mutex: resource 1 = the lock (rw: BIG units, a writer needs all)
static tbb::mutex* MX; static tbb::rw_mutex* RW;
static Scen mtx(int n) {
    return {n, [] { MX = new tbb::mutex; prod(1, 1); track(MX); },
        [](int id) { for (int k = 0; k < 2; k++) { inv(id, 1, 1); MX->lock(); res(id, 1, 1); cosched::yield_point(); prod(1, 1); MX->unlock(); } }, [] { delete MX; }};
}
// two sync objects whose addresses fall into the SAME wait list of the address-waiter table (sleepers of different mutexes share a list; the wake-up of
// unlock() must go to a sleeper of THIS mutex): thread 0 holds both, threads 1 and 2 fall asleep on one each (in either order), then M2 is released first
static tbb::mutex* MA; static tbb::mutex* MB; static tbb::rw_mutex* RB;
static std::size_t aw_bucket(void* a) { std::uintptr_t t = std::uintptr_t(a); return ((t >> 5) ^ t) % 2048; }     // = r1::get_address_waiter (if the formula changes the objects merely stop colliding)
static Scen mtx2(int variant) {       // variant bit 0: which sleeper is older in the list; bit 1: the second object is an rw_mutex (a writer sleeps on it)
    return {3, [variant] { static tbb::mutex pool[8192]; static tbb::rw_mutex rpool[4096]; MA = &pool[0]; MB = nullptr; RB = nullptr;
            if (variant & 2) { for (int j = 0; j < 4096 && !RB; j++) if (aw_bucket(&rpool[j]) == aw_bucket(MA)) RB = &rpool[j]; }
            else for (int j = 1; j < 8192 && !MB; j++) if (aw_bucket(&pool[j]) == aw_bucket(MA)) MB = &pool[j];
            if (!MB && !RB) { MB = &pool[1]; } vh::rawstore(g_flag[0], 0); vh::rawstore(g_flag[1], 0); prod(1, 1); prod(2, 1); },
        [variant](int id) {
            auto lockB = [] { if (RB) RB->lock(); else MB->lock(); }; auto unlockB = [] { if (RB) RB->unlock(); else MB->unlock(); };
            if (id == 0) { inv(0, 1, 1); MA->lock(); res(0, 1, 1); inv(0, 2, 1); lockB(); res(0, 2, 1); g_flag[0].store(1);
                hold_until_blocked_fwd(1); hold_until_blocked_fwd(2); prod(2, 1); unlockB();
                while (!g_flag[1].load()) cosched::yield_point();          // M1 stays locked until thread 2 is through: no other unlock may rescue a misdirected wake-up
                prod(1, 1); MA->unlock(); }
            else { while (!g_flag[0].load()) cosched::yield_point();
                int first = (variant & 1) ? 2 : 1; if (id != first) hold_until_blocked_fwd(first);
                if (id == 1) { inv(1, 1, 1); MA->lock(); res(1, 1, 1); prod(1, 1); MA->unlock(); }
                else { inv(2, 2, 1); lockB(); res(2, 2, 1); prod(2, 1); unlockB(); g_flag[1].store(1); } }
        }, [] {}};
}
static Scen rwm(int variant) {
    return {3, [] { RW = new tbb::rw_mutex; prod(1, BIG); track(RW); },
        [variant](int id) {
            if (id == 0) { inv(id, 1, BIG); RW->lock(); res(id, 1, BIG); cosched::yield_point(); prod(1, BIG); RW->unlock(); inv(id, 1, 1); RW->lock_shared(); res(id, 1, 1); prod(1, 1); RW->unlock_shared(); }
            else if (id == 1 || variant == 0) { inv(id, 1, 1); RW->lock_shared(); res(id, 1, 1); cosched::yield_point(); prod(1, 1); RW->unlock_shared(); inv(id, 1, BIG); RW->lock(); res(id, 1, BIG); prod(1, BIG); RW->unlock(); }
            else { tbb::rw_mutex::scoped_lock l; inv(id, 1, 1); l.acquire(*RW, false); res(id, 1, 1); inv(id, 1, BIG - 1); l.upgrade_to_writer(); res(id, 1, BIG - 1); inv(id, 1, 0); l.downgrade_to_reader(); res(id, 1, -(BIG - 1)); prod(1, 1); l.release(); }
        }, [] { delete RW; }};
}
// ---------------------------------------------------------------- scheduler waits
static tbb::task_arena* AR; static std::atomic<void*> g_sp;
// hold: a task body may wait (at harness level) until the cooperative scheduler reports that thread `w` is asleep in a futex - this is how the
// sleeping paths of the scheduler waits are entered on purpose (the waiters spin for thousands of steps before they sleep).  Bounded: gives up
// after `lim` yields so that a waiter that legitimately never sleeps cannot stall the scenario.
static void hold_until_blocked(int w, long lim = 200000) { for (long i = 0; i < lim && !cosched::is_blocked(w) && !cosched::is_done(w); i++) cosched::yield_point(); }
static void hold_until_blocked_fwd(int w) { hold_until_blocked(w); }
static tbb::task_group* TG0; static tbb::task_handle* TH0;
static Scen tgwait(int n, int ntasks, bool hold) {      // every arena thread waits for its own group; thread 0's group also holds a deferred task that thread 1
    return {n, [n] { AR = new tbb::task_arena(n, n); AR->initialize(); TG0 = nullptr; TH0 = nullptr; },     // submits - with hold only once thread 0 is asleep
        [ntasks, hold](int id) {
            AR->execute([&] {
                tbb::task_group tg; int r = 1 + id;
                if (id == 0) { TH0 = new tbb::task_handle(tg.defer([r] { prod(r, 1); })); TG0 = &tg; }
                for (int k = 0; k < ntasks; k++) tg.run([r] { cosched::yield_point(); prod(r, 1); });
                if (id == 1) { while (!TG0) cosched::yield_point(); if (hold) hold_until_blocked(0); TG0->run(std::move(*TH0)); }
                inv(id, r, ntasks + (id == 0 ? 1 : 0)); tg.wait(); res(id, r, 0);
            });
        }, [] { delete AR; delete TH0; }};
}
static Scen exec1(int n, bool hold) {        // task_arena(1,1) (two slots internally), n >= 3 external threads call execute: those that find no slot delegate their functor and sleep until it ran
    return {n, [] { AR = new tbb::task_arena(1, 1); AR->initialize(); },
        [n, hold](int id) { for (int k = 0; k < 2; k++) { int u = 1 + id * 2 + k; TR.emit("{\"e\":\"Enq\",\"u\":%d}", u); inv(id, 1 + id, 1);
            AR->execute([&] { TR.emit("{\"e\":\"Begin\",\"u\":%d}", u); if (hold && k == 0) hold_until_blocked((cosched::self_id() + 1) % n, 60000); else cosched::yield_point(); prod(1 + id, 1); }); res(id, 1 + id, 1); } }, [] { delete AR; }};
}
// the delegated functor of a caller that found no slot is executed by a thread that STAYS inside the arena (it waits there for something else): only the
// notification in delegated_task::finalize can wake the caller - no thread leaves the arena, so no exit notification ever comes (ExecSlot.tla, Stayers)
static tbb::detail::d1::wait_context* SWC[2]; static tbb::task_group_context* SCTX[2];
static Scen execstay(int callers) {
    return {2 + callers, [] { AR = new tbb::task_arena(2, 2); AR->initialize(); vh::rawstore(g_flag[0], 0); vh::rawstore(g_flag[1], 0);
            for (int i = 0; i < 2; i++) { SWC[i] = new tbb::detail::d1::wait_context(1); SCTX[i] = new tbb::task_group_context(tbb::task_group_context::isolated); } },
        [callers](int id) {
            if (id < 2) { AR->execute([&] { g_flag[0].fetch_add(1); tbb::detail::d1::wait(*SWC[id], *SCTX[id]); }); return; }
            while (g_flag[0].load() < 2) cosched::yield_point();
            int u = id; TR.emit("{\"e\":\"Enq\",\"u\":%d}", u); inv(id, 1 + id, 1);
            AR->execute([&] { TR.emit("{\"e\":\"Begin\",\"u\":%d}", u); cosched::yield_point(); prod(1 + id, 1); }); res(id, 1 + id, 1);
            if (g_flag[1].fetch_add(1) + 1 == callers) { SWC[0]->release(); SWC[1]->release(); }
        }, [] { delete AR; for (int i = 0; i < 2; i++) { delete SWC[i]; delete SCTX[i]; } }};
}
// the wake-up that a leaving thread sends with notify_one can reach a caller that no longer needs it (its functor was already run by a thread inside): that
// caller must pass it on, or another caller sleeps beside a free slot (ExecSlot.tla, BATON).  Thread 0 dispatches inside (and runs the delegated functor of
// thread 2), thread 1 merely holds the second slot; the controller (4) lets thread 0 leave once thread 2's functor has run and thread 3 is asleep.
static Scen execbaton() {
    return {5, [] { AR = new tbb::task_arena(2, 2); AR->initialize(); for (int i = 0; i < 4; i++) vh::rawstore(g_flag[i], 0);
            SWC[0] = new tbb::detail::d1::wait_context(1); SCTX[0] = new tbb::task_group_context(tbb::task_group_context::isolated); },
        [](int id) {
            if (id == 0) { AR->execute([&] { g_flag[0].fetch_add(1); tbb::detail::d1::wait(*SWC[0], *SCTX[0]); }); return; }
            if (id == 1) { AR->execute([&] { g_flag[0].fetch_add(1); while (!g_flag[2].load()) cosched::yield_point(); }); return; }
            if (id == 4) { while (!g_flag[1].load()) cosched::yield_point(); hold_until_blocked(3, 60000); SWC[0]->release(); return; }
            while (g_flag[0].load() < 2) cosched::yield_point();
            if (id == 3) while (!g_flag[1].load()) cosched::yield_point();              // thread 3 arrives after thread 2's functor has run: nobody inside will run its own
            int u = id; TR.emit("{\"e\":\"Enq\",\"u\":%d}", u); inv(id, 1 + id, 1);
            AR->execute([&] { TR.emit("{\"e\":\"Begin\",\"u\":%d}", u); prod(1 + id, 1); if (id == 2) g_flag[1].store(1); }); res(id, 1 + id, 1);
            if (id == 3) g_flag[2].store(1);
        }, [] { delete AR; delete SWC[0]; delete SCTX[0]; }};
}
static Scen exec2(int n, bool hold) {        // task_arena(2,2): no worker can ever enter (no mandatory concurrency with two reserved slots), so a caller that found no slot gets in only
    return {n, [] { AR = new tbb::task_arena(2, 2); AR->initialize(); },     // through the exit notification of a leaving thread (or the baton of another caller)
        [n, hold](int id) { for (int k = 0; k < 2; k++) { int u = 1 + id * 2 + k; TR.emit("{\"e\":\"Enq\",\"u\":%d}", u); inv(id, 1 + id, 1);
            AR->execute([&] { TR.emit("{\"e\":\"Begin\",\"u\":%d}", u); if (hold && k == 0) { for (int j = 1; j < n; j++) hold_until_blocked((cosched::self_id() + j) % n, 20000); } else cosched::yield_point(); prod(1 + id, 1); }); res(id, 1 + id, 1); } }, [] { delete AR; }};
}
static Scen suspF(int n, bool hold) {        // a task suspends itself inside an arena of n slots; a foreign thread resumes it; thread 0 waits for the group
    return {n + 1, [n] { AR = new tbb::task_arena(n, n); AR->initialize(); vh::rawstore(g_sp, (void*)nullptr); },
        [n, hold](int id) {
            if (id == n) { void* p; while (!(p = g_sp.load())) cosched::yield_point(); if (hold) hold_until_blocked(0); prod(1, 1); tbb::task::resume((tbb::task::suspend_point)p); return; }
            AR->execute([&] {
                if (id == 0) { tbb::task_group tg;
                    tg.run([] { tbb::task::suspend([](tbb::task::suspend_point sp) { g_sp.store(sp); }); prod(2, 1); });
                    tg.run([] { prod(2, 1); });
                    inv(0, 2, 2); tg.wait(); res(0, 2, 0); }
            });
        }, [] { delete AR; }};
}

// ---------------------------------------------------------------- enqueue: the tasks must run although nobody ever waits in the arena (RML workers are logical threads)
static int g_ran[16]; static tbb::global_control* GC; static tbb::task_arena* AR2;
static Scen enq(int conc, int reserved, int ntasks, int limit, bool two, bool hold = false) {   // limit > 0: global_control max_allowed_parallelism (1 = zero workers: mandatory concurrency)
    return {two ? 2 : 1, [=] { memset(g_ran, 0, sizeof g_ran); GC = limit ? new tbb::global_control(tbb::global_control::max_allowed_parallelism, limit) : nullptr;
                   AR = new tbb::task_arena(conc, reserved); AR2 = two ? new tbb::task_arena(2, 0) : nullptr;
                   // focus of the priority schedules: the 'arena may contain work' / 'mandatory worker' flags and the demand aggregator word
                   AR->initialize(); track(&AR->my_arena.load()->my_pool_state); track(&AR->my_arena.load()->my_mandatory_concurrency); },
        [ntasks, hold](int id) {
            tbb::task_arena* a = id == 0 ? AR : AR2;
            for (int k = 0; k < ntasks; k++) { int u = 1 + id * 8 + k;
                // hold: the next task is enqueued only once every worker has gone back to sleep (the arena has no workers at that moment)
                if (hold && k > 0) { while (!__atomic_load_n(&g_ran[u - 1], __ATOMIC_SEQ_CST)) cosched::yield_point(); for (long i = 0; i < 300000 && !cosched::daemons_asleep(); i++) cosched::yield_point(); } TR.emit("{\"e\":\"Enq\",\"u\":%d}", u); a->enqueue([u] { TR.emit("{\"e\":\"Begin\",\"u\":%d}", u); g_ran[u] = 1; }); }
            // the submitting thread never calls a waiting function of the library: it only watches (harness-level yield points make no progress by themselves)
            for (int k = 0; k < ntasks; k++) { int u = 1 + id * 8 + k; while (!__atomic_load_n(&g_ran[u], __ATOMIC_SEQ_CST)) cosched::yield_point(); }
        }, [] { }};
}
// ---------------------------------------------------------------- suspension with a real worker in the arena (owner recall): the unit (id 9) suspends three times in a row;
// a thread outside the arena resumes it each time; stacks migrate between the external thread and the worker.  Continuation only after resume: ResS.
static std::atomic<void*> g_sps[4];
static Scen suspW() {
    return {2, [] { AR = new tbb::task_arena(2, 1); AR->initialize(); for (auto& x : g_sps) vh::rawstore(x, (void*)nullptr); },
        [](int id) {
            if (id == 1) { for (int k = 0; k < 3; k++) { void* p; while (!(p = g_sps[k].load())) cosched::yield_point(); for (int i = 0; i < 2; i++) cosched::yield_point();
                    prod(1 + k, 1); tbb::task::resume((tbb::task::suspend_point)p); } return; }
            AR->execute([&] { tbb::task_group tg;
                tg.run([] { for (int k = 0; k < 3; k++) { inv(9, 1 + k, 1);
                        tbb::task::suspend([k](tbb::task::suspend_point sp) { auto* q = (r1::suspend_point_type*)sp; track(&q->m_stack_state); track(&q->m_is_owner_recalled); g_sps[k].store(sp); });
                        TR.emit("{\"e\":\"ResS\",\"t\":9,\"r\":%d,\"c\":1}", 1 + k); } prod(5, 1); });
                for (int k = 0; k < 2; k++) tg.run([] { for (int i = 0; i < 3; i++) cosched::yield_point(); prod(5, 1); });      // work that attracts the worker
                inv(0, 5, 3); tg.wait(); res(0, 5, 0); });
        }, [] { }};
}
static Scen make(const std::string& s) {
    if (s == "suspW") return suspW();
    if (s == "enqH") return enq(2, 1, 3, 0, false, true); if (s == "enq1H") return enq(1, 1, 3, 0, false, true); if (s == "enqL1H") return enq(2, 1, 3, 1, false, true); if (s == "enqx2H") return enq(2, 1, 2, 0, true, true);
    if (s == "enq") return enq(2, 1, 2, 0, false); if (s == "enq1") return enq(1, 1, 2, 0, false); if (s == "enq0") return enq(2, 0, 3, 0, false); if (s == "enq03") return enq(3, 0, 4, 0, false);
    if (s == "enqL1") return enq(2, 1, 2, 1, false); if (s == "enq1L1") return enq(1, 1, 2, 1, false); if (s == "enqL2x2") return enq(3, 1, 2, 2, true); if (s == "enqx2") return enq(2, 1, 2, 0, true);
    if (s == "mon_all") return mon_all(2, 1); if (s == "mon_all22") return mon_all(2, 2); if (s == "mon_one") return mon_one(2); if (s == "mon_pred") return mon_pred(2);
    if (s == "mon_abort") return mon_abort(2); if (s == "bq") return bq(1, 2, 2, 2); if (s == "bq2") return bq(2, 3, 1, 2); if (s == "bq13") return bq(1, 1, 3, 3);
    if (s == "exec2x3") return exec2(3, false); if (s == "exec2x4") return exec2(4, false); if (s == "exec2x3H") return exec2(3, true); if (s == "exec2x4H") return exec2(4, true);
    if (s == "execbaton") return execbaton();
    if (s == "execstay") return execstay(1); if (s == "execstay2") return execstay(2);
    if (s == "mtx2a") return mtx2(0); if (s == "mtx2b") return mtx2(1); if (s == "mtx2c") return mtx2(2); if (s == "mtx2d") return mtx2(3);
    if (s == "mtx") return mtx(3); if (s == "mtx5") return mtx(5); if (s == "mtx8") return mtx(8); if (s == "rwm") return rwm(0); if (s == "rwu") return rwm(1);
    if (s == "tgwait") return tgwait(2, 2, false); if (s == "tgwait3") return tgwait(3, 3, false); if (s == "tgwaitH") return tgwait(2, 2, true); if (s == "tgwait3H") return tgwait(3, 2, true);
    if (s == "exec1x3") return exec1(3, false); if (s == "exec1x4") return exec1(4, false); if (s == "exec1x3H") return exec1(3, true); if (s == "exec1x4H") return exec1(4, true);
    if (s == "suspF") return suspF(1, false); if (s == "suspF2") return suspF(2, false); if (s == "suspFH") return suspF(1, true); if (s == "suspF2H") return suspF(2, true);
    fprintf(stderr, "unknown scenario %s\n", s.c_str()); exit(2);
}
// probe: memory-order facts of the monitor protocol extracted from the running code (DESIGN 2.6): is there a full fence (seq_cst fence or RMW)
// between the caller's state change and notify's read of the wait set / between prepare_wait's registration and the caller's re-check?
static int probe() {
    r1::concurrent_monitor mon; r1::concurrent_monitor::thread_context other(std::uintptr_t(7)); mon.prepare_wait(other);   // a registered waiter (never sleeps)
    struct Ev { int kind, order; const void* addr; }; std::vector<Ev> evs;
    Sched S; focus_only(false);
    S.spawn(1, [&](int) { r1::concurrent_monitor::thread_context me(std::uintptr_t(1)); cosched::yield_point(); mon.prepare_wait(me); cosched::yield_point(); mon.cancel_wait(me);
                          cosched::yield_point(); mon.notify_one(); cosched::yield_point(); mon.notify_all(); cosched::yield_point(); });
    while (!S.done(0)) { Pending p = S.pending(0); evs.push_back({p.kind, p.order, p.addr}); S.step(0); }
    S.join_all();
    // phases are separated by K_YIELD events: 1 = prepare_wait, 2 = cancel_wait, 3 = notify_one, 4 = notify_all
    int phase = 0; bool fence_w = false, fence_n1 = false, fence_na = false, seen_load_n1 = false, seen_load_na = false;
    for (auto& e : evs) {
        if (e.kind == K_YIELD) { ++phase; continue; }
        bool full = (e.kind == K_FENCE && e.order == (int)std::memory_order_seq_cst) || e.kind == K_RMW || e.kind == K_CAS;
        if (phase == 1 && full) fence_w = true;                                   // prepare_wait ends with a full fence (the mutex unlock is an RMW as well)
        if (phase == 3) { if (full && !seen_load_n1) fence_n1 = true; if (e.kind == K_LOAD) seen_load_n1 = true; }
        if (phase == 4) { if (full && !seen_load_na) fence_na = true; if (e.kind == K_LOAD) seen_load_na = true; }
    }
    mon.cancel_wait(other);
    // is the busy marker of arena::atomic_flag::try_clear_if unique per clear transaction?  two transactions (on two flags) are in flight at once
    // and the raw state words are compared
    static r1::atomic_flag fl[2]; static std::uintptr_t seen[2]; static int inpred;
    { fl[0].test_and_set(); fl[1].test_and_set(); inpred = 0; seen[0] = seen[1] = 0;
      Sched S2; S2.spawn(2, [&](int id) { fl[id].try_clear_if([&] { seen[id] = vh::rawload(fl[id].my_state); ++inpred; for (int i = 0; i < 2000 && inpred < 2; i++) cosched::yield_point(); return false; }); });
      S2.run_random(1, 1000000, 1); S2.join_all(); }
    int unique_busy = (seen[0] != seen[1] && seen[0] > 1 && seen[1] > 1) ? 1 : 0;
    printf("{\"busy_unique\":%d,\"fence_w\":%d,\"fence_notify_one\":%d,\"fence_notify_all\":%d,\"events\":%zu}\n", unique_busy, fence_w, fence_n1, fence_na, evs.size());
    return 0;
}
// probe_exec: a fact about task_arena::execute extracted from the running code by a DIRECTED schedule (DESIGN 2.6; ExecSlot.tla, constant BATON): does a caller
// that leaves the slot-wait loop without having entered the arena pass the wake-up on?  The schedule builds the state of TLC's counterexample for BATON = FALSE:
// thread 0 dispatches inside a 2-slot arena, thread 1 holds the other slot; thread 2 delegates its functor, thread 0 runs it BEFORE thread 2 has registered in
// the exit monitor; thread 2 registers and is paused before it looks at its task; thread 0 is released and paused just before it gives its slot back; thread 3
// delegates and falls asleep; thread 0 leaves (its notify_one reaches thread 2, registered first); thread 2 finishes.  Is thread 3 awake now?
static int probe_exec() {
    using vh::rawload; tbb::task_arena ar(2, 2); ar.initialize(); r1::arena* a = rawload(ar.my_arena);
    tbb::detail::d1::wait_context swc(1); tbb::task_group_context sctx(tbb::task_group_context::isolated);
    static std::atomic<int> inside, ran2, relh; static int done[4]; vh::rawstore(inside, 0); vh::rawstore(ran2, 0); vh::rawstore(relh, 0); memset(done, 0, sizeof done);
    const char* mlo = (const char*)&a->my_exit_monitors; const char* mhi = mlo + sizeof(a->my_exit_monitors);
    auto in_mon = [&](const void* p) { return (const char*)p >= mlo && (const char*)p < mhi; };
    auto is_slot_flag = [&](const void* p) { for (unsigned i = 0; i < a->my_num_slots; i++) if (p == (const void*)&a->my_slots[i].my_is_occupied) return true; return false; };
    Sched S; focus_only(false); S.stall_limit = 100000000;
    S.spawn(4, [&](int id) {
        if (id == 0) ar.execute([&] { inside.fetch_add(1); tbb::detail::d1::wait(swc, sctx); });
        else if (id == 1) ar.execute([&] { inside.fetch_add(1); while (!relh.load()) cosched::yield_point(); });
        else ar.execute([&] { if (id == 2) ran2.store(1); });
        done[id] = 1; });
    int verdict = -1; const char* why = ""; bool released = false;
    auto run_until = [&](int t, std::function<bool()> stop, long lim) { for (long i = 0; i < lim; i++) { if (stop()) return true; if (!S.runnable(t)) return stop(); S.step(t); } return stop(); };
    do {
        if (!run_until(0, [&] { return rawload(inside) >= 1; }, 400000)) { why = "thread 0 did not enter"; break; }
        if (!run_until(1, [&] { return rawload(inside) >= 2; }, 400000)) { why = "thread 1 did not enter"; break; }
        run_until(0, [&] { return S.state(0) == ST_BLOCKED; }, 400000);                                        // the dispatcher falls asleep (no work)
        if (!run_until(2, [&] { return rawload(a->my_fifo_task_stream.population) != 0; }, 400000)) { why = "thread 2 did not delegate"; break; }
        if (!run_until(2, [&] { return in_mon(S.pending(2).addr); }, 400000)) { why = "thread 2 did not reach the exit monitor"; break; }
        if (!run_until(0, [&] { return rawload(ran2) == 1; }, 400000)) { why = "thread 0 did not run the delegated functor"; break; }
        run_until(0, [&] { return S.state(0) == ST_BLOCKED; }, 400000);                                        // finalize done, asleep again
        if (!run_until(2, [&] { return a->my_exit_monitors.my_waitset.size() == 1 && !in_mon(S.pending(2).addr); }, 400000)) { why = "thread 2 did not register"; break; }
        swc.release(); released = true;                                                                       // thread 0 may leave now
        if (!run_until(0, [&] { return S.runnable(0) && S.pending(0).kind == K_STORE && is_slot_flag(S.pending(0).addr); }, 400000)) { why = "thread 0 did not reach the slot release"; break; }
        run_until(3, [&] { return S.state(3) == ST_BLOCKED || done[3]; }, 400000);
        if (done[3] || S.state(3) != ST_BLOCKED) { why = "thread 3 did not fall asleep"; break; }
        if (!run_until(0, [&] { return done[0] != 0; }, 400000)) { why = "thread 0 did not leave"; break; }
        if (S.state(3) != ST_BLOCKED) { why = "the leaving thread woke thread 3 directly"; break; }
        if (!run_until(2, [&] { return done[2] != 0; }, 400000)) { why = "thread 2 did not return"; break; }
        run_until(3, [&] { return done[3] != 0; }, 400000);
        verdict = done[3] ? 1 : 0;
    } while (false);
    vh::rawstore(relh, 1); if (!released) swc.release();
    if (!done[3] && S.state(3) == ST_BLOCKED) a->my_exit_monitors.notify_one();                                 // let the stranded caller go (clean-up only)
    S.finish(3000000); S.join_all();
    printf("{\"baton\":%d,\"why\":\"%s\"}\n", verdict, why);
    return 0;
}
// probe_publish: does every operation that publishes work to an arena through a task stream (task::resume, task_arena::enqueue) ABORT a clear transaction of
// arena::my_pool_state that is in flight (busy -> SET)?  PoolState.tla needs that fact (constant PUBLISH_GUARDED): a publisher that only acts on an arena that
// "looks empty" lets the transaction finish, the arena is declared empty with the task in the stream and the last thread goes to sleep.  The state word is
// set white-box to a busy marker while the arena's only thread sleeps; the publishing call must turn it into SET.
static int probe_publish() {
    using vh::rawload; tbb::task_arena ar(2, 2); ar.initialize(); r1::arena* a = rawload(ar.my_arena);
    static std::atomic<void*> sp; static std::atomic<int> resumed; vh::rawstore(sp, (void*)nullptr); vh::rawstore(resumed, 0);
    int fact_resume = -1, fact_enqueue = -1, fact_clear_checked = -1;
    // does a clear transaction RESPECT being aborted?  A publisher's test_and_set is run from inside the predicate, i.e. exactly between the transaction's
    // busy marker and its final step: the transaction must fail and leave the flag SET (PoolState.tla: constant CLEAR_CHECKED, the final step is a CAS)
    { r1::atomic_flag f; f.test_and_set(); bool r = f.try_clear_if([&] { f.test_and_set(); return true; }); fact_clear_checked = (!r && rawload(f.my_state) == 1) ? 1 : 0; }
    Sched S; focus_only(false); S.stall_limit = 100000000;
    S.spawn(2, [&](int id) {
        if (id == 0) { ar.execute([&] { tbb::task_group tg; tg.run([] { tbb::task::suspend([](tbb::task::suspend_point p) { sp.store(p); }); resumed.store(1); }); tg.wait(); }); return; }
        void* p; while (!(p = sp.load())) cosched::yield_point();
        hold_until_blocked(0, 400000);                                                    // the arena's only thread sleeps: nobody else touches the state word
        const std::uintptr_t marker = 0x5a5a50; vh::rawstore(a->my_pool_state.my_state, marker);
        ar.enqueue([] {});
        fact_enqueue = rawload(a->my_pool_state.my_state) == 1 ? 1 : 0;
        hold_until_blocked(0, 400000);
        vh::rawstore(a->my_pool_state.my_state, marker);
        tbb::task::resume((tbb::task::suspend_point)p);
        fact_resume = rawload(a->my_pool_state.my_state) == 1 ? 1 : 0;
        vh::rawstore(a->my_pool_state.my_state, (std::uintptr_t)0); a->advertise_new_work<r1::arena::wakeup>();    // clean-up: the sleeper was never the owner of a clear transaction - wake it for real
    });
    int rc = S.run_random(7, 30000000, 1); S.join_all();
    printf("{\"resume_aborts_clear\":%d,\"enqueue_aborts_clear\":%d,\"clear_checked\":%d,\"rc\":\"%s\"}\n", fact_resume, fact_enqueue, fact_clear_checked, rc_name(rc).c_str());
    return 0;
}
// probe_mandatory: does arena::out_of_work take the mandatory request back when it clears my_mandatory_concurrency although the task pools are NOT empty (the pool
// state stays set)?  Mandatory.tla needs that fact (constant REPORT_EITHER).  Directed: only the external thread is stepped (library-created workers stay parked at
// their first schedule point until the end); inside the arena it spawns a task into its own pool (has_tasks() is true), switches mandatory concurrency on the way
// an enqueue does (advertise_new_work<work_enqueued>, nothing in the stream) and calls out_of_work() itself.
static int probe_mandatory() {
    using vh::rawload; int r0 = -9, r1 = -9, r2 = -9, fl1 = -1, fl2 = -1, pool2 = -1;
    Sched S; focus_only(false); S.stall_limit = 100000000;
    S.spawn(1, [&](int) {
        tbb::task_arena ar(2, 1); ar.initialize(); r1::arena* a = rawload(ar.my_arena);
        r0 = a->my_mandatory_requests;
        ar.execute([&] { tbb::task_group tg; tg.run([] {});
            a->advertise_new_work<r1::arena::work_enqueued>();
            r1 = a->my_mandatory_requests; fl1 = a->my_mandatory_concurrency.test() ? 1 : 0;
            a->out_of_work();
            r2 = a->my_mandatory_requests; fl2 = a->my_mandatory_concurrency.test() ? 1 : 0; pool2 = a->my_pool_state.test() ? 1 : 0;
            tg.wait(); });
    });
    long n = 0; while (!S.done(0) && n < 5000000 && S.runnable(0)) { S.step(0); ++n; }
    bool fin = S.done(0); int rc = fin ? S.finish(20000000) : RC_STALL; S.join_all();
    // conclusive only if the directed state was reached: request counted, flag set, then the flag cleared while the pool state stayed set
    int fact = (fin && r0 == 0 && r1 == 1 && fl1 == 1 && fl2 == 0 && pool2 == 1) ? (r2 == 0 ? 1 : (r2 == 1 ? 0 : -1)) : -1;
    printf("{\"report_either\":%d,\"r\":[%d,%d,%d],\"flag\":[%d,%d],\"pool\":%d,\"rc\":\"%s\"}\n", fact, r0, r1, r2, fl1, fl2, pool2, rc_name(rc).c_str());
    return 0;
}
struct Stats { long paths, steps, stuck, sleeps, wakes, buffered, workers; };
int main(int argc, char** argv) {
    if (argc >= 2 && !strcmp(argv[1], "probe")) return probe();
    if (argc >= 2 && !strcmp(argv[1], "probe_exec")) return probe_exec();
    if (argc >= 2 && !strcmp(argv[1], "probe_publish")) return probe_publish();
    if (argc >= 2 && !strcmp(argv[1], "probe_mandatory")) return probe_mandatory();
    if (argc < 6) { fprintf(stderr, "usage\n"); return 2; }
    FILE* out = fopen(argv[1], "w"); std::string sc = argv[2]; int nseeds = atoi(argv[3]); unsigned long seed0 = strtoul(argv[4], nullptr, 10); bool tso = atoi(argv[5]) != 0;
    Stats* st = (Stats*)mmap(nullptr, sizeof(Stats), PROT_READ | PROT_WRITE, MAP_SHARED | MAP_ANONYMOUS, -1, 0); memset(st, 0, sizeof *st);
    vh::Timer tm; static const int dens[8] = {1, 3, 10, 40, -1, -2, -3, -5}; long crashed = 0;
    std::string tmp = std::string(argv[1]) + ".child"; bool first = true;
    const int chunk = (sc.rfind("enq", 0) == 0 || sc == "suspW") ? 1 : 40;     // scenarios with RML workers start from a fresh process (fresh TBB runtime) every time
    for (int c0 = 0; c0 < nseeds && st->stuck < 6 && crashed < 4; c0 += chunk) {
        crashed += forked_case(tmp.c_str(), out, first, 240, [&] {
            { tbb::task_arena warm(1, 1); warm.initialize(); }     // library start-up (lazy statics, dynamic linking) happens outside scheduler control (DESIGN 2.3)
            for (int s = c0; s < c0 + chunk && s < nseeds && st->stuck < 6; s++) {
                TR.begin_exec(); TR.emit("{\"e\":\"Scenario\",\"name\":\"%s\",\"tso\":%d}", sc.c_str(), tso ? 1 : 0);
                Scen S0 = make(sc); untrack_all(); S0.setup();
                Sched S; S.stall_limit = 400000; S.log_schedule = true; focus_only(false);
                std::vector<int> tt; if (tso) for (int i = 0; i < S0.n; i++) tt.push_back(i);
                S.spawn(S0.n, S0.body, tt);
                int rc = S.run_random(seed0 + s, 20000000, dens[s % 8]);
                TR.sched(S.sched_log); st->steps += S.steps; ++st->paths; st->sleeps += S.futex_waits; st->wakes += S.futex_wakes; st->buffered += S.buffered; st->workers += S.daemons_created;
                if (rc != RC_OK) { std::ostringstream b; bool f = true; for (int t = 0; t < S.n(); t++) if (!S.done(t) && !S.lts[t]->daemon) { b << (f ? "" : ",") << t; f = false; }
                    TR.emit("{\"e\":\"Stuck\",\"rc\":\"%s\",\"blocked\":[%s]}", rc_name(rc).c_str(), b.str().c_str()); ++st->stuck; S.join_all(); continue; }
                S.join_all(); TR.emit("{\"e\":\"Quiesce\"}"); if (chunk > 1) S0.teardown();
            }
        }, &c0);
    }
    fclose(out);
    printf("{\"paths\":%ld,\"steps\":%ld,\"stuck\":%ld,\"crashed\":%ld,\"sleeps\":%ld,\"wakes\":%ld,\"buffered\":%ld,\"workers\":%ld,\"wall\":%.2f}\n", st->paths, st->steps, st->stuck, crashed, st->sleeps, st->wakes, st->buffered, st->workers, tm.s());
    return 0;
}
