// C13 / C14 harness (the aggregator under the priority queue and the flow-graph node bodies): replays every edge of the AggrCore.tla state graph on a REAL
// d1::aggregator_generic<Op> (operations from a tracked pool, a handler that walks the batch in list order), one tracked access per step, comparing
// (pending list head, handler_busy, every operation's next and status) after every step; Inv / HB / Handled / HE / Ret / End events for TraceAggr.
//   h_aggr <schedules> <trace-out> <nthreads> <ops per thread>
#include "vh.h"
#include "oneapi/tbb/detail/_aggregator.h"
using namespace cosched;
using namespace tbb::detail;
using vh::rawload;
struct Op : d1::aggregated_operation<Op> { int id = 0; };
static Op OPS[64];
static vh::TraceOut TR;
struct Handler { void operator()(Op* list) { int me = self_id() + 1; TR.emit("{\"e\":\"HB\",\"t\":%d}", me);
    while (list) { Op* tmp = list; list = list->next.load(std::memory_order_relaxed); TR.emit("{\"e\":\"Handled\",\"o\":%d}", tmp->id); tmp->status.store(1, std::memory_order_release); }
    TR.emit("{\"e\":\"HE\",\"t\":%d}", me); } };
static int idx_of(int id) { return (id / 10) * 4 + id % 10; }
int main(int argc, char** argv) {
    if (argc < 5) return 2;
    int nth = atoi(argv[3]), nops = atoi(argv[4]);
    std::map<std::string, std::pair<int, int>> LAB = {{"a0",{K_LOAD,2}},{"a1",{K_LOAD,0}},{"a2",{K_STORE,2}},{"a3",{K_CAS,0}},{"h1",{K_LOAD,1}},{"h2",{K_STORE,1}},{"h3",{K_RMW,0}},
                                                      {"h5",{K_LOAD,2}},{"h6",{K_STORE,2}},{"h7",{K_STORE,1}},{"w1",{K_LOAD,2}}};    // label -> (kind, 0 pending / 1 handler_busy / 2 an operation)
    TR.open(argv[2]);
    std::ifstream in(argv[1]); std::string line; long paths = 0, steps = 0, drift = 0, mismatch = 0, stuck = 0, skipped = 0; vh::Timer tm; int shown = 0;
    while (std::getline(in, line) && stuck < 10) {
        d1::aggregator_generic<Op>* ag = new d1::aggregator_generic<Op>; Handler H;
        std::vector<int> ids; for (int t = 1; t <= nth; t++) for (int k = 1; k <= nops; k++) ids.push_back(t * 10 + k);
        for (int id : ids) { Op& o = OPS[idx_of(id)]; o.id = id; vh::rawstore(o.status, (uintptr_t)0); vh::rawstore(o.next, (Op*)nullptr); }
        untrack_all(); track(&ag->pending_operations); track(&ag->handler_busy); track_range(OPS, OPS + 64); focus_only(true);
        TR.begin_exec();
        Sched S; S.stall_limit = 4000;
        S.spawn(nth, [&](int id) { int self = id + 1;
            for (int k = 1; k <= nops; k++) { Op& o = OPS[idx_of(self * 10 + k)]; TR.emit("{\"e\":\"Inv\",\"o\":%d}", o.id); ag->execute(&o, H); TR.emit("{\"e\":\"Ret\",\"o\":%d}", o.id); } });
        ++paths; bool drifted = false;
        for (auto& tok : vh::parse_schedule(line)) {
            auto it = LAB.find(tok.label); if (it == LAB.end()) { ++skipped; continue; }
            int t = tok.t - 1;
            if (drifted) break;
            if (!S.runnable(t)) { if (!drifted) { drifted = true; ++drift; if (shown++ < 5) fprintf(stderr, "SPEC-DRIFT path %ld: thread %d not runnable at %s\n", paths, t + 1, tok.label.c_str()); } continue; }
            Pending p = S.pending(t);
            int where = p.addr == &ag->pending_operations ? 0 : p.addr == &ag->handler_busy ? 1 : 2;
            if (!drifted && (p.kind != it->second.first || where != it->second.second)) { drifted = true; ++drift; if (shown++ < 5) fprintf(stderr, "SPEC-DRIFT path %ld at %d:%s: code is about to do kind %d on %s\n", paths, t + 1, tok.label.c_str(), p.kind, where == 0 ? "pending_operations" : where == 1 ? "handler_busy" : "an operation"); }
            S.step(t); ++steps;
            if (!drifted && !tok.state.empty()) {
                Op* ph = rawload(ag->pending_operations); std::string real = std::to_string(ph ? ph->id : 0) + "," + std::to_string((int)rawload(ag->handler_busy)) + "|";
                for (size_t i = 0; i < ids.size(); i++) { Op& o = OPS[idx_of(ids[i])]; Op* nx = rawload(o.next); real += (i ? "," : "") + std::to_string((int)rawload(o.status)) + "/" + std::to_string(nx ? nx->id : 0); }
                if (real != tok.state) { drifted = true; ++mismatch; if (shown++ < 5) fprintf(stderr, "SPEC-DRIFT path %ld at %d:%s expected %s real %s\n", paths, t + 1, tok.label.c_str(), tok.state.c_str(), real.c_str()); }
            }
        }
        // a path that left the model is finished under a seeded random schedule (round robin would hide most of what a changed protocol can do)
        int rc = (drifted || getenv("VERIF_FORCE_RANDOM")) ? S.run_random(1000 + paths, 300000, 1 + paths % 4) : S.finish(300000);
        if (rc != RC_OK) { ++stuck; TR.emit("{\"e\":\"Stuck\",\"rc\":\"%s\"}", rc_name(rc).c_str()); S.join_all(); continue; }
        S.join_all(); focus_only(false);
        if (rawload(ag->pending_operations) || rawload(ag->handler_busy)) TR.emit("{\"e\":\"Crash\",\"what\":\"operations pending or handler busy at quiescence\"}");
        TR.emit("{\"e\":\"End\"}");
        delete ag;
    }
    TR.close();
    printf("{\"paths\":%ld,\"steps\":%ld,\"drift\":%ld,\"state_mismatch\":%ld,\"stuck\":%ld,\"skipped_local\":%ld,\"wall\":%.2f}\n", paths, steps, drift, mismatch, stuck, skipped, tm.s());
    return 0;
}
