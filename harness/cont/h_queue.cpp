// C09 harness: real concurrent_queue / concurrent_bounded_queue under seeded random cooperative schedules (random) and under
// injected faults (fault: the k-th allocation / element copy throws; each case in a forked child so a crash is an event).
// Records Inv/Res histories for linearizability validation against QueueAbs (TraceQueue.tla).
//   h_queue random <cq|bq> <pad> <cap> <nseeds> <seed0> <trace> prog1 prog2 ...
//   h_queue fault  <cq|bq> <pad> <cap> <alloc|ctor> <kmax> <trace> prog1 prog2 ...     (threads run one after another per seed 0 + random seeds)
// program: comma separated ops  push:V try_push:V pop try_pop abort(waits until all other live threads are blocked)
#include "oneapi/tbb/concurrent_queue.h"
#include "vh_tbb.h"
#include <sys/wait.h>
#include <unistd.h>
using namespace cosched;

static long g_allocs = 0, g_fail_alloc = -1, g_copies = 0, g_fail_copy = -1, g_assigns = 0, g_fail_assign = -1;
struct InjectedFault { };
template <class T> struct FA {
    using value_type = T; FA() = default; template <class U> FA(const FA<U>&) {}
    T* allocate(size_t n) { if (__atomic_add_fetch(&g_allocs, 1, __ATOMIC_SEQ_CST) == g_fail_alloc) throw std::bad_alloc(); return (T*)malloc(n * sizeof(T)); }
    void deallocate(T* p, size_t) { free(p); }
    template <class U> bool operator==(const FA<U>&) const { return true; }
    template <class U> bool operator!=(const FA<U>&) const { return false; }
};
template <int PAD> struct Elem {
    int v; char pad[PAD];
    Elem(int x = 0) : v(x) { memset(pad, 0x5a, PAD); }
    Elem(const Elem& o) : v(o.v) { if (__atomic_add_fetch(&g_copies, 1, __ATOMIC_SEQ_CST) == g_fail_copy) throw InjectedFault(); memcpy(pad, o.pad, PAD); }
    // (the k-th assignment throws: pop / try_pop assign the stored item to the caller's object; the item is consumed all the same)
    Elem& operator=(const Elem& o) { if (__atomic_add_fetch(&g_assigns, 1, __ATOMIC_SEQ_CST) == g_fail_assign) throw InjectedFault(); v = o.v; memcpy(pad, o.pad, PAD); return *this; }
};

static vh::TraceOut TR;
static std::vector<std::vector<std::string>> PROG;
static int N;

template <class Q, bool BOUNDED> struct Ops;
template <class Q> struct Ops<Q, false> {
    static int push(Q& q, int v) { q.push(typename Q::value_type(v)); return 1; }
    static int try_push(Q& q, int v) { return push(q, v); }
    static int pop(Q& q) { typename Q::value_type x; while (!q.try_pop(x)) yield_point(); return x.v; }
    static int try_pop(Q& q) { typename Q::value_type x; return q.try_pop(x) ? x.v : 0; }
    static void abort(Q&) {}
    static void cap(Q&, int) {}
};
template <class Q> struct Ops<Q, true> {
    static int push(Q& q, int v) { q.push(typename Q::value_type(v)); return 1; }
    static int try_push(Q& q, int v) { return q.try_push(typename Q::value_type(v)) ? 1 : 0; }
    static int pop(Q& q) { typename Q::value_type x; q.pop(x); return x.v; }
    static int try_pop(Q& q) { typename Q::value_type x; return q.try_pop(x) ? x.v : 0; }
    static void abort(Q& q) { q.abort(); }
    static void cap(Q& q, int c) { if (c > 0) q.set_capacity(c); }
};

static int g_live;     // threads that have not finished their program
template <class Q, bool B> static void body(Q& q, int t) {
    int T = t + 1;
    for (auto& op : PROG[t]) {
        auto f = vh::split(op, ':'); std::string o = f[0]; int v = f.size() > 1 ? atoi(f[1].c_str()) : 0;
        // "w<op>": the operation starts only once some other thread is asleep inside the queue (bounded wait; sleeping paths are entered on purpose)
        if (o[0] == 'w') { o = o.substr(1); for (long i = 0; i < 300000 && num_blocked() < 1; i++) yield_point(); }
        if (o == "abort") {
            // precondition established from scheduler-known facts (DESIGN 4.x): every other live thread is blocked
            while (num_blocked() < __atomic_load_n(&g_live, __ATOMIC_SEQ_CST) - 1) yield_point();
        }
        TR.emit("{\"e\":\"Inv\",\"t\":%d,\"op\":\"%s\",\"v\":%d}", T, o.c_str(), v);
        int r;
        try {
            if (o == "push") r = Ops<Q, B>::push(q, v);
            else if (o == "try_push") r = Ops<Q, B>::try_push(q, v);
            else if (o == "pop") r = Ops<Q, B>::pop(q);
            else if (o == "try_pop") r = Ops<Q, B>::try_pop(q);
            else { Ops<Q, B>::abort(q); r = 1; }
        } catch (tbb::user_abort&) { r = -1; }
        catch (std::bad_alloc&) { r = -2; }
        catch (InjectedFault&) { r = -2; }
        TR.emit("{\"e\":\"Res\",\"t\":%d,\"r\":%d}", T, r);
    }
    __atomic_fetch_sub(&g_live, 1, __ATOMIC_SEQ_CST);
}

struct Stats { long paths = 0, steps = 0, stuck = 0, crashes = 0; };
template <class Q, bool B> static int run_one(int cap, unsigned long seed, int den, bool faults, Stats& st) {
    TR.begin_exec();
    TR.emit("{\"e\":\"Cfg\",\"cap\":%d,\"faults\":%d}", B ? cap : 0, faults ? 1 : 0);
    g_allocs = 0; g_copies = 0;
    long fa = g_fail_alloc, fc = g_fail_copy; g_fail_alloc = -1; g_fail_copy = -1;      // the queue's own construction is not a fault target
    Q* q = new Q; Ops<Q, B>::cap(*q, cap);
    g_allocs = 0; g_copies = 0; g_assigns = 0; g_fail_alloc = fa; g_fail_copy = fc;
    g_live = N;
    Sched S; S.stall_limit = 30000; S.log_schedule = true;
    focus_only(false);
    // the two global ticket counters are the protocol words: PCT places its change points right after an access to one of them with probability 1/3
    untrack_all(); track(&q->my_queue_representation->head_counter); track(&q->my_queue_representation->tail_counter);
    S.spawn(N, [&](int t) { body<Q, B>(*q, t); });
    int rc = den == 0 ? S.finish(3000000) : S.run_random(seed, 3000000, den);
    ++st.paths; st.steps += S.steps;
    TR.sched(S.sched_log);
    if (rc != RC_OK) { ++st.stuck; TR.emit("{\"e\":\"Stuck\",\"rc\":\"%s\"}", rc_name(rc).c_str()); }
    S.join_all();
    if (rc == RC_OK) { g_fail_alloc = -1; g_fail_copy = -1; delete q; g_fail_alloc = fa; g_fail_copy = fc; }
    return rc;
}

template <class Q, bool B> static int run(int argc, char** argv) {
    std::string mode = argv[1]; int cap = atoi(argv[4]); Stats st; vh::Timer tm;
    for (int i = 8; i < argc; i++) PROG.push_back(vh::split(argv[i], ','));
    N = (int)PROG.size();
    static const int dens[8] = {1, 3, 10, 40, -1, -2, -3, -5};
    if (mode == "random") {
        int n = atoi(argv[5]); unsigned long seed0 = strtoul(argv[6], nullptr, 10); TR.open(argv[7]);
        for (int r = 0; r < n && st.stuck < 10; r++) run_one<Q, B>(cap, seed0 + r, dens[r % 8], false, st);
        TR.close();
    } else {
        std::string kind = argv[5]; int kmax = atoi(argv[6]); int nsd = 3;
        { size_t star = kind.find('*'); if (star != std::string::npos) { nsd = atoi(kind.c_str() + star + 1); kind = kind.substr(0, star); } }    // "ctor*200": 200 schedules per fault position (concurrent post-fault programs)
        FILE* out = fopen(argv[7], "w"); bool first = true;
        for (int k = 1; k <= kmax; k++) for (int sd = 0; sd < nsd; sd++) {
            char tmp[256]; snprintf(tmp, sizeof tmp, "%s.child", argv[7]);
            pid_t pid = fork();
            if (pid == 0) {
                alarm(60);
                TR.open(tmp); setvbuf(TR.f, nullptr, _IOLBF, 0);
                if (kind == "alloc") g_fail_alloc = k; else if (kind == "assign") g_fail_assign = k; else g_fail_copy = k;
                run_one<Q, B>(cap, 77 + sd, sd == 0 ? 0 : dens[sd % 8], true, st);
                TR.close(); _exit(0);
            }
            int status = 0; waitpid(pid, &status, 0);
            std::ifstream in(tmp); std::string line;
            if (!first) fputs("{\"e\":\"Reset\"}\n", out); first = false;
            while (std::getline(in, line)) { fputs(line.c_str(), out); fputc('\n', out); }
            ++st.paths;
            if (WIFSIGNALED(status)) { ++st.crashes; fprintf(out, "{\"e\":\"Crash\",\"sig\":%d,\"fault\":\"%s\",\"k\":%d}\n", WTERMSIG(status), kind.c_str(), k); }
            unlink(tmp);
        }
        fclose(out);
    }
    printf("{\"paths\":%ld,\"steps\":%ld,\"stuck\":%ld,\"crashes\":%ld,\"wall\":%.2f}\n", st.paths, st.steps, st.stuck, st.crashes, tm.s());
    return 0;
}

template <int PAD> static int pick(int argc, char** argv) {
    typedef Elem<PAD> E;
    if (std::string(argv[2]) == "cq") return run<tbb::concurrent_queue<E, FA<E>>, false>(argc, argv);
    return run<tbb::concurrent_bounded_queue<E, FA<E>>, true>(argc, argv);
}
int main(int argc, char** argv) {
    if (argc < 9) { fprintf(stderr, "usage\n"); return 2; }
    int pad = atoi(argv[3]);
    if (pad <= 4) return pick<4>(argc, argv);       // 8 bytes  -> 32 items per page
    if (pad <= 20) return pick<20>(argc, argv);     // 24 bytes -> 8 items per page
    if (pad <= 60) return pick<60>(argc, argv);     // 64 bytes -> 2 items per page
    return pick<132>(argc, argv);                   // 136 bytes -> 1 item per page
}
