// C11 harness: real concurrent_vector growth.
//   h_vector random <nseeds> <seed0> <trace> prog1 prog2 ...      ops: pb:V  gb:K:V  gtal:N:V
//   h_vector fault <ctor|alloc> <kmax> <trace> prog                 one growing program; the k-th copy / allocation throws (forked per case)
//   h_vector big <trace>                                             grow_to_at_least(2^k + r) on concurrent_vector<char>, forked with a watchdog
//   h_vector segidx <trace>                                          index -> (segment, offset) arithmetic for indices 2^k + r, k <= 62
#include "oneapi/tbb/concurrent_vector.h"
#include "vh.h"
#include <sys/mman.h>
#include <sys/wait.h>
#include <signal.h>
#include <unistd.h>
#include <sys/wait.h>
#include <unistd.h>
using namespace cosched;
static long g_allocs = 0, g_fail_alloc = -1, g_copies = 0, g_fail_copy = -1;
struct InjectedFault {};
template <class T> struct FA {
    using value_type = T; FA() = default; template <class U> FA(const FA<U>&) {}
    T* allocate(size_t n) { if (__atomic_add_fetch(&g_allocs, 1, __ATOMIC_SEQ_CST) == g_fail_alloc) throw std::bad_alloc(); T* p = (T*)malloc(n * sizeof(T)); if (p) memset((void*)p, 0xCD, n * sizeof(T)); return p; }   // fresh memory is poisoned: a slot that was neither constructed nor zero-filled is recognisable
    void deallocate(T* p, size_t) { free(p); }
    template <class U> bool operator==(const FA<U>&) const { return true; }
    template <class U> bool operator!=(const FA<U>&) const { return false; }
};
static long g_garbage_dtor = 0;
struct E {      // every slot is classifiable: 1 = constructed (chk matches), 2 = zero-filled by the vector after a failure, 3 = garbage (never constructed, never zero-filled)
    int v; unsigned chk;
    static const unsigned M = 0x5A5A5A5Au;
    E(int x = 0) : v(x), chk((unsigned)x ^ M) {}
    E(const E& o) : v(o.v), chk(o.chk) { if (__atomic_add_fetch(&g_copies, 1, __ATOMIC_SEQ_CST) == g_fail_copy) throw InjectedFault(); }
    E& operator=(const E& o) { v = o.v; chk = o.chk; return *this; }
    int cls() const { return chk == ((unsigned)v ^ M) ? 1 : (v == 0 && chk == 0) ? 2 : 3; }
    ~E() { if (cls() == 3) __atomic_add_fetch(&g_garbage_dtor, 1, __ATOMIC_SEQ_CST); }
};
typedef tbb::concurrent_vector<E, FA<E>> V;
static vh::TraceOut TR;
static std::vector<std::vector<std::string>> PROG;
struct Sample { size_t idx; const void* addr; };

static void body(V& v, int t, std::vector<Sample>& samples) {
    int T = t + 1;
    for (auto& op : PROG[t]) {
        auto f = vh::split(op, ':');
        if (f[0] == "pb") { int val = atoi(f[1].c_str()); auto it = v.push_back(E(val)); size_t s = it - v.begin(); samples.push_back({s, &*it}); TR.emit("{\"e\":\"Grow\",\"t\":%d,\"start\":%zu,\"n\":1,\"v\":%d}", T, s, val); }
        else if (f[0] == "gb") { int k = atoi(f[1].c_str()), val = atoi(f[2].c_str()); auto it = v.grow_by(k, E(val)); size_t s = it - v.begin(); samples.push_back({s, &*it}); samples.push_back({s + k - 1, &v[s + k - 1]});
                                 TR.emit("{\"e\":\"Grow\",\"t\":%d,\"start\":%zu,\"n\":%d,\"v\":%d}", T, s, k, val); }
        else if (f[0] == "gtal") { size_t n = strtoul(f[1].c_str(), nullptr, 10); int val = atoi(f[2].c_str()); v.grow_to_at_least(n, E(val));
                                   size_t sz = v.size(); bool alloc = v.capacity() >= n; if (n) samples.push_back({n - 1, &v[n - 1]});
                                   TR.emit("{\"e\":\"Gtal\",\"t\":%d,\"n\":%zu,\"v\":%d,\"size\":%zu,\"alloc\":%d}", T, n, val, sz, alloc ? 1 : 0); }
    }
}

int main(int argc, char** argv) {
    if (argc < 3) return 2;
    std::string mode = argv[1]; vh::Timer tm; long paths = 0, steps = 0, stuck = 0, crashes = 0;
    if (mode == "random") {
        // runs are executed in forked chunks: a change that corrupts the vector crashes (or hangs) a child, which becomes a Crash / Stuck event of that execution
        int n = atoi(argv[2]); unsigned long seed0 = strtoul(argv[3], nullptr, 10);
        for (int i = 5; i < argc; i++) PROG.push_back(vh::split(argv[i], ','));
        int N = (int)PROG.size(); static const int dens[8] = {1, 3, 10, 40, -1, -2, -3, -5};
        struct Sh { long paths, steps, stuck; }; Sh* sh = (Sh*)mmap(nullptr, sizeof(Sh), PROT_READ | PROT_WRITE, MAP_SHARED | MAP_ANONYMOUS, -1, 0); memset(sh, 0, sizeof *sh);
        FILE* out = fopen(argv[4], "w"); bool first = true; std::string tmp = std::string(argv[4]) + ".child";
        for (int c0 = 0; c0 < n && sh->stuck < 10 && crashes < 4; c0 += 50) {
            fflush(nullptr); pid_t pid = fork();
            if (pid == 0) {
                alarm(600); TR.open(tmp.c_str()); setvbuf(TR.f, nullptr, _IOLBF, 0);
                for (int r = c0; r < c0 + 50 && r < n && sh->stuck < 10; r++) {
                    TR.begin_exec();
                    V* v = new V; std::vector<std::vector<Sample>> samples(N);
                    Sched S; S.stall_limit = 30000; S.log_schedule = true; focus_only(false);
                    // the words of the growth protocol: PCT places its change points right after an access to one of them with probability 1/3
                    untrack_all(); track(&v->my_segment_table); track(&v->my_first_block); track(&v->my_size);
                    S.spawn(N, [&](int t) { body(*v, t, samples[t]); });
                    int rc = S.run_random(seed0 + r, 3000000, dens[r % 8]); ++sh->paths; sh->steps += S.steps;
                    TR.sched(S.sched_log);
                    if (rc != RC_OK) { ++sh->stuck; TR.emit("{\"e\":\"Stuck\",\"rc\":\"%s\"}", rc_name(rc).c_str()); S.join_all(); continue; }
                    S.join_all();
                    int moved = 0; for (auto& ss : samples) for (auto& s : ss) if (&(*v)[s.idx] != s.addr) moved = 1;
                    std::ostringstream o; for (size_t i = 0; i < v->size(); i++) o << (i ? "," : "") << (*v)[i].v;
                    TR.emit("{\"e\":\"Final\",\"size\":%zu,\"vals\":[%s],\"moved\":%d}", v->size(), o.str().c_str(), moved);
                    delete v;
                }
                TR.close(); _exit(0);
            }
            int status = 0; waitpid(pid, &status, 0);
            std::ifstream in(tmp); std::string line; bool any = false;
            while (std::getline(in, line)) { if (line.empty() || line.back() != '}') continue;
                if (!any && !first && line.find("\"Reset\"") == std::string::npos) fputs("{\"e\":\"Reset\"}\n", out); any = true; first = false; fputs(line.c_str(), out); fputc('\n', out); }
            if (WIFSIGNALED(status)) { ++crashes; fprintf(out, WTERMSIG(status) == SIGALRM ? "{\"e\":\"Stuck\",\"rc\":\"watchdog\"}\n" : "{\"e\":\"Crash\",\"sig\":%d}\n", WTERMSIG(status)); }
            unlink(tmp.c_str());
        }
        fclose(out); paths = sh->paths; steps = sh->steps; stuck = sh->stuck;
    } else if (mode == "fault") {
        std::string kind = argv[2]; int kmax = atoi(argv[3]); FILE* out = fopen(argv[4], "w"); bool first = true;
        PROG.push_back(vh::split(argv[5], ','));
        for (int k = 1; k <= kmax; k++) {
            char tmp[256]; snprintf(tmp, sizeof tmp, "%s.child", argv[4]);
            pid_t pid = fork();
            if (pid == 0) {
                alarm(30); TR.open(tmp); setvbuf(TR.f, nullptr, _IOLBF, 0); TR.begin_exec();
                TR.emit("{\"e\":\"Fault\",\"kind\":\"%s\",\"k\":%d}", kind.c_str(), k);
                {
                    V v; std::vector<Sample> samples;
                    if (kind == "alloc") g_fail_alloc = k; else g_fail_copy = k;
                    g_allocs = 0; g_copies = 0;
                    try { body(v, 0, samples); } catch (std::bad_alloc&) { TR.emit("{\"e\":\"Throw\",\"t\":1}"); } catch (InjectedFault&) { TR.emit("{\"e\":\"Throw\",\"t\":1}"); }
                    g_fail_alloc = -1; g_fail_copy = -1;
                    // the property only promises: later ACCESSES work or throw, and the vector is destructible (a later growth may hang by design)
                    size_t sz = v.size();
                    for (size_t i = 0; i < sz; i++) { int ok = 1, c = 0; try { c = v.at(i).cls(); } catch (...) { ok = 0; } TR.emit("{\"e\":\"Access\",\"i\":%zu,\"r\":%d,\"c\":%d}", i, ok, c); }
                    g_garbage_dtor = 0;
                }
                TR.emit("{\"e\":\"Destroyed\",\"garbage\":%ld}", g_garbage_dtor); TR.close(); _exit(0);
            }
            int status = 0; waitpid(pid, &status, 0);
            std::ifstream in(tmp); std::string line;
            if (!first) fputs("{\"e\":\"Reset\"}\n", out); first = false;
            while (std::getline(in, line)) { fputs(line.c_str(), out); fputc('\n', out); }
            ++paths;
            if (WIFSIGNALED(status)) { ++crashes; fprintf(out, WTERMSIG(status) == SIGALRM ? "{\"e\":\"Stuck\",\"rc\":\"timeout\"}\n" : "{\"e\":\"Crash\",\"sig\":%d}\n", WTERMSIG(status)); }
            unlink(tmp);
        }
        fclose(out);
    } else if (mode == "big") {
        FILE* out = fopen(argv[2], "w"); bool first = true;
        // h_vector big <trace> <cases "k:r,k:r"> <watchdog seconds>
        struct KR { int k; int r; }; std::vector<KR> cases;
        for (auto& c : vh::split(argc > 3 ? argv[3] : "20:0,31:0", ',')) { auto f = vh::split(c, ':'); cases.push_back({atoi(f[0].c_str()), atoi(f[1].c_str())}); }
        int wd = argc > 4 ? atoi(argv[4]) : 60;
        for (auto c : cases) {
            size_t n = (size_t(1) << c.k) + c.r;
            pid_t pid = fork();
            if (pid == 0) { alarm(wd); tbb::concurrent_vector<char> v; v.push_back('a'); v.grow_to_at_least(n, 'x'); bool ok = v.size() >= n && v[n - 1] == 'x' && v[n / 2] == 'x'; _exit(ok ? 0 : 3); }
            int status = 0; waitpid(pid, &status, 0); ++paths;
            if (!first) fputs("{\"e\":\"Reset\"}\n", out); first = false;
            if (WIFSIGNALED(status)) { ++stuck; fprintf(out, WTERMSIG(status) == SIGALRM ? "{\"e\":\"Stuck\",\"rc\":\"timeout\",\"k\":%d,\"r\":%d}\n" : "{\"e\":\"Crash\",\"k\":%d,\"r\":%d}\n", c.k, c.r); }
            else fprintf(out, "{\"e\":\"GtalBig\",\"k\":%d,\"r\":%d,\"ok\":%d}\n", c.k, c.r, WEXITSTATUS(status) == 0 ? 1 : 0);
        }
        fclose(out);
    } else if (mode == "segidx") {
        TR.open(argv[2]); TR.begin_exec();
        typedef tbb::detail::d1::segment_table<int, std::allocator<int>, tbb::concurrent_vector<int>, 3> ST;
        for (int k = 1; k <= 62; k++) for (int rc = 0; rc < 3; rc++) {
            size_t r = rc == 0 ? 0 : rc == 1 ? 1 : (size_t(1) << k) - 1; size_t i = (size_t(1) << k) + r;
            size_t seg = ST::segment_index_of(i), base = ST::segment_base(seg), sz = ST::segment_size(seg);
            size_t off = i - base; int offcode = off == 0 ? 0 : off == 1 ? 1 : off == (size_t(1) << k) - 1 ? 2 : 9;
            if (k == 1 && rc == 2) offcode = 2;   // 2^1 - 1 == 1: codes 1 and 2 coincide
            TR.emit("{\"e\":\"Seg\",\"k\":%d,\"r\":%d,\"seg\":%zu,\"off\":%d,\"pow\":%d}", k, rc, seg, offcode, sz == (size_t(1) << k) ? 1 : 0);
            ++paths;
        }
        TR.close();
    }
    printf("{\"paths\":%ld,\"steps\":%ld,\"stuck\":%ld,\"crashes\":%ld,\"wall\":%.2f}\n", paths, steps, stuck, crashes, tm.s());
    return 0;
}
