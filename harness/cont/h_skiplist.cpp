// C12 harness (ordered containers): replays every edge of the SkipList.tla state graph on a REAL d2::concurrent_skip_list (the base of concurrent_set; the
// level generator and the allocator are the container's own template seams: heights come from the model's Height constant, nodes from a tracked pool), one
// tracked access per step (my_max_height and every next pointer), comparing (max height, the key sequence of every level) after every step; Inv / Res / Final
// history for TraceSet validation.
//   h_skiplist <schedules> <trace-out> <nthreads> <keys k1,k2,..> <heights h1,..> <prog per inserter: n1,n2|n3> <fkeys per reader: k1,k2|..>
#include "vh.h"
#include "oneapi/tbb/concurrent_set.h"
using namespace cosched;
using namespace tbb::detail;
using vh::rawload;
alignas(64) static char POOL[1 << 16]; static size_t g_bump = 0;
template <class T> struct PoolAlloc {
    using value_type = T; PoolAlloc() = default; template <class U> PoolAlloc(const PoolAlloc<U>&) {}
    T* allocate(size_t n) { size_t b = (n * sizeof(T) + 63) & ~size_t(63); size_t at = __atomic_fetch_add(&g_bump, b, __ATOMIC_RELAXED); if (at + b > sizeof(POOL)) abort(); return (T*)(POOL + at); }
    void deallocate(T*, size_t) {}
    template <class U> bool operator==(const PoolAlloc<U>&) const { return true; } template <class U> bool operator!=(const PoolAlloc<U>&) const { return false; }
};
static int g_height[8];
struct PlanGen { static constexpr std::size_t max_level = 32; std::size_t operator()() { int t = self_id(); return t >= 0 ? g_height[t] : 1; } };
using SL = d2::concurrent_skip_list<d2::set_traits<int, std::less<int>, PlanGen, PoolAlloc<int>, false>>;
static std::map<std::string, int> LAB;   // label -> kind
static std::string levels(SL& sl, int maxh_levels) {
    std::string s = std::to_string((unsigned long)rawload(sl.my_max_height));
    auto* head = rawload(sl.my_head_ptr);
    for (int l = 0; l < maxh_levels; l++) { s += "|"; bool first = true; int guard = 0; for (auto* n = rawload(head->get_atomic_next(l)); n && guard < 50; n = rawload(n->get_atomic_next(l)), ++guard) { s += (first ? "" : ",") + std::to_string(n->value()); first = false; } }
    return s;
}
int main(int argc, char** argv) {
    if (argc < 8) return 2;
    LAB = {{"F0",K_LOAD},{"F2",K_LOAD},{"L0s",K_STORE},{"L1",K_CAS},{"M0",K_LOAD},{"M2",K_CAS},{"U1s",K_STORE},{"U2",K_CAS},{"R1",K_LOAD},{"G1",K_LOAD},{"G3",K_LOAD}};
    int nth = atoi(argv[3]); std::vector<int> key{0}, hgt{0};
    for (auto& x : vh::split(argv[4], ',')) key.push_back(atoi(x.c_str())); for (auto& x : vh::split(argv[5], ',')) hgt.push_back(atoi(x.c_str()));
    std::vector<std::vector<int>> prog(nth + 1), fkeys(nth + 1);
    { auto ps = vh::split(argv[6], '|'); for (size_t i = 0; i < ps.size(); i++) for (auto& x : vh::split(ps[i], ',')) if (!x.empty()) prog[i + 1].push_back(atoi(x.c_str())); }
    { auto ps = vh::split(argv[7], '|'); for (size_t i = 0; i < ps.size(); i++) for (auto& x : vh::split(ps[i], ',')) if (!x.empty()) fkeys[i + 1].push_back(atoi(x.c_str())); }
    vh::TraceOut TR; TR.open(argv[2]);
    std::ifstream in(argv[1]); std::string line; long paths = 0, steps = 0, drift = 0, mismatch = 0, stuck = 0, skipped = 0; vh::Timer tm; int shown = 0;
    while (std::getline(in, line) && stuck < 10) {
        memset(POOL, 0, g_bump); g_bump = 0;
        SL* sl = new SL; sl->create_head_if_necessary();
        untrack_all(); track(&sl->my_max_height); track_range(POOL, POOL + sizeof(POOL)); focus_only(true);
        TR.begin_exec(); TR.emit("{\"e\":\"Cfg\",\"multi\":0,\"ordered\":1}");
        Sched S; S.stall_limit = 4000;
        S.spawn(nth, [&](int id) {
            int self = id + 1;
            for (int nd : prog[self]) { g_height[id] = hgt[nd]; TR.emit("{\"e\":\"Inv\",\"t\":%d,\"op\":\"insert\",\"k\":%d}", self, key[nd]); bool r = sl->insert(key[nd]).second; TR.emit("{\"e\":\"Res\",\"t\":%d,\"r\":%d}", self, r ? 1 : 0); }
            for (int k : fkeys[self]) { TR.emit("{\"e\":\"Inv\",\"t\":%d,\"op\":\"find\",\"k\":%d}", self, k); bool r = sl->contains(k); TR.emit("{\"e\":\"Res\",\"t\":%d,\"r\":%d}", self, r ? 1 : 0); }
        });
        ++paths; bool drifted = false;
        for (auto& tok : vh::parse_schedule(line)) {
            auto it = LAB.find(tok.label); if (it == LAB.end()) { ++skipped; continue; }
            int t = tok.t - 1;
            if (!S.runnable(t)) { if (!drifted) { drifted = true; ++drift; if (shown++ < 5) fprintf(stderr, "SPEC-DRIFT path %ld: thread %d not runnable at %s\n", paths, t + 1, tok.label.c_str()); } continue; }
            Pending p = S.pending(t);
            bool is_mh = p.addr == &sl->my_max_height; bool want_mh = tok.label == "F0" || tok.label == "M0" || tok.label == "M2" || tok.label == "G1";
            if (!drifted && (p.kind != it->second || is_mh != want_mh)) { drifted = true; ++drift; if (shown++ < 5) fprintf(stderr, "SPEC-DRIFT path %ld at %d:%s: code is about to do kind %d on %s\n", paths, t + 1, tok.label.c_str(), p.kind, is_mh ? "my_max_height" : "a next pointer"); }
            S.step(t); ++steps;
            if (!drifted && !tok.state.empty()) {
                std::string real = levels(*sl, 3);
                if (real != tok.state) { drifted = true; ++mismatch; if (shown++ < 5) fprintf(stderr, "SPEC-DRIFT path %ld at %d:%s expected %s real %s\n", paths, t + 1, tok.label.c_str(), tok.state.c_str(), real.c_str()); }
            }
        }
        int rc = S.finish(300000);
        if (rc != RC_OK) { ++stuck; TR.emit("{\"e\":\"Stuck\",\"rc\":\"%s\"}", rc_name(rc).c_str()); S.join_all(); continue; }
        S.join_all();
        focus_only(false);
        { std::string s; bool first = true; for (auto it = sl->begin(); it != sl->end(); ++it) { s += (first ? "" : ",") + std::to_string(*it); first = false; } TR.emit("{\"e\":\"Final\",\"seen\":[%s]}", s.c_str()); }
        // the upper levels must be consistent with level 0 at quiescence: every level-l list is a sorted sub-list of level 0 holding exactly the nodes of height > l
        { auto* head = rawload(sl->my_head_ptr); bool ok = true; std::set<void*> l0; for (auto* n = rawload(head->get_atomic_next(0)); n; n = rawload(n->get_atomic_next(0))) l0.insert(n);
          for (int l = 1; l < 4 && ok; l++) { std::set<void*> ll; int last = -1; for (auto* n = rawload(head->get_atomic_next(l)); n; n = rawload(n->get_atomic_next(l))) { if (!l0.count(n) || n->value() <= last || (int)n->height() <= l) ok = false; last = n->value(); ll.insert(n); }
              for (auto* n = rawload(head->get_atomic_next(0)); n; n = rawload(n->get_atomic_next(0))) if ((int)n->height() > l && !ll.count(n)) ok = false; }
          // (a structural observation, not a verdict: the upper levels are an index whose shape is the implementation's business - reported as drift)
          if (!ok) { ++mismatch; if (shown++ < 5) fprintf(stderr, "SPEC-DRIFT path %ld: at quiescence an upper level is not a sorted sub-list of level 0 holding every node of that height\n", paths); } }
        sl->my_head_ptr.store(nullptr, std::memory_order_relaxed); delete sl;
    }
    TR.close();
    printf("{\"paths\":%ld,\"steps\":%ld,\"drift\":%ld,\"state_mismatch\":%ld,\"stuck\":%ld,\"skipped_local\":%ld,\"wall\":%.2f}\n", paths, steps, drift, mismatch, stuck, skipped, tm.s());
    return 0;
}
