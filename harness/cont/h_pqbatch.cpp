// C13 harness (sequential core): every transition of PQBatch.tla - (array before, batch of aggregated operations) -> (results, array after) - is applied to a REAL
// concurrent_priority_queue<int> by calling its handle_operations on a hand-built operation list (white box: data / mark / my_size are set to the source
// state); the real outcome is logged as a Batch event for TracePQBatch (the verdict) and compared with the transcription's prediction (drift).
//   h_pqbatch <transitions> <trace-out>      transition line: d0|ops|res|d1   (comma separated; ops: 0 = pop, v = push v; res: value / 100 / -1)
#include "vh.h"
#include "oneapi/tbb/concurrent_priority_queue.h"
typedef tbb::concurrent_priority_queue<int> PQ;
static std::vector<int> ints(const std::string& s) { std::vector<int> r; for (auto& x : vh::split(s, ',')) if (!x.empty()) r.push_back(atoi(x.c_str())); return r; }
static std::string join(const std::vector<int>& v) { std::string s; for (size_t i = 0; i < v.size(); i++) s += (i ? "," : "") + std::to_string(v[i]); return s; }
int main(int argc, char** argv) {
    if (argc < 3) return 2;
    std::ifstream in(argv[1]); vh::TraceOut TR; TR.open(argv[2]); TR.begin_exec();
    std::string line; long n = 0, drift = 0; int shown = 0; vh::Timer tm;
    while (std::getline(in, line)) {
        auto f = vh::split(line + "|", '|'); if (f.size() < 4) continue;
        std::vector<int> d0 = ints(f[0]), ops = ints(f[1]), res = ints(f[2]), d1 = ints(f[3]);
        PQ q; q.data.assign(d0.begin(), d0.end()); q.mark = d0.size(); q.my_size.store(d0.size(), std::memory_order_relaxed);
        std::vector<int> elems(ops.size()); std::vector<PQ::cpq_operation*> ol;
        for (size_t i = 0; i < ops.size(); i++) { elems[i] = ops[i]; ol.push_back(new PQ::cpq_operation(elems[i], ops[i] ? PQ::PUSH_OP : PQ::POP_OP)); }
        for (size_t i = 0; i + 1 < ol.size(); i++) ol[i]->next.store(ol[i + 1], std::memory_order_relaxed);
        q.handle_operations(ol[0]);
        std::vector<int> rr;
        for (size_t i = 0; i < ol.size(); i++) { auto st = ol[i]->status.load(std::memory_order_relaxed);
            rr.push_back(st == PQ::SUCCEEDED ? (ops[i] ? 100 : elems[i]) : st == PQ::FAILED ? -1 : -7); delete ol[i]; }
        std::vector<int> rd(q.data.begin(), q.data.end()); size_t mark1 = q.mark;
        // observable consequences of the state the batch left behind: (1) a following batch <push v, pop> (on a copy of that state) must answer as a priority queue holding
        // exactly these contents would; (2) popping one by one must deliver the contents in descending order
        std::string probes;
        for (int v = 1; v <= 4; v++) { PQ q2; q2.data.assign(q.data.begin(), q.data.end()); q2.mark = q.mark; q2.my_size.store(q.data.size(), std::memory_order_relaxed);
            int pv = v, got = 0; PQ::cpq_operation o1(pv, PQ::PUSH_OP), o2(got, PQ::POP_OP); o1.next.store(&o2, std::memory_order_relaxed); q2.handle_operations(&o1);
            int r = o2.status.load(std::memory_order_relaxed) == PQ::SUCCEEDED ? got : -1; probes += (probes.empty() ? "[" : ",[") + std::to_string(v) + "," + std::to_string(r) + "]";
            q2.data.clear(); q2.mark = 0; q2.my_size.store(0, std::memory_order_relaxed); }
        std::vector<int> drain; for (size_t guard = 0; guard < rd.size() + 2; guard++) { int got = 0; PQ::cpq_operation op(got, PQ::POP_OP); q.handle_operations(&op); if (op.status.load(std::memory_order_relaxed) != PQ::SUCCEEDED) break; drain.push_back(got); }
        TR.emit("{\"e\":\"Batch\",\"d0\":[%s],\"ops\":[%s],\"res\":[%s],\"d1\":[%s],\"mark1\":%zu,\"drain\":[%s],\"probe\":[%s]}", join(d0).c_str(), join(ops).c_str(), join(rr).c_str(), join(rd).c_str(), mark1, join(drain).c_str(), probes.c_str());
        ++n;
        if (rr != res || rd != d1) { ++drift; if (shown++ < 5) fprintf(stderr, "SPEC-DRIFT handle_operations on [%s] batch [%s]: model res [%s] data [%s], real res [%s] data [%s]\n", f[0].c_str(), f[1].c_str(), f[2].c_str(), f[3].c_str(), join(rr).c_str(), join(rd).c_str()); }
        q.data.clear(); q.mark = 0; q.my_size.store(0, std::memory_order_relaxed);
    }
    TR.close();
    printf("{\"transitions\":%ld,\"drift\":%ld,\"wall\":%.2f}\n", n, drift, tm.s());
    return 0;
}
