// C10 / C12 / C13 harness: real concurrent_hash_map, concurrent_(unordered_)(multi)set/map and concurrent_priority_queue under seeded
// random cooperative schedules at atomic-access granularity; Inv/Res histories for linearizability validation by TLC.
//   h_cont <kind> <nseeds> <seed0> <trace> <hash: id|const|low> prog1 prog2 ...
//   kinds: pq pqfault:<k> | hmap | uset umset oset omset umap omap
//   ops:  pq: push:V pop       hmap: ins:K insw:K (hold accessor) insr:K? find:K findw:K findr:K erase:K count:K      sets: ins:K find:K count:K trav
#include "oneapi/tbb/concurrent_priority_queue.h"
#include "oneapi/tbb/concurrent_hash_map.h"
#include "oneapi/tbb/concurrent_unordered_set.h"
#include "oneapi/tbb/concurrent_unordered_map.h"
#include "oneapi/tbb/concurrent_set.h"
#include "oneapi/tbb/concurrent_map.h"
#include "vh.h"
#include <sys/mman.h>
#include <sys/wait.h>
#include <signal.h>
#include <unistd.h>
using namespace cosched;
static vh::TraceOut TR;
static std::vector<std::vector<std::string>> PROG;
static int N; static std::string HASH = "id";
static long g_copies = 0, g_fail_copy = -1;
static bool g_log_destroy = false;
static int g_bar = 0;
struct InjectedFault {};

static size_t hashfn(int k) { if (HASH == "const") return 0; if (HASH == "id8") return (size_t)k; if (HASH == "low") return (size_t)(k & 1) | ((size_t)k << 16 & 0); return (size_t)k; }
struct HC { static size_t hash(int k) { return hashfn(k); } static bool equal(int a, int b) { return a == b; } size_t operator()(int k) const { return hashfn(k); } };

struct PE { int v; PE(int x = 0) : v(x) {} PE(const PE& o) : v(o.v) { if (__atomic_add_fetch(&g_copies, 1, __ATOMIC_SEQ_CST) == g_fail_copy) throw InjectedFault(); }
            PE& operator=(const PE& o) { v = o.v; return *this; } bool operator<(const PE& o) const { return v < o.v; } };
static long g_inst = 0;
struct Val { int k = -1; int g = 0; ~Val() { if (g_log_destroy && g > 0) TR.emit("{\"e\":\"Destroy\",\"g\":%d,\"k\":%d}", g, k); } };
static void stamp(Val& v, int k) { v.k = k; v.g = (int)__atomic_add_fetch(&g_inst, 1, __ATOMIC_SEQ_CST); }

template <class C> struct Drv;
// ---------------------------------------------------------------- priority queue
typedef tbb::concurrent_priority_queue<PE> PQ;
template <> struct Drv<PQ> {
    static void cfg(bool faults) { TR.emit("{\"e\":\"Cfg\",\"faults\":%d}", faults ? 1 : 0); }
    static void op(PQ& q, int T, const std::string& o, int v) {
        TR.emit("{\"e\":\"Inv\",\"t\":%d,\"op\":\"%s\",\"v\":%d}", T, o.c_str(), v);
        int r;
        try { if (o == "push") { PE e(v); q.push(e); r = 1; } else { PE e; r = q.try_pop(e) ? e.v : 0; } }
        catch (InjectedFault&) { r = -2; } catch (std::bad_alloc&) { r = -2; }   // the queue reports a failed element copy as bad_alloc
        TR.emit("{\"e\":\"Res\",\"t\":%d,\"r\":%d}", T, r);
    }
    // at quiescence the queue is drained by sequential pops that are part of the history (their order is checked: each must return a maximum)
    static void final(PQ& q) { g_fail_copy = -1; for (;;) { PE e; TR.emit("{\"e\":\"Inv\",\"t\":1,\"op\":\"pop\",\"v\":0}"); int r = q.try_pop(e) ? e.v : 0; TR.emit("{\"e\":\"Res\",\"t\":1,\"r\":%d}", r); if (!r) break; }
        TR.emit("{\"e\":\"Final\",\"rest\":[]}"); }
};
// ---------------------------------------------------------------- hash map
typedef tbb::concurrent_hash_map<int, Val, HC> HM;
template <> struct Drv<HM> {
    static void cfg(bool) {}
    static void op(HM& m, int T, const std::string& o, int k) {
        if (o == "erasea" || o == "erasear") {      // find with an accessor / const_accessor, then erase THROUGH it: two calls of the history
            TR.emit("{\"e\":\"Inv\",\"t\":%d,\"op\":\"find\",\"k\":%d}", T, k);
            HM::accessor a; HM::const_accessor ca; bool w = o == "erasea"; bool r = w ? m.find(a, k) : m.find(ca, k); int g = r ? (w ? a->second.g : ca->second.g) : 0;
            TR.emit("{\"e\":\"Res\",\"t\":%d,\"r\":%d,\"m\":\"%s\",\"g\":%d}", T, r ? 1 : 0, r ? (w ? "W" : "R") : "N", g);
            if (!r) return;
            for (int i = 0; i < 2; i++) yield_point();
            // the accessor interval ends where the erase call begins (erase releases the accessor itself); physically the element stays locked
            TR.emit("{\"e\":\"Rel\",\"t\":%d,\"g\":%d}", T, g);
            TR.emit("{\"e\":\"Inv\",\"t\":%d,\"op\":\"erase\",\"k\":%d}", T, k);
            bool e = w ? m.erase(a) : m.erase(ca);
            TR.emit("{\"e\":\"Res\",\"t\":%d,\"r\":%d,\"m\":\"N\",\"g\":0}", T, e ? 1 : 0);
            return;
        }
        if (o == "fill") {          // sequential prefix: 251 consecutive keys inserted as ONE event of the history (the table is filled up to its growth threshold)
            std::string ks; for (int i = 0; i < 251; i++) { HM::accessor a; m.insert(a, k + i); stamp(a->second, k + i); a.release(); ks += (i ? "," : "") + std::to_string(k + i); }
            TR.emit("{\"e\":\"Prefill\",\"keys\":[%s]}", ks.c_str()); return;
        }
        const char* aop = (o == "ins" || o == "insw") ? "insert" : (o == "find" || o == "findw" || o == "findr") ? "find" : o == "erase" ? "erase" : "count";
        TR.emit("{\"e\":\"Inv\",\"t\":%d,\"op\":\"%s\",\"k\":%d}", T, aop, k);
        if (o == "ins") { HM::accessor a; bool r = m.insert(a, k); if (r) stamp(a->second, k); a.release(); TR.emit("{\"e\":\"Res\",\"t\":%d,\"r\":%d,\"m\":\"N\",\"g\":0}", T, r ? 1 : 0); }
        else if (o == "insw") { HM::accessor a; bool r = m.insert(a, k); if (r) stamp(a->second, k); int g = a->second.g; TR.emit("{\"e\":\"Res\",\"t\":%d,\"r\":%d,\"m\":\"W\",\"g\":%d}", T, r ? 1 : 0, g);
                                for (int i = 0; i < 3; i++) yield_point(); TR.emit("{\"e\":\"Rel\",\"t\":%d,\"g\":%d}", T, g); a.release(); }
        else if (o == "find") { HM::const_accessor a; bool r = m.find(a, k); a.release(); TR.emit("{\"e\":\"Res\",\"t\":%d,\"r\":%d,\"m\":\"N\",\"g\":0}", T, r ? 1 : 0); }
        else if (o == "findw") { HM::accessor a; bool r = m.find(a, k); int g = r ? a->second.g : 0; TR.emit("{\"e\":\"Res\",\"t\":%d,\"r\":%d,\"m\":\"%s\",\"g\":%d}", T, r ? 1 : 0, r ? "W" : "N", g);
                                 if (r) { for (int i = 0; i < 3; i++) yield_point(); TR.emit("{\"e\":\"Rel\",\"t\":%d,\"g\":%d}", T, g); a.release(); } }
        else if (o == "findr") { HM::const_accessor a; bool r = m.find(a, k); int g = r ? a->second.g : 0; TR.emit("{\"e\":\"Res\",\"t\":%d,\"r\":%d,\"m\":\"%s\",\"g\":%d}", T, r ? 1 : 0, r ? "R" : "N", g);
                                 if (r) { for (int i = 0; i < 3; i++) yield_point(); TR.emit("{\"e\":\"Rel\",\"t\":%d,\"g\":%d}", T, g); a.release(); } }
        else if (o == "erase") { bool r = m.erase(k); TR.emit("{\"e\":\"Res\",\"t\":%d,\"r\":%d,\"m\":\"N\",\"g\":0}", T, r ? 1 : 0); }
        else { int r = (int)m.count(k); TR.emit("{\"e\":\"Res\",\"t\":%d,\"r\":%d,\"m\":\"N\",\"g\":0}", T, r); }
    }
    static void final(HM& m) { g_log_destroy = false; std::vector<int> ks; for (auto it = m.begin(); it != m.end(); ++it) ks.push_back(it->first); std::sort(ks.begin(), ks.end());
        std::ostringstream s; for (size_t i = 0; i < ks.size(); i++) s << (i ? "," : "") << ks[i]; TR.emit("{\"e\":\"Final\",\"keys\":[%s]}", s.str().c_str()); }
};
// ---------------------------------------------------------------- insert-only sets / maps
template <class C, bool MULTI, bool ORDERED, bool MAP> struct SetDrv {
    static void cfg(bool) { TR.emit("{\"e\":\"Cfg\",\"multi\":%d,\"ordered\":%d}", MULTI ? 1 : 0, ORDERED ? 1 : 0); }
    static bool do_insert_impl(C& c, int k, std::false_type) { return ins_result(c.insert(k)); }
    static bool do_insert_impl(C& c, int k, std::true_type) { return ins_result(c.insert(std::make_pair(k, k * 10))); }
    static bool do_insert(C& c, int k) { return do_insert_impl(c, k, std::integral_constant<bool, MAP>()); }
    template <class It> static bool ins_result(const std::pair<It, bool>& p) { return p.second; }
    template <class It> static bool ins_result(const It&) { return true; }
    template <class It> static int key_of(It it, std::false_type) { return *it; }
    template <class It> static int key_of(It it, std::true_type) { return it->first; }
    static void do_rehash(C& c, int n, std::false_type) { c.rehash((size_t)n); }
    static void do_rehash(C&, int, std::true_type) {}
    static std::string walk(C& c) { std::ostringstream s; bool f = true; for (auto it = c.begin(); it != c.end(); ++it) { s << (f ? "" : ",") << key_of(it, std::integral_constant<bool, MAP>()); f = false; } return s.str(); }
    static void op(C& c, int T, const std::string& o, int k) {
        if (o == "rehash") { do_rehash(c, k, std::integral_constant<bool, ORDERED>()); return; }      // bucket count change without inserts (not part of the history)
        if (o == "trav") { TR.emit("{\"e\":\"TravB\",\"t\":%d}", T); std::string s = walk(c); TR.emit("{\"e\":\"TravE\",\"t\":%d,\"seen\":[%s]}", T, s.c_str()); return; }
        const char* aop = o == "ins" ? "insert" : o == "find" ? "find" : "count";
        TR.emit("{\"e\":\"Inv\",\"t\":%d,\"op\":\"%s\",\"k\":%d}", T, aop, k);
        int r;
        if (o == "ins") r = do_insert(c, k) ? 1 : 0; else if (o == "find") r = c.find(k) != c.end() ? 1 : 0; else r = (int)c.count(k);
        TR.emit("{\"e\":\"Res\",\"t\":%d,\"r\":%d}", T, r);
    }
    static void final(C& c) { TR.emit("{\"e\":\"Final\",\"seen\":[%s]}", walk(c).c_str()); }
};
typedef tbb::concurrent_unordered_set<int, HC> US; typedef tbb::concurrent_unordered_multiset<int, HC> UMS;
typedef tbb::concurrent_set<int> OS; typedef tbb::concurrent_multiset<int> OMS;
typedef tbb::concurrent_unordered_map<int, int, HC> UM; typedef tbb::concurrent_map<int, int> OM;
template <> struct Drv<US> : SetDrv<US, false, false, false> {}; template <> struct Drv<UMS> : SetDrv<UMS, true, false, false> {};
template <> struct Drv<OS> : SetDrv<OS, false, true, false> {}; template <> struct Drv<OMS> : SetDrv<OMS, true, true, false> {};
template <> struct Drv<UM> : SetDrv<UM, false, false, true> {}; template <> struct Drv<OM> : SetDrv<OM, false, true, true> {};

template <class C> static C* make() { return new C; }
template <> HM* make<HM>() { HM* m = new HM(HASH == "id8" ? 8 : 1); cosched::track(&m->my_mask); return m; }       // ("id8": 8 initial buckets, so that a chain of several keys exists in one bucket before the table doubles)            // 1 initial bucket request: growth thresholds are crossed within a few inserts
template <> US* make<US>() { return new US(2); } template <> UMS* make<UMS>() { return new UMS(2); } template <> UM* make<UM>() { return new UM(2); }

// runs are executed in forked chunks: a change that corrupts a container crashes (or hangs) a child, which becomes a Crash / Stuck event of that execution
struct Shared { long steps, stuck; };
template <class C> static int run(int argc, char** argv, long failk) {
    int n = atoi(argv[2]); unsigned long seed0 = strtoul(argv[3], nullptr, 10); HASH = argv[5];
    for (int i = 6; i < argc; i++) PROG.push_back(vh::split(argv[i], ','));
    N = (int)PROG.size(); vh::Timer tm; static const int dens[8] = {1, 3, 10, 40, -1, -2, -3, -5};
    Shared* sh = (Shared*)mmap(nullptr, sizeof(Shared), PROT_READ | PROT_WRITE, MAP_SHARED | MAP_ANONYMOUS, -1, 0); memset(sh, 0, sizeof *sh);
    const long maxstuck = getenv("VERIF_MAXSTUCK") ? atoi(getenv("VERIF_MAXSTUCK")) : 10; long crashed = 0;
    FILE* out = fopen(argv[4], "w"); bool first = true; std::string tmp = std::string(argv[4]) + ".child";
    for (int c0 = 0; c0 < n && sh->stuck < maxstuck && crashed < 4; c0 += 50) {
        fflush(nullptr);
        pid_t pid = fork();
        if (pid == 0) {
            alarm(600); TR.open(tmp.c_str()); setvbuf(TR.f, nullptr, _IOLBF, 0);
            for (int r = c0; r < c0 + 50 && r < n && sh->stuck < maxstuck; r++) {
                TR.begin_exec(); Drv<C>::cfg(failk > 0);
                untrack_all(); g_log_destroy = false; C* c = make<C>(); g_log_destroy = true; g_copies = 0; g_fail_copy = failk;
                Sched S; S.stall_limit = 40000; S.log_schedule = true; focus_only(false);
                g_bar = 0;
                S.spawn(N, [&](int t) { for (auto& op : PROG[t]) { auto f = vh::split(op, ':');
                    if (f[0] == "bar") { __atomic_add_fetch(&g_bar, 1, __ATOMIC_SEQ_CST); while (__atomic_load_n(&g_bar, __ATOMIC_SEQ_CST) < N) cosched::yield_point(); continue; }   // harness barrier: a sequential prefix before the concurrent phase
                    Drv<C>::op(*c, t + 1, f[0], f.size() > 1 ? atoi(f[1].c_str()) : 0); } });
                int rc = S.run_random(seed0 + r, 4000000, dens[r % 8]); sh->steps += S.steps;
                TR.sched(S.sched_log);
                if (rc != RC_OK) { ++sh->stuck; TR.emit("{\"e\":\"Stuck\",\"rc\":\"%s\"}", rc_name(rc).c_str()); S.join_all(); continue; }
                S.join_all(); g_fail_copy = -1;
                // the final sequential inspection runs on a logical thread too: a container that an earlier fault left wedged must end as a Stuck event, not hang the harness
                { Sched F; F.stall_limit = 40000; F.spawn(1, [&](int) { Drv<C>::final(*c); }); int frc = F.finish(4000000); sh->steps += F.steps;
                  if (frc != RC_OK) { ++sh->stuck; TR.emit("{\"e\":\"Stuck\",\"rc\":\"%s\",\"at\":\"final\"}", rc_name(frc).c_str()); F.join_all(); continue; }
                  F.join_all(); }
                g_log_destroy = false; delete c;
            }
            TR.close(); _exit(0);
        }
        int status = 0; waitpid(pid, &status, 0);
        std::ifstream in(tmp); std::string line; bool any = false;
        while (std::getline(in, line)) { if (line.empty() || line.back() != '}') continue;
            if (!any && !first && line.find("\"Reset\"") == std::string::npos) fputs("{\"e\":\"Reset\"}\n", out); any = true; first = false; fputs(line.c_str(), out); fputc('\n', out); }
        if (WIFSIGNALED(status)) { ++crashed; fprintf(out, WTERMSIG(status) == SIGALRM ? "{\"e\":\"Stuck\",\"rc\":\"watchdog\"}\n" : "{\"e\":\"Crash\",\"sig\":%d}\n", WTERMSIG(status)); }
        unlink(tmp.c_str());
    }
    fclose(out);
    printf("{\"paths\":%d,\"steps\":%ld,\"stuck\":%ld,\"crashed\":%ld,\"wall\":%.2f}\n", n, sh->steps, sh->stuck, crashed, tm.s());
    return 0;
}
int main(int argc, char** argv) {
    if (argc < 7) { fprintf(stderr, "usage\n"); return 2; }
    std::string k = argv[1];
    if (k == "pq") return run<PQ>(argc, argv, -1);
    if (k.rfind("pqfault:", 0) == 0) return run<PQ>(argc, argv, atol(k.c_str() + 8));
    if (k == "hmap") return run<HM>(argc, argv, -1);
    if (k == "uset") return run<US>(argc, argv, -1); if (k == "umset") return run<UMS>(argc, argv, -1);
    if (k == "oset") return run<OS>(argc, argv, -1); if (k == "omset") return run<OMS>(argc, argv, -1);
    if (k == "umap") return run<UM>(argc, argv, -1); if (k == "omap") return run<OM>(argc, argv, -1);
    return 2;
}
