// C16 harness (allotment clause): a real r1::market with real arenas as clients; seeded random sequences of adjust_demand /
// set_active_num_workers; after every call the requests the arenas computed and the allotment vector the market wrote are logged and
// validated by TLC against the Market specification (TraceMarket.tla).
//   h_market <trace> <config A|B|C> <nseq> <seed0> <len>
#include "oneapi/tbb/task_arena.h"
#include "tbb/pm_client.h"
#include "tbb/market.h"
#include "tbb/arena.h"
#include "tbb/thread_request_serializer.h"
#include "vh.h"
#include <random>
using namespace tbb::detail;
static vh::TraceOut TR;
struct Sink : r1::thread_request_observer { long total = 0; void update(int d) override { total += d; } };
struct Cfg { int n; unsigned level[4]; unsigned maxw[4]; };
// must agree with LevelDef* / MDef* in spec/sched/TraceMarket.tla
static const Cfg CFG_A = {3, {0, 1, 1, 0}, {2, 3, 0, 0}}, CFG_B = {4, {0, 1, 2, 1}, {1, 2, 3, 0}}, CFG_C = {4, {1, 1, 1, 1}, {3, 1, 2, 1}};
int main(int argc, char** argv) {
    if (argc < 6) return 2;
    TR.open(argv[1]); const Cfg& C = argv[2][0] == 'A' ? CFG_A : argv[2][0] == 'B' ? CFG_B : CFG_C; int nseq = atoi(argv[3]); unsigned long seed0 = strtoul(argv[4], nullptr, 10); int len = atoi(argv[5]);
    long calls = 0; vh::Timer tm;
    for (int s = 0; s < nseq; s++) {
        std::mt19937_64 rng(seed0 + s);
        int soft = (int)(rng() % 7);
        r1::market* m = new r1::market(soft); Sink sink; m->set_thread_request_observer(sink);
        std::vector<r1::arena*> ar; std::vector<r1::pm_client*> cl;
        for (int i = 0; i < C.n; i++) {            // arena with maxw[i] worker slots + 1 reserved slot; a workerless arena is (1,1)
            unsigned slots = C.maxw[i] + 1; r1::arena& a = r1::arena::allocate_arena(nullptr, slots, 1, C.level[i]);
            ar.push_back(&a); r1::pm_client* c = m->create_client(a); d1::constraints k{}; m->register_client(c, k); cl.push_back(c); }
        TR.begin_exec(); TR.emit("{\"e\":\"Init\",\"soft\":%d}", soft);
        auto vec = [&](std::function<int(int)> f) { std::ostringstream o; for (int i = 0; i < C.n; i++) o << (i ? "," : "") << f(i); return o.str(); };
        std::vector<int> mand(C.n, 0), treq(C.n, 0);
        for (int k = 0; k < len; k++) {
            if (rng() % 4 == 0) { int nl = (int)(rng() % 7); m->set_active_num_workers(nl);
                TR.emit("{\"e\":\"Soft\",\"nl\":%d,\"allot\":[%s]}", nl, vec([&](int i) { return (int)ar[i]->my_num_workers_allotted.load(); }).c_str()); ++calls; continue; }
            int c = (int)(rng() % C.n); int M = (int)C.maxw[c];
            int mds[3] = {-1, 0, 1}; int md = mds[rng() % 3]; if (mand[c] + md < 0 || mand[c] + md > 1) md = 0;
            int wds[7] = {0, 1, -1, M, -M, 2, -2}; int wd = wds[rng() % 7]; if (treq[c] + wd < -1 || treq[c] + wd > M + 1) wd = 0;
            mand[c] += md; treq[c] += wd;
            m->adjust_demand(*cl[c], md, wd); ++calls;
            TR.emit("{\"e\":\"Adj\",\"c\":%d,\"md\":%d,\"wd\":%d,\"maxw\":[%s],\"minw\":[%s],\"allot\":[%s]}", c + 1, md, wd,
                    vec([&](int i) { return cl[i]->max_workers(); }).c_str(),
                    vec([&](int i) { return cl[i]->min_workers(); }).c_str(),
                    vec([&](int i) { return (int)ar[i]->my_num_workers_allotted.load(); }).c_str());
        }
        // withdraw everything so that the clients can be destroyed
        for (int i = 0; i < C.n; i++) if (mand[i] || treq[i]) m->adjust_demand(*cl[i], -mand[i], -treq[i]);
        for (auto c : cl) m->unregister_and_destroy_client(*c);
    }
    TR.close();
    printf("{\"paths\":%d,\"calls\":%ld,\"wall\":%.2f}\n", nseq, calls, tm.s());
    return 0;
}
