// C16 harness (concurrency bound, slot uniqueness, reserved slots, observers, worker budget): real task_arenas with external logical threads
// AND real RML workers (logical threads too, DESIGN 2.3) under seeded random / PCT cooperative schedules; every run in a fresh process.
// Events Cfg/Limit/In/Out/OE/OX/Quiesce validated by TLC against ArenaAbs (TraceArena.tla).
//   h_arena <trace> <nseeds> <seed0> <maxc> <reserved> <externals> <tasks> <enqueues> <limit> <observer 0|1>
#include "oneapi/tbb/task_arena.h"
#include "oneapi/tbb/task_group.h"
#include "oneapi/tbb/global_control.h"
#include "oneapi/tbb/task_scheduler_observer.h"
#include "sched_common.h"
#include <sys/mman.h>
VS_DEFINE_GLOBALS
using namespace vs;
static int tid() { return cosched::self_id(); }
static void body(int a) {
    int t = tid(); if (t < 0) return;     // (never: every thread that can enter the arena is a logical thread)
    TR.emit("{\"e\":\"In\",\"t\":%d,\"a\":%d,\"i\":%d,\"w\":%d}", t, a, tbb::this_task_arena::current_thread_index(), cosched::self_is_daemon() ? 1 : 0);
    for (int i = 0; i < 3; i++) cosched::yield_point();
    TR.emit("{\"e\":\"Out\",\"t\":%d,\"a\":%d}", t, a);
}
struct Obs : tbb::task_scheduler_observer {
    int a; Obs(tbb::task_arena& ar, int a_) : tbb::task_scheduler_observer(ar), a(a_) { observe(true); }
    void on_scheduler_entry(bool) override { if (tid() >= 0) TR.emit("{\"e\":\"OE\",\"t\":%d,\"a\":%d}", tid(), a); }
    void on_scheduler_exit(bool) override { if (tid() >= 0) TR.emit("{\"e\":\"OX\",\"t\":%d,\"a\":%d}", tid(), a); }
};
struct Stats { long paths, steps, stuck, workers; };
static int g_left;
int main(int argc, char** argv) {
    if (argc < 11) { fprintf(stderr, "usage\n"); return 2; }
    FILE* out = fopen(argv[1], "w"); int nseeds = atoi(argv[2]); unsigned long seed0 = strtoul(argv[3], nullptr, 10);
    int maxc = atoi(argv[4]), res_ = atoi(argv[5]), E = atoi(argv[6]), K = atoi(argv[7]), Q = atoi(argv[8]), L = atoi(argv[9]); bool ob = atoi(argv[10]) != 0;
    Stats* st = (Stats*)mmap(nullptr, sizeof(Stats), PROT_READ | PROT_WRITE, MAP_SHARED | MAP_ANONYMOUS, -1, 0); memset(st, 0, sizeof *st);
    vh::Timer tm; static const int dens[8] = {1, 3, 10, 40, -1, -2, -3, -5}; long crashed = 0;
    std::string tmp = std::string(argv[1]) + ".child"; bool first = true;
    for (int s = 0; s < nseeds && st->stuck < 6 && crashed < 4; s++) {
        crashed += forked_case(tmp.c_str(), out, first, 240, [&] {
            { tbb::task_arena warm(1, 1); warm.initialize(); }                        // library start-up outside scheduler control
            TR.begin_exec(); TR.emit("{\"e\":\"Scenario\",\"name\":\"a%d_%d_e%d_k%d_q%d_L%d_o%d\"}", maxc, res_, E, K, Q, L, ob ? 1 : 0);
            tbb::global_control* gc = L ? new tbb::global_control(tbb::global_control::max_allowed_parallelism, L) : nullptr; (void)gc;
            if (L) TR.emit("{\"e\":\"Limit\",\"L\":%d}", L);
            tbb::task_arena* ar = new tbb::task_arena(maxc, res_); TR.emit("{\"e\":\"Cfg\",\"a\":1,\"maxc\":%d,\"res\":%d}", maxc, res_);
            Obs* o = ob ? new Obs(*ar, 1) : nullptr; (void)o;
            g_left = E * Q;
            Sched S; S.stall_limit = 400000; S.log_schedule = true; focus_only(false);
            S.spawn(E, [&](int id) {
                for (int q = 0; q < Q; q++) ar->enqueue([] { body(1); __atomic_fetch_sub(&g_left, 1, __ATOMIC_SEQ_CST); });
                ar->execute([&] { tbb::task_group tg; for (int k = 0; k < K; k++) tg.run([] { body(1); }); body(1); tg.wait(); });
                while (__atomic_load_n(&g_left, __ATOMIC_SEQ_CST) > 0) cosched::yield_point();          // all enqueued tasks ran
            });
            int rc = S.run_random(seed0 + s, 30000000, dens[s % 8]);
            TR.sched(S.sched_log); st->steps += S.steps; ++st->paths; st->workers += S.daemons_created;
            if (rc != RC_OK) { TR.emit("{\"e\":\"Stuck\",\"rc\":\"%s\"}", rc_name(rc).c_str()); ++st->stuck; return; }
            S.join_all();                                  // workers are run on until they have left the arena and sleep
            TR.emit("{\"e\":\"Quiesce\"}");
        }, &s);
    }
    fclose(out);
    printf("{\"paths\":%ld,\"steps\":%ld,\"stuck\":%ld,\"crashed\":%ld,\"workers\":%ld,\"wall\":%.2f}\n", st->paths, st->steps, st->stuck, crashed, st->workers, tm.s());
    return 0;
}
