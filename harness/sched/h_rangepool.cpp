// C05 harness (the partitioners' pool of sub-ranges): every transition of RangePool.tla - (ring of ranges with depths, head, tail, size) x operation - is applied to a
// REAL d1::range_vector<blocked_range<int>, 8> (ring and indices set white-box to the source state); the real outcome is logged as an Op event for TraceRangePool
// (the verdict) and compared with the transcription's prediction (drift).
//   h_rangepool <transitions> <trace-out>     line: grain|head|tail|size|slots (lo.hi.d per ring index, '-' = dead)|op|arg|head1|tail1|size1|slots1
#include "vh.h"
#include "oneapi/tbb/blocked_range.h"
#include "oneapi/tbb/partitioner.h"
using namespace tbb::detail;
typedef tbb::blocked_range<int> R; typedef d1::range_vector<R, 8> RV;
static std::string live(RV& v) { std::string s; for (int k = 0; k < (int)v.my_size; k++) { int i = (v.my_tail + k) % 8; R& r = v.my_pool.begin()[i]; s += (k ? "," : "") + std::string("[") + std::to_string(r.begin()) + "," + std::to_string(r.end()) + "," + std::to_string((int)v.my_depth[i]) + "]"; } return s; }
static std::string ring(RV& v) { std::string s; std::set<int> lv; for (int k = 0; k < (int)v.my_size; k++) lv.insert((v.my_tail + k) % 8);
    for (int i = 0; i < 8; i++) { if (i) s += ","; if (!lv.count(i)) s += "-"; else { R& r = v.my_pool.begin()[i]; s += std::to_string(r.begin()) + "." + std::to_string(r.end()) + "." + std::to_string((int)v.my_depth[i]); } } return s; }
int main(int argc, char** argv) {
    if (argc < 3) return 2;
    std::ifstream in(argv[1]); vh::TraceOut TR; TR.open(argv[2]); TR.begin_exec();
    std::string line; long n = 0, drift = 0; int shown = 0; vh::Timer tm;
    while (std::getline(in, line)) {
        auto f = vh::split(line + "|", '|'); if (f.size() < 11) continue;
        int grain = atoi(f[0].c_str()), head = atoi(f[1].c_str()), tail = atoi(f[2].c_str()), size = atoi(f[3].c_str()); auto slots = vh::split(f[4], ','); std::string op = f[5]; int arg = atoi(f[6].c_str());
        RV v(R(0, 1, grain)); v.my_head = head; v.my_tail = tail; v.my_size = size;
        for (int i = 0; i < 8; i++) if (slots[i] != "-") { auto x = vh::split(slots[i], '.'); new (v.my_pool.begin() + i) R(atoi(x[0].c_str()), atoi(x[1].c_str()), grain); v.my_depth[i] = (d1::depth_t)atoi(x[2].c_str()); }
        std::string pre = live(v);
        if (op == "fill") v.split_to_fill((d1::depth_t)arg); else if (op == "back") v.pop_back(); else v.pop_front();
        TR.emit("{\"e\":\"Op\",\"op\":\"%s\",\"arg\":%d,\"grain\":%d,\"pre\":[%s],\"post\":[%s]}", op.c_str(), arg, grain, pre.c_str(), live(v).c_str());
        ++n;
        std::string real = std::to_string((int)v.my_head) + "|" + std::to_string((int)v.my_tail) + "|" + std::to_string((int)v.my_size) + "|" + ring(v), want = f[7] + "|" + f[8] + "|" + f[9] + "|" + f[10];
        if (v.my_size == 0) { real = std::to_string((int)v.my_size); want = f[9]; }         // (head / tail of an empty ring carry no meaning)
        if (real != want) { ++drift; if (shown++ < 5) fprintf(stderr, "SPEC-DRIFT range_vector %s(%d) grain %d on %s|%s|%s|%s: model %s, real %s\n", op.c_str(), arg, grain, f[1].c_str(), f[2].c_str(), f[3].c_str(), f[4].c_str(), want.c_str(), real.c_str()); }
        v.my_size = 0;
    }
    TR.close();
    printf("{\"transitions\":%ld,\"drift\":%ld,\"wall\":%.2f}\n", n, drift, tm.s());
    return 0;
}
