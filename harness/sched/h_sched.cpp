// C01 / C16(isolation) / C20 harness: integrated scheduler scenarios on N logical threads of an all-reserved arena under seeded random
// cooperative schedules over every atomic of the scheduler; Submit/Begin/End/WaitRet/Suspend/Resume/Continue/Quiesce events validated
// against SchedAbs (TraceSched.tla).
//   h_sched <trace> <scenario|all> <nseeds> <seed0> <nthreads>
#include "oneapi/tbb/task_group.h"
#include "oneapi/tbb/task_arena.h"
#include "oneapi/tbb/task.h"
#include "oneapi/tbb/parallel_for.h"
#include "sched_common.h"
VS_DEFINE_GLOBALS
using namespace vs;
static int g_written[65];                       // plain writes of the units (visibility clause)
static thread_local int tl_scope = 0;           // isolation scope the current thread is waiting in
static void submit(int u, int g, int s = 0) { TR.emit("{\"e\":\"Submit\",\"u\":%d,\"g\":%d,\"s\":%d}", u, g, s); }
struct Unit {
    int u; std::function<void()> inner;
    void operator()() const { TR.emit("{\"e\":\"Begin\",\"u\":%d,\"scope\":%d}", u, tl_scope); if (inner) inner(); g_written[u] = 1; TR.emit("{\"e\":\"End\",\"u\":%d}", u); }
};
static void waitret(int g, std::initializer_list<int> units) { int seen = 0; for (int u : units) seen += g_written[u]; TR.emit("{\"e\":\"WaitRet\",\"g\":%d,\"seen\":%d}", g, seen); }

static void sc_nested() {
    tbb::task_group tg;
    for (int k = 0; k < 3; k++) { int u = 1 + k; submit(u, 1); tg.run(Unit{u, [k] {
        tbb::task_group in; int a = 10 + 2 * k, b = 11 + 2 * k, g = 2 + k;
        submit(a, g); in.run(Unit{a, nullptr}); submit(b, g); in.run_and_wait(Unit{b, nullptr});
        TR.emit("{\"e\":\"WaitRet\",\"g\":%d,\"seen\":%d}", g, g_written[a] + g_written[b]); }}); }
    tg.wait(); waitret(1, {1, 2, 3});
}
static void sc_fanout() {       // tasks that submit tasks to the group that is being waited for
    tbb::task_group tg;
    for (int k = 0; k < 2; k++) { int u = 1 + k; submit(u, 1); tg.run(Unit{u, [&tg, k] { for (int j = 0; j < 2; j++) { int c = 10 + 2 * k + j; submit(c, 1); tg.run(Unit{c, [&tg, c] { if (c == 10) { submit(20, 1); tg.run(Unit{20, nullptr}); } }}); } }}); }
    tg.wait(); waitret(1, {1, 2, 10, 11, 12, 13, 20});
}
static void sc_enqueue() {      // enqueued task handles + deferred handles + run_and_wait
    tbb::task_group tg;
    for (int k = 0; k < 3; k++) { int u = 1 + k; submit(u, 1); cur_arena->enqueue(tg.defer(Unit{u, nullptr})); }
    submit(4, 1); auto h = tg.defer(Unit{4, nullptr}); submit(5, 1); tg.run(Unit{5, nullptr}); tg.run(std::move(h));
    submit(6, 1); tg.run_and_wait(Unit{6, nullptr}); waitret(1, {1, 2, 3, 4, 5, 6});
    // execute() into the same arena from inside and a parallel algorithm whose chunks are the units of the call
    cur_arena->execute([&] { submit(7, 2); tbb::task_group in; in.run_and_wait(Unit{7, nullptr}); waitret(2, {7}); });
}
static void sc_isolate() {
    tbb::task_group out;
    for (int k = 0; k < 3; k++) { int u = 1 + k; submit(u, 1, 0); out.run(Unit{u, nullptr}); }
    tbb::this_task_arena::isolate([&] { tl_scope = 7; tbb::task_group in; for (int k = 0; k < 3; k++) { int u = 10 + k; submit(u, 2, 7); in.run(Unit{u, [u] {
            if (u == 10) { tbb::task_group deep; submit(20, 3, 7); deep.run(Unit{20, nullptr}); submit(21, 3, 7); deep.run_and_wait(Unit{21, nullptr}); TR.emit("{\"e\":\"WaitRet\",\"g\":3,\"seen\":%d}", g_written[20] + g_written[21]); } }}); }
        in.wait(); tl_scope = 0; waitret(2, {10, 11, 12}); });
    out.wait(); waitret(1, {1, 2, 3});
}
static int g_e_begun;
static void sc_isolate2() {   // an enqueued task with nested parallelism is submitted and runs while thread 0 waits inside an isolated scope: its children carry no tag and
    // must not be executed by the isolated waiter, whichever way (steal, mailbox, FIFO stream) the thread that runs them obtained its previous task
    tbb::task_group out; g_e_begun = 0;
    tbb::this_task_arena::isolate([&] { tl_scope = 7; tbb::task_group in;
        for (int k = 0; k < 2; k++) { int u = 10 + k; submit(u, 2, 7); in.run(Unit{u, [] { for (long i = 0; i < 20000 && !__atomic_load_n(&g_e_begun, __ATOMIC_SEQ_CST); i++) cosched::yield_point(); for (int i = 0; i < 4; i++) cosched::yield_point(); }}); }
        submit(1, 1, 0); cur_arena->enqueue(out.defer(Unit{1, [] { __atomic_store_n(&g_e_begun, 1, __ATOMIC_SEQ_CST); tbb::task_group nested;
            for (int k = 0; k < 4; k++) { int u = 20 + k; submit(u, 3, 0); nested.run(Unit{u, [] { for (int i = 0; i < 3; i++) cosched::yield_point(); }}); }
            nested.wait(); TR.emit("{\"e\":\"WaitRet\",\"g\":3,\"seen\":%d}", g_written[20] + g_written[21] + g_written[22] + g_written[23]); }}));
        in.wait(); tl_scope = 0; waitret(2, {10, 11}); });
    out.wait(); waitret(1, {1});
}
static std::atomic<void*> g_sp[4];
static void sc_suspend(int variant) {
    tbb::task_group tg; for (auto& x : g_sp) x.store(nullptr);
    // unit 1 suspends itself; the resume comes from unit 2 (another task, possibly on a thief), from the callback itself, or nested
    submit(1, 1); tg.run(Unit{1, [variant] {
        TR.emit("{\"e\":\"Suspend\",\"u\":1}");
        tbb::task::suspend([variant](tbb::task::suspend_point sp) { if (variant == 1) { TR.emit("{\"e\":\"Resume\",\"u\":1}"); tbb::task::resume(sp); } else g_sp[0].store(sp); });
        TR.emit("{\"e\":\"Continue\",\"u\":1}");
        if (variant == 2) { TR.emit("{\"e\":\"Suspend\",\"u\":3}"); }   // nested second suspension uses id 3 (declared below)
    }});
    if (variant != 1) { submit(2, 1); tg.run(Unit{2, [] { void* p; while (!(p = g_sp[0].load())) cosched::yield_point(); TR.emit("{\"e\":\"Resume\",\"u\":1}"); tbb::task::resume((tbb::task::suspend_point)p); }}); }
    submit(4, 1); tg.run(Unit{4, nullptr});       // other work the suspending thread keeps executing meanwhile
    tg.wait(); if (variant == 1) waitret(1, {1, 4}); else waitret(1, {1, 2, 4});
}
static void sc_suspend2() {     // two units suspend, resumed in the opposite order by a third
    tbb::task_group tg; for (auto& x : g_sp) x.store(nullptr);
    for (int k = 0; k < 2; k++) { int u = 1 + k; submit(u, 1); tg.run(Unit{u, [u, k] { TR.emit("{\"e\":\"Suspend\",\"u\":%d}", u);
        tbb::task::suspend([k](tbb::task::suspend_point sp) { g_sp[k].store(sp); }); TR.emit("{\"e\":\"Continue\",\"u\":%d}", u); }}); }
    submit(3, 1); tg.run(Unit{3, [] { for (int k = 1; k >= 0; k--) { void* p; while (!(p = g_sp[k].load())) cosched::yield_point(); TR.emit("{\"e\":\"Resume\",\"u\":%d}", k + 1); tbb::task::resume((tbb::task::suspend_point)p); } }});
    tg.wait(); waitret(1, {1, 2, 3});
}
static void sc_suspendF() {    // resumed by a foreign thread (outside the arena); in an arena of size 1 this is the owner-recall path
    tbb::task_group tg; for (auto& x : g_sp) x.store(nullptr);
    submit(1, 1); tg.run(Unit{1, [] { TR.emit("{\"e\":\"Suspend\",\"u\":1}"); tbb::task::suspend([](tbb::task::suspend_point sp) { g_sp[0].store(sp); }); TR.emit("{\"e\":\"Continue\",\"u\":1}"); }});
    submit(4, 1); tg.run(Unit{4, nullptr});
    tg.wait(); waitret(1, {1, 4});
}
static void track_sp(void* sp) {   // the hand-shake words of a suspend point are the focus of the priority schedules (change points right after an access to them)
    auto* p = (tbb::detail::r1::suspend_point_type*)sp; cosched::track(&p->m_stack_state); cosched::track(&p->m_is_owner_recalled); }
static void sc_suspendF3() {   // one task suspends three times in a row on the same stack; every suspension is resumed by a foreign thread (owner recall when the arena has one slot)
    tbb::task_group tg; for (auto& x : g_sp) x.store(nullptr);
    submit(1, 1); tg.run(Unit{1, [] { for (int k = 0; k < 3; k++) { int u = 30 + k; TR.emit("{\"e\":\"Submit\",\"u\":%d,\"g\":2,\"s\":0}", u); TR.emit("{\"e\":\"Begin\",\"u\":%d,\"scope\":0}", u);
        TR.emit("{\"e\":\"Suspend\",\"u\":%d}", u);
        tbb::task::suspend([k](tbb::task::suspend_point sp) { track_sp(sp); g_sp[k].store(sp); });
        TR.emit("{\"e\":\"Continue\",\"u\":%d}", u); TR.emit("{\"e\":\"End\",\"u\":%d}", u); } }});
    submit(4, 1); tg.run(Unit{4, nullptr});
    tg.wait(); waitret(1, {1, 4});
}
static void foreign_resumer3() { for (int k = 0; k < 3; k++) { void* p; while (!(p = g_sp[k].load())) cosched::yield_point(); for (int i = 0; i < 2; i++) cosched::yield_point(); TR.emit("{\"e\":\"Resume\",\"u\":%d}", 30 + k); tbb::task::resume((tbb::task::suspend_point)p); } }
static void foreign_resumer() { void* p; while (!(p = g_sp[0].load())) cosched::yield_point(); TR.emit("{\"e\":\"Resume\",\"u\":1}"); tbb::task::resume((tbb::task::suspend_point)p); }
// probe: the order of the two stores of suspend_point_type::recall_owner() as executed by the running code (fact for spec/sched/Recall.tla, DESIGN 2.6)
static int probe_recall() {
    using SP = tbb::detail::r1::suspend_point_type;
    SP* sp = (SP*)calloc(1, sizeof(SP)); vh::rawstore(sp->m_stack_state, SP::stack_state::suspended);
    std::vector<const void*> stores;
    Sched S; focus_only(false);
    S.spawn(1, [&](int) { sp->recall_owner(); });
    while (!S.done(0)) { Pending p = S.pending(0); if (p.kind == K_STORE || p.kind == K_RMW) stores.push_back(p.addr); S.step(0); }
    S.join_all();
    const char* order = "unknown";
    if (stores.size() >= 2) order = stores[0] == (const void*)&sp->m_stack_state && stores[1] == (const void*)&sp->m_is_owner_recalled ? "state" : stores[0] == (const void*)&sp->m_is_owner_recalled && stores[1] == (const void*)&sp->m_stack_state ? "flag" : "unknown";
    printf("{\"recall_order\":\"%s\",\"stores\":%zu}\n", order, stores.size());
    return 0;
}
int main(int argc, char** argv) {
    if (argc >= 2 && !strcmp(argv[1], "probe_recall")) return probe_recall();
    if (argc < 6) return 2;
    TR.open(argv[1]); std::string sc = argv[2]; int nseeds = atoi(argv[3]); unsigned long seed0 = strtoul(argv[4], nullptr, 10); int N = atoi(argv[5]);
    long paths = 0, steps = 0, stuck = 0; vh::Timer tm; static const int dens[8] = {1, 3, 10, 40, -1, -2, -3, -5};
    std::vector<std::pair<std::string, std::function<void()>>> all = {{"nested", sc_nested}, {"fanout", sc_fanout}, {"enqueue", sc_enqueue}, {"isolate", sc_isolate}, {"isolate2", sc_isolate2},
        {"suspend0", [] { sc_suspend(0); }}, {"suspend1", [] { sc_suspend(1); }}, {"suspend2", sc_suspend2}, {"suspendF", sc_suspendF}, {"suspendF3", sc_suspendF3}};
    for (int s = 0; s < nseeds; s++) for (auto& kv : all) {
        if (stuck >= 10) break; if (sc != "all" && sc != kv.first && !(sc == "c01" && kv.first.find("suspend") == std::string::npos && kv.first.find("isolate") != 0) && !(sc == "c20" && kv.first.find("suspend") == 0)) continue;
        if (N == 1 && (kv.first == "suspend0" || kv.first == "suspend2")) continue;   // a task that spin-waits for another task needs a second thread
        cosched::untrack_all(); TR.begin_exec(); memset(g_written, 0, sizeof g_written); for (auto& x : g_sp) vh::rawstore(x, (void*)nullptr);
        TR.emit("{\"e\":\"Scenario\",\"name\":\"%s\",\"threads\":%d}", kv.first.c_str(), N);
        Result r = isolated_run(300, [&] { return run_in_arena(N, seed0 + s * 7919 + paths, dens[s % 8], 30000000, [&] { kv.second(); TR.emit("{\"e\":\"Quiesce\"}"); }, true,
                                kv.first == "suspendF" ? std::function<void()>(foreign_resumer) : kv.first == "suspendF3" ? std::function<void()>(foreign_resumer3) : std::function<void()>()); }); ++paths; steps += r.steps; if (r.rc) ++stuck;
    }
    TR.close();
    printf("{\"paths\":%ld,\"steps\":%ld,\"stuck\":%ld,\"wall\":%.2f}\n", paths, steps, stuck, tm.s());
    return 0;
}
