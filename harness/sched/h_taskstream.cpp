// C01 / C02 harness (enqueue container): replays every edge of the TaskStream.tla state graph on a REAL r1::task_stream<front_accessor> with 2 lanes
// (white box), one tracked access per step, comparing (population, lane mutex flags) after every step; Push / Got events for TraceTaskPool-style validation.
//   h_taskstream <schedules> <trace-out> <pushN of pusher 1> <pushN of pusher 2> <popN> [<accessor f|b> <tag of pusher 1> <tag of pusher 2> <specN> <tag of thread 3>]
// with specN > 0 thread 3 calls pop_specific(hint, its tag) specN times (the critical-task stream of an arena: back_nonnull accessor, isolation tags)
#include "vh_tbb.h"
#include "tbb/task_stream.h"
using namespace cosched;
using namespace tbb::detail;
using vh::rawload;
struct DummyTask : d1::task { int id; d1::task* execute(d1::execution_data&) override { return nullptr; } d1::task* cancel(d1::execution_data&) override { return nullptr; } };
static std::map<std::string, std::pair<int, int>> LAB;   // label -> (kind, var)  var: 0 population, 1 mutex of the thread's current lane
static void L(const char* l, int k, int v) { LAB[l] = {k, v}; }
template <r1::task_stream_accessor_type ACC> static int run(int argc, char** argv) {
    int tag[3] = {0, argc > 7 ? atoi(argv[7]) : 0, argc > 8 ? atoi(argv[8]) : 0}; int specn = argc > 9 ? atoi(argv[9]) : 0; int spectag = argc > 10 ? atoi(argv[10]) : 0;
    L("SP1",K_LOAD,0);L("SP2",K_LOAD,1);L("SP3",K_RMW,1);L("SP5",K_RMW,0);L("SP6",K_RMW,1);L("SPe",K_LOAD,0);
    L("PU1",K_LOAD,1);L("PU2",K_RMW,1);L("PU3",K_RMW,0);L("PU4",K_RMW,1);L("PO1",K_LOAD,0);L("PO2",K_LOAD,0);L("PO3",K_LOAD,1);L("PO4",K_RMW,1);L("PO6",K_RMW,0);L("PO7",K_RMW,1);
    int pushn[3] = {0, atoi(argv[3]), atoi(argv[4])}; int popn = atoi(argv[5]);
    vh::TraceOut TR; TR.open(argv[2]);
    DummyTask tasks[40]; for (int i = 0; i < 40; i++) tasks[i].id = i;
    std::ifstream in(argv[1]); std::string line; long paths = 0, steps = 0, drift = 0, mismatch = 0, stuck = 0, skipped = 0; vh::Timer tm; int shown = 0;
    while (std::getline(in, line) && stuck < 10) {
        r1::task_stream<ACC>* ts = new r1::task_stream<ACC>; ts->initialize(2);
        const void* a_pop = &ts->population; const void* a_mtx[2] = {&ts->lanes[0].my_mutex.my_flag, &ts->lanes[1].my_mutex.my_flag};
        untrack_all(); track(a_pop); track(a_mtx[0]); track(a_mtx[1]); focus_only(true);
        TR.begin_exec();
        Sched S; S.stall_limit = 4000;
        S.spawn(4, [&](int id) {
            int self = id + 1; unsigned prev = 0;
            if (self <= 2) for (int k = 1; k <= pushn[self]; k++) { int t = self * 10 + k; r1::task_accessor::isolation(tasks[t]) = (r1::isolation_type)tag[self]; TR.emit("{\"e\":\"Spawn\",\"id\":%d}", t); ts->push(&tasks[t], r1::subsequent_lane_selector(prev)); }
            else if (self == 3 && specn > 0) for (int n = 0; n < specn; n++) { d1::task* t = ts->pop_specific(prev, (r1::isolation_type)spectag);
                if (t) { int id = static_cast<DummyTask*>(t)->id; TR.emit("{\"e\":\"Got\",\"t\":%d,\"id\":%d}", self, id); if ((int)r1::task_accessor::isolation(*t) != spectag) TR.emit("{\"e\":\"Crash\",\"what\":\"pop_specific returned a task of another isolation\"}"); } }
            else for (int n = 0; n < popn; n++) { d1::task* t = ts->pop(r1::preceding_lane_selector(prev)); if (t) TR.emit("{\"e\":\"Got\",\"t\":%d,\"id\":%d}", self, static_cast<DummyTask*>(t)->id); }
        });
        ++paths; bool drifted = false;
        for (auto& tok : vh::parse_schedule(line)) {
            auto it = LAB.find(tok.label); if (it == LAB.end()) { ++skipped; continue; }
            int t = tok.t - 1;
            if (!S.runnable(t)) { if (!drifted) { drifted = true; ++drift; if (shown++ < 5) fprintf(stderr, "SPEC-DRIFT path %ld: thread %d not runnable at %s\n", paths, t + 1, tok.label.c_str()); } continue; }
            Pending p = S.pending(t);
            bool addr_ok = it->second.second == 0 ? p.addr == a_pop : (p.addr == a_mtx[0] || p.addr == a_mtx[1]);
            if (!drifted && (p.kind != it->second.first || !addr_ok)) { drifted = true; ++drift; if (shown++ < 5) fprintf(stderr, "SPEC-DRIFT path %ld at %d:%s: code is about to do kind %d on %s\n", paths, t + 1, tok.label.c_str(), p.kind, p.addr == a_pop ? "population" : (p.addr == a_mtx[0] || p.addr == a_mtx[1]) ? "a lane mutex" : "?"); }
            S.step(t); ++steps;
            if (!drifted && !tok.state.empty()) {
                std::string real = std::to_string((unsigned long)rawload(ts->population)) + "," + std::to_string((int)rawload(ts->lanes[0].my_mutex.my_flag.my_atomic)) + "," + std::to_string((int)rawload(ts->lanes[1].my_mutex.my_flag.my_atomic));
                if (real != tok.state) { drifted = true; ++mismatch; if (shown++ < 5) fprintf(stderr, "SPEC-DRIFT path %ld at %d:%s expected %s real %s\n", paths, t + 1, tok.label.c_str(), tok.state.c_str(), real.c_str()); }
            }
        }
        int rc = S.finish(300000);
        if (rc != RC_OK) { ++stuck; TR.emit("{\"e\":\"Stuck\",\"rc\":\"%s\"}", rc_name(rc).c_str()); S.join_all(); continue; }
        S.join_all();
        // quiescence: whatever is still advertised is drained (nothing may be lost: a task in a lane whose bit is clear would never be found)
        focus_only(false); unsigned prev = 0;
        for (int k = 0; k < 8; k++) { d1::task* t = ts->pop(r1::preceding_lane_selector(prev)); if (t) TR.emit("{\"e\":\"Got\",\"t\":0,\"id\":%d}", static_cast<DummyTask*>(t)->id); }
        TR.emit("{\"e\":\"End\"}");
        delete ts;
    }
    TR.close();
    printf("{\"paths\":%ld,\"steps\":%ld,\"drift\":%ld,\"state_mismatch\":%ld,\"stuck\":%ld,\"skipped_local\":%ld,\"wall\":%.2f}\n", paths, steps, drift, mismatch, stuck, skipped, tm.s());
    return 0;
}
int main(int argc, char** argv) {
    if (argc < 6) return 2;
    return argc > 6 && argv[6][0] == 'b' ? run<r1::back_nonnull_accessor>(argc, argv) : run<r1::front_accessor>(argc, argv);
}
