// C01 harness (task-pool part): replays every edge of the TaskPool.tla state graph on a REAL arena_slot (white box: spawn / get_task /
// steal_task of arena->my_slots[1] inside a real task_arena(3,3)), one tracked access per step, comparing (head, tail, lock word) after
// every step; records Spawn / Got events for validation against TraceTaskPool.
//   h_taskpool <schedules> <trace-out> <owner-prog e.g. 1,2,-1,3,-1,-1> <nsteal> [<iso of task 1,2,..> <iso of thief 1,2>]
//   (TaskPoolIso.tla: owner op -(1+g) = get_task with isolation tag g; tasks carry isolation tags; thieves steal with a tag)
#include "vh_tbb.h"
#include "tbb/arena_slot.h"
using namespace cosched;
using namespace tbb::detail;
using vh::rawload;
struct DummyTask : d1::task { int id; d1::task* execute(d1::execution_data&) override { return nullptr; } d1::task* cancel(d1::execution_data&) override { return nullptr; } };
static std::map<std::string, std::pair<int, int>> LAB;   // label -> (kind, var)  var: 0 head 1 tail 2 lock
static void L(const char* l, int k, int v) { LAB[l] = {k, v}; }
int main(int argc, char** argv) {
    if (argc < 5) return 2;
    L("S1",K_LOAD,1);L("A1",K_LOAD,2);L("A2",K_LOAD,2);L("A3",K_CAS,2);L("S_h",K_LOAD,0);L("S_cl",K_LOAD,1);L("S_c1",K_STORE,0);L("S_c2",K_STORE,1);L("S_c3",K_LOAD,2);L("S_c4",K_STORE,2);
    L("S_tail",K_STORE,1);L("S_pub",K_LOAD,2);L("S_pub2",K_STORE,2);L("G0",K_LOAD,2);L("G0b",K_LOAD,1);L("G1",K_RMW,1);L("G2",K_LOAD,0);L("B1",K_LOAD,2);L("B2",K_LOAD,2);L("B3",K_CAS,2);
    L("G3",K_LOAD,0);L("G4",K_STORE,1);L("G5",K_STORE,0);L("G6",K_STORE,2);L("G7",K_LOAD,2);L("G8",K_STORE,2);
    L("E1",K_STORE,0);L("E2",K_STORE,1);L("E3",K_STORE,2);L("E5",K_STORE,1);L("K7",K_STORE,0);
    L("L0",K_LOAD,2);L("L1",K_LOAD,2);L("L2",K_CAS,2);L("K1",K_LOAD,0);L("K2",K_RMW,0);L("K3",K_LOAD,1);L("K4",K_STORE,0);L("U1",K_STORE,2);
    std::vector<int> OP; for (auto& s : vh::split(argv[3], ',')) OP.push_back(atoi(s.c_str()));
    int NSTEAL = atoi(argv[4]);
    std::vector<int> TISO, THISO = {0, 0, 0}; if (argc > 6) { for (auto& x : vh::split(argv[5], ',')) TISO.push_back(atoi(x.c_str())); int k = 1; for (auto& x : vh::split(argv[6], ',')) THISO[k++] = atoi(x.c_str()); }
    tbb::task_arena helper(3, 3); helper.initialize();      // the logical threads sit in this arena only to own a real task dispatcher (get_task's epilogue advertises new work through it)
    vh::TraceOut TR; TR.open(argv[2]);
    tbb::task_arena ta(3, 3); ta.initialize();
    r1::arena* a = ta.my_arena.load();
    r1::arena_slot& slot = a->my_slots[1];
    DummyTask tasks[16]; for (int i = 0; i < 16; i++) { tasks[i].id = i; r1::task_accessor::isolation(tasks[i]) = (i >= 1 && i <= (int)TISO.size()) ? (r1::isolation_type)TISO[i - 1] : r1::no_isolation; }
    r1::execution_data_ext ed{};
    slot.spawn(tasks[15]); { d1::task* t = slot.get_task(ed, r1::no_isolation); if (t != &tasks[15]) { fprintf(stderr, "setup failed\n"); return 2; } }   // allocates the pool (64 cells)
    const void* vaddr[3] = {&slot.head, &slot.tail, &slot.task_pool};
    std::ifstream in(argv[1]); std::string line; long paths = 0, steps = 0, drift = 0, mismatch = 0, stuck = 0, skipped = 0; vh::Timer tm; int shown = 0;
    while (std::getline(in, line) && stuck < 10) {
        size_t cap = slot.my_task_pool_size;
        vh::rawstore(slot.head, cap - 2); vh::rawstore(slot.tail, cap - 2); vh::rawstore(slot.task_pool, (d1::task**)nullptr);   // state injection: head = tail = 62, EmptyTaskPool
        untrack_all(); for (auto p : vaddr) track(p); focus_only(true);
        TR.begin_exec();
        Sched S; S.stall_limit = 4000;
        S.spawn(3, [&](int id) { helper.execute([&] {
            r1::execution_data_ext myed{}; myed.task_disp = r1::governor::get_thread_data()->my_task_dispatcher;
            if (id == 0) { for (int op : OP) { if (op > 0) { TR.emit("{\"e\":\"Spawn\",\"id\":%d}", op); slot.spawn(tasks[op]); }
                                               else { d1::task* t = nullptr; r1::isolation_type iso = (r1::isolation_type)(-op - 1); if (slot.task_pool.load(std::memory_order_relaxed) != r1::EmptyTaskPool) t = slot.get_task(myed, iso); if (t) TR.emit("{\"e\":\"Got\",\"t\":0,\"id\":%d}", static_cast<DummyTask*>(t)->id); } } }
            else { for (int n = 0; n < NSTEAL; n++) { d1::task* t = nullptr; if (slot.task_pool.load(std::memory_order_relaxed) != r1::EmptyTaskPool) t = slot.steal_task(*a, (r1::isolation_type)THISO[id], 1); if (t) TR.emit("{\"e\":\"Got\",\"t\":%d,\"id\":%d}", id, static_cast<DummyTask*>(t)->id); } }
        }); });
        ++paths; bool drifted = false;
        for (auto& tok : vh::parse_schedule(line)) {
            auto it = LAB.find(tok.label); if (it == LAB.end()) { ++skipped; continue; }       // spec-local step: no access in the code
            int t = tok.t;
            if (!S.runnable(t)) { if (!drifted) { drifted = true; ++drift; if (shown++ < 5) fprintf(stderr, "SPEC-DRIFT path %ld: thread %d not runnable at %s\n", paths, t, tok.label.c_str()); } continue; }
            Pending p = S.pending(t);
            if (!drifted && (p.kind != it->second.first || p.addr != vaddr[it->second.second])) { drifted = true; ++drift; if (shown++ < 5) fprintf(stderr, "SPEC-DRIFT path %ld at %d:%s: code is about to do kind %d\n", paths, t, tok.label.c_str(), p.kind); }
            S.step(t); ++steps;
            if (!drifted && !tok.state.empty()) {
                long h = (long)rawload(slot.head), tl = (long)rawload(slot.tail); d1::task** lk = rawload(slot.task_pool);
                std::string real = std::to_string(h) + "," + std::to_string(tl) + "," + (lk == nullptr ? "E" : (lk == r1::LockedTaskPool ? "L" : "P"));
                if (real != tok.state) { drifted = true; ++mismatch; if (shown++ < 5) fprintf(stderr, "SPEC-DRIFT path %ld at %d:%s expected %s real %s\n", paths, t, tok.label.c_str(), tok.state.c_str(), real.c_str()); }
            }
        }
        int rc = S.finish(300000);
        if (rc != RC_OK) { ++stuck; TR.emit("{\"e\":\"Stuck\",\"rc\":\"%s\"}", rc_name(rc).c_str()); S.join_all(); continue; }
        S.join_all();
        // quiescence: drain what is left in the pool (owner side) - nothing may be lost
        focus_only(false);
        for (int k = 0; k < 8; k++) { d1::task* t = nullptr; if (rawload(slot.task_pool) != r1::EmptyTaskPool) t = slot.get_task(ed, r1::no_isolation); if (t) TR.emit("{\"e\":\"Got\",\"t\":0,\"id\":%d}", static_cast<DummyTask*>(t)->id); }
        TR.emit("{\"e\":\"End\"}");
    }
    TR.close();
    printf("{\"paths\":%ld,\"steps\":%ld,\"drift\":%ld,\"state_mismatch\":%ld,\"stuck\":%ld,\"skipped_local\":%ld,\"wall\":%.2f}\n", paths, steps, drift, mismatch, stuck, skipped, tm.s());
    return 0;
}
