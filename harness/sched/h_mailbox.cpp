// C01 harness (affinity mail): replays every edge of the Mailbox.tla state graph on a REAL r1::mail_outbox and real task_proxy objects (white box): the sender
// pushes proxies into the recipient's mailbox and "its pool", the recipient pops the mailbox and claims with extract_task<mailbox_bit>, the pool side claims
// with extract_task<pool_bit>; the loser frees the proxy.  Tracked: my_first, my_last, every proxy's task_and_tag and next_in_mailbox; the projected state is
// compared after every step; Spawn/Got events (task claimed exactly once) and Freed events (proxy freed exactly once, never touched afterwards).
//   h_mailbox <schedules> <trace-out> <NP>
#include "vh_tbb.h"
#include "tbb/mailbox.h"
using namespace cosched;
using namespace tbb::detail;
using vh::rawload;
struct DummyTask : d1::task { int id; d1::task* execute(d1::execution_data&) override { return nullptr; } d1::task* cancel(d1::execution_data&) override { return nullptr; } };
struct Lab { int n; };                     // number of tracked accesses the code performs for the label
static std::map<std::string, int> LAB;
int main(int argc, char** argv) {
    if (argc < 4) return 2;
    // s1: next_in_mailbox.store(nullptr) + my_last.exchange   s2: link->store   r1 first.load  r2 next.load  r3/r4/r7 first.store  r5 CAS last  r6 next.load  r8/p1 tat.load  r9/p2 CAS tat
    for (auto l : {"s2", "r1", "r2", "r3", "r4", "r5", "r6", "r7", "r8", "r9", "p1", "p2"}) LAB[l] = 1; LAB["s1"] = 2;
    int NP = atoi(argv[3]);
    vh::TraceOut TR; TR.open(argv[2]);
    std::ifstream in(argv[1]); std::string line; long paths = 0, steps = 0, drift = 0, mismatch = 0, stuck = 0, skipped = 0; vh::Timer tm; int shown = 0;
    while (std::getline(in, line) && stuck < 10) {
        r1::mail_outbox* box = (r1::mail_outbox*)calloc(1, sizeof(r1::mail_outbox)); box->construct();
        DummyTask tasks[8]; r1::task_proxy* px[8] = {nullptr}; int freed[8] = {0}, got[8] = {0}; int pool[8]; int npool = 0, taken = 0;
        for (int i = 1; i <= NP; i++) { tasks[i].id = i; px[i] = (r1::task_proxy*)calloc(1, sizeof(r1::task_proxy)); new (px[i]) r1::task_proxy; vh::rawstore(px[i]->task_and_tag, (intptr_t)0); vh::rawstore(px[i]->next_in_mailbox, (r1::task_proxy*)nullptr); }
        untrack_all(); track(&box->my_first); track(&box->my_last); for (int i = 1; i <= NP; i++) { track(&px[i]->task_and_tag); track(&px[i]->next_in_mailbox); } focus_only(true);
        TR.begin_exec();
        auto idx = [&](r1::task_proxy* p) { for (int i = 1; i <= NP; i++) if (px[i] == p) return i; return 0; };
        auto claim = [&](int who, int i, bool mail) { if (freed[i]) TR.emit("{\"e\":\"Uaf\",\"p\":%d}", i);
            d1::task* t = mail ? px[i]->extract_task<r1::task_proxy::mailbox_bit>() : px[i]->extract_task<r1::task_proxy::pool_bit>();
            if (t) { ++got[i]; TR.emit("{\"e\":\"Got\",\"t\":%d,\"id\":%d}", who, static_cast<DummyTask*>(t)->id); } else { ++freed[i]; TR.emit("{\"e\":\"Freed\",\"p\":%d,\"n\":%d}", i, freed[i]); } };
        Sched S; S.stall_limit = 4000;
        S.spawn(3, [&](int id) {
            if (id == 0) for (int i = 1; i <= NP; i++) { TR.emit("{\"e\":\"Spawn\",\"id\":%d}", i); vh::rawstore(px[i]->task_and_tag, (intptr_t)&tasks[i] | r1::task_proxy::location_mask); box->push(px[i]); pool[npool] = i; __atomic_store_n(&npool, npool + 1, __ATOMIC_SEQ_CST); }
            else if (id == 1) for (int n = 0; n < NP + 1; n++) { r1::task_proxy* c = box->internal_pop(r1::no_isolation); if (c) claim(1, idx(c), true); }
            else for (int m = 0; m < NP; m++) { while (__atomic_load_n(&npool, __ATOMIC_SEQ_CST) <= taken) cosched::yield_point(); int q = pool[taken++]; claim(2, q, false); }
        });
        ++paths; bool drifted = false;
        for (auto& tok : vh::parse_schedule(line)) {
            auto it = LAB.find(tok.label); if (it == LAB.end()) { ++skipped; continue; }
            int t = tok.label[0] == 's' ? 0 : tok.label[0] == 'r' ? 1 : 2;
            for (int k = 0; k < it->second; k++) {
                // harness-level yields (the pool side waiting for the sender) are stepped over
                while (S.runnable(t) && S.pending(t).kind == K_YIELD) S.step(t);
                if (!S.runnable(t)) { if (!drifted) { drifted = true; ++drift; if (shown++ < 5) fprintf(stderr, "SPEC-DRIFT path %ld: thread %d not runnable at %s\n", paths, t, tok.label.c_str()); } break; }
                S.step(t); ++steps;
            }
            if (!drifted && !tok.state.empty()) {
                std::ostringstream real; r1::task_proxy* f = rawload(box->my_first); auto* l = rawload(box->my_last);
                int li = 0; for (int i = 1; i <= NP; i++) if (l == &px[i]->next_in_mailbox) li = i;
                real << idx(f) << "," << li;
                for (int i = 1; i <= NP; i++) { intptr_t tat = rawload(px[i]->task_and_tag); real << "," << (tat == 0 ? "none" : tat == r1::task_proxy::pool_bit ? "pool" : tat == r1::task_proxy::mailbox_bit ? "mail" : "both"); }
                for (int i = 1; i <= NP; i++) real << "," << idx(rawload(px[i]->next_in_mailbox));
                if (real.str() != tok.state) { drifted = true; ++mismatch; if (shown++ < 5) fprintf(stderr, "SPEC-DRIFT path %ld at %s expected %s real %s\n", paths, tok.label.c_str(), tok.state.c_str(), real.str().c_str()); }
            }
        }
        int rc = S.finish(300000);
        if (rc != RC_OK) { ++stuck; TR.emit("{\"e\":\"Stuck\",\"rc\":\"%s\"}", rc_name(rc).c_str()); S.join_all(); continue; }
        S.join_all();
        // quiescence: what the recipient never saw is still in the mailbox; it is drained (as the arena does at destruction) - those proxies are empty and get freed now
        focus_only(false); while (r1::task_proxy* c = box->internal_pop(r1::no_isolation)) claim(1, idx(c), true);
        TR.emit("{\"e\":\"End\"}");
        for (int i = 1; i <= NP; i++) free(px[i]); free(box);
    }
    TR.close();
    printf("{\"paths\":%ld,\"steps\":%ld,\"drift\":%ld,\"state_mismatch\":%ld,\"stuck\":%ld,\"skipped_local\":%ld,\"wall\":%.2f}\n", paths, steps, drift, mismatch, stuck, skipped, tm.s());
    return 0;
}
