// C03 harness: user callbacks that throw at chosen invocation indices inside the parallel algorithms / task_group / arena / flow graph /
// pipeline; runs on 3 logical threads of an all-reserved arena under seeded random cooperative schedules; each case in a forked child
// (hang / crash / std::terminate become events).  Events are validated against GroupEH (TraceEH.tla).
//   h_eh <trace-out> <program> <fault class 0..5 | -1> <kmax> <seeds per case> <seed0>
#include "oneapi/tbb/parallel_for.h"
#include "oneapi/tbb/parallel_reduce.h"
#include "oneapi/tbb/parallel_for_each.h"
#include "oneapi/tbb/parallel_invoke.h"
#include "oneapi/tbb/parallel_pipeline.h"
#include "oneapi/tbb/parallel_scan.h"
#include "oneapi/tbb/parallel_sort.h"
#include "oneapi/tbb/flow_graph.h"
#include "oneapi/tbb/blocked_range.h"
#include "sched_common.h"    // after the public headers (src/tbb headers declare r1 names that parallel_pipeline.h must see first)
VS_DEFINE_GLOBALS
using namespace vs;

static long g_inv = 0;
struct Scope {    // one user-callback invocation
    int id; int cls; bool done = false;
    Scope(int c) : id((int)__atomic_add_fetch(&g_inv, 1, __ATOMIC_SEQ_CST)), cls(c) { TR.emit("{\"e\":\"BB\",\"i\":%d}", id); maybe_throw_here(); }
    void maybe_throw_here() { if (F.hit(cls)) { done = true; TR.emit("{\"e\":\"Throw\",\"id\":%d,\"cls\":%d}", id, cls); throw Injected{id}; } }
    ~Scope() { if (!done) TR.emit("{\"e\":\"BE\",\"i\":%d}", id); }
};
// library-made copies are tracked (oid > 0); objects the user constructs directly are not (oid 0)
struct Tracked {
    int oid = 0;
    Tracked() {}
    void born() { oid = (int)__atomic_add_fetch(&g_next_obj, 1, __ATOMIC_SEQ_CST); TR.emit("{\"e\":\"Obj\",\"op\":\"ctor\",\"o\":%d}", oid); }
    ~Tracked() { if (oid) TR.emit("{\"e\":\"Obj\",\"op\":\"dtor\",\"o\":%d}", oid); }
};
struct TRange : Tracked {
    tbb::blocked_range<int> r;
    TRange(int b, int e, int g) : r(b, e, g) {}
    TRange(const TRange& o) : Tracked(), r(o.r) { if (F.hit(FC_COPY)) throw Injected{-3}; born(); }
    TRange(TRange& o, tbb::split s) : Tracked(), r(o.r.begin(), o.r.end(), o.r.grainsize()) { if (F.hit(FC_SPLIT)) throw Injected{-2}; tbb::blocked_range<int> right(o.r, s); r = right; born(); }
    bool empty() const { return r.empty(); } bool is_divisible() const { return r.is_divisible(); }
    int begin() const { return r.begin(); } int end() const { return r.end(); }
};
// a pipeline token that the library has to allocate, copy / move and destroy itself (larger than a pointer, not trivially copyable): every copy is tracked
struct TTok : Tracked {
    int v; int pad[3] = {0, 0, 0};
    explicit TTok(int x) : v(x) {}
    TTok(const TTok& o) : Tracked(), v(o.v) { born(); }
    TTok(TTok&& o) : Tracked(), v(o.v) { born(); }
    TTok& operator=(const TTok& o) { v = o.v; return *this; }
};
// Injected exceptions thrown outside a Scope (range copy/split) carry negative ids: they count as thrown by the call
static void note_unscoped_throw(int id) { TR.emit("{\"e\":\"BB\",\"i\":%d}", id); TR.emit("{\"e\":\"Throw\",\"id\":%d,\"cls\":9}", id); }

struct RBody : Tracked {
    long sum = 0;
    RBody() {}
    RBody(RBody&, tbb::split) : Tracked() { Scope s(FC_SPLIT); born(); }
    void operator()(const tbb::blocked_range<int>& r) { Scope s(FC_BODY); for (int i = r.begin(); i < r.end(); i++) sum += i; }
    void operator()(const TRange& r) { Scope s(FC_BODY); for (int i = r.begin(); i < r.end(); i++) sum += i; }
    void join(RBody& o) { Scope s(FC_JOIN); sum += o.sum; }
};

template <class Fn> static void call(const char* kind, Fn fn) {
    TR.emit("{\"e\":\"Call\",\"kind\":\"%s\"}", kind);
    try { fn(); TR.emit("{\"e\":\"Ret\"}"); }
    catch (Injected& x) { if (x.id < 0) { /* thrown by a range copy/split ctor: logged when thrown */ } TR.emit("{\"e\":\"Exc\",\"x\":%d}", x.id); }
    catch (...) { TR.emit("{\"e\":\"Exc\",\"x\":-99}"); }
}
// range copy/split constructors log their throw themselves so that the Exc is explained
struct ThrowLog { ThrowLog() {} };

static void program(const std::string& p) {
    using tbb::blocked_range;
    auto body = [](const blocked_range<int>&) { Scope s(FC_BODY); };
    auto tbody = [](const TRange&) { Scope s(FC_BODY); };
    for (int round = 0; round < 2; round++) {       // second round: the group / algorithm is reusable afterwards (no faults left)
        if (p == "pfor_simple") call("pfor", [&] { tbb::parallel_for(blocked_range<int>(0, 12, 1), body, tbb::simple_partitioner()); });
        else if (p == "pfor_auto") call("pfor", [&] { tbb::parallel_for(blocked_range<int>(0, 24, 1), body, tbb::auto_partitioner()); });
        else if (p == "pfor_static") call("pfor", [&] { tbb::parallel_for(blocked_range<int>(0, 12, 1), body, tbb::static_partitioner()); });
        else if (p == "pfor_affinity") { static tbb::affinity_partitioner ap; call("pfor", [&] { tbb::parallel_for(blocked_range<int>(0, 12, 1), body, ap); }); }
        else if (p == "pfor_trange") call("pfor", [&] { TRange r(0, 10, 1); try { tbb::parallel_for(r, tbody, tbb::simple_partitioner()); } catch (Injected& x) { if (x.id < 0) note_unscoped_throw(x.id); throw; } });
        else if (p == "preduce") call("preduce", [&] { RBody b; tbb::parallel_reduce(blocked_range<int>(0, 12, 1), b, tbb::simple_partitioner()); });
        else if (p == "preduce_auto") call("preduce", [&] { RBody b; tbb::parallel_reduce(blocked_range<int>(0, 16, 1), b); });
        else if (p == "pdreduce") call("pdreduce", [&] { RBody b; tbb::parallel_deterministic_reduce(blocked_range<int>(0, 8, 1), b); });
        else if (p == "pdreduce_trange") call("pdreduce", [&] { RBody b; TRange r(0, 8, 1); try { tbb::parallel_deterministic_reduce(r, b); } catch (Injected& x) { if (x.id < 0) note_unscoped_throw(x.id); throw; } });
        else if (p == "preduce_lambda") call("preduce", [&] { (void)tbb::parallel_reduce(blocked_range<int>(0, 12, 1), 0L,
                [](const blocked_range<int>& r, long v) { Scope s(FC_BODY); for (int i = r.begin(); i < r.end(); i++) v += i; return v; },
                [](long a, long b) { Scope s(FC_JOIN); return a + b; }, tbb::simple_partitioner()); });
        else if (p == "pforeach") call("pforeach", [&] { std::vector<int> v{1, 2, 3, 4, 5, 6}; tbb::parallel_for_each(v.begin(), v.end(), [](int x, tbb::feeder<int>& f) { Scope s(FC_BODY); if (x < 3) f.add(x + 10); }); });
        else if (p == "pinvoke") call("pinvoke", [&] { tbb::parallel_invoke([] { Scope s(FC_BODY); }, [] { Scope s(FC_BODY); }, [] { Scope s(FC_BODY); }, [] { Scope s(FC_BODY); }); });
        else if (p == "pipeline") call("pipeline", [&] { int n = 0; tbb::parallel_pipeline(3,
                tbb::make_filter<void, int>(tbb::filter_mode::serial_in_order, [&](tbb::flow_control& fc) -> int { Scope s(FC_FILTER); if (n >= 6) { fc.stop(); return 0; } return ++n; }) &
                tbb::make_filter<int, int>(tbb::filter_mode::parallel, [](int x) { Scope s(FC_BODY); return x * 2; }) &
                tbb::make_filter<int, void>(tbb::filter_mode::serial_out_of_order, [](int) { Scope s(FC_JOIN); })); });
        else if (p == "pipelineT") call("pipelineT", [&] { int n = 0; tbb::parallel_pipeline(3,          // tokens owned by the library: a throwing later filter must not make it destroy one twice (or never)
                tbb::make_filter<void, TTok>(tbb::filter_mode::serial_in_order, [&](tbb::flow_control& fc) -> TTok { Scope s(FC_FILTER); if (n >= 5) { fc.stop(); return TTok(0); } return TTok(++n); }) &
                tbb::make_filter<TTok, TTok>(tbb::filter_mode::parallel, [](const TTok& x) { Scope s(FC_BODY); return TTok(x.v * 2); }) &
                tbb::make_filter<TTok, void>(tbb::filter_mode::serial_out_of_order, [](const TTok&) { Scope s(FC_JOIN); })); });
        else if (p == "taskgroup") { static tbb::task_group* tg = nullptr; if (!tg) tg = new tbb::task_group; call("taskgroup", [&] {
                for (int k = 0; k < 3; k++) tg->run([k] { Scope s(FC_BODY); tbb::task_group in; in.run([] { Scope s2(FC_JOIN); }); in.run_and_wait([] { Scope s3(FC_JOIN); }); });
                tg->wait(); }); }
        else if (p == "arena_execute") call("arena_execute", [&] { tbb::task_arena inner(2, 1); inner.execute([&] { tbb::parallel_for(blocked_range<int>(0, 6, 1), body, tbb::simple_partitioner()); }); });
        else if (p == "pscan") call("pscan", [&] { std::vector<int> in(12, 1), out(12, 0); tbb::parallel_scan(blocked_range<int>(0, 12, 2), 0,
                [&](const blocked_range<int>& r, int sum, bool fin) { Scope s(FC_BODY); for (int i = r.begin(); i < r.end(); i++) { sum += in[i]; if (fin) out[i] = sum; } return sum; },
                [](int a, int b) { Scope s(FC_JOIN); return a + b; }); });
        else if (p == "psort") call("psort", [&] { std::vector<int> v; for (int i = 0; i < 600; i++) v.push_back((i * 7919) % 601); static int cmp = 0; tbb::parallel_sort(v.begin(), v.end(), [](int a, int b) { if ((++cmp & 127) == 0) { Scope s(FC_BODY); } return a < b; }); });
        else if (p == "flow") call("flow", [&] { tbb::flow::graph g; tbb::flow::function_node<int, int> a(g, tbb::flow::unlimited, [](int x) { Scope s(FC_BODY); return x + 1; });
                tbb::flow::function_node<int, int> b(g, 1, [](int x) { Scope s(FC_JOIN); return x; }); tbb::flow::make_edge(a, b);
                for (int i = 0; i < 4; i++) a.try_put(i); g.wait_for_all(); });
        F.clear();
    }
    TR.emit("{\"e\":\"Quiesce\"}");
}

int main(int argc, char** argv) {
    if (argc < 7) { fprintf(stderr, "usage\n"); return 2; }
    FILE* out = fopen(argv[1], "w"); std::string prog = argv[2]; int cls = atoi(argv[3]), kmax = atoi(argv[4]), nseeds = atoi(argv[5]); unsigned long seed0 = strtoul(argv[6], nullptr, 10);
    bool first = true; long cases = 0, bad = 0; vh::Timer tm; char tmp[300]; snprintf(tmp, sizeof tmp, "%s.child", argv[1]);
    static const int dens[8] = {1, 3, 10, 40, -1, -2, -3, -5};
    for (int k = (cls < 0 ? 0 : 1); k <= (cls < 0 ? 0 : kmax); k++) for (int sd = 0; sd < nseeds; sd++) {
        bad += forked_case(tmp, out, first, 60, [&] {
            TR.begin_exec(); TR.first = false;
            TR.emit("{\"e\":\"Reset\"}");
            TR.emit("{\"e\":\"Fault\",\"cls\":%d,\"k\":%d,\"prog\":\"%s\"}", cls, k, prog.c_str());
            F.clear(); if (cls >= 0) F.fail_at[cls] = k;
            run_in_arena(3, seed0 + sd * 131 + k, dens[sd % 8], 6000000, [&] { program(prog); });
        });
        ++cases;
    }
    fclose(out);
    printf("{\"paths\":%ld,\"abnormal\":%ld,\"wall\":%.2f}\n", cases, bad, tm.s());
    return 0;
}
