// C07 harness: real parallel_pipeline with every filter-mode string of length 1..3 (and selected of length 4), token limits 1..3, item
// counts 0..5, per-item per-stage delays derived from the seed, on 3 logical threads under seeded random cooperative schedules.
//   h_pipe <trace> <nseeds> <seed0> <maxlen>
#include "oneapi/tbb/parallel_pipeline.h"
#include "sched_common.h"
#include <random>
VS_DEFINE_GLOBALS
using namespace vs;
static unsigned g_delay_seed;
static void delay(int stage, int item) { unsigned h = (g_delay_seed * 2654435761u) ^ (stage * 40503u + item * 9973u); h ^= h >> 13; int n = h % 4; for (int i = 0; i < n; i++) cosched::yield_point(); }
// gated mode: the completion order of the middle (parallel) stage follows a plan - item x leaves the stage only after the items planned before it
// have left it (bounded wait, so a plan that cannot be realised with the available threads / tokens never dead-locks).  Plans are the
// arrival orders at an ordered stage that make its token ring grow: jumps of 1, 2 and more ring sizes (Pipeline.tla: Park / Grow).
static std::vector<int> g_rank; static int g_left_stage[64]; static int g_nthreads = 3;
static void gate(int stage, int x) {
    if (g_rank.empty() || stage != 2 || x >= (int)g_rank.size()) return;
    for (long spin = 0; spin < 6000; spin++) {
        bool ok = true; for (int y = 1; y < (int)g_rank.size(); y++) if (g_rank[y] < g_rank[x] && !__atomic_load_n(&g_left_stage[y], __ATOMIC_SEQ_CST)) { ok = false; break; }
        if (ok) break; cosched::yield_point(); }
    __atomic_store_n(&g_left_stage[x], 1, __ATOMIC_SEQ_CST);
}
static tbb::filter_mode fm(char c) { return c == 'P' ? tbb::filter_mode::parallel : c == 'O' ? tbb::filter_mode::serial_out_of_order : tbb::filter_mode::serial_in_order; }
static const char* mname(char c) { return c == 'P' ? "P" : c == 'O' ? "SO" : "SI"; }
static void pipe_case(const std::string& modes, int tokens, int nitems) {
    std::ostringstream ms; for (size_t i = 0; i < modes.size(); i++) ms << (i ? "," : "") << "\"" << mname(modes[i]) << "\"";
    TR.emit("{\"e\":\"Pipe\",\"modes\":[%s],\"tokens\":%d,\"n\":%d}", ms.str().c_str(), tokens, nitems);
    int produced = 0; int NF = (int)modes.size();
    auto mid = [&](int f) { return [f](int x) { TR.emit("{\"e\":\"FB\",\"f\":%d,\"x\":%d}", f, x); delay(f, x); gate(f, x); TR.emit("{\"e\":\"FE\",\"f\":%d,\"x\":%d}", f, x); return x; }; };
    auto last = [&](int f) { return [f](int x) { TR.emit("{\"e\":\"FB\",\"f\":%d,\"x\":%d}", f, x); delay(f, x); TR.emit("{\"e\":\"FE\",\"f\":%d,\"x\":%d}", f, x); }; };
    auto first = [&](tbb::flow_control& fc) -> int { if (produced >= nitems) { TR.emit("{\"e\":\"Stop\"}"); fc.stop(); return 0; } int x = ++produced; TR.emit("{\"e\":\"FB\",\"f\":1,\"x\":%d}", x); delay(1, x); TR.emit("{\"e\":\"FE\",\"f\":1,\"x\":%d}", x); return x; };
    if (NF == 1) tbb::parallel_pipeline(tokens, tbb::make_filter<void, void>(fm(modes[0]), [&](tbb::flow_control& fc) { (void)first(fc); }));
    else if (NF == 2) tbb::parallel_pipeline(tokens, tbb::make_filter<void, int>(fm(modes[0]), first) & tbb::make_filter<int, void>(fm(modes[1]), last(2)));
    else if (NF == 3) tbb::parallel_pipeline(tokens, tbb::make_filter<void, int>(fm(modes[0]), first) & tbb::make_filter<int, int>(fm(modes[1]), mid(2)) & tbb::make_filter<int, void>(fm(modes[2]), last(3)));
    else tbb::parallel_pipeline(tokens, tbb::make_filter<void, int>(fm(modes[0]), first) & tbb::make_filter<int, int>(fm(modes[1]), mid(2)) & tbb::make_filter<int, int>(fm(modes[2]), mid(3)) & tbb::make_filter<int, void>(fm(modes[3]), last(4)));
    TR.emit("{\"e\":\"Ret\"}");
}
int main(int argc, char** argv) {
    if (argc < 5) return 2;
    if (atoi(argv[4]) == 0 && argc < 8) return 2;
    TR.open(argv[1]); int nseeds = atoi(argv[2]); unsigned long seed0 = strtoul(argv[3], nullptr, 10); int maxlen = atoi(argv[4]);
    long paths = 0, steps = 0, stuck = 0; vh::Timer tm; static const int dens[8] = {1, 3, 10, 40, -1, -2, -3, -5};
    std::vector<std::string> strings; const char al[3] = {'P', 'O', 'I'};
    for (int len = 1; len <= std::min(maxlen, 3); len++) { int tot = 1; for (int i = 0; i < len; i++) tot *= 3; for (int c = 0; c < tot; c++) { std::string s; int x = c; for (int i = 0; i < len; i++) { s += al[x % 3]; x /= 3; } strings.push_back(s); } }
    if (maxlen >= 4) for (auto s : {"OPII", "PPIO", "IPOI", "IIII", "POIP", "OIPI"}) strings.push_back(s);
    if (maxlen == 0) {     // gated plans: <trace> <nseeds> <seed0> 0 <threads> <tokens> <items>
        g_nthreads = atoi(argv[5]); int tok = atoi(argv[6]), n = atoi(argv[7]);
        // item ids are 1-based; a plan lists the items that leave the parallel stage first, in that order; the others follow in ascending order
        static const std::vector<std::vector<int>> heads = {{2, 3, 4, 10}, {2, 3, 4, 9, 10}, {10}, {3, 4, 9, 10, 1}, {2, 6, 10, 3}, {4, 8, 12}, {2, 3, 4, 5, 6, 7, 8, 9}, {5, 9, 2}, {9, 10, 2, 3, 4}};
        for (int s = 0; s < nseeds; s++) for (auto m : {"IPI", "IPO", "IPII", "OPI"}) {
            std::vector<int> head = heads[(s + seed0) % heads.size()];
            if (s >= (int)heads.size()) { std::mt19937 rg(seed0 * 77 + s); head.clear(); int k = 1 + rg() % 5; for (int i = 0; i < k; i++) head.push_back(1 + rg() % n); }
            g_rank.assign(n + 1, 0); int r = 1; for (int x : head) if (x <= n && !g_rank[x]) g_rank[x] = r++; for (int x = 1; x <= n; x++) if (!g_rank[x]) g_rank[x] = r++;
            memset(g_left_stage, 0, sizeof g_left_stage); g_delay_seed = (unsigned)(seed0 * 31 + s * 7);
            if (stuck >= 10) break;
            TR.begin_exec(); Result rr = isolated_run(300, [&] { return run_in_arena(g_nthreads, seed0 + s * 401 + paths, dens[s % 8], 40000000, [&] { pipe_case(m, tok, n); }, false); }); ++paths; steps += rr.steps; if (rr.rc) ++stuck;
        }
        g_rank.clear();
    } else
    for (int s = 0; s < nseeds; s++) for (auto& m : strings) for (int tok = 1; tok <= 3; tok++) {
        if (stuck >= 10) break; int n = (int)((seed0 + s + tok + m.size()) % 6); g_delay_seed = (unsigned)(seed0 * 31 + s * 7 + tok);
        TR.begin_exec(); Result r = isolated_run(300, [&] { return run_in_arena(3, seed0 + s * 401 + tok * 17 + paths, dens[(s + tok) % 8], 20000000, [&] { pipe_case(m, tok, n); }, false); }); ++paths; steps += r.steps; if (r.rc) ++stuck;
    }
    TR.close();
    printf("{\"paths\":%ld,\"steps\":%ld,\"stuck\":%ld,\"wall\":%.2f}\n", paths, steps, stuck, tm.s());
    return 0;
}
