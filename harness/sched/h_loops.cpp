// C05 harness: real parallel_for (all range types x all partitioners), parallel_for(first,last,step), parallel_for_each (with feeder),
// parallel_invoke on 3 logical threads of an all-reserved arena under seeded random cooperative schedules (the schedule decides which
// subtasks get stolen, which drives the adaptive partitioners).  The subranges seen by the body are recorded, end-points rank-compressed,
// and validated against RangeCover (TraceLoops.tla).
//   h_loops <trace> <mode: r1d|rnd|items|large> <nseeds> <seed0>
#include "oneapi/tbb/parallel_for.h"
#include "oneapi/tbb/parallel_for_each.h"
#include "oneapi/tbb/parallel_invoke.h"
#include "oneapi/tbb/blocked_range.h"
#include "oneapi/tbb/blocked_range2d.h"
#include "oneapi/tbb/blocked_range3d.h"
#include "oneapi/tbb/blocked_nd_range.h"
#include "sched_common.h"
#include <mutex>
VS_DEFINE_GLOBALS
using namespace vs;
typedef unsigned long long u64;
struct Ch { u64 b, e; };
static std::vector<Ch> g_chunks;            // appended between schedule points: no data race under the cooperative scheduler
static void emit_1d(const char* part, u64 b, u64 e, u64 g, bool simple) {
    std::vector<u64> pts{b, e}; for (auto& c : g_chunks) { pts.push_back(c.b); pts.push_back(c.e); }
    std::sort(pts.begin(), pts.end()); pts.erase(std::unique(pts.begin(), pts.end()), pts.end());
    auto rank = [&](u64 x) { return (int)(std::lower_bound(pts.begin(), pts.end(), x) - pts.begin()); };
    TR.emit("{\"e\":\"Loop\",\"kind\":\"range\",\"part\":\"%s\",\"lo\":[%d],\"hi\":[%d],\"simple\":%d,\"size\":\"%llu\",\"grain\":\"%llu\"}", part, rank(b), rank(e), simple ? 1 : 0, e - b, g);
    for (auto& c : g_chunks) { u64 sz = c.e - c.b; int cls = (c.e <= c.b) ? 1 : (sz > g ? 2 : (sz < (g + 1) / 2 ? 1 : 0));
        // an empty or inverted chunk is logged with hi <= lo so that the abstract spec rejects it
        TR.emit("{\"e\":\"Chunk\",\"lo\":[%d],\"hi\":[%d],\"sz\":%d}", rank(c.b), c.e > c.b ? rank(c.e) : rank(c.b), cls); }
    TR.emit("{\"e\":\"Done\"}");
}
template <class P> static void loop1d(const char* name, u64 n, u64 g, P&& part, bool simple) {
    g_chunks.clear();
    tbb::parallel_for(tbb::blocked_range<u64>(0, n, g), [](const tbb::blocked_range<u64>& r) { g_chunks.push_back({r.begin(), r.end()}); }, part);
    emit_1d(name, 0, n, g, simple);
}
static void one_1d(int part, u64 n, u64 g) {
    static tbb::affinity_partitioner ap;
    switch (part) { case 0: loop1d("simple", n, g, tbb::simple_partitioner(), true); break; case 1: loop1d("auto", n, g, tbb::auto_partitioner(), false); break;
                    case 2: loop1d("static", n, g, tbb::static_partitioner(), false); break; default: loop1d("affinity", n, g, ap, false); }
}
struct Box { int lo[3], hi[3]; int d; };
static std::vector<Box> g_boxes;
static void emit_nd(const char* part, int d, const int* dims) {
    std::ostringstream lo, hi; for (int i = 0; i < d; i++) { lo << (i ? "," : "") << 0; hi << (i ? "," : "") << dims[i]; }
    TR.emit("{\"e\":\"Loop\",\"kind\":\"range\",\"part\":\"%s\",\"lo\":[%s],\"hi\":[%s],\"simple\":0}", part, lo.str().c_str(), hi.str().c_str());
    for (auto& b : g_boxes) { std::ostringstream l, h; for (int i = 0; i < d; i++) { l << (i ? "," : "") << b.lo[i]; h << (i ? "," : "") << b.hi[i]; }
        TR.emit("{\"e\":\"Chunk\",\"lo\":[%s],\"hi\":[%s],\"sz\":0}", l.str().c_str(), h.str().c_str()); }
    TR.emit("{\"e\":\"Done\"}");
}
template <class P> static void loopnd(int which, const char* name, P&& part) {
    g_boxes.clear(); int dims[3] = {5, 3, 2};
    // a huge grainsize on one axis means "never split this axis": the choice of the axis to split (size / grainsize ratios compared by cross-multiplication)
    // must not be fooled by it (products near 2^64)
    const size_t HUGE = size_t(1) << 63;
    if (which == 5) { int d2[3] = {16, 5, 0}; tbb::parallel_for(tbb::blocked_range2d<size_t>(0, 16, 1, 0, 5, HUGE), [](const tbb::blocked_range2d<size_t>& r) { g_boxes.push_back({{(int)r.rows().begin(), (int)r.cols().begin(), 0}, {(int)r.rows().end(), (int)r.cols().end(), 0}, 2}); }, part); emit_nd(name, 2, d2); return; }
    if (which == 6) { int d3[3] = {4, 9, 3}; tbb::parallel_for(tbb::blocked_range3d<size_t>(0, 4, HUGE, 0, 9, 2, 0, 3, HUGE), [](const tbb::blocked_range3d<size_t>& r) { g_boxes.push_back({{(int)r.pages().begin(), (int)r.rows().begin(), (int)r.cols().begin()}, {(int)r.pages().end(), (int)r.rows().end(), (int)r.cols().end()}, 3}); }, part); emit_nd(name, 3, d3); return; }
    if (which == 7) { int d3[3] = {6, 3, 7}; tbb::parallel_for(tbb::blocked_nd_range<size_t, 3>({0, 6, HUGE}, {0, 3, HUGE}, {0, 7, 1}), [](const tbb::blocked_nd_range<size_t, 3>& r) { g_boxes.push_back({{(int)r.dim(0).begin(), (int)r.dim(1).begin(), (int)r.dim(2).begin()}, {(int)r.dim(0).end(), (int)r.dim(1).end(), (int)r.dim(2).end()}, 3}); }, part); emit_nd(name, 3, d3); return; }
    if (which == 2) { tbb::parallel_for(tbb::blocked_range2d<int>(0, 5, 2, 0, 3, 1), [](const tbb::blocked_range2d<int>& r) { g_boxes.push_back({{r.rows().begin(), r.cols().begin(), 0}, {r.rows().end(), r.cols().end(), 0}, 2}); }, part); emit_nd(name, 2, dims); }
    else if (which == 3) { tbb::parallel_for(tbb::blocked_range3d<int>(0, 5, 2, 0, 3, 1, 0, 2, 1), [](const tbb::blocked_range3d<int>& r) { g_boxes.push_back({{r.pages().begin(), r.rows().begin(), r.cols().begin()}, {r.pages().end(), r.rows().end(), r.cols().end()}, 3}); }, part); emit_nd(name, 3, dims); }
    else { tbb::parallel_for(tbb::blocked_nd_range<int, 3>({0, 5, 1}, {0, 3, 2}, {0, 2, 1}), [](const tbb::blocked_nd_range<int, 3>& r) { g_boxes.push_back({{r.dim(0).begin(), r.dim(1).begin(), r.dim(2).begin()}, {r.dim(0).end(), r.dim(1).end(), r.dim(2).end()}, 3}); }, part); emit_nd(name, 3, dims); }
}
static std::vector<int> g_items;
static void items_case(int which) {
    g_items.clear(); std::ostringstream exp;
    TR.emit("{\"e\":\"Loop\",\"kind\":\"items\",\"part\":\"-\",\"lo\":[0],\"hi\":[0],\"simple\":0}");
    if (which == 0) { std::vector<int> v{1, 2, 3, 4, 5, 6, 7}; tbb::parallel_for_each(v.begin(), v.end(), [](int x, tbb::feeder<int>& f) { g_items.push_back(x); if (x < 4) f.add(x + 10); if (x == 11) f.add(21); }); exp << "1,2,3,4,5,6,7,11,12,13,21"; }
    else if (which == 1) { tbb::parallel_invoke([] { g_items.push_back(1); }, [] { g_items.push_back(2); }, [] { g_items.push_back(3); }, [] { g_items.push_back(4); }, [] { g_items.push_back(5); }); exp << "1,2,3,4,5"; }
    else if (which == 2) { tbb::parallel_for(3, 20, 4, [](int i) { g_items.push_back(i); }); exp << "3,7,11,15,19"; }          // first,last,step with a non-dividing step
    else { std::vector<int> v; tbb::parallel_for_each(v.begin(), v.end(), [](int x) { g_items.push_back(x); }); tbb::parallel_for(5, 5, [](int i) { g_items.push_back(i); }); }
    for (int x : g_items) TR.emit("{\"e\":\"Item\",\"id\":%d}", x);
    TR.emit("{\"e\":\"Done\",\"expected\":[%s]}", exp.str().c_str());
}

int main(int argc, char** argv) {
    if (argc < 5) return 2;
    TR.open(argv[1]); std::string mode = argv[2]; int nseeds = atoi(argv[3]); unsigned long seed0 = strtoul(argv[4], nullptr, 10);
    long paths = 0, steps = 0, stuck = 0; vh::Timer tm; static const int dens[8] = {1, 3, 10, 40, -1, -2, -3, -5};
    auto exec = [&](unsigned long seed, int den, const std::function<void()>& fn) { TR.begin_exec(); Result r = isolated_run(300, [&] { return run_in_arena(3, seed, den, 8000000, fn, false); }); ++paths; steps += r.steps; if (r.rc) ++stuck; };
    if (mode == "r1d") {
        u64 sizes[] = {0, 1, 2, 3, 5, 7, 8, 9, 13, 16, 17, 31, 33}; u64 grains[] = {1, 2, 3, 5, 8};
        for (int s = 0; s < nseeds; s++) for (u64 n : sizes) for (u64 g : grains) for (int p = 0; p < 4; p++) { if (stuck >= 10) break; exec(seed0 + s * 977 + n * 31 + g * 7 + p, dens[(s + p) % 8], [&] { one_1d(p, n, g); }); }
    } else if (mode == "rnd") {
        for (int s = 0; s < nseeds; s++) for (int w = 2; w <= 7; w++) for (int p = (w >= 5 ? 1 : 0); p < 3; p++) { if (stuck >= 10) break;      // (the huge-grain cases 5-7 run under the adaptive partitioners only)
            exec(seed0 + s * 131 + w * 7 + p, dens[s % 8], [&] { if (p == 0) loopnd(w, "simple", tbb::simple_partitioner()); else if (p == 1) loopnd(w, "auto", tbb::auto_partitioner()); else loopnd(w, "static", tbb::static_partitioner()); }); }
    } else if (mode == "items") {
        for (int s = 0; s < nseeds; s++) for (int w = 0; w < 4; w++) { if (stuck >= 10) break; exec(seed0 + s * 17 + w, dens[s % 8], [&] { items_case(w); }); }
    } else { // large: sizes beyond 2^24, 2^31, 2^32 with huge grains (few chunks)
        u64 big[] = {(1ull << 24) - 1, (1ull << 24) + 1, (1ull << 31) - 1, (1ull << 31) + 1, (1ull << 32) + 5, (1ull << 40) + 3, ~0ull - 1};
        for (int s = 0; s < nseeds; s++) for (u64 n : big) for (int p = 0; p < 4; p++) { if (stuck >= 10) break; u64 g = n / (p == 0 ? 13 : 5) + 1; exec(seed0 + s * 53 + p, dens[s % 8], [&] { one_1d(p, n, g); }); }
    }
    TR.close();
    printf("{\"paths\":%ld,\"steps\":%ld,\"stuck\":%ld,\"wall\":%.2f}\n", paths, steps, stuck, tm.s());
    return 0;
}
