// C06 harness: parallel_reduce (imperative / functional, 3 partitioners), parallel_deterministic_reduce, parallel_scan, parallel_sort on
// 3 logical threads under seeded random cooperative schedules, with symbolic operands (element ids; join = append).
//   h_algo <trace> <mode: reduce|det|scan|sort> <nseeds> <seed0>
#include "oneapi/tbb/parallel_reduce.h"
#include "oneapi/tbb/parallel_scan.h"
#include "oneapi/tbb/parallel_sort.h"
#include "oneapi/tbb/blocked_range.h"
#include "sched_common.h"
VS_DEFINE_GLOBALS
using namespace vs;
typedef tbb::blocked_range<int> BR;
static std::string seq(const std::vector<int>& v) { std::ostringstream o; for (size_t i = 0; i < v.size(); i++) o << (i ? "," : "") << v[i]; return o.str(); }
struct SymBody {
    std::vector<int> ids; std::string* tree; std::string* leaves;
    SymBody(std::string* t = nullptr, std::string* lv = nullptr) : tree(t), leaves(lv) {}
    SymBody(SymBody& o, tbb::split) : tree(o.tree), leaves(o.leaves) {}
    void operator()(const BR& r) { for (int i = r.begin(); i < r.end(); i++) ids.push_back(i); if (leaves) { char b[64]; snprintf(b, sizeof b, "%d-%d;", r.begin(), r.end()); *leaves += b; } }
    void join(SymBody& o) {
        if (!ids.empty() && !o.ids.empty()) TR.emit("{\"e\":\"Join\",\"lf\":%d,\"ll\":%d,\"rf\":%d,\"rl\":%d}", ids.front(), ids.back(), o.ids.front(), o.ids.back());
        if (tree && !ids.empty() && !o.ids.empty()) { char b[96]; snprintf(b, sizeof b, "(%d-%d+%d-%d)", ids.front(), ids.back(), o.ids.front(), o.ids.back()); *tree += b; }
        ids.insert(ids.end(), o.ids.begin(), o.ids.end());
    }
};
static void reduce_case(int which, int n, int g) {
    static tbb::affinity_partitioner ap; std::vector<int> val;
    if (which < 4) { SymBody b; if (which == 0) tbb::parallel_reduce(BR(0, n, g), b, tbb::simple_partitioner()); else if (which == 1) tbb::parallel_reduce(BR(0, n, g), b, tbb::auto_partitioner());
                     else if (which == 2) tbb::parallel_reduce(BR(0, n, g), b, tbb::static_partitioner()); else tbb::parallel_reduce(BR(0, n, g), b, ap); val = b.ids; }
    else { val = tbb::parallel_reduce(BR(0, n, g), std::vector<int>(), [](const BR& r, std::vector<int> v) { for (int i = r.begin(); i < r.end(); i++) v.push_back(i); return v; },
                 [](std::vector<int> a, const std::vector<int>& b) { if (!a.empty() && !b.empty()) TR.emit("{\"e\":\"Join\",\"lf\":%d,\"ll\":%d,\"rf\":%d,\"rl\":%d}", a.front(), a.back(), b.front(), b.back()); a.insert(a.end(), b.begin(), b.end()); return a; },
                 tbb::simple_partitioner()); }
    TR.emit("{\"e\":\"Reduce\",\"n\":%d,\"val\":[%s]}", n, seq(val).c_str());
}
static std::string canon(std::string s) { std::vector<std::string> parts; std::string cur; for (char c : s) { cur += c; if (c == ';' || c == ')') { parts.push_back(cur); cur.clear(); } } std::sort(parts.begin(), parts.end()); std::string r; for (auto& p : parts) r += p; return r; }
struct DetRun { std::string leaves, tree, bits; std::vector<int> val; };
static DetRun det_once(int n, int g) {
    DetRun d; SymBody b(&d.tree, &d.leaves); tbb::parallel_deterministic_reduce(BR(0, n, g), b); d.val = b.ids;
    // non-associative floating point: the bit pattern of the sum must be reproducible
    float f = tbb::parallel_deterministic_reduce(BR(0, n, g), 0.0f, [](const BR& r, float s) { for (int i = r.begin(); i < r.end(); i++) s += 1.0f / (float)(i + 1) * 1e-3f + (i % 3 ? 1e4f : -3e-5f); return s; }, [](float a, float c) { return a + c; });
    unsigned u; memcpy(&u, &f, 4); char hb[16]; snprintf(hb, sizeof hb, "%08x", u); d.bits = hb;
    d.leaves = canon(d.leaves); d.tree = canon(d.tree); return d;
}
static void det_case(int n, int g) {
    DetRun a = det_once(n, g);
    DetRun b; { tbb::task_arena one(1); one.execute([&] { b = det_once(n, g); }); }
    TR.emit("{\"e\":\"Reduce\",\"n\":%d,\"val\":[%s]}", n, seq(a.val).c_str());
    TR.emit("{\"e\":\"Det\",\"leavesA\":\"%s\",\"leavesB\":\"%s\",\"treeA\":\"%s\",\"treeB\":\"%s\",\"bitsA\":\"%s\",\"bitsB\":\"%s\"}", a.leaves.c_str(), b.leaves.c_str(), a.tree.c_str(), b.tree.c_str(), a.bits.c_str(), b.bits.c_str());
}
static void scan_case(int n, int g, int part) {
    // part >= 2: the body runs a nested parallel_for with static_partitioner (its tasks are mailed to the other threads): the waiting thread may pick up the not yet stolen right sibling of the
    // subrange it is working on while the left one is still in progress (the 'virtually stolen' case of start_scan)
    const bool nested = part >= 2; part %= 2;
    std::vector<int> fin(n, 0), pre(n, 0);
    typedef std::vector<int> V;
    auto scan = [&](const BR& r, V sum, bool is_final) { if (nested) tbb::parallel_for(tbb::blocked_range<int>(0, 3, 1), [](const tbb::blocked_range<int>&) { for (int k = 0; k < 3; k++) cosched::yield_point(); }, tbb::static_partitioner()); for (int i = r.begin(); i < r.end(); i++) { if (is_final) { fin[i]++; bool ok = (int)sum.size() == i; for (int k = 0; ok && k < i; k++) ok = sum[k] == k; pre[i] = ok ? 1 : 0; } sum.push_back(i); } return sum; };
    auto comb = [](V a, const V& b) { a.insert(a.end(), b.begin(), b.end()); return a; };
    V total = part == 0 ? tbb::parallel_scan(BR(0, n, g), V(), scan, comb, tbb::simple_partitioner()) : tbb::parallel_scan(BR(0, n, g), V(), scan, comb, tbb::auto_partitioner());
    bool tot_ok = (int)total.size() == n; for (int k = 0; tot_ok && k < n; k++) tot_ok = total[k] == k;
    TR.emit("{\"e\":\"Scan\",\"n\":%d,\"fin\":[%s],\"pre\":[%s],\"total\":%d}", n, seq(fin).c_str(), seq(pre).c_str(), tot_ok ? n : -1);
}
static void sort_case(int which, unsigned seed) {
    std::vector<int> v; int keydiv = 1;
    if (which == 0) { for (int i = 0; i < 9; i++) v.push_back((i * 5 + seed) % 7 * 10 + i); keydiv = 10; }              // equal keys (key = x / 10): strict weak ordering with equivalence classes
    else if (which == 1) { for (int i = 0; i < 11; i++) v.push_back(i); std::swap(v[seed % 10], v[seed % 10 + 1]); }     // sorted except one inversion
    else if (which == 2) { for (int i = 0; i < 12; i++) v.push_back(12 - i); }
    if (which <= 2) { std::vector<int> in = v; tbb::parallel_sort(v.begin(), v.end(), [keydiv](int a, int b) { return a / keydiv < b / keydiv; });
        TR.emit("{\"e\":\"Sort\",\"in\":[%s],\"out\":[%s],\"keydiv\":%d}", seq(in).c_str(), seq(v).c_str(), keydiv); return; }
    // around the 500-element serial cut-off: sorted except one inversion at a seed-dependent position; many equal keys
    int n = which == 3 ? 499 : which == 4 ? 500 : which == 5 ? 501 : 1000;
    for (int i = 0; i < n; i++) v.push_back(which == 6 ? i % 7 : i);
    if (which != 6) { int p = seed % (n - 1); std::swap(v[p], v[p + 1]); }
    std::vector<int> in = v; tbb::parallel_sort(v.begin(), v.end());
    std::vector<int> ref = in; std::sort(ref.begin(), ref.end());
    TR.emit("{\"e\":\"SortBig\",\"n\":%d,\"sorted\":%d,\"perm\":%d}", n, std::is_sorted(v.begin(), v.end()) ? 1 : 0, ref == v ? 1 : 0);
}
// sort sweep: parallel_sort first tests in parallel whether the input is already sorted; that pre-test must look at EVERY adjacent pair.  For each size n the
// input "sorted except one inversion at position p" is sorted for every p (natively, on this thread only - the defect class is input-dependent, not a race) and
// the number of unsorted results is logged in one event.  Sizes around the 500-element serial cut-off and around chunk sizes the pre-test's parallel_for produces.
static void sort_sweep(const std::vector<int>& sizes) {
    tbb::task_arena solo(1, 1);
    for (int n : sizes) { long bad = 0; int first = -1;
        for (int p = 0; p + 1 < n; p++) { std::vector<int> v(n); for (int i = 0; i < n; i++) v[i] = i; std::swap(v[p], v[p + 1]);
            solo.execute([&] { tbb::parallel_sort(v.begin(), v.end()); });
            if (!std::is_sorted(v.begin(), v.end())) { ++bad; if (first < 0) first = p; } }
        // descending order with std::greater, and many equal keys (key = i / 3)
        for (int p = 0; p + 1 < n; p += 7) { std::vector<int> v(n); for (int i = 0; i < n; i++) v[i] = (n - i) / 3; std::swap(v[p], v[p + 1]);
            solo.execute([&] { tbb::parallel_sort(v.begin(), v.end(), std::greater<int>()); });
            if (!std::is_sorted(v.begin(), v.end(), std::greater<int>())) { ++bad; if (first < 0) first = p; } }
        TR.emit("{\"e\":\"SortSweep\",\"n\":%d,\"bad\":%ld,\"firstbad\":%d}", n, bad, first); }
}
int main(int argc, char** argv) {
    if (argc < 5) return 2;
    TR.open(argv[1]); std::string mode = argv[2]; int nseeds = atoi(argv[3]); unsigned long seed0 = strtoul(argv[4], nullptr, 10);
    long paths = 0, steps = 0, stuck = 0; vh::Timer tm; static const int dens[8] = {1, 3, 10, 40, -1, -2, -3, -5};
    if (mode == "sweep") { std::vector<int> sizes; for (int n = 498; n <= (nseeds > 1 ? 600 : 540); n++) sizes.push_back(n); for (int n : {777, 779, 782, 785, 1035, 1042, 1049, 2047, 2058}) sizes.push_back(n);
        if (nseeds > 1) for (int n = 1020; n <= 1100; n++) sizes.push_back(n);
        TR.begin_exec(); sort_sweep(sizes); TR.close(); printf("{\"paths\":%zu,\"steps\":0,\"stuck\":0,\"wall\":%.2f}\n", sizes.size(), tm.s()); return 0; }
    auto exec = [&](unsigned long seed, int den, const std::function<void()>& fn) { if (stuck >= 10) return; TR.begin_exec(); Result r = isolated_run(300, [&] { return run_in_arena(3, seed, den, 30000000, fn, false); }); ++paths; steps += r.steps; if (r.rc) ++stuck; };
    int ns[] = {1, 2, 3, 7, 8, 16, 25}; int gs[] = {1, 2, 5};
    for (int s = 0; s < nseeds; s++) {
        if (mode == "reduce") { for (int n : ns) for (int g : gs) for (int w = 0; w < 5; w++) exec(seed0 + s * 911 + n * 13 + g * 5 + w, dens[(s + w) % 8], [&] { reduce_case(w, n, g); }); }
        else if (mode == "det") { for (int n : ns) for (int g : gs) exec(seed0 + s * 311 + n * 3 + g, dens[s % 8], [&] { det_case(n, g); }); }
        else if (mode == "scan") { for (int n : ns) for (int g : gs) for (int p = 0; p < 4; p++) exec(seed0 + s * 71 + n + g + p, dens[s % 8], [&] { scan_case(n, g, p); }); }
        else { for (int w = 0; w < 7; w++) exec(seed0 + s * 17 + w, dens[s % 8], [&] { sort_case(w, (unsigned)(seed0 + s * 7)); }); }
    }
    TR.close();
    printf("{\"paths\":%ld,\"steps\":%ld,\"stuck\":%ld,\"wall\":%.2f}\n", paths, steps, stuck, tm.s());
    return 0;
}
