// C07 harness (the token buffer of a serial pipeline filter): every transition of PipeBuffer.tla - (ring, low_token, high_token) x operation - is applied to a REAL
// r1::input_buffer (src/tbb/parallel_pipeline.cpp compiled into this harness; ring / size / tokens set white-box to the source state); the real outcome is logged as an
// Op event for TracePipeBuf (the verdict) and compared with the transcription's prediction (drift).
//   h_pipebuf <transitions> <trace-out>     line: size|low|high|slots(tok or -1, comma separated)|op|t|res|size1|low1|slots1
#include "vh.h"
#include "tbb/parallel_pipeline.cpp"
using namespace tbb::detail;
static std::vector<long> ints(const std::string& s) { std::vector<long> r; for (auto& x : vh::split(s, ',')) if (!x.empty()) r.push_back(atol(x.c_str())); return r; }
static std::string join(const std::vector<long>& v) { std::string s; for (size_t i = 0; i < v.size(); i++) s += (i ? "," : "") + std::to_string(v[i]); return s; }
struct Spawner { r1::task_info got; bool any = false; void spawn_stage_task(const r1::task_info& info, d1::execution_data&) { got = info; any = true; } };
int main(int argc, char** argv) {
    if (argc < 3) return 2;
    std::ifstream in(argv[1]); vh::TraceOut TR; TR.open(argv[2]); TR.begin_exec();
    std::string line; long n = 0, drift = 0; int shown = 0; vh::Timer tm; d1::execution_data ed{};
    while (std::getline(in, line)) {
        auto f = vh::split(line + "|", '|'); if (f.size() < 10) continue;
        size_t size = atol(f[0].c_str()); unsigned long low = atol(f[1].c_str()), high = atol(f[2].c_str()); std::vector<long> slots = ints(f[3]); std::string op = f[4]; long t = atol(f[5].c_str());
        r1::input_buffer b(/*ordered*/ true);
        tbb::cache_aligned_allocator<r1::task_info>().deallocate(b.array, b.array_size);                    // source state
        b.array = tbb::cache_aligned_allocator<r1::task_info>().allocate(size); b.array_size = size; b.low_token = low; b.high_token = high;
        std::vector<long> parked0;
        for (size_t i = 0; i < size; i++) { new (&b.array[i]) r1::task_info(); if (slots[i] >= 0) { b.array[i].is_valid = true; b.array[i].my_token = slots[i]; b.array[i].my_token_ready = true; b.array[i].my_object = (void*)(slots[i] + 1); parked0.push_back(slots[i]); } }
        long res;
        if (op == "next") { Spawner sp; b.try_to_spawn_task_for_next_token(sp, ed); res = sp.any ? 100 + (long)sp.got.my_token : 0; }
        else { r1::task_info info; info.my_object = (void*)(t + 1); if (op == "put") { info.my_token = t; info.my_token_ready = true; } res = b.try_put_token(info) ? 1 : 0; }
        std::vector<long> s1; for (size_t i = 0; i < b.array_size; i++) s1.push_back(b.array[i].is_valid ? (long)b.array[i].my_token : -1);
        unsigned long low1 = b.low_token; size_t size1 = b.array_size;
        // observable consequence of the state the call left behind: let the filter run on - whenever the next token has not arrived yet it arrives now - and record the
        // order in which the parked items are handed out (each once, in token order)
        std::vector<long> drain; long maxtok = -1; for (long x : s1) maxtok = std::max(maxtok, x); for (long x : parked0) maxtok = std::max(maxtok, x); maxtok = std::max(maxtok, t);
        for (int guard = 0; guard < 80 && (long)b.low_token < maxtok; guard++) { Spawner sp; b.try_to_spawn_task_for_next_token(sp, ed);
            if (sp.any) drain.push_back((long)sp.got.my_token);
            else { r1::task_info info; info.my_object = (void*)1; info.my_token = b.low_token; info.my_token_ready = true; if (b.try_put_token(info)) { drain.push_back(-2); break; } } }      // the token whose turn it is must never be parked
        TR.emit("{\"e\":\"Op\",\"op\":\"%s\",\"t\":%ld,\"low0\":%lu,\"parked0\":[%s],\"res\":%ld,\"low1\":%lu,\"size1\":%zu,\"slots1\":[%s],\"drain\":[%s]}", op.c_str(), t, low, join(parked0).c_str(), res, low1, size1, join(s1).c_str(), join(drain).c_str());
        ++n;
        std::string real = std::to_string(res) + "|" + std::to_string(size1) + "|" + std::to_string(low1) + "|" + join(s1), want = f[6] + "|" + f[7] + "|" + f[8] + "|" + f[9];
        if (real != want) { ++drift; if (shown++ < 5) fprintf(stderr, "SPEC-DRIFT input_buffer %s(%ld) on size %zu low %lu [%s]: model %s, real %s\n", op.c_str(), t, size, low, f[3].c_str(), want.c_str(), real.c_str()); }
    }
    TR.close();
    printf("{\"transitions\":%ld,\"drift\":%ld,\"wall\":%.2f}\n", n, drift, tm.s());
    return 0;
}
