// C04 harness: real task_group_context binding vs real cancellation propagation, driven along TLC schedules of
// CtxTree.tla (replay) or seeded random schedules (random).  Threads: X owns G<-P,S on its context list; B binds C
// under P; A1/A2 call cancel_group_execution on their targets.
//   h_ctx probe
//   h_ctx replay <schedules> <trace-out> <map-file> <order: e.g. A1,B,X> <targets: A1=G[,A2=P]> [tso]
//   h_ctx random <n> <seed0> <trace-out> <order> <targets> [tso]
#include "vh_tbb.h"
#include "tbb/task_dispatcher.h"
#include "tbb/threading_control.h"
#include "tbb/cancellation_disseminator.h"
#include "oneapi/tbb/global_control.h"
using namespace cosched;
using namespace tbb::detail;
using vh::rawload;

typedef d1::task_group_context Ctx;
static std::vector<std::string> ORDER;                 // walk order of the propagator
static std::map<std::string, std::string> TGT;         // canceller -> context name
static vh::TraceOut TR;

struct Exec {
    Ctx *G, *P, *S, *C;
    std::map<std::string, r1::thread_data*> td;
    std::map<std::string, int> lt;                     // role -> logical thread id
    std::vector<std::string> role;                     // logical thread id -> role
    int remaining = 0;            // accessed with __atomic builtins: harness bookkeeping must not be a schedule / flush point
    Ctx* ctx(const std::string& n) { return n == "G" ? G : n == "P" ? P : n == "S" ? S : C; }
};

static r1::cancellation_disseminator* dissem() { return r1::threading_control::g_threading_control->my_pimpl->my_cancellation_disseminator.get(); }

static bool BINDG = false;      // C is bound under the parentless context G (the branch of bind_to_impl without grand-ancestors)
static void bind_under(Ctx& c, Ctx* parent, r1::thread_data* td) {
    auto& ed = td->my_task_dispatcher->m_execute_data_ext; auto* save = ed.context;
    if (parent) ed.context = parent;
    r1::task_group_context_impl::bind_to(c, td);
    ed.context = save;
}

static void body(Exec& E, int id) {
    const std::string& role = E.role[id];
    r1::thread_data* td = r1::governor::get_thread_data();      // registers the thread with the disseminator (push_front)
    E.td[role] = td;
    if (role == "X") {
        bind_under(*E.G, nullptr, td);                           // outermost level: isolated root
        bind_under(*E.P, E.G, td);
        bind_under(*E.S, E.G, td);
    }
    yield_point();                                               // ---- end of set-up phase
    if (role == "X") { while (__atomic_load_n(&E.remaining, __ATOMIC_SEQ_CST) > 0) yield_point(); return; }
    if (role == "B") {
        bind_under(*E.C, BINDG ? E.G : E.P, td);
        TR.emit("{\"e\":\"Bound\",\"c\":\"C\",\"p\":\"%s\"}", E.C->my_parent == E.P ? "P" : E.C->my_parent == E.G ? "G" : "none");
    } else {
        const std::string& t = TGT[role];
        bool r = E.ctx(t)->cancel_group_execution();
        TR.emit("{\"e\":\"CancelRet\",\"t\":\"%s\",\"c\":\"%s\",\"r\":%d}", role.c_str(), t.c_str(), r ? 1 : 0);
    }
    __atomic_fetch_sub(&E.remaining, 1, __ATOMIC_SEQ_CST);
    // Oracle precision (DESIGN 4.x): a thread that bound a context stays alive while the context is in use.  If the binder exited
    // now, its context list would be orphaned and (by design of this oneTBB version) no longer walked by the propagator; thread
    // exit is not among the property's quantifiers, so every acting thread waits for quiescence before it leaves.
    yield_point();   // the last protocol step ends here, so the store buffer is not drained by thread exit within that step
    while (__atomic_load_n(&E.remaining, __ATOMIC_SEQ_CST) > 0) yield_point();
}

static std::vector<const void*> g_pm_addr;
static std::string projection(Exec& E) {
    // cancel[G,P,S,C] hint[G,P,S,C] cstate gepoch lepoch[X,B,A1,A2] tlm pm lm[X,B,A1,A2]
    std::ostringstream o;
    Ctx* cs[4] = {E.G, E.P, E.S, E.C};
    for (auto c : cs) o << rawload(c->my_cancellation_requested) << ",";
    for (auto c : cs) o << (int)rawload(c->my_may_have_children) << ",";
    o << (int)rawload(E.C->my_state) << "," << rawload(r1::the_context_state_propagation_epoch);
    const char* rs[4] = {"X", "B", "A1", "A2"};
    for (auto r : rs) o << "," << (E.td.count(r) ? (long)rawload(E.td[r]->my_context_list->epoch) : 0);
    o << "," << (int)rawload(dissem()->my_threads_list_mutex.my_flag.my_atomic);
    o << "," << (int)rawload(r1::the_context_state_propagation_mutex.m_flag);
    for (auto r : rs) o << "," << (E.td.count(r) ? (int)rawload(E.td[r]->my_context_list->m_mutex.my_flag.my_atomic) : 0);
    return o.str();
}
static void track_all(Exec& E) {
    untrack_all();
    Ctx* cs[4] = {E.G, E.P, E.S, E.C};
    for (auto c : cs) { track(&c->my_cancellation_requested); track(&c->my_may_have_children); }
    track(&E.C->my_state);
    track(&r1::the_context_state_propagation_epoch);
    track(&dissem()->my_threads_list_mutex.my_flag.my_atomic);
    track(&r1::the_context_state_propagation_mutex.m_flag);
    for (auto& kv : E.td) { track(&kv.second->my_context_list->epoch); track(&kv.second->my_context_list->m_mutex.my_flag.my_atomic); }
}

static int setup(Exec& E, Sched& S, bool tso) {
    E.G = new Ctx(Ctx::bound); E.P = new Ctx(Ctx::bound); E.S = new Ctx(Ctx::bound); E.C = new Ctx(Ctx::bound);
    // registration order = reverse walk order
    E.role.assign(ORDER.rbegin(), ORDER.rend());
    for (size_t i = 0; i < E.role.size(); i++) E.lt[E.role[i]] = (int)i;
    E.remaining = (int)E.role.size() - 1;
    untrack_all(); focus_only(true);
    std::vector<int> tsot; if (tso) tsot.push_back(E.lt["B"]);
    S.spawn((int)E.role.size(), [&](int id) { body(E, id); }, tsot);
    // all threads are parked at the end of their set-up phase; normalise the epochs to the spec's initial state
    vh::rawstore(r1::the_context_state_propagation_epoch, std::uintptr_t(0));
    for (auto& kv : E.td) vh::rawstore(kv.second->my_context_list->epoch, std::uintptr_t(0));
    track_all(E);
    // advance every acting thread from its set-up yield point to (just before) its first tracked access
    for (auto& kv : E.lt) if (kv.first != "X") S.step(kv.second);
    TR.emit("{\"e\":\"Ctx\",\"c\":\"G\",\"p\":\"none\"}");
    TR.emit("{\"e\":\"Ctx\",\"c\":\"P\",\"p\":\"%s\"}", E.P->my_parent == E.G ? "G" : "none");
    TR.emit("{\"e\":\"Ctx\",\"c\":\"S\",\"p\":\"%s\"}", E.S->my_parent == E.G ? "G" : "none");
    return 0;
}
static void teardown(Exec& E, Sched& S, int rc) {
    TR.sched(S.sched_log);
    if (rc != RC_OK) TR.emit("{\"e\":\"Stuck\",\"rc\":\"%s\"}", rc_name(rc).c_str());
    else TR.emit("{\"e\":\"Final\",\"G\":%d,\"P\":%d,\"S\":%d,\"C\":%d}", (int)E.G->is_group_execution_cancelled(), (int)E.P->is_group_execution_cancelled(),
                 (int)E.S->is_group_execution_cancelled(), (int)E.C->is_group_execution_cancelled());
    S.join_all();
    if (rc == RC_OK) { delete E.C; delete E.S; delete E.P; delete E.G; }
}

int main(int argc, char** argv) {
    if (argc < 2) return 2;
    for (int i = 1; i < argc; i++) if (std::string(argv[i]) == "bindG") BINDG = true;
    std::string mode = argv[1];
    tbb::task_scheduler_handle keep{tbb::attach{}};               // keeps threading_control alive across executions
    vh::install_tbb_thread_exit();
    vh::Timer tm; long paths = 0, steps = 0, drift = 0, mismatch = 0, stuck = 0, drains = 0;
    if (mode == "probe") {
        // facts extracted from the code (DESIGN 2.6): does the propagator hold the_context_state_propagation_mutex?
        ORDER = {"A1", "B", "X"}; TGT["A1"] = "G";
        Exec E; Sched S; setup(E, S, false);
        long pm_rmw = 0; int a = E.lt["A1"];
        for (long k = 0; k < 100000 && !S.done(a); k++) {
            if (!S.runnable(a)) break;
            Pending p = S.pending(a);
            if (p.addr == (const void*)&r1::the_context_state_propagation_mutex.m_flag && (p.kind == K_RMW || p.kind == K_CAS)) ++pm_rmw;
            S.step(a);
        }
        int b = E.lt["B"]; int hint_order = -1;
        for (long k = 0; k < 100000 && !S.done(b); k++) {
            if (!S.runnable(b)) break;
            Pending p = S.pending(b);
            if (p.addr == (const void*)&E.P->my_may_have_children && p.kind == K_STORE) hint_order = p.order;
            S.step(b);
        }
        int rc = S.finish(2000000);
        TR.open("/dev/null"); teardown(E, S, rc);
        // third fact: binding under a parentless context whose cancellation flag is clear - does the binder STORE into the new context's flag (a stale zero that can
        // overwrite a cancellation propagated in between) or leave it alone?
        int root_store = 0;
        { BINDG = true; ORDER = {"A1", "B", "X"}; TGT["A1"] = "S"; Exec E2; Sched S2; setup(E2, S2, false); int b2 = E2.lt["B"];
          for (long k = 0; k < 100000 && !S2.done(b2); k++) { if (!S2.runnable(b2)) break; Pending p = S2.pending(b2);
              if (p.addr == (const void*)&E2.C->my_cancellation_requested && (p.kind == K_STORE || p.kind == K_RMW || p.kind == K_CAS)) ++root_store; S2.step(b2); }
          int rc2 = S2.finish(2000000); teardown(E2, S2, rc2); BINDG = false; }
        printf("{\"propagator_locks_pm\":%d,\"hint_store_seq_cst\":%d,\"root_copy_always\":%d}\n", pm_rmw > 0 ? 1 : 0, hint_order == (int)std::memory_order_seq_cst ? 1 : 0, root_store > 0 ? 1 : 0);
        return 0;
    }
    if (mode == "sched") {   // h_ctx sched "<thread ids>" <trace-out> <order> <targets> [tso] : follow a recorded schedule verbosely
        ORDER = vh::split(argv[4], ','); for (auto& kv : vh::split(argv[5], ',')) { auto p = vh::split(kv, '='); TGT[p[0]] = p[1]; }
        bool tso = argc > 6 && std::string(argv[6]) == "tso";
        TR.open(argv[3]); TR.begin_exec();
        Exec E; Sched S; S.log_schedule = true; setup(E, S, tso);
        auto name = [&](const void* a) -> std::string {
            const char* cn[4] = {"G", "P", "S", "C"}; Ctx* cs[4] = {E.G, E.P, E.S, E.C};
            for (int i = 0; i < 4; i++) { if (a == &cs[i]->my_cancellation_requested) return std::string(cn[i]) + ".cancel"; if (a == &cs[i]->my_may_have_children) return std::string(cn[i]) + ".hint"; }
            if (a == &E.C->my_state) return "C.state"; if (a == &r1::the_context_state_propagation_epoch) return "gepoch";
            if (a == &dissem()->my_threads_list_mutex.my_flag.my_atomic) return "tlm"; if (a == &r1::the_context_state_propagation_mutex.m_flag) return "pm";
            for (auto& kv : E.td) { if (a == &kv.second->my_context_list->epoch) return "lepoch[" + kv.first + "]"; if (a == &kv.second->my_context_list->m_mutex.my_flag.my_atomic) return "lm[" + kv.first + "]"; }
            return a ? "?" : "-"; };
        std::istringstream ss(argv[2]); int t; const char* kn[] = {"load", "store", "rmw", "cas", "fence", "fwait", "fwake", "yield", "", "none"};
        // the first steps of the recorded schedule are the set-up advances already done by setup(); skip as many
        size_t skip = S.sched_log.size(), i = 0;
        while (ss >> t) { if (i++ < skip) continue; if (t < 0) { S.drain_one(-t - 1); printf("  drain %s\n", E.role[-t - 1].c_str()); continue; }
            if (!S.runnable(t)) { printf("  (%s not runnable)\n", E.role[t].c_str()); continue; }
            Pending p = S.pending(t); S.step(t); printf("  %-3s %-5s %-12s -> %s\n", E.role[t].c_str(), kn[p.kind], name(p.addr).c_str(), projection(E).c_str()); }
        int rc = S.finish(2000000); teardown(E, S, rc); TR.close(); return 0;
    }
    bool replay = mode == "replay";
    int ai = replay ? 5 : 5;
    const char* sched_or_n = argv[2]; const char* a3 = argv[3]; const char* a4 = argv[4];
    std::string trace_out = replay ? a3 : a4;
    std::map<std::string, int> nacc;
    if (replay) { std::ifstream mf(a4); std::string k; int v; while (mf >> k >> v) nacc[k] = v; }
    ORDER = vh::split(argv[ai], ',');
    for (auto& kv : vh::split(argv[ai + 1], ',')) { auto p = vh::split(kv, '='); TGT[p[0]] = p[1]; }
    bool tso = argc > ai + 2 && std::string(argv[ai + 2]) == "tso";
    TR.open(trace_out.c_str());
    if (replay) {
        std::ifstream in(sched_or_n); std::string line; int shown = 0;
        while (std::getline(in, line) && stuck < 10) {
            Exec E; Sched S; S.stall_limit = 5000; S.log_schedule = true;
            TR.begin_exec(); setup(E, S, tso); ++paths; bool drifted = false;
            for (auto& tok : vh::parse_schedule(line)) {
                std::string who = tok.ts == "0" ? "B" : tok.ts;
                if (tok.label == "d1") { /* spec process D: commit the oldest entry of B's store buffer */ if (E.lt.count("B")) { S.drain_one(E.lt["B"]); ++drains; } }
                else {
                    if (!E.lt.count(who)) continue;
                    int t = E.lt[who];
                    int na = 1; auto it = nacc.find(tok.label); if (it != nacc.end()) na = it->second;
                    for (int k = 0; k < na; k++) {
                        if (!S.runnable(t)) { if (!drifted) { ++drift; drifted = true; if (shown++ < 5) fprintf(stderr, "SPEC-DRIFT path %ld: %s not runnable at %s\n", paths, who.c_str(), tok.label.c_str()); } break; }
                        S.step(t); ++steps;
                    }
                }
                if (!drifted && !tok.state.empty()) {
                    std::string real = projection(E);
                    if (real != tok.state) { ++mismatch; drifted = true; if (shown++ < 5) fprintf(stderr, "SPEC-DRIFT path %ld at %s:%s expected %s real %s\n", paths, who.c_str(), tok.label.c_str(), tok.state.c_str(), real.c_str()); }
                }
            }
            int rc = S.finish(2000000); if (rc != RC_OK) ++stuck;
            teardown(E, S, rc);
        }
    } else {
        int n = atoi(sched_or_n); unsigned long seed0 = strtoul(a3, nullptr, 10);
        for (int r = 0; r < n && stuck < 10; r++) {
            Exec E; Sched S; S.stall_limit = 20000; S.log_schedule = true;
            TR.begin_exec(); setup(E, S, tso); ++paths;
            static const int dens[8] = {1, 2, 6, 20, -1, -2, -3, -5};
            int rc = S.run_random(seed0 + r, 3000000, dens[r % 8]); steps += S.steps; drains += S.drains; if (rc != RC_OK) ++stuck;
            teardown(E, S, rc);
        }
    }
    TR.close();
    printf("{\"paths\":%ld,\"steps\":%ld,\"drift\":%ld,\"state_mismatch\":%ld,\"stuck\":%ld,\"drains\":%ld,\"events\":%ld,\"wall\":%.2f}\n", paths, steps, drift, mismatch, stuck, drains, TR.events, tm.s());
    return 0;
}
