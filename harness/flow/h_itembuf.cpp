// C15 harness (ring arithmetic): every transition of the ItemBuffer.tla state graph is replayed on the real flow::reservable_item_buffer<int> (white box),
// comparing head, tail, capacity, the reserved flag and every ring cell after each operation; the results of the operations are compared as well.
//   h_itembuf <schedules> <trace-out>      schedule line: tokens op,res,head,tail,cap,reserved,cells   cells = n | h<item> | r<item> joined by '.'
#include "oneapi/tbb/flow_graph.h"
#include "vh.h"
using namespace tbb::detail::d2;
struct Buf : reservable_item_buffer<int> { using reservable_item_buffer<int>::reservable_item_buffer; };
static vh::TraceOut TR;
int main(int argc, char** argv) {
    if (argc < 3) return 2;
    std::ifstream in(argv[1]); TR.open(argv[2]); std::string line; long paths = 0, steps = 0, drift = 0, mismatch = 0; int shown = 0;
    while (std::getline(in, line)) {
        Buf b; ++paths; bool bad = false, drifted = false; TR.begin_exec(); TR.emit("{\"e\":\"Path\"}");
        std::istringstream ss(line); std::string tok;
        while (ss >> tok && !bad) {
            auto f = vh::split(tok, ','); if (f.size() < 7) continue;
            std::string op = f[0]; int res = atoi(f[1].c_str()); int got = 0; ++steps;
            if (op == "push") { int v = res; b.push_back(v); got = res; }
            else if (op == "popf") { int v = 0; got = b.pop_front(v) ? v : 0; }
            else if (op == "popb") { int v = 0; got = b.pop_back(v) ? v : 0; }
            else if (op == "rsv") { int v = 0; got = b.reserve_front(v) ? v : 0; }
            else if (op == "rel") { b.release_front(); got = 0; }
            else if (op == "con") { got = b.front(); b.consume_front(); }
            else if (op == "place") { int tag = res >= 0 ? res : -1 - res; int v = 100 + tag;      // sequencer_node::internal_push, transcribed call sequence on the real buffer
                if ((size_t)tag < b.my_head) got = -1 - tag;
                else { size_t nt = (size_t)tag + 1 > b.my_tail ? (size_t)tag + 1 : b.my_tail; if (b.size(nt) > b.capacity()) b.grow_my_array(b.size(nt)); b.my_tail = nt; got = b.place_item((size_t)tag, v) ? tag : -1 - tag; } }
            else continue;
            // projected state of the real object
            std::ostringstream cells; for (size_t i = 0; i < b.my_array_size; i++) { auto& e = *b.my_array[i].begin(); if (i) cells << "."; if (e.state == Buf::no_item) cells << "n"; else cells << (e.state == Buf::has_item ? "h" : "r") << e.item; }
            std::ostringstream real; real << b.my_head << "," << b.my_tail << "," << b.my_array_size << "," << (b.my_reserved ? 1 : 0) << "," << cells.str();
            std::string expect = f[2] + "," + f[3] + "," + f[4] + "," + f[5] + "," + f[6];
            // after a disagreement the path is still followed to its end: the verdict is taken from the returned values (BufAbs), not from the drift
            if (drifted) {}
            else if (got != res) { ++drift; drifted = true; if (shown++ < 5) fprintf(stderr, "SPEC-DRIFT path %ld op %s: spec result %d, code result %d\n", paths, op.c_str(), res, got); }
            else if (real.str() != expect) { ++mismatch; drifted = true; if (shown++ < 5) fprintf(stderr, "SPEC-DRIFT path %ld after %s: expected %s real %s\n", paths, op.c_str(), expect.c_str(), real.str().c_str()); }
            TR.emit("{\"e\":\"Op\",\"op\":\"%s\",\"res\":%d,\"got\":%d,\"ok\":%d}", op.c_str(), res, got, drifted ? 0 : 1);
        }
    }
    TR.close();
    printf("{\"paths\":%ld,\"steps\":%ld,\"drift\":%ld,\"state_mismatch\":%ld}\n", paths, steps, drift, mismatch);
    return 0;
}
