// C14 / C15 harness: real flow graphs on N logical threads of an all-reserved arena (graph tasks run on the same logical threads) under seeded
// random / PCT cooperative schedules over every atomic of the graph and the scheduler.  Node / Edge / Msg / PutB / PutE / BB / BE / DecB /
// TupQ / TupK / Cancel / WaitRet events are validated by TLC against FlowAbs (TraceFlow.tla).
//   h_flow <trace> <scenario> <nseeds> <seed0>
#define TBB_PREVIEW_FLOW_GRAPH_FEATURES 0
#include "oneapi/tbb/flow_graph.h"
#include "sched_common.h"
#include <sys/mman.h>
VS_DEFINE_GLOBALS
using namespace vs;
using namespace tbb::flow;
static int g_live = 0;                                   // bodies currently running (harness's own count)
static void node(int n, const char* kind, int conc = 0, int thr = 0) { TR.emit("{\"e\":\"Node\",\"n\":%d,\"kind\":\"%s\",\"conc\":%d,\"thr\":%d}", n, kind, conc, thr); }
static void edge(int a, int b) { TR.emit("{\"e\":\"Edge\",\"a\":%d,\"b\":%d}", a, b); }
static void msg(int m, int s = -1, int k = 0) { TR.emit("{\"e\":\"Msg\",\"m\":%d,\"s\":%d,\"k\":%d}", m, s, k); }
template <class N, class V> static bool put(N& nd, int n, int m, const V& v) {
    TR.emit("{\"e\":\"PutB\",\"n\":%d,\"m\":%d}", n, m); bool ok = nd.try_put(v); TR.emit("{\"e\":\"PutE\",\"n\":%d,\"m\":%d,\"ok\":%d}", n, m, ok ? 1 : 0); return ok; }
struct Body { int n; int ys; int operator()(int m) const { __atomic_add_fetch(&g_live, 1, __ATOMIC_SEQ_CST); TR.emit("{\"e\":\"BB\",\"n\":%d,\"m\":%d}", n, m);
    for (int i = 0; i < ys; i++) cosched::yield_point(); TR.emit("{\"e\":\"BE\",\"n\":%d,\"m\":%d}", n, m); __atomic_sub_fetch(&g_live, 1, __ATOMIC_SEQ_CST); return m; } };
struct BodyL : Body { int operator()(int m) const noexcept { return Body::operator()(m); } };     // lightweight execution (inline in the sender's thread) requires a noexcept body
static void waitret(graph& g, int lossless) { g.wait_for_all(); TR.emit("{\"e\":\"WaitRet\",\"live\":%d,\"lossless\":%d}", __atomic_load_n(&g_live, __ATOMIC_SEQ_CST), lossless); }

// every scenario: thread 0 builds the graph, publishes it, all threads run their role, a harness barrier, then everybody waits (thread 0 logs)
static std::atomic<int> g_ready, g_done; static int NT;
static void publish() { g_ready.store(1); }
static void await_graph() { while (!g_ready.load()) cosched::yield_point(); }
static void barrier() { g_done.fetch_add(1); while (g_done.load() < NT) cosched::yield_point(); }
// only thread 0 calls wait_for_all (concurrent calls from several threads are not a supported use); the other threads take part in the execution of the
// graph's tasks by waiting, inside the same arena, on a harness wait_context that thread 0 releases when it is done
static tbb::detail::d1::wait_context* HWC; static tbb::task_group_context* HCTX[8];
static void help(int id) { tbb::detail::d1::wait(*HWC, *HCTX[id]); }
static void release_helpers() { HWC->release(); }

struct Scn { int n; std::function<void(int)> role; std::function<void()> foreign; };     // n putter threads; one more arena thread helps from the start; optional thread outside the arena
static graph* G;
// ---- C14: chains, fan-out, rejecting, limits
static receiver<int>* RX[8]; static sender<int>* TX[8];
template <class N> static N* reg(int i, N* n) { RX[i] = n; TX[i] = n; return n; }
 static broadcast_node<int>* BC; static queue_node<int>* Q[3]; static sequencer_node<int>* SQ; static limiter_node<int>* LM;
static Scn chain(int variant) {
    return {3, [variant](int id) {
        if (id == 0) { G = new graph;
            if (variant == 0) { reg(1, new function_node<int, int>(*G, unlimited, Body{1, 2})); reg(2, new function_node<int, int>(*G, serial, Body{2, 3})); reg(3, new function_node<int, int>(*G, 2, Body{3, 2}));
                node(1, "fn", 0); node(2, "fn", 1); node(3, "fn", 2); }
            else if (variant == 1) { reg(1, new function_node<int, int>(*G, 2, Body{1, 3})); reg(2, new function_node<int, int, lightweight>(*G, serial, BodyL{{2, 1}})); reg(3, new function_node<int, int>(*G, serial, Body{3, 2}));
                node(1, "fn", 2); node(2, "fn", 1); node(3, "fn", 1); }
            else { reg(1, new function_node<int, int, rejecting>(*G, serial, Body{1, 3})); reg(2, new function_node<int, int>(*G, unlimited, Body{2, 1})); reg(3, new function_node<int, int>(*G, serial, Body{3, 1}));
                node(1, "fn", 1); node(2, "fn", 0); node(3, "fn", 1); }
            make_edge(*TX[1], *RX[2]); make_edge(*TX[2], *RX[3]); edge(1, 2); edge(2, 3); publish(); }
        await_graph();
        for (int k = 0; k < 3; k++) { int m = 1 + id * 3 + k; msg(m); put(*RX[1], 1, m, m); }
        barrier(); if (id == 0) { waitret(*G, 1); release_helpers(); } else help(id);
    }, nullptr};
}
// a multifunction_node (limit 2 or serial + rejecting) whose body forwards every message to BOTH output ports; BE is logged before the outputs are put (a successor may
// begin a message only after the logged end of the producing body), the real body is still running then - the logged concurrency is a lower bound of the real one
static Scn mfn(bool rej) {
    typedef multifunction_node<int, std::tuple<int, int>> MF; typedef multifunction_node<int, std::tuple<int, int>, rejecting> MFR;
    return {3, [rej](int id) {
        auto body = [](const int& m, MF::output_ports_type& ports) { __atomic_add_fetch(&g_live, 1, __ATOMIC_SEQ_CST); TR.emit("{\"e\":\"BB\",\"n\":1,\"m\":%d}", m);
            for (int i = 0; i < 2; i++) cosched::yield_point(); TR.emit("{\"e\":\"BE\",\"n\":1,\"m\":%d}", m); __atomic_sub_fetch(&g_live, 1, __ATOMIC_SEQ_CST);
            std::get<0>(ports).try_put(m); cosched::yield_point(); std::get<1>(ports).try_put(m); };
        if (id == 0) { G = new graph;
            reg(2, new function_node<int, int>(*G, serial, Body{2, 1})); reg(3, new function_node<int, int>(*G, unlimited, Body{3, 2}));
            if (!rej) { auto* mf = new MF(*G, 2, body); RX[1] = mf; make_edge(output_port<0>(*mf), *RX[2]); make_edge(output_port<1>(*mf), *RX[3]); node(1, "fn", 2); }
            else { auto* mf = new MFR(*G, serial, body); RX[1] = mf; make_edge(output_port<0>(*mf), *RX[2]); make_edge(output_port<1>(*mf), *RX[3]); node(1, "fn", 1); }
            node(2, "fn", 1); node(3, "fn", 0); edge(1, 2); edge(1, 3); publish(); }
        await_graph();
        for (int k = 0; k < 3; k++) { int m = 1 + id * 3 + k; msg(m); put(*RX[1], 1, m, m); }
        barrier(); if (id == 0) { waitret(*G, 1); release_helpers(); } else help(id);
    }, nullptr};
}
static Scn fan() {          // broadcast -> two sinks with different limits; a second source feeds one of them directly
    return {3, [](int id) {
        if (id == 0) { G = new graph; BC = new broadcast_node<int>(*G); reg(2, new function_node<int, int>(*G, serial, Body{2, 2})); reg(3, new function_node<int, int>(*G, unlimited, Body{3, 1}));
            reg(4, new function_node<int, int>(*G, 2, Body{4, 1})); node(1, "bcast"); node(2, "fn", 1); node(3, "fn", 0); node(4, "fn", 2);
            make_edge(*BC, *RX[2]); make_edge(*BC, *RX[3]); make_edge(*TX[3], *RX[4]); edge(1, 2); edge(1, 3); edge(3, 4); publish(); }
        await_graph();
        for (int k = 0; k < 3; k++) { int m = 1 + id * 3 + k; msg(m); if (id < 2) put(*BC, 1, m, m); else { int mm = 20 + k; msg(mm); put(*RX[4], 4, mm, mm); } }
        barrier(); if (id == 0) { waitret(*G, 1); release_helpers(); } else help(id);
    }, nullptr};
}
// ---- C15: queue FIFO, sequencer order, limiter threshold
static Scn fifo() {
    return {3, [](int id) {
        if (id == 0) { G = new graph; Q[0] = new queue_node<int>(*G); reg(2, new function_node<int, int, rejecting>(*G, serial, Body{2, 2})); node(1, "queue"); node(2, "fn", 1); make_edge(*Q[0], *RX[2]); edge(1, 2); publish(); }
        await_graph();
        for (int k = 0; k < 4; k++) { int m = 1 + id * 4 + k; msg(m); put(*Q[0], 1, m, m); }
        barrier(); if (id == 0) { waitret(*G, 1); release_helpers(); } else help(id);
    }, nullptr};
}
static Scn seqr(unsigned perm) {
    return {3, [perm](int id) {
        if (id == 0) { G = new graph; SQ = new sequencer_node<int>(*G, [](const int& v) -> size_t { return (size_t)(v - 1); }); reg(2, new function_node<int, int, rejecting>(*G, serial, Body{2, 1}));
            node(1, "seq"); node(2, "fn", 1); make_edge(*SQ, *RX[2]); edge(1, 2); publish(); }
        await_graph();
        // 9 messages with sequence numbers 0..8 dealt to the three threads in an order derived from perm
        static const int orders[4][9] = {{8, 7, 6, 5, 4, 3, 2, 1, 0}, {0, 3, 6, 1, 4, 7, 2, 5, 8}, {2, 0, 1, 5, 3, 4, 8, 6, 7}, {4, 8, 0, 6, 2, 7, 1, 5, 3}};
        for (int k = 0; k < 3; k++) { int s = orders[perm % 4][id * 3 + k]; int m = s + 1; msg(m, s); put(*SQ, 1, m, m); }
        barrier(); if (id == 0) { waitret(*G, 1); release_helpers(); } else help(id);
    }, nullptr};
}
static Scn limit(int T) {     // queue -> limiter(T) -> unlimited function whose body sends the decrement
    return {3, [T](int id) {
        if (id == 0) { G = new graph; Q[0] = new queue_node<int>(*G); LM = new limiter_node<int>(*G, (size_t)T);
            reg(3, new function_node<int, int>(*G, unlimited, [](int m) { __atomic_add_fetch(&g_live, 1, __ATOMIC_SEQ_CST); TR.emit("{\"e\":\"BB\",\"n\":3,\"m\":%d}", m);
                for (int i = 0; i < 3; i++) cosched::yield_point(); TR.emit("{\"e\":\"BE\",\"n\":3,\"m\":%d}", m); TR.emit("{\"e\":\"DecB\",\"n\":2}"); __atomic_sub_fetch(&g_live, 1, __ATOMIC_SEQ_CST);
                LM->decrementer().try_put(continue_msg()); return m; }));
            node(1, "queue"); node(2, "limiter", 0, T); node(3, "fn", 0); make_edge(*Q[0], *LM); make_edge(*LM, *RX[3]); edge(1, 2); edge(2, 3); publish(); }
        await_graph();
        for (int k = 0; k < 3; k++) { int m = 1 + id * 3 + k; msg(m); put(*Q[0], 1, m, m); }
        barrier(); if (id == 0) { waitret(*G, 1); release_helpers(); } else help(id);
    }, nullptr};
}
// ---- C15: joins
typedef std::tuple<int, int> T2;
static Scn joinq(int policy) {   // 0 queueing, 1 reserving (fed by queue nodes), 2 key matching
    return {3, [policy](int id) {
        static join_node<T2, queueing>* JQ; static join_node<T2, reserving>* JR; static join_node<T2, key_matching<int>>* JK; static function_node<T2, int>* SK;
        if (id == 0) { G = new graph; node(3, "join"); node(4, policy == 1 ? "queue" : "port"); node(5, policy == 1 ? "queue" : "port"); node(6, "fn", 1);
            SK = new function_node<T2, int>(*G, serial, [policy](const T2& t) { TR.emit("{\"e\":\"%s\",\"n\":3,\"a\":4,\"b\":5,\"x\":%d,\"y\":%d}", policy == 2 ? "TupK" : "TupQ", std::get<0>(t), std::get<1>(t)); return 0; });
            if (policy == 0) { JQ = new join_node<T2, queueing>(*G); make_edge(*JQ, *SK); }
            else if (policy == 1) { JR = new join_node<T2, reserving>(*G); Q[1] = new queue_node<int>(*G); Q[2] = new queue_node<int>(*G); make_edge(*Q[1], input_port<0>(*JR)); make_edge(*Q[2], input_port<1>(*JR)); make_edge(*JR, *SK); }
            else { JK = new join_node<T2, key_matching<int>>(*G, [](int v) { return v % 10; }, [](int v) { return v % 10; }); make_edge(*JK, *SK); }
            publish(); }
        await_graph();
        // thread 1 feeds port 0 (messages 11..14), thread 2 feeds port 1 (messages 21..2x; one fewer, so one message of port 0 stays unmatched); key = m % 10
        static const int k0[4] = {1, 2, 3, 4}, k1[3] = {3, 1, 2};
        if (id == 1) for (int k = 0; k < 4; k++) { int m = 10 + (policy == 2 ? k0[k] : k + 1); msg(m, -1, m % 10); if (policy == 0) put(input_port<0>(*JQ), 4, m, m); else if (policy == 1) put(*Q[1], 4, m, m); else put(input_port<0>(*JK), 4, m, m); }
        if (id == 2) for (int k = 0; k < 3; k++) { int m = 20 + (policy == 2 ? k1[k] : k + 1); msg(m, -1, m % 10); if (policy == 0) put(input_port<1>(*JQ), 5, m, m); else if (policy == 1) put(*Q[2], 5, m, m); else put(input_port<1>(*JK), 5, m, m); }
        barrier(); if (id == 0) { G->wait_for_all(); TR.emit("{\"e\":\"WaitRet\",\"live\":0,\"lossless\":0}"); TR.emit("{\"e\":\"Tuples\",\"n\":3,\"a\":4,\"b\":5,\"cnt\":3}"); release_helpers(); } else help(id);
    }, nullptr};
}
// key matching with a DUPLICATE: port 0 is offered message 11 twice while key 1 is still unmatched (the second put must be refused: the port holds one message per
// key), then 12; only then port 1 delivers 21 and 22.  Exactly two complete tuples; a tuple with a component that was never put is unexplainable (TupK).
static Scn joinkd() {
    return {3, [](int id) {
        static join_node<T2, key_matching<int>>* JK; static function_node<T2, int>* SK; static std::atomic<int> fed;
        if (id == 0) { G = new graph; node(3, "join"); node(4, "port"); node(5, "port"); node(6, "fn", 1); vh::rawstore(fed, 0);
            SK = new function_node<T2, int>(*G, serial, [](const T2& t) { TR.emit("{\"e\":\"TupK\",\"n\":3,\"a\":4,\"b\":5,\"x\":%d,\"y\":%d}", std::get<0>(t), std::get<1>(t)); return 0; });
            JK = new join_node<T2, key_matching<int>>(*G, [](int v) { return v % 10; }, [](int v) { return v % 10; }); make_edge(*JK, *SK); publish(); }
        await_graph();
        if (id == 1) { msg(11, -1, 1); put(input_port<0>(*JK), 4, 11, 11); cosched::yield_point(); put(input_port<0>(*JK), 4, 11, 11); msg(12, -1, 2); put(input_port<0>(*JK), 4, 12, 12); fed.store(1); }
        if (id == 2) { while (!fed.load()) cosched::yield_point(); for (int m = 21; m <= 22; m++) { msg(m, -1, m % 10); put(input_port<1>(*JK), 5, m, m); } }
        barrier(); if (id == 0) { G->wait_for_all(); TR.emit("{\"e\":\"WaitRet\",\"live\":0,\"lossless\":0}"); TR.emit("{\"e\":\"Tuples\",\"n\":3,\"a\":4,\"b\":5,\"cnt\":2}"); release_helpers(); } else help(id);
    }, nullptr};
}
// as joinkd, but the duplicate is a DIFFERENT message with the same key (31 after 11): the put of 31 is refused, so 31 must not appear in any tuple and the accepted
// message 11 must be the one that is matched with 21
static Scn joinkd2() {
    return {3, [](int id) {
        static join_node<T2, key_matching<int>>* JK; static function_node<T2, int>* SK; static std::atomic<int> fed;
        if (id == 0) { G = new graph; node(3, "join"); node(4, "port"); node(5, "port"); node(6, "fn", 1); vh::rawstore(fed, 0);
            SK = new function_node<T2, int>(*G, serial, [](const T2& t) { TR.emit("{\"e\":\"TupK\",\"n\":3,\"a\":4,\"b\":5,\"x\":%d,\"y\":%d}", std::get<0>(t), std::get<1>(t)); return 0; });
            JK = new join_node<T2, key_matching<int>>(*G, [](int v) { return v % 10; }, [](int v) { return v % 10; }); make_edge(*JK, *SK); publish(); }
        await_graph();
        if (id == 1) { msg(11, -1, 1); put(input_port<0>(*JK), 4, 11, 11); cosched::yield_point(); msg(31, -1, 1); put(input_port<0>(*JK), 4, 31, 31); fed.store(1); }
        if (id == 2) { while (!fed.load()) cosched::yield_point(); msg(21, -1, 1); put(input_port<1>(*JK), 5, 21, 21); }
        barrier(); if (id == 0) { G->wait_for_all(); TR.emit("{\"e\":\"WaitRet\",\"live\":0,\"lossless\":0}"); TR.emit("{\"e\":\"Tuples\",\"n\":3,\"a\":4,\"b\":5,\"cnt\":1}"); release_helpers(); } else help(id);
    }, nullptr};
}
// ---- C14: exception / cancellation: no body starts afterwards until the graph is reset
struct Boom {};
static Scn cancel() {
    return {3, [](int id) {
        if (id == 0) { G = new graph; reg(1, new function_node<int, int>(*G, unlimited, [](int m) { __atomic_add_fetch(&g_live, 1, __ATOMIC_SEQ_CST); TR.emit("{\"e\":\"BB\",\"n\":1,\"m\":%d}", m);
                cosched::yield_point(); TR.emit("{\"e\":\"BE\",\"n\":1,\"m\":%d}", m); __atomic_sub_fetch(&g_live, 1, __ATOMIC_SEQ_CST); if (m == 2) throw Boom(); return m; }));
            reg(2, new function_node<int, int>(*G, serial, Body{2, 1})); node(1, "fn", 0); node(2, "fn", 1); make_edge(*TX[1], *RX[2]); edge(1, 2); publish(); }
        await_graph();
        for (int k = 0; k < 2; k++) { int m = 1 + id * 2 + k; msg(m); put(*RX[1], 1, m, m); }
        barrier();
        if (id == 0) { bool threw = false; try { G->wait_for_all(); } catch (Boom&) { threw = true; }
            TR.emit("{\"e\":\"WaitRet\",\"live\":%d,\"lossless\":0}", __atomic_load_n(&g_live, __ATOMIC_SEQ_CST));
            // once the exception has surfaced no body may start any more (nothing new is put): a second wait must find the graph idle; after reset() the graph works again
            if (threw) { TR.emit("{\"e\":\"Cancel\"}"); try { G->wait_for_all(); } catch (...) {} TR.emit("{\"e\":\"WaitRet\",\"live\":%d,\"lossless\":0}", __atomic_load_n(&g_live, __ATOMIC_SEQ_CST));
                G->reset(); TR.emit("{\"e\":\"Uncancel\"}"); msg(31); put(*RX[1], 1, 31, 31); G->wait_for_all(); TR.emit("{\"e\":\"WaitRet\",\"live\":%d,\"lossless\":0}", __atomic_load_n(&g_live, __ATOMIC_SEQ_CST)); }
            release_helpers(); }
        else help(id);
    }, nullptr};
}
// ---- C15: priority queue, reservations, overwrite / write_once, split, indexer
static priority_queue_node<int>* PQN; static overwrite_node<int>* OWN; static write_once_node<int>* WON;
static Scn prio() {         // the serial sink holds its first item until every put has returned: the rest must then come out in priority order
    return {3, [](int id) {
        if (id == 0) { G = new graph; PQN = new priority_queue_node<int>(*G);
            reg(2, new function_node<int, int, rejecting>(*G, serial, [](int v) { int m = v % 100; __atomic_add_fetch(&g_live, 1, __ATOMIC_SEQ_CST); TR.emit("{\"e\":\"BB\",\"n\":2,\"m\":%d}", m);
                for (long i = 0; i < 300000 && g_done.load() < NT; i++) cosched::yield_point(); TR.emit("{\"e\":\"BE\",\"n\":2,\"m\":%d}", m); __atomic_sub_fetch(&g_live, 1, __ATOMIC_SEQ_CST); return m; }));
            node(1, "prio"); node(2, "fn", 1); make_edge(*PQN, *RX[2]); edge(1, 2); publish(); }
        await_graph();
        static const int pr[9] = {5, 2, 8, 1, 9, 4, 7, 3, 6};
        for (int k = 0; k < 3; k++) { int m = 1 + id * 3 + k; msg(m, -1, pr[id * 3 + k]); put(*PQN, 1, m, pr[id * 3 + k] * 100 + m); }      // value = priority * 100 + id: the node orders by value
        barrier(); if (id == 0) { waitret(*G, 1); release_helpers(); } else help(id);
    }, nullptr};
}
static Scn reserve() {      // queue_node used directly: put / try_reserve + release or consume / try_get from three threads; nothing lost, nothing taken twice
    return {3, [](int id) {
        if (id == 0) { G = new graph; Q[0] = new queue_node<int>(*G); node(1, "queue"); publish(); }
        await_graph();
        for (int k = 0; k < 3; k++) { int m = 1 + id * 3 + k; msg(m); put(*Q[0], 1, m, m);
            int v = 0;
            if (id == 1) { bool ok = Q[0]->try_reserve(v); TR.emit("{\"e\":\"Rsv\",\"n\":1,\"m\":%d,\"ok\":%d}", ok ? v : 0, ok ? 1 : 0);
                if (ok) { cosched::yield_point(); if (k & 1) { TR.emit("{\"e\":\"Con\",\"n\":1,\"m\":%d}", v); Q[0]->try_consume(); } else { TR.emit("{\"e\":\"Rel\",\"n\":1,\"m\":%d}", v); Q[0]->try_release(); } } }
            else if (id == 2 && Q[0]->try_get(v)) TR.emit("{\"e\":\"Get\",\"n\":1,\"m\":%d}", v); }
        barrier();
        if (id == 0) { G->wait_for_all(); int v, cnt = 0; while (Q[0]->try_get(v)) ++cnt; TR.emit("{\"e\":\"Drained\",\"n\":1,\"cnt\":%d}", cnt); TR.emit("{\"e\":\"WaitRet\",\"live\":0,\"lossless\":0}"); release_helpers(); } else help(id);
    }, nullptr};
}
static Scn reserve2() {     // a queue_node with an ACCEPTING push successor while a user thread reserves and releases its head: the items that queued up behind a reservation
    return {3, [](int id) {   // (a forwarding attempt during the reservation is refused) must flow again once the reservation is released - nothing may stay behind at wait_for_all
        if (id == 0) { G = new graph; Q[0] = new queue_node<int>(*G);
            reg(3, new function_node<int, int>(*G, serial, [](int m) { __atomic_add_fetch(&g_live, 1, __ATOMIC_SEQ_CST); TR.emit("{\"e\":\"BB\",\"n\":3,\"m\":%d}", m); cosched::yield_point(); TR.emit("{\"e\":\"BE\",\"n\":3,\"m\":%d}", m); __atomic_sub_fetch(&g_live, 1, __ATOMIC_SEQ_CST); return m; }));
            node(1, "queue"); node(3, "fn", 1); make_edge(*Q[0], *RX[3]); edge(1, 3); publish(); }
        await_graph();
        for (int k = 0; k < 3; k++) { int m = 1 + id * 3 + k; msg(m); put(*Q[0], 1, m, m);
            int v = 0;
            if (id == 1) { bool ok = Q[0]->try_reserve(v); TR.emit("{\"e\":\"Rsv\",\"n\":1,\"m\":%d,\"ok\":%d}", ok ? v : 0, ok ? 1 : 0);
                if (ok) { for (int i = 0; i < 3; i++) cosched::yield_point(); TR.emit("{\"e\":\"Rel\",\"n\":1,\"m\":%d}", v); Q[0]->try_release(); } } }
        barrier(); if (id == 0) { waitret(*G, 1); release_helpers(); } else help(id);
    }, nullptr};
}
static Scn owr(bool once) { // overwrite / write_once: one producer, a successor attached from the start and one attached concurrently by another thread
    return {2, [once](int id) {
        auto sink = [](int sc) { return [sc](int v) { TR.emit("{\"e\":\"Dlv\",\"sc\":%d,\"v\":%d}", sc, v); return v; }; };
        if (id == 0) { G = new graph; if (once) WON = new write_once_node<int>(*G); else OWN = new overwrite_node<int>(*G);
            reg(2, new function_node<int, int>(*G, serial, sink(2))); reg(3, new function_node<int, int>(*G, serial, sink(3)));
            node(1, once ? "wo" : "ow"); if (once) make_edge(*WON, *RX[2]); else make_edge(*OWN, *RX[2]); publish(); }
        await_graph();
        if (id == 0) for (int k = 0; k < 3; k++) { int m = 1 + k; msg(m); if (once) put(*WON, 1, m, m); else put(*OWN, 1, m, m); cosched::yield_point(); }
        else { for (int i = 0; i < 2; i++) cosched::yield_point(); if (once) make_edge(*WON, *RX[3]); else make_edge(*OWN, *RX[3]); }
        barrier();
        if (id == 0) { G->wait_for_all(); TR.emit("{\"e\":\"WaitRet\",\"live\":0,\"lossless\":0}"); TR.emit("{\"e\":\"OwCheck\",\"n\":1,\"sc\":2}"); TR.emit("{\"e\":\"OwCheck\",\"n\":1,\"sc\":3}"); release_helpers(); } else help(id);
    }, nullptr};
}
static Scn route(bool indexer) {   // split_node: element i of the tuple goes to port i;  indexer_node: a message on port i is tagged i
    return {3, [indexer](int id) {
        static split_node<T2>* SP; static indexer_node<int, int>* IX; typedef indexer_node<int, int>::output_type Tagged;
        if (id == 0) { G = new graph; node(1, "split"); node(2, "fn", 0, 0); node(3, "fn", 0, 1); edge(1, 2); edge(1, 3);
            if (!indexer) { SP = new split_node<T2>(*G); reg(2, new function_node<int, int>(*G, unlimited, Body{2, 1})); reg(3, new function_node<int, int>(*G, unlimited, Body{3, 1}));
                make_edge(output_port<0>(*SP), *RX[2]); make_edge(output_port<1>(*SP), *RX[3]); }
            else { IX = new indexer_node<int, int>(*G); static function_node<Tagged, int>* SK;
                SK = new function_node<Tagged, int>(*G, unlimited, [](const Tagged& t) { int tag = (int)t.tag(); int m = tag == 0 ? cast_to<int>(t) : cast_to<int>(t); Body b{2 + tag, 1}; return b(m); });
                make_edge(*IX, *SK); }
            publish(); }
        await_graph();
        for (int k = 0; k < 3; k++) { int a = 1 + id * 6 + 2 * k, b = a + 1; msg(a, -1, 0); msg(b, -1, 1);
            if (!indexer) { TR.emit("{\"e\":\"PutB\",\"n\":2,\"m\":%d}", a); TR.emit("{\"e\":\"PutB\",\"n\":3,\"m\":%d}", b); bool ok = SP->try_put(T2(a, b));
                TR.emit("{\"e\":\"PutE\",\"n\":2,\"m\":%d,\"ok\":%d}", a, ok ? 1 : 0); TR.emit("{\"e\":\"PutE\",\"n\":3,\"m\":%d,\"ok\":%d}", b, ok ? 1 : 0); }
            else { put(input_port<0>(*IX), 2, a, a); put(input_port<1>(*IX), 3, b, b); } }
        barrier(); if (id == 0) { waitret(*G, 1); release_helpers(); } else help(id);
    }, nullptr};
}
// ---- C14: input_node, async_node completed from a foreign thread, limiter with a feedback edge
static std::atomic<int> g_async_q[8]; static std::atomic<int> g_async_n; static async_node<int, int>::gateway_type* GW;
static Scn inputn() {
    return {2, [](int id) {
        static input_node<int>* IN; static int produced;
        if (id == 0) { G = new graph; produced = 0;
            IN = new input_node<int>(*G, [](tbb::flow_control& fc) -> int { if (produced >= 5) { fc.stop(); return 0; } int m = ++produced; TR.emit("{\"e\":\"Msg\",\"m\":%d,\"s\":-1,\"k\":0}", m);
                TR.emit("{\"e\":\"PutB\",\"n\":1,\"m\":%d}", m); TR.emit("{\"e\":\"PutE\",\"n\":1,\"m\":%d,\"ok\":1}", m); Body b{1, 1}; return b(m); });
            reg(2, new function_node<int, int>(*G, serial, Body{2, 2})); reg(3, new function_node<int, int>(*G, unlimited, Body{3, 1}));
            node(1, "fn", 1); node(2, "fn", 1); node(3, "fn", 0); make_edge(*IN, *RX[2]); make_edge(*TX[2], *RX[3]); edge(1, 2); edge(2, 3); publish(); IN->activate(); }
        await_graph(); barrier(); if (id == 0) { waitret(*G, 1); release_helpers(); } else help(id);
    }, nullptr};
}
static Scn asyncn() {
    Scn sc{2, [](int id) {
        static async_node<int, int>* AN;
        if (id == 0) { G = new graph; vh::rawstore(g_async_n, 0); GW = nullptr;
            AN = new async_node<int, int>(*G, unlimited, [](const int& m, async_node<int, int>::gateway_type& gw) { __atomic_add_fetch(&g_live, 1, __ATOMIC_SEQ_CST);
                TR.emit("{\"e\":\"BB\",\"n\":1,\"m\":%d}", m); gw.reserve_wait(); GW = &gw; int k = g_async_n.fetch_add(1); g_async_q[k].store(m); });
            RX[1] = AN; reg(2, new function_node<int, int>(*G, serial, Body{2, 1})); node(1, "fn", 0); node(2, "fn", 1); make_edge(*AN, *RX[2]); edge(1, 2); publish(); }
        await_graph();
        static async_node<int, int>* ANp; (void)ANp;
        for (int k = 0; k < 2; k++) { int m = 1 + id * 2 + k; msg(m); put(*(receiver<int>*)RX[1], 1, m, m); }
        barrier(); if (id == 0) { waitret(*G, 1); release_helpers(); } else help(id);
    }, nullptr};
    sc.foreign = [] {      // the "external activity": completes every submitted item from outside the arena
        for (int done = 0; done < 4; done++) { while (g_async_n.load() <= done) cosched::yield_point(); int m; while (!(m = g_async_q[done].load())) cosched::yield_point();
            TR.emit("{\"e\":\"BE\",\"n\":1,\"m\":%d}", m); __atomic_sub_fetch(&g_live, 1, __ATOMIC_SEQ_CST); GW->try_put(m); GW->release_wait(); g_async_q[done].store(0); } };
    return sc;
}
static Scn limitc(int T) {  // queue -> limiter(T) -> serial function whose continue_msg output is wired back to the limiter's decrementer (feedback cycle)
    return {3, [T](int id) {
        static function_node<int, continue_msg>* FC;
        if (id == 0) { G = new graph; Q[0] = new queue_node<int>(*G); LM = new limiter_node<int>(*G, (size_t)T);
            FC = new function_node<int, continue_msg>(*G, serial, [](int m) { __atomic_add_fetch(&g_live, 1, __ATOMIC_SEQ_CST); TR.emit("{\"e\":\"BB\",\"n\":3,\"m\":%d}", m);
                for (int i = 0; i < 2; i++) cosched::yield_point(); TR.emit("{\"e\":\"BE\",\"n\":3,\"m\":%d}", m); TR.emit("{\"e\":\"DecB\",\"n\":2}"); __atomic_sub_fetch(&g_live, 1, __ATOMIC_SEQ_CST); return continue_msg(); });
            node(1, "queue"); node(2, "limiter", 0, T); node(3, "fn", 1); make_edge(*Q[0], *LM); make_edge(*LM, *FC); make_edge(*FC, LM->decrementer()); edge(1, 2); edge(2, 3); publish(); }
        await_graph();
        for (int k = 0; k < 3; k++) { int m = 1 + id * 3 + k; msg(m); put(*Q[0], 1, m, m); }
        barrier(); if (id == 0) { waitret(*G, 1); release_helpers(); } else help(id);
    }, nullptr};
}
static Scn twolim() {      // one queue feeding TWO limiters (both take items by reservation), each with its own consumer: every message is consumed by exactly one
    return {3, [](int id) {    // of the two consumers (they log as one logical node 4) - an item reserved by one limiter must not be forwarded to the other
        static limiter_node<int>* L2[2]; static function_node<int, int>* CS[2];
        if (id == 0) { G = new graph; Q[0] = new queue_node<int>(*G); node(1, "queue"); node(2, "pass"); node(3, "pass"); node(4, "fn", 0); edge(1, 2); edge(1, 3); edge(2, 4); edge(3, 4);
            for (int k = 0; k < 2; k++) { L2[k] = new limiter_node<int>(*G, 1);
                CS[k] = new function_node<int, int>(*G, serial, [k](int m) { __atomic_add_fetch(&g_live, 1, __ATOMIC_SEQ_CST); TR.emit("{\"e\":\"BB\",\"n\":4,\"m\":%d}", m);
                    for (int i = 0; i < 3; i++) cosched::yield_point(); TR.emit("{\"e\":\"BE\",\"n\":4,\"m\":%d}", m); __atomic_sub_fetch(&g_live, 1, __ATOMIC_SEQ_CST); L2[k]->decrementer().try_put(continue_msg()); return m; });
                make_edge(*Q[0], *L2[k]); make_edge(*L2[k], *CS[k]); }
            publish(); }
        await_graph();
        for (int k = 0; k < 4; k++) { int m = 1 + id * 4 + k; msg(m); put(*Q[0], 1, m, m); }
        barrier(); if (id == 0) { waitret(*G, 1); release_helpers(); } else help(id);
    }, nullptr};
}
static Scn limitL(int T) {  // external puts straight into a limiter whose successor is LIGHTWEIGHT (its body runs inside the limiter's try_put and may send the decrement
    return {3, [T](int id) {   // before that put has been counted: the early-decrement bookkeeping, my_future_decrement); only some messages are decremented
        if (id == 0) { G = new graph; LM = new limiter_node<int>(*G, (size_t)T);
            reg(3, new function_node<int, int, lightweight>(*G, unlimited, [](int m) noexcept { __atomic_add_fetch(&g_live, 1, __ATOMIC_SEQ_CST); TR.emit("{\"e\":\"BB\",\"n\":3,\"m\":%d}", m);
                cosched::yield_point(); TR.emit("{\"e\":\"BE\",\"n\":3,\"m\":%d}", m); __atomic_sub_fetch(&g_live, 1, __ATOMIC_SEQ_CST);
                if (m % 4 == 1) { TR.emit("{\"e\":\"DecB\",\"n\":2}"); LM->decrementer().try_put(continue_msg()); } return m; }));
            node(2, "limiter", 0, T); node(3, "fn", 0); make_edge(*LM, *RX[3]); edge(2, 3); publish(); }
        await_graph();
        for (int k = 0; k < 4; k++) { int m = 1 + id * 4 + k; msg(m); put(*LM, 2, m, m); }
        barrier(); if (id == 0) { waitret(*G, 1); release_helpers(); } else help(id);
    }, nullptr};
}
static Scn limitD(int T, bool serial_worker) {   // an INTEGRAL decrementer gives slots back in pairs: the successor sends decrement(2) after every second message.  With a lightweight
    return {3, [T, serial_worker](int id) {         // successor the body runs inside the limiter's try_put, so the batch arrives while that put is in flight and only one of the two is counted yet
        static limiter_node<int, int>* LD; static std::atomic<int> seen;
        if (id == 0) { G = new graph; LD = new limiter_node<int, int>(*G, (size_t)T); vh::rawstore(seen, 0);
            auto body = [](int m) noexcept { __atomic_add_fetch(&g_live, 1, __ATOMIC_SEQ_CST); TR.emit("{\"e\":\"BB\",\"n\":3,\"m\":%d}", m);
                cosched::yield_point(); TR.emit("{\"e\":\"BE\",\"n\":3,\"m\":%d}", m); __atomic_sub_fetch(&g_live, 1, __ATOMIC_SEQ_CST);
                if (seen.fetch_add(1) == 1) { TR.emit("{\"e\":\"DecB\",\"n\":2,\"k\":2}"); LD->decrementer().try_put(2); } return m; };      // ONE batch, after the second message: exactly two more may pass
            if (serial_worker) reg(3, new function_node<int, int>(*G, serial, body)); else reg(3, new function_node<int, int, lightweight>(*G, unlimited, body));
            node(2, "limiter", 0, T); node(3, "fn", serial_worker ? 1 : 0); make_edge(*LD, *RX[3]); edge(2, 3); publish(); }
        await_graph();
        for (int k = 0; k < 4; k++) { int m = 1 + id * 4 + k; msg(m); put(*LD, 2, m, m); }
        barrier(); if (id == 0) { waitret(*G, 1); release_helpers(); } else help(id);
    }, nullptr};
}
static Scn make(const std::string& s) {
    if (s == "limitD2") return limitD(2, false); if (s == "limitD3") return limitD(3, false); if (s == "limitD2s") return limitD(2, true);
    if (s == "limitL1") return limitL(1); if (s == "limitL2") return limitL(2);
    if (s == "twolim") return twolim();
    if (s == "prio") return prio(); if (s == "reserve") return reserve(); if (s == "reserve2") return reserve2(); if (s == "ow") return owr(false); if (s == "wo") return owr(true); if (s == "split") return route(false); if (s == "indexer") return route(true);
    if (s == "input") return inputn(); if (s == "async") return asyncn(); if (s == "limitc1") return limitc(1); if (s == "limitc2") return limitc(2);
    if (s == "joinkd") return joinkd(); if (s == "joinkd2") return joinkd2();
    if (s == "mfn") return mfn(false); if (s == "mfnR") return mfn(true);
    if (s == "chain0") return chain(0); if (s == "chain1") return chain(1); if (s == "chainR") return chain(2); if (s == "fan") return fan(); if (s == "fifo") return fifo();
    if (s.rfind("seq", 0) == 0) return seqr((unsigned)atoi(s.c_str() + 3)); if (s == "limit1") return limit(1); if (s == "limit2") return limit(2);
    if (s == "joinq") return joinq(0); if (s == "joinr") return joinq(1); if (s == "joink") return joinq(2); if (s == "cancel") return cancel();
    fprintf(stderr, "unknown scenario %s\n", s.c_str()); exit(2);
}
struct Stats { long paths, steps, stuck; };
// debugging aid (VERIF_ONLY): the library's view of the world when a run is cut off
static void dump_state(tbb::task_arena& arena) {
    using vh::rawload; tbb::detail::r1::arena* a = rawload(arena.my_arena);
    fprintf(stderr, "graph wait_context ref=%llu  harness wait ref=%llu\n", (unsigned long long)rawload(G->my_wait_context_vertex.get_context().m_ref_count), (unsigned long long)rawload(HWC->m_ref_count));
    if (LM) fprintf(stderr, "limiter count=%zu tries=%zu future_decrement=%zu threshold=%zu\n", LM->my_count, LM->my_tries, LM->my_future_decrement, LM->my_threshold);
    if (Q[0]) fprintf(stderr, "queue head=%zu tail=%zu reserved=%d\n", Q[0]->my_head, Q[0]->my_tail, (int)Q[0]->my_reserved);
    fprintf(stderr, "arena pool_state=%d fifo pop=%lx critical pop=%lx resume pop=%lx slots=%u\n", (int)rawload(a->my_pool_state.my_state), (unsigned long)rawload(a->my_fifo_task_stream.population),
            (unsigned long)rawload(a->my_critical_task_stream.population), (unsigned long)rawload(a->my_resume_task_stream.population), a->my_num_slots);
    for (unsigned i = 0; i < a->my_num_slots; i++) { auto& sl = a->my_slots[i];
        fprintf(stderr, "  slot %u occupied=%d task_pool=%p head=%zu tail=%zu mailbox_empty=%d\n", i, (int)rawload(sl.my_is_occupied), (void*)rawload(sl.task_pool), (size_t)rawload(sl.head), (size_t)rawload(sl.tail), (int)a->mailbox(i).empty()); }
}
int main(int argc, char** argv) {
    if (argc < 5) { fprintf(stderr, "usage\n"); return 2; }
    FILE* out = fopen(argv[1], "w"); std::string sc = argv[2]; int nseeds = atoi(argv[3]); unsigned long seed0 = strtoul(argv[4], nullptr, 10);
    Stats* st = (Stats*)mmap(nullptr, sizeof(Stats), PROT_READ | PROT_WRITE, MAP_SHARED | MAP_ANONYMOUS, -1, 0); memset(st, 0, sizeof *st);
    vh::Timer tm; static const int dens[8] = {1, 3, 10, 40, -1, -2, -3, -5}; long crashed = 0; std::string tmp = std::string(argv[1]) + ".child"; bool first = true;
    int only = getenv("VERIF_ONLY") ? atoi(getenv("VERIF_ONLY")) : -1;      // debugging: run one schedule index only
    for (int c0 = 0; c0 < nseeds && st->stuck < 6 && crashed < 4; c0 += 25) {
        if (only >= 0 && (only < c0 || only >= c0 + 25)) continue;
        crashed += forked_case(tmp.c_str(), out, first, 300, [&] {
            for (int s = c0; s < c0 + 25 && s < nseeds && st->stuck < 6; s++) {
                if (only >= 0 && s != only && !getenv("VERIF_CHUNK")) continue;
                TR.begin_exec(); TR.emit("{\"e\":\"Scenario\",\"name\":\"%s\",\"s\":%d}", sc.c_str(), s);
                Scn S0 = make(sc); NT = S0.n; vh::rawstore(g_ready, 0); vh::rawstore(g_done, 0); g_live = 0;
                tbb::task_arena arena(NT + 1, NT + 1); arena.initialize();
                tbb::detail::d1::wait_context hwc(1); HWC = &hwc; for (int i = 0; i <= NT; i++) HCTX[i] = new tbb::task_group_context(tbb::task_group_context::isolated);
                Sched S; S.stall_limit = 200000; S.log_schedule = true; focus_only(false);
                // threads 0..NT-1 run the scenario roles, thread NT takes part in task execution from the very start (so bodies overlap the external puts),
                // thread NT+1 (if any) stays outside the arena (async_node gateway completions)
                S.spawn(NT + 1 + (S0.foreign ? 1 : 0), [&](int id) {
                    if (id == NT + 1) { S0.foreign(); return; }
                    arena.execute([&] { try { if (id == NT) help(id); else S0.role(id); } catch (...) { TR.emit("{\"e\":\"Escaped\",\"t\":%d}", id); } }); });
                int rc = S.run_random(seed0 + s, 30000000, dens[s % 8]);
                TR.sched(S.sched_log); st->steps += S.steps; ++st->paths;
                if (rc != RC_OK && only >= 0) dump_state(arena);
                if (rc != RC_OK && only >= 0 && getenv("VERIF_PAUSE_ON_STUCK")) { fprintf(stderr, "stuck: pid %d paused for gdb\n", (int)getpid()); alarm(0); sleep(900); }
                if (rc != RC_OK && only >= 0) for (int i = 0; i < S.n(); i++) fprintf(stderr, "thread %d state %d pending kind %d addr %p hooks %ld\n", i, S.state(i), S.pending(i).kind, S.pending(i).addr, S.lts[i]->hooks);
                if (rc != RC_OK) { TR.emit("{\"e\":\"Stuck\",\"rc\":\"%s\"}", rc_name(rc).c_str()); ++st->stuck; S.join_all(); return; }     // a stuck run ends its chunk (parked threads, time budget of the child)
                S.join_all();
            }
        }, &c0);
    }
    fclose(out);
    printf("{\"paths\":%ld,\"steps\":%ld,\"stuck\":%ld,\"crashed\":%ld,\"wall\":%.2f}\n", st->paths, st->steps, st->stuck, crashed, tm.s());
    return 0;
}
