// C17 / C18 harness: the tbbmalloc sources are compiled into this TU (the test_malloc_whitebox seam) with the instrumentation prelude, so every
// atomic and every MallocMutex of the allocator is a schedule point and the OS mapping calls go through a failure-injection seam.
//   h_malloc sizeclass <trace>                                    (bin index, object size) of every request size 1..8128 from the real functions
//   h_malloc heap <trace> <nseeds> <seed0> <threads> <ops>        random API sequences on logical threads (cross-thread frees, thread exit, clean-up commands)
//   h_malloc pool <trace> <nseeds> <seed0> <mode>                 memory pools with instrumented raw callbacks; mode: plain | fixed | fail
//   h_malloc oom  <trace> <nseeds> <seed0>                        default pool: the k-th OS mapping fails; unrepresentable sizes / alignments
// Addresses are emitted as order-preserving ranks (TLC integers are 32 bit; only the order matters to HeapAbs / PoolAbs).
#define __TBB_SOURCE_DIRECTLY_INCLUDED 1
#define __TBB_MALLOC_WHITEBOX_TEST 1
#define __STDC_LIMIT_MACROS 1
#include <sys/mman.h>
static long g_mmaps = 0, g_fail_from = -1, g_fail_to = -1;      // OS mapping calls with index in [from, to] fail
static void* verif_mmap(void* a, size_t l, int p, int f, int fd, off_t o) { long k = ++g_mmaps; if (k >= g_fail_from && k <= g_fail_to) { errno = ENOMEM; return MAP_FAILED; } return mmap(a, l, p, f, fd, o); }
#define mmap verif_mmap
#define protected public
#define private public
#include "tbbmalloc/frontend.cpp"
#undef protected
#undef private
#include "tbbmalloc/backend.cpp"
#include "tbbmalloc/backref.cpp"
namespace tbbmalloc_whitebox { std::atomic<size_t> locGetProcessed{}; std::atomic<size_t> locPutProcessed{}; }
#include "tbbmalloc/large_objects.cpp"
#include "tbbmalloc/tbbmalloc.cpp"
#undef mmap
#include "vh.h"
#include <random>
#include <sys/wait.h>
using namespace cosched;
static vh::TraceOut TR;
typedef unsigned long long u64;

// ---- event buffer with raw addresses, rank-compressed at the end of an execution
struct Ev { std::string e; std::vector<std::pair<std::string, long long>> f; std::vector<std::pair<std::string, u64>> addr; };
static std::vector<Ev> EVS;
static void flush_events() {
    std::vector<u64> pts; for (auto& ev : EVS) for (auto& a : ev.addr) pts.push_back(a.second);
    std::sort(pts.begin(), pts.end()); pts.erase(std::unique(pts.begin(), pts.end()), pts.end());
    for (auto& ev : EVS) { std::ostringstream o; o << "{\"e\":\"" << ev.e << "\""; for (auto& kv : ev.f) o << ",\"" << kv.first << "\":" << kv.second;
        for (auto& a : ev.addr) o << ",\"" << a.first << "\":" << (std::lower_bound(pts.begin(), pts.end(), a.second) - pts.begin() + 1);
        o << "}"; TR.emit("%s", o.str().c_str()); }
    EVS.clear();
}
static void ev(const char* e, std::initializer_list<std::pair<std::string, long long>> f, std::initializer_list<std::pair<std::string, u64>> a = {}) { EVS.push_back(Ev{e, f, a}); }

// ---- fill patterns: the whole block up to 8K, first and last 4K beyond
static unsigned char pat_of(int id) { return (unsigned char)(0x40 + id % 150); }
static void fill(void* p, size_t n, int id) { unsigned char c = pat_of(id); if (n <= 8192) memset(p, c, n); else { memset(p, c, 4096); memset((char*)p + n - 4096, c, 4096); } }
static bool check_range(const unsigned char* p, size_t n, unsigned char c) { for (size_t i = 0; i < n; i++) if (p[i] != c) return false; return true; }
static bool check(void* p, size_t n, int id) { unsigned char c = pat_of(id); if (n <= 8192) return check_range((unsigned char*)p, n, c); return check_range((unsigned char*)p, 4096, c) && check_range((unsigned char*)p + n - 4096, 4096, c); }
// the part of the first `keep` bytes of a block of (old) size n that carries the pattern contiguously from the start
static size_t patterned_prefix(size_t n, size_t keep) { size_t f = n <= 8192 ? n : 4096; return keep < f ? keep : f; }
static bool is_zero(void* p, size_t n) { const unsigned char* q = (const unsigned char*)p; size_t m = n <= 8192 ? n : 4096; for (size_t i = 0; i < m; i++) if (q[i]) return false; if (n > 8192) for (size_t i = n - 4096; i < n; i++) if (q[i]) return false; return true; }

// ================================================================================================ size classes
static int run_sizeclass(const char* trace) {
    TR.open(trace); TR.begin_exec();
    for (unsigned s = 1; s <= rml::internal::fittingSize5; s++) TR.emit("{\"e\":\"SC\",\"s\":%u,\"i\":%u,\"z\":%u}", s, rml::internal::getIndex(s), rml::internal::getObjectSize(s));
    TR.close(); printf("{\"paths\":1,\"sizes\":%u}\n", (unsigned)rml::internal::fittingSize5); return 0;
}

// ================================================================================================ heap (C17)
struct Blk { void* p = nullptr; size_t size = 0; int id = 0; bool busy = false; size_t align = 0; };
static const int NSLOT = 20; static Blk TAB[NSLOT]; static int g_next_id;
static const size_t SIZES[] = {0, 1, 7, 8, 9, 16, 17, 24, 48, 63, 64, 65, 80, 81, 96, 128, 129, 256, 512, 1000, 1024, 1025, 1792, 1793, 2688, 2689, 4032, 4033, 5376, 5377, 8064, 8128, 8129,
                               9000, 16000, 16384, 16385, 40000, 65536, 70000, 200000, 1048576, 1100000, 8500000};
static const size_t ALIGNS[] = {8, 16, 32, 64, 128, 256, 1024, 4096, 16384, 65536, 1048576};
static size_t nat_align(size_t size) { return size <= 8 ? 8 : 16; }        // without a requested alignment: 16 bytes, 8 for requests of at most 8 bytes
static void heap_thread(int t, unsigned long seed, int nops, bool exits_early) {
    std::mt19937_64 rng(seed * 1315423911u + t * 2654435761u);
    int myops = exits_early ? nops / 3 : nops;
    for (int k = 0; k < myops; k++) {
        int op = (int)(rng() % 100);
        int slot = (int)(rng() % NSLOT);
        Blk& b = TAB[slot];
        if (b.busy) continue;
        if (!b.p) {                                  // allocate into an empty slot
            b.busy = true; size_t size = SIZES[rng() % (sizeof SIZES / sizeof *SIZES)]; size_t al = 0; void* p = nullptr; int kind = op % 5; bool zero = false;
            if (size > 1100000 && (rng() % 4)) size = 5000;         // huge blocks only now and then
            int id = ++g_next_id;
            if (kind == 0) p = scalable_malloc(size);
            else if (kind == 1) { size_t n = 1 + rng() % 4; size_t each = size / n + 1; p = scalable_calloc(n, each); size = n * each; zero = true; }
            else if (kind == 2) { al = ALIGNS[rng() % (sizeof ALIGNS / sizeof *ALIGNS)]; p = scalable_aligned_malloc(size ? size : 1, al); if (!size) size = 1; }
            else if (kind == 3) { al = ALIGNS[rng() % 9]; if (al < sizeof(void*)) al = sizeof(void*); if (scalable_posix_memalign(&p, al, size) != 0) p = nullptr; }
            else p = scalable_realloc(nullptr, size);
            if (!p) { b.busy = false; ev("Null", {{"t", t}}); continue; }       // real out-of-memory is not expected in these runs; unexplainable if it happens
            size_t eff = size ? size : 1;
            bool okal = ((uintptr_t)p % (al ? al : nat_align(size))) == 0, okms = scalable_msize(p) >= size, okze = !zero || is_zero(p, size);
            fill(p, size, id);
            ev("A", {{"t", t}, {"id", id}, {"al", okal}, {"ms", okms}, {"ze", okze}, {"k", kind}, {"sz", (long long)size}, {"ra", (long long)al}}, {{"lo", (u64)(uintptr_t)p}, {"hi", (u64)(uintptr_t)p + eff}});
            b.p = p; b.size = size; b.id = id; b.align = al; b.busy = false;
        } else if (op < 40) {                        // free (possibly a block another thread allocated)
            b.busy = true; bool pt = check(b.p, b.size, b.id);
            ev("F", {{"t", t}, {"id", b.id}, {"pt", pt}});
            if (b.align && (rng() & 1)) scalable_aligned_free(b.p); else scalable_free(b.p);
            b.p = nullptr; b.busy = false;
        } else if (op < 65) {                        // realloc / aligned_realloc
            b.busy = true; size_t ns = SIZES[1 + rng() % (sizeof SIZES / sizeof *SIZES - 2)]; bool pt = check(b.p, b.size, b.id);
            ev("RB", {{"t", t}, {"id", b.id}, {"pt", pt}});
            size_t al = b.align && (rng() & 1) ? b.align : 0; void* np = al ? scalable_aligned_realloc(b.p, ns, al) : scalable_realloc(b.p, ns);
            if (!np) { ev("RE", {{"t", t}, {"id", b.id}, {"res", 0}, {"nid", b.id}, {"al", 1}, {"ms", 1}, {"pf", 1}}, {{"lo", 0}, {"hi", 0}}); }
            else { size_t keep = patterned_prefix(b.size, std::min(b.size, ns)); bool pf = check_range((unsigned char*)np, keep, pat_of(b.id));
                int nid = ++g_next_id; bool okal = ((uintptr_t)np % (al ? al : nat_align(ns))) == 0, okms = scalable_msize(np) >= ns;
                ev("RE", {{"t", t}, {"id", b.id}, {"res", 1}, {"nid", nid}, {"al", okal}, {"ms", okms}, {"pf", pf}}, {{"lo", (u64)(uintptr_t)np}, {"hi", (u64)(uintptr_t)np + ns}});
                fill(np, ns, nid); b.p = np; b.size = ns; b.id = nid; b.align = al; }
            b.busy = false;
        } else if (op < 90) { bool pt = check(b.p, b.size, b.id); ev("C", {{"t", t}, {"id", b.id}, {"pt", pt}}); }
        else if (op < 95) scalable_allocation_command(TBBMALLOC_CLEAN_THREAD_BUFFERS, nullptr);
        else scalable_allocation_command(TBBMALLOC_CLEAN_ALL_BUFFERS, nullptr);
    }
    { rml::internal::TLSData* tls = rml::internal::defaultMemPool->getTLS(/*create=*/false); if (tls) mallocThreadShutdownNotification(tls); }   // thread exit with live blocks: its slabs become orphans that the other threads adopt / free into
}
// orphaned slabs (mode "orphan", N = 4): thread 0 allocates a few small objects and exits with them live (its slabs go to the orphan lists); then, all at once,
// threads 1 and 3 allocate from the same size classes (each adopts an orphaned slab: LifoList::pop) while thread 2 runs the clean-all-buffers command
// (OrphanedBlocks::cleanup -> LifoList::grab, privatisation of the public free lists, empty slabs go back to the backend).  A slab must end up with ONE owner.
static int g_phase;
static void orphan_thread(int t, unsigned long seed) {
    std::mt19937_64 rng(seed * 7919u + t * 104729u);
    static const size_t CL[2] = {64, 1024};
    auto alloc = [&](int slot, size_t size) { Blk& b = TAB[slot]; int id = ++g_next_id; void* p = scalable_malloc(size); if (!p) { ev("Null", {{"t", t}}); return; }
        bool okal = ((uintptr_t)p % nat_align(size)) == 0, okms = scalable_msize(p) >= size; fill(p, size, id);
        ev("A", {{"t", t}, {"id", id}, {"al", okal}, {"ms", okms}, {"ze", 1}, {"k", 0}, {"sz", (long long)size}, {"ra", 0}}, {{"lo", (u64)(uintptr_t)p}, {"hi", (u64)(uintptr_t)p + size}});
        b.p = p; b.size = size; b.id = id; b.align = 0; };
    auto release = [&](int slot) { Blk& b = TAB[slot]; if (!b.p) return; ev("F", {{"t", t}, {"id", b.id}, {"pt", check(b.p, b.size, b.id)}}); scalable_free(b.p); b.p = nullptr; };
    if (t == 0) { for (int i = 0; i < 4; i++) alloc(i, CL[i & 1]); if (seed & 1) release(0);       // (odd seeds: one object freed by its owner before the exit)
    } else {
        while (!__atomic_load_n(&g_phase, __ATOMIC_SEQ_CST)) cosched::yield_point();
        if (t == 2) { for (int i = 0; i < 2; i++) scalable_allocation_command(TBBMALLOC_CLEAN_ALL_BUFFERS, nullptr); }
        else { int base = t == 1 ? 4 : 12; for (int i = 0; i < 6; i++) alloc(base + i, CL[(i + (rng() & 1)) & 1]);
            if (t == 3 && (seed & 2)) release(1);                                                    // a foreign free into the orphaned / adopted slab
            for (int i = 0; i < 6; i++) { Blk& b = TAB[base + i]; if (b.p) ev("C", {{"t", t}, {"id", b.id}, {"pt", check(b.p, b.size, b.id)}}); }
            for (int i = 0; i < 6; i += 2) release(base + i); for (int i = 0; i < 3; i++) alloc(base + 2 * i, CL[i & 1]); }
    }
    { rml::internal::TLSData* tls = rml::internal::defaultMemPool->getTLS(/*create=*/false); if (tls) mallocThreadShutdownNotification(tls); }
    if (t == 0) __atomic_store_n(&g_phase, 1, __ATOMIC_SEQ_CST);
}
struct Stats { long paths, steps, stuck; };
template <class Fn> static int forked(const char* tmp, FILE* out, bool& first, int watchdog, Fn fn) {
    pid_t pid = fork();
    if (pid == 0) { alarm(watchdog); TR.open(tmp); setvbuf(TR.f, nullptr, _IOLBF, 0); fn(); TR.close(); _exit(0); }
    int status = 0; waitpid(pid, &status, 0);
    std::ifstream in(tmp); std::string line; bool any = false;
    while (std::getline(in, line)) { if (line.empty() || line.back() != '}') continue; if (!any && !first && line.find("\"Reset\"") == std::string::npos) fputs("{\"e\":\"Reset\"}\n", out); any = true; first = false; fputs(line.c_str(), out); fputc('\n', out); }
    if (WIFSIGNALED(status)) fprintf(out, WTERMSIG(status) == SIGALRM ? "{\"e\":\"Stuck\",\"rc\":\"watchdog\"}\n" : "{\"e\":\"Crash\",\"sig\":%d}\n", WTERMSIG(status));
    unlink(tmp); return WIFSIGNALED(status) ? 1 : 0;
}
#include <sys/mman.h>
static int run_heap(int argc, char** argv) {
    FILE* out = fopen(argv[2], "w"); int nseeds = atoi(argv[3]); unsigned long seed0 = strtoul(argv[4], nullptr, 10); int N = atoi(argv[5]), nops = atoi(argv[6]);
    bool orphan = nops == 0;                    // nops = 0 selects the orphaned-slab scenario (N must be 4)
    Stats* st = (Stats*)::mmap(nullptr, sizeof(Stats), PROT_READ | PROT_WRITE, MAP_SHARED | MAP_ANONYMOUS, -1, 0); memset(st, 0, sizeof *st);
    vh::Timer tm; static const int dens[8] = {1, 3, 10, 40, -1, -2, -3, -5}; long crashed = 0; std::string tmp = std::string(argv[2]) + ".child"; bool first = true;
    for (int c0 = 0; c0 < nseeds && crashed < 4 && st->stuck < 6; c0 += 10) {
        crashed += forked(tmp.c_str(), out, first, 300, [&] {
            scalable_free(scalable_malloc(8));                                      // allocator start-up outside scheduler control
            for (int s = c0; s < c0 + 10 && s < nseeds; s++) {
                TR.begin_exec(); if (orphan) TR.emit("{\"e\":\"Scenario\",\"name\":\"orphan\"}"); else TR.emit("{\"e\":\"Scenario\",\"name\":\"heap%d\"}", N);
                for (auto& b : TAB) b = Blk(); g_next_id = 0; g_phase = 0;
                Sched S; S.stall_limit = 400000; S.log_schedule = false; focus_only(false);
                S.spawn(N, [&](int t) { if (orphan) orphan_thread(t, seed0 + s); else heap_thread(t, seed0 + s, nops, N > 1 && t == 0); });
                int rc = S.run_random(seed0 + s, 40000000, dens[s % 8]);
                st->steps += S.steps; ++st->paths;
                // the remaining blocks are freed by the harness's main thread (a thread that allocated none of them)
                if (rc == RC_OK) for (auto& b : TAB) if (b.p) { ev("F", {{"t", 99}, {"id", b.id}, {"pt", check(b.p, b.size, b.id)}}); scalable_free(b.p); b.p = nullptr; }
                flush_events();
                if (rc != RC_OK) { TR.emit("{\"e\":\"Stuck\",\"rc\":\"%s\"}", rc_name(rc).c_str()); ++st->stuck; S.join_all(); return; }
                S.join_all();
            }
        });
    }
    fclose(out);
    printf("{\"paths\":%ld,\"steps\":%ld,\"stuck\":%ld,\"crashed\":%ld,\"wall\":%.2f}\n", st->paths, st->steps, st->stuck, crashed, tm.s());
    return 0;
}

// ================================================================================================ pools (C18)
struct Region { void* p; size_t n; int rid; bool live; };
struct PoolCtx { int pid; std::vector<Region> regs; long calls = 0; long fail_from = -1, fail_to = -1; char* fixed_buf = nullptr; size_t fixed_size = 0;
                 long frees = 0, free_fail_at = -1; };      // free_fail_at: the k-th raw_free call reports an error (the region IS released all the same: the pool must hand back the others too)
static long g_refused_in_call = 0;       // raw-allocation refusals since the current API call started: an entry point that keeps re-asking a refusing callback never reports the failure
static PoolCtx PC[4]; static int g_next_rid;
static void* raw_alloc(intptr_t pool_id, size_t& bytes) {
    PoolCtx& c = PC[pool_id]; long k = ++c.calls;
    if (c.fixed_buf) { if (k > 1) { ev("RA", {{"p", c.pid}, {"rid", ++g_next_rid}, {"ok", 0}}, {{"lo", 0}, {"hi", 0}}); return nullptr; }
        bytes = c.fixed_size; int rid = ++g_next_rid; c.regs.push_back({c.fixed_buf, bytes, rid, true}); ev("RA", {{"p", c.pid}, {"rid", rid}, {"ok", 1}}, {{"lo", (u64)(uintptr_t)c.fixed_buf}, {"hi", (u64)(uintptr_t)c.fixed_buf + bytes}}); return c.fixed_buf; }
    if (k >= c.fail_from && k <= c.fail_to) {
        if (++g_refused_in_call > 20000) { ev("Fail", {{"rep", 0}, {"pt", 1}}); flush_events(); TR.close(); _exit(0); }      // livelock: the failure is never reported (rep = 0)
        if (g_refused_in_call < 50) ev("RA", {{"p", c.pid}, {"rid", ++g_next_rid}, {"ok", 0}}, {{"lo", 0}, {"hi", 0}}); return nullptr; }
    void* p = ::mmap(nullptr, bytes, PROT_READ | PROT_WRITE, MAP_PRIVATE | MAP_ANONYMOUS, -1, 0); if (p == MAP_FAILED) return nullptr;
    int rid = ++g_next_rid; c.regs.push_back({p, bytes, rid, true});
    ev("RA", {{"p", c.pid}, {"rid", rid}, {"ok", 1}}, {{"lo", (u64)(uintptr_t)p}, {"hi", (u64)(uintptr_t)p + bytes}}); return p;
}
static int raw_free(intptr_t pool_id, void* ptr, size_t bytes) {
    PoolCtx& c = PC[pool_id]; int rid = 0;
    for (auto& r : c.regs) if (r.live && r.p == ptr) { rid = r.rid; r.live = false; break; }
    ev("RF", {{"p", c.pid}, {"rid", rid}});                 // rid 0 = a region this pool never obtained (or returned twice): unexplainable
    if (!c.fixed_buf) ::munmap(ptr, bytes);
    return ++c.frees == c.free_fail_at ? 1 : 0;
}
struct PBlk { void* p = nullptr; size_t size = 0; int id = 0; int pool = 0; };
static void pool_sequence(unsigned long seed, const std::string& mode) {
    std::mt19937_64 rng(seed); rml::MemoryPool* pool[2] = {nullptr, nullptr}; PBlk tab[12]; int next_id = 0; g_next_rid = 0; bool persistent = mode == "failp"; bool failing = mode == "fail" || persistent;
    for (int i = 0; i < 2; i++) { PC[i] = PoolCtx(); PC[i].pid = i; bool fx = mode == "fixed" && i == 0;
        if (fx) { PC[i].fixed_size = 4 * 1024 * 1024; PC[i].fixed_buf = (char*)::mmap(nullptr, PC[i].fixed_size, PROT_READ | PROT_WRITE, MAP_PRIVATE | MAP_ANONYMOUS, -1, 0); }
        if (failing) { long from = 1 + (long)(rng() % 6); PC[i].fail_from = from + (persistent ? 2 : 0); PC[i].fail_to = persistent ? (1L << 60) : from + (long)(rng() % 4); }      // failp: the callback refuses for good from that call on      // a run of failing raw allocations (the back-end retries single ones)
        rml::MemPoolPolicy pol(raw_alloc, raw_free, 0, fx, /*keepAllMemory*/ (rng() & 1) != 0);
        ev("PC", {{"p", i}, {"fx", fx}});
        if (rml::pool_create_v1(i, &pol, &pool[i]) != rml::POOL_OK) { pool[i] = nullptr; ev("Fail", {{"rep", 1}, {"pt", 1}}); ev("PD", {{"p", i}}); } }
    bool failed_once = false;
    for (int k = 0; k < 36; k++) {
        g_refused_in_call = 0;
        int slot = (int)(rng() % 12), pi = (int)(rng() % 2); PBlk& b = tab[slot]; int op = (int)(rng() % 100);
        if (!b.p) { if (!pool[pi]) continue;
            size_t size = SIZES[1 + rng() % (sizeof SIZES / sizeof *SIZES - 4)]; if (PC[pi].fixed_buf && size > 300000) size = 3000; if (persistent && (rng() % 3) == 0) size = 3000000 + rng() % 60000000;
            void* p = (op & 1) ? rml::pool_malloc(pool[pi], size) : rml::pool_aligned_malloc(pool[pi], size, ALIGNS[rng() % 8]);
            bool intact = true; for (auto& x : tab) if (x.p && !check(x.p, x.size, x.id)) intact = false;
            if (!p) { ev("Fail", {{"rep", 1}, {"pt", intact}}); failed_once = true; continue; }
            int id = ++next_id; fill(p, size, id); ev("PA", {{"p", pi}, {"id", id}}, {{"lo", (u64)(uintptr_t)p}, {"hi", (u64)(uintptr_t)p + size}});
            b.p = p; b.size = size; b.id = id; b.pool = pi;
        } else if (op < 45) { ev("PF", {{"p", b.pool}, {"id", b.id}, {"pt", check(b.p, b.size, b.id)}}); rml::pool_free(pool[b.pool], b.p); b.p = nullptr; }
        else if (op < 65) { rml::MemoryPool* q = rml::pool_identify(b.p); int qi = q == pool[0] ? 0 : q == pool[1] ? 1 : 3; ev("ID", {{"p", b.pool}, {"id", b.id}, {"q", qi}}); }
        else if (op < 80) { size_t ns = SIZES[1 + rng() % 30]; ev("PF", {{"p", b.pool}, {"id", b.id}, {"pt", check(b.p, b.size, b.id)}});       // realloc = free + alloc at the abstract level
            size_t keep = std::min(ns, b.size); void* np = rml::pool_realloc(pool[b.pool], b.p, ns);
            if (!np) { ev("PA", {{"p", b.pool}, {"id", b.id}}, {{"lo", (u64)(uintptr_t)b.p}, {"hi", (u64)(uintptr_t)b.p + b.size}}); ev("Fail", {{"rep", 1}, {"pt", check(b.p, b.size, b.id)}}); failed_once = true; }
            else { bool pf = check_range((unsigned char*)np, patterned_prefix(b.size, keep), pat_of(b.id)); int id = ++next_id;
                ev("PA", {{"p", b.pool}, {"id", id}}, {{"lo", (u64)(uintptr_t)np}, {"hi", (u64)(uintptr_t)np + ns}}); if (!pf) ev("Fail", {{"rep", 1}, {"pt", 0}});
                fill(np, ns, id); b.p = np; b.size = ns; b.id = id; } }
        else if (op < 86 && pool[pi]) { for (auto& x : tab) if (x.p && x.pool == pi) x.p = nullptr; ev("PR", {{"p", pi}}); rml::pool_reset(pool[pi]); }       // the blocks are gone from the moment reset is called
    }
    if (failing && failed_once) for (int i = 0; i < 2; i++) if (pool[i] && !PC[i].fixed_buf) { PC[i].fail_from = PC[i].fail_to = -1; void* p = rml::pool_malloc(pool[i], 3000); ev("Rec", {{"rec", p != nullptr}}); if (p) rml::pool_free(pool[i], p); }
    // mode freefail: each pool gets a few more raw regions (large objects), then one of the raw_free calls of pool_destroy reports an error - every region must be handed back all the same
    if (mode == "freefail") for (int i = 0; i < 2; i++) if (pool[i]) { for (int j = 0; j < 3; j++) { void* p = rml::pool_malloc(pool[i], 2200000 + j * 70000); if (p) { int id = ++next_id; ev("PA", {{"p", i}, {"id", id}}, {{"lo", (u64)(uintptr_t)p}, {"hi", (u64)(uintptr_t)p + 2200000 + j * 70000}}); } }
        PC[i].frees = 0; PC[i].free_fail_at = 1 + (long)(rng() % 3); }
    for (int i = 0; i < 2; i++) if (pool[i]) { ev("PR", {{"p", i}}); rml::pool_destroy(pool[i]); ev("PD", {{"p", i}}); if (PC[i].fixed_buf) ::munmap(PC[i].fixed_buf, PC[i].fixed_size); }
}
static int run_pool(int argc, char** argv) {
    FILE* out = fopen(argv[2], "w"); int nseeds = atoi(argv[3]); unsigned long seed0 = strtoul(argv[4], nullptr, 10); std::string mode = argv[5];
    long crashed = 0, paths = 0; std::string tmp = std::string(argv[2]) + ".child"; bool first = true; vh::Timer tm;
    for (int c0 = 0; c0 < nseeds && crashed < 4; c0 += 20) { paths += std::min(20, nseeds - c0);
        crashed += forked(tmp.c_str(), out, first, 120, [&] { for (int s = c0; s < c0 + 20 && s < nseeds; s++) { TR.begin_exec(); TR.emit("{\"e\":\"Scenario\",\"name\":\"pool-%s\"}", mode.c_str()); pool_sequence(seed0 + s, mode); flush_events(); } }); }
    fclose(out); printf("{\"paths\":%ld,\"crashed\":%ld,\"wall\":%.2f}\n", paths, crashed, tm.s()); return 0;
}
// ---- default pool: the k-th OS mapping fails; unrepresentable requests
static void oom_sequence(unsigned long seed) {
    std::mt19937_64 rng(seed); struct L { void* p; size_t n; int id; }; std::vector<L> live; int next_id = 0;
    auto intact = [&] { for (auto& b : live) if (!check(b.p, b.n, b.id)) return false; return true; };
    for (int i = 0; i < 6; i++) { size_t n = SIZES[5 + rng() % 30]; void* p = scalable_malloc(n); if (p) { int id = ++next_id; fill(p, n, id); live.push_back({p, n, id}); } }
    // a window of failing OS mappings while requests that need fresh memory are made
    g_fail_from = g_mmaps + 1 + (long)(rng() % 3); g_fail_to = g_fail_from + 6 + (long)(rng() % 20);
    for (int i = 0; i < 10; i++) { size_t n = (rng() & 1) ? 3000000 + (rng() % 9000000) : SIZES[rng() % 40]; int how = (int)(rng() % 4); void* p = nullptr; int rep = 1;
        if (how == 0) p = scalable_malloc(n); else if (how == 1) p = scalable_calloc(3, n / 3 + 1);
        else if (how == 2) p = scalable_aligned_malloc(n ? n : 1, 4096);
        else { int r = scalable_posix_memalign(&p, 64, n); if (r != 0) { rep = (r == ENOMEM && p == nullptr) || r == EINVAL; p = nullptr; } }
        if (!p) ev("Fail", {{"rep", rep}, {"pt", intact()}}); else { if (how == 1) n = 3 * (n / 3 + 1); int id = ++next_id; fill(p, n, id); live.push_back({p, n, id}); } }
    g_fail_from = g_fail_to = -1;
    { void* p = scalable_malloc(5000000); ev("Rec", {{"rec", p != nullptr}}); scalable_free(p); }
    // unrepresentable requests must be refused, never wrap around
    const size_t M = ~(size_t)0;
    struct X { int how; size_t a, b; } xs[] = {{0, M, 0}, {0, M - 7, 0}, {0, M - 4096, 0}, {0, M / 2 + 1, 0}, {1, M / 2, 3}, {1, (size_t)1 << 33, (size_t)1 << 33}, {1, M, M}, {2, M - 100, 4096}, {2, 1000, (size_t)1 << 63},
                                  {2, M - (1 << 20), 1 << 20}, {3, M - 64, 64}, {3, 100, 3}, {3, 100, 0}, {4, M - 5, 0}, {4, M / 2 + 4096, 0}, {5, M - 12, 16384}, {6, M - 64, 0}, {6, M - 4096, 0}, {6, M - (1 << 20), 0}, {7, M - 64, 4096}};
    for (auto& x : xs) { void* p = nullptr; int rep = 1; errno = 0;
        if (x.how == 0) p = scalable_malloc(x.a); else if (x.how == 1) p = scalable_calloc(x.a, x.b); else if (x.how == 2) p = scalable_aligned_malloc(x.a, x.b);
        else if (x.how == 3) { int r = scalable_posix_memalign(&p, x.b, x.a); rep = r != 0 && p == nullptr; }
        else if (x.how == 4) { void* q = scalable_malloc(100); memset(q, 7, 100); p = scalable_realloc(q, x.a); rep = p == nullptr && check_range((unsigned char*)q, 100, 7); scalable_free(q); }
        else if (x.how == 5) { void* q = scalable_aligned_malloc(100, 64); p = scalable_aligned_realloc(q, x.a, x.b); rep = p == nullptr; scalable_aligned_free(q); }
        else {      // realloc of a LARGE object (16 MB, the mremap path) to a size that cannot be represented: must fail and leave the block alone
            size_t big = 16u << 20; unsigned char* q = (unsigned char*)(x.how == 6 ? scalable_malloc(big) : scalable_aligned_malloc(big, 4096)); memset(q, 9, 4096); memset(q + big - 4096, 9, 4096);
            p = x.how == 6 ? scalable_realloc(q, x.a) : scalable_aligned_realloc(q, x.a, x.b);
            rep = p == nullptr && scalable_msize(q) >= big && check_range(q, 4096, 9) && check_range(q + big - 4096, 4096, 9); if (p) { ev("Fail", {{"rep", 0}, {"pt", 1}}); flush_events(); TR.close(); _exit(0); } scalable_free(q); }
        if (x.how <= 2) rep = p == nullptr;
        ev("Fail", {{"rep", rep}, {"pt", intact()}}); if (p && x.how <= 2) scalable_free(p); }
    // calloc(a, b) whose true product is >= 2^64 but WRAPS to a small value (one factor small, one huge - in either order): every one must be refused.
    // The family covers the boundary of the cheap pre-check in scalable_calloc (a factor of 2^32) from both sides.
    { static const size_t BS[] = {2, 3, 5, 7, 8, 16, 24, 4096, 65536, ((size_t)1 << 31) - 1, ((size_t)1 << 32) - 1, (size_t)1 << 32, ((size_t)1 << 32) + 1, (size_t)1 << 40};
      static const size_t KS[] = {0, 1, 8, 1000};
      for (size_t b : BS) for (size_t k : KS) for (int swap = 0; swap < 2; swap++) {
          size_t a = M / b + 1 + k;                 // a * b >= 2^64 exactly; (a * b) mod 2^64 is small
          if ((size_t)(a * b) > ((size_t)1 << 20)) continue;    // a library that lets the product wrap must not be made to clear gigabytes here
          void* p = swap ? scalable_calloc(b, a) : scalable_calloc(a, b);
          ev("Fail", {{"rep", p == nullptr}, {"pt", intact()}}); if (p) scalable_free(p); } }
    for (auto& b : live) scalable_free(b.p);
}
static int run_oom(int argc, char** argv) {
    FILE* out = fopen(argv[2], "w"); int nseeds = atoi(argv[3]); unsigned long seed0 = strtoul(argv[4], nullptr, 10);
    long crashed = 0, paths = 0; std::string tmp = std::string(argv[2]) + ".child"; bool first = true; vh::Timer tm;
    for (int s = 0; s < nseeds && crashed < 4; s++) { ++paths;
        crashed += forked(tmp.c_str(), out, first, 120, [&] { TR.begin_exec(); TR.emit("{\"e\":\"Scenario\",\"name\":\"oom\"}"); oom_sequence(seed0 + s); flush_events(); }); }
    fclose(out); printf("{\"paths\":%ld,\"crashed\":%ld,\"wall\":%.2f}\n", paths, crashed, tm.s()); return 0;
}
// ================================================================================================ LifoList replay (C17: the orphaned-slab list)
// every edge of the LifoList.tla state graph on a REAL rml::internal::LifoList holding real (raw, slab-aligned) Block objects; tracked: top and the lock flag
//   h_malloc lifo <schedules> <trace-out> <nblocks> <program per thread, '|'-separated: pop,push,grab>
static int run_lifo(int argc, char** argv) {
    using namespace rml::internal;
    int nb = atoi(argv[4]); std::vector<std::vector<std::string>> prog; for (auto& x : vh::split(argv[5], '|')) prog.push_back(vh::split(x, ','));
    int nth = (int)prog.size();
    std::map<std::string, std::pair<int, int>> LAB = {{"PU1",{K_RMW,1}},{"PU2",{K_LOAD,0}},{"PU3",{K_STORE,0}},{"PU4",{K_STORE,1}},{"PO0",{K_LOAD,0}},{"PO1",{K_RMW,1}},{"PO2",{K_LOAD,0}},{"PO3",{K_STORE,0}},
                                                      {"PO4",{K_STORE,1}},{"GR0",{K_LOAD,0}},{"GR1",{K_RMW,1}},{"GR2",{K_LOAD,0}},{"GR3",{K_STORE,0}},{"GR4",{K_STORE,1}}};   // label -> (kind, 0 top / 1 lock)
    static char* raw = (char*)::mmap(nullptr, 16 * slabSize, PROT_READ | PROT_WRITE, MAP_PRIVATE | MAP_ANONYMOUS, -1, 0);
    char* base = (char*)(((uintptr_t)raw + slabSize - 1) & ~(uintptr_t)(slabSize - 1)); Block* blk[8]; for (int i = 1; i <= nb; i++) blk[i] = (Block*)(base + (i - 1) * slabSize);
    auto idof = [&](Block* b) { for (int i = 1; i <= nb; i++) if (blk[i] == b) return i; return b ? 99 : 0; };
    TR.open(argv[3]);
    std::ifstream in(argv[2]); std::string line; long paths = 0, steps = 0, drift = 0, mismatch = 0, stuck = 0, skipped = 0; vh::Timer tm; int shown = 0;
    while (std::getline(in, line) && stuck < 10) {
        LifoList* L = new LifoList; for (int i = 1; i <= nb; i++) { blk[i]->next = nullptr; L->push(blk[i]); }          // list nb -> ... -> 1 as in the model's Init0
        untrack_all(); track(&L->top); track(&L->lock); focus_only(true);
        TR.begin_exec(); TR.emit("{\"e\":\"Cfg\",\"blocks\":%d}", nb);
        Sched S; S.stall_limit = 4000;
        S.spawn(nth, [&](int id) { std::vector<Block*> mine;
            for (auto& op : prog[id]) {
                if (op == "pop") { Block* b = L->pop(); if (b) { mine.push_back(b); TR.emit("{\"e\":\"Take\",\"t\":%d,\"b\":[%d]}", id + 1, idof(b)); } }
                else if (op == "grab") { Block* b = L->grab(); std::string s; for (; b; b = b->next) { mine.push_back(b); s += (s.empty() ? "" : ",") + std::to_string(idof(b)); if (mine.size() > 20) break; } TR.emit("{\"e\":\"Take\",\"t\":%d,\"b\":[%s]}", id + 1, s.c_str()); }
                else { std::vector<Block*> g = mine; for (Block* b : g) { TR.emit("{\"e\":\"Give\",\"t\":%d,\"b\":%d}", id + 1, idof(b)); mine.erase(std::find(mine.begin(), mine.end(), b)); L->push(b); } }
            } });
        ++paths; bool drifted = false;
        for (auto& tok : vh::parse_schedule(line)) {
            auto it = LAB.find(tok.label); if (it == LAB.end()) { ++skipped; continue; }
            int t = tok.t - 1; if (drifted) break;
            if (!S.runnable(t)) { drifted = true; ++drift; if (shown++ < 5) fprintf(stderr, "SPEC-DRIFT path %ld: thread %d not runnable at %s\n", paths, t + 1, tok.label.c_str()); break; }
            Pending p = S.pending(t); int where = p.addr == (const void*)&L->top ? 0 : 1;
            if (p.kind != it->second.first || where != it->second.second) { drifted = true; ++drift; if (shown++ < 5) fprintf(stderr, "SPEC-DRIFT path %ld at %d:%s: code is about to do kind %d on %s\n", paths, t + 1, tok.label.c_str(), p.kind, where ? "the lock" : "top"); break; }
            S.step(t); ++steps;
            if (!tok.state.empty()) { std::string real = std::to_string(idof(vh::rawload(L->top))) + "," + std::to_string((int)L->lock.m_flag.f._M_i);
                if (real != tok.state) { drifted = true; ++mismatch; if (shown++ < 5) fprintf(stderr, "SPEC-DRIFT path %ld at %d:%s expected %s real %s\n", paths, t + 1, tok.label.c_str(), tok.state.c_str(), real.c_str()); } }
        }
        int rc = drifted ? S.run_random(1000 + paths, 300000, 1 + paths % 4) : S.finish(300000);
        if (rc != RC_OK) { ++stuck; TR.emit("{\"e\":\"Stuck\",\"rc\":\"%s\"}", rc_name(rc).c_str()); S.join_all(); continue; }
        S.join_all(); focus_only(false);
        { std::string s; int n = 0; for (Block* b = vh::rawload(L->top); b && n < 20; b = b->next, ++n) s += (s.empty() ? "" : ",") + std::to_string(idof(b)); TR.emit("{\"e\":\"End\",\"list\":[%s]}", s.c_str()); }
        delete L;
    }
    TR.close();
    printf("{\"paths\":%ld,\"steps\":%ld,\"drift\":%ld,\"state_mismatch\":%ld,\"stuck\":%ld,\"skipped_local\":%ld,\"wall\":%.2f}\n", paths, steps, drift, mismatch, stuck, skipped, tm.s());
    return 0;
}
int main(int argc, char** argv) {
    if (argc < 3) { fprintf(stderr, "usage\n"); return 2; }
    std::string m = argv[1];
    if (m == "lifo" && argc >= 6) return run_lifo(argc, argv);
    if (m == "sizeclass") return run_sizeclass(argv[2]);
    if (m == "heap" && argc >= 7) return run_heap(argc, argv);
    if (m == "pool" && argc >= 6) return run_pool(argc, argv);
    if (m == "oom" && argc >= 5) return run_oom(argc, argv);
    return 2;
}
